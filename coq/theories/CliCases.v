(* CliCases.v — executable correspondence for the command line's based-int option type (C12). *)
From Coq Require Import ZArith NArith List Bool.
From Kd Require Import theories.Base theories.Harness theories.CliInt.
Import ListNotations.
Open Scope N_scope.

(* (the option's text, what BASED_INT.convert returned: None = usage error) *)
Definition bicase := (list N * option Z)%type.
Definition bicheck (c : bicase) : bool :=
  match based_int (fst c), snd c with
  | Some a, Some b => Z.eqb a b
  | None, None => true
  | _, _ => false
  end.

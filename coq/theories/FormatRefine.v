(* FormatRefine.v — the column descriptions tools/translate/tr_format.py reads off the f-strings of pykdebugparser.py
   (gen/GenFormat.v) render to exactly the lines of the hand models Format.v / FormatLog.v.  (C14) *)
From Coq Require Import String NArith List Bool.
From Kd Require Import theories.Base theories.Printers theories.DecoderDSL theories.Format theories.FormatLog theories.FormatIR gen.GenFormat.
Import ListNotations.
Open Scope N_scope.

Theorem kevent_code_refines c codes tb e :
  render_cols c codes tb e gen_kevent_cols = kevent_line c codes tb e.
Proof.
  unfold render_cols, gen_kevent_cols, kevent_line, kswitches, kevent_columns.
  cbn [map concat combine fst snd cs_sw cs_kind cs_align cs_suffix sw_on pad content]. rewrite ?app_nil_r. reflexivity.
Qed.

Theorem trace_code_refines c tb ts tid body :
  render_cols c (fun _ => None) tb (mkFe ts tid 0 0 []) gen_trace_cols ++ body = trace_line c tb ts tid body.
Proof.
  unfold render_cols, gen_trace_cols, trace_line, tswitches, trace_columns.
  cbn [map concat combine fst snd cs_sw cs_kind cs_align cs_suffix sw_on pad content e_ts e_tid col].
  rewrite ?app_nil_r, <- ?app_assoc. reflexivity.
Qed.

Lemma frames_refine fs : forall i, render_frames gen_frame i fs = frame_lines i fs.
Proof. induction fs as [|f r IH]; intros i; cbn [render_frames frame_lines]; [reflexivity|]. rewrite IH. reflexivity. Qed.

Theorem callstack_code_refines c tb ts tid fs :
  render_cols c (fun _ => None) tb (mkFe ts tid 0 0 []) gen_callstack_cols ++ render_frames gen_frame 0 fs
  = callstack_line c tb ts tid fs.
Proof.
  rewrite frames_refine. unfold render_cols, gen_callstack_cols, callstack_line.
  cbn [map concat combine fst snd cs_sw cs_kind cs_align cs_suffix sw_on pad content e_ts e_tid].
  rewrite ?app_nil_r. reflexivity.
Qed.

Theorem log_code_refines c color tb tstext tid hp msg :
  render_log gen_log c color tb tstext tid hp msg = log_line c color tb tstext tid hp msg.
Proof. reflexivity. Qed.

Theorem process_code_refines tb tid : render_process gen_process tb tid = format_process tb tid.
Proof. reflexivity. Qed.

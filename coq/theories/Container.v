(* Container.v — executable model of KdBufParser.parse / parse_v2 / parse_v3 / seek_until / set_thread_map
   (pykdebugparser/kd_buf_parser.py) over a byte stream.

   A reader is (pos, rest): number of bytes consumed so far and the bytes not yet read
   (io.BytesIO / file semantics: read(n) returns min(n, remaining) bytes).  The `construct` combinators used by
   the declarative layouts are written out with their 2.10 semantics (DESIGN Appendix A).  Data-dependent loops
   carry explicit fuel; EFuel is an error no theorem treats as success and is proved unreachable with the
   fuel the entry points supply.  plistlib.loads is the parameter `plist_ok` (does loads accept these bytes). *)
From Coq Require Import NArith Arith List Bool Lia.
From Kd Require Import theories.Base theories.PyStruct theories.Kevent theories.Utf8 gen.GenKevent.
Import ListNotations.
Open Scope N_scope.

Inductive cerr := EKey | EStream | EString | EStruct | EEOF | EPlist | EFuel.

Inductive res (A : Type) := Ok (a : A) | Err (e : cerr).
Arguments Ok {A}. Arguments Err {A}.

Definition lenN (l : list N) : N := N.of_nat (length l).

(* ---------------- thread map entries: Struct(tid Int64ul, pid Int32ul, process FixedSized(0x14, CString)) -------- *)
Definition tment := (N * N * list N)%type.        (* tid, pid, name bytes (valid UTF-8, no NUL) *)

Fixpoint until_nul (b : list N) : list N :=
  match b with [] => [] | c :: r => if N.eqb c 0 then [] else c :: until_nul r end.

Definition cstring_fixed (b : list N) : res (list N) :=
  if existsb (N.eqb 0) b
  then let s := until_nul b in if utf8_ok s then Ok s else Err EString
  else Err EStream.                                  (* no terminator inside the fixed-size field *)

Definition tm_entry (r : list N) : res (tment * list N) :=
  if (length r <? 32)%nat then Err EStream
  else match cstring_fixed (slice r 12 20) with
       | Err e => Err e
       | Ok name => Ok ((le (slice r 0 8), le (slice r 8 4), name), skipn 32 r)
       end.

(* Array(n, kd_threadmap) *)
Fixpoint tm_array (fuel : nat) (n : N) (r : list N) : res (list tment * list N) :=
  if N.eqb n 0 then Ok ([], r)
  else match fuel with
       | O => Err EStream                            (* fuel = length r: nothing left to read *)
       | S f => match tm_entry r with
                | Err e => Err e
                | Ok (x, r1) => match tm_array f (n - 1) r1 with
                                | Err e => Err e
                                | Ok (xs, r2) => Ok (x :: xs, r2)
                                end
                end
       end.

(* GreedyRange(kd_threadmap): stops (without error) at the first entry that does not parse *)
Fixpoint tm_greedy (fuel : nat) (r : list N) : list tment :=
  match fuel with
  | O => []
  | S f => match tm_entry r with Err _ => [] | Ok (x, r1) => x :: tm_greedy f r1 end
  end.

(* GreedyRange(Const(0, Byte)) *)
Fixpoint skip_zeros (r : list N) : list N :=
  match r with c :: r' => if N.eqb c 0 then skip_zeros r' else r | [] => [] end.

(* ---------------- result of a parse ---------------- *)
Record pout := mkPout {
  o_threadmap : option (list tment);        (* Some l = set_thread_map was called with l *)
  o_events : list kevent;                   (* yielded, in order, before anything below happened *)
  o_blocks : option (list (list N * list N)); (* v3: (tag, payload) of the tagged sections, once reached *)
  o_err : option cerr                       (* how iteration ended: None = normally *)
}.

(* ---------------- version 2 ---------------- *)
(* while True: buf = read(64); if not buf: break; yield from_kd_buf(buf) *)
Fixpoint recs2 (fuel : nat) (r : list N) : list kevent * option cerr :=
  match fuel with
  | O => ([], None)
  | S f => match r with
           | [] => ([], None)
           | _ => match from_kd_buf (firstn 64 r) with
                  | None => ([], Some EStruct)
                  | Some e => let (es, x) := recs2 f (skipn 64 r) in (e :: es, x)
                  end
           end
  end.

Definition V2_FIXED := 284%nat.   (* 4 + 8 + 4 + 4 + 8 + 0x100 after the 4 magic bytes *)

Definition header_v2 (r : list N) : res (list tment * list N) :=
  if (length r <? V2_FIXED)%nat then Err EStream
  else match tm_array (length r) (le (slice r 0 4)) (skipn V2_FIXED r) with
       | Err e => Err e
       | Ok (tm, r1) => Ok (tm, skip_zeros r1)
       end.

Definition parse_v2 (r : list N) : pout :=
  match header_v2 r with
  | Err e => mkPout None [] None (Some e)
  | Ok (tm, r1) => let (es, x) := recs2 (length r1) r1 in mkPout (Some tm) es None x
  end.

(* ---------------- version 3 ---------------- *)
Definition STACKSHOT_END : list N := [115;116;97;99;107;115;104;111;116;95;111;117;116;95;102;108].  (* b'stackshot_out_fl' *)
Definition tag8 (a b c d e : N) : list N := [a; b; c; d; e; 0; 0; 0].
Definition THREADMAP_TAG := tag8 0 0x1d 0 0 0.
Definition EVENTS_TAG := tag8 0 0x1e 0 0 0.
Definition MORE_EVENTS := tag8 0 0x20 0 0 0.

(* seek_until: found = read(len pat); while found != pat: b = read(1); if not b: raise EOFError; found = found[1:] + b *)
Fixpoint seek (fuel : nat) (pat win rest : list N) : res (list N) :=
  if leqb win pat then Ok rest
  else match fuel with
       | O => Err EFuel
       | S f => match rest with
                | [] => Err EEOF
                | b :: r => seek f pat (tl win ++ [b]) r
                end
       end.
Definition seek_until (pat r : list N) : res (list N) :=
  seek (S (length r)) pat (firstn (length pat) r) (skipn (length pat) r).

Section V3.
  Variable plist_ok : list N -> bool.

  (* Prefixed(Int64ul, GreedyBytes): (payload, rest) *)
  Definition prefixed (r : list N) : option (list N * list N) :=
    if (length r <? 8)%nat then None
    else let L := le (firstn 8 r) in
         let r1 := skipn 8 r in
         if lenN r1 <? L then None
         else Some (firstn (N.to_nat L) r1, skipn (N.to_nat L) r1).

  Definition pad8 (consumed : N) : nat := N.to_nat ((8 - consumed mod 8) mod 8).

  (* Aligned(8, kd_header_v3): 60 fixed bytes, Prefixed plist, padding relative to the header start *)
  Definition header_v3 (r : list N) : res (list N) :=
    if (length r <? 60)%nat then Err EStream
    else match prefixed (skipn 60 r) with
         | None => Err EStream
         | Some (pl, r1) =>
           if plist_ok pl
           then let p := pad8 (68 + lenN pl) in
                if (length r1 <? p)%nat then Err EStream else Ok (skipn p r1)
           else Err EPlist
         end.

  (* for _ in range(size // 64): yield from_kd_buf(read(64)) *)
  Fixpoint recs3 (fuel : nat) (n : N) (r : list N) : list kevent * res (list N) :=
    if N.eqb n 0 then ([], Ok r)
    else match fuel with
         | O => ([], Err EStruct)                 (* fuel = length r + 1: the stream is empty, read gives b'' *)
         | S f => match from_kd_buf (firstn 64 r) with
                  | None => ([], Err EStruct)
                  | Some e => let (es, x) := recs3 f (n - 1) (skipn 64 r) in (e :: es, x)
                  end
         end.

  (* the chunk loop; returns the events and the reader state right after the 8 bytes that were not MORE_EVENTS,
     together with how many of those 8 bytes were actually there (for the seek(-8, 1) that follows) *)
  Fixpoint chunks3 (fuel : nat) (r : list N) : list kevent * res (nat * list N) :=
    match fuel with
    | O => ([], Err EFuel)
    | S f =>
      match seek_until EVENTS_TAG r with
      | Err e => ([], Err e)
      | Ok r1 =>
        if (length r1 <? 8)%nat then ([], Err EStream)
        else let size := le (firstn 8 r1) in
             let r2 := skipn 8 (skipn 8 r1) in          (* size, then 8 unknown bytes (unchecked read) *)
             let (es, x) := recs3 (S (length r2)) (size / 64) r2 in
             match x with
             | Err e => (es, Err e)
             | Ok r3 =>
               let t := firstn 8 r3 in
               if leqb t MORE_EVENTS
               then let (es2, y) := chunks3 f (skipn 8 r3) in (es ++ es2, y)
               else (es, Ok (length t, skipn 8 r3))
             end
      end
    end.

  (* kd_v3_additional_data: GreedyRange(Struct(tag Bytes(8), data Select(Aligned(8, Prefixed), Prefixed))) *)
  Fixpoint blocks3 (fuel : nat) (r : list N) : list (list N * list N) :=
    match fuel with
    | O => []
    | S f =>
      if (length r <? 8)%nat then []
      else match prefixed (skipn 8 r) with
           | None => []
           | Some (pl, r1) =>
             let p := pad8 (8 + lenN pl) in
             (firstn 8 r, pl) :: blocks3 f (if (length r1 <? p)%nat then r1 else skipn p r1)
           end
    end.

  (* `file` is everything after the 4 magic bytes; seek(-8, 1) needs the bytes already consumed *)
  Definition parse_v3 (file : list N) : pout :=
    match header_v3 file with
    | Err e => mkPout None [] None (Some e)
    | Ok r0 =>
      let r1 := skipn 4 r0 in
      match seek_until STACKSHOT_END r1 with
      | Err e => mkPout None [] None (Some e)
      | Ok r2 =>
        match seek_until THREADMAP_TAG r2 with
        | Err e => mkPout None [] None (Some e)
        | Ok r3 =>
          match prefixed r3 with
          | None => mkPout None [] None (Some EStream)
          | Some (sub, r4) =>
            let tm := tm_greedy (length sub) sub in
            let (es, x) := chunks3 (S (length r4)) r4 in
            match x with
            | Err e => mkPout (Some tm) es None (Some e)
            | Ok (got, r5) =>
              (* position after the read = |file| - |r5|; seek back 8 from there *)
              let pos := (length file - length r5 - 8)%nat in
              let r6 := skipn pos file in
              mkPout (Some tm) es (Some (blocks3 (S (length r6)) r6)) None
            end
          end
        end
      end
    end.

  (* KdBufParser.parse: dispatch on the 4 magic bytes (a dict lookup: KeyError otherwise) *)
  Definition parse (data : list N) : pout :=
    let v := firstn 4 data in
    if leqb v [0; 2; 0xaa; 0x55] then parse_v2 (skipn 4 data)
    else if leqb v [0; 3; 0xaa; 0x55] then parse_v3 (skipn 4 data)
    else mkPout None [] None (Some EKey).
End V3.

(* ---------------- set_thread_map on the two shared dicts ---------------- *)
Definition dictN (V : Type) := list (N * V).          (* most recent binding first *)
Fixpoint dget {V} (d : dictN V) (k : N) : option V :=
  match d with [] => None | (k', v) :: r => if N.eqb k' k then Some v else dget r k end.
Definition dset {V} (d : dictN V) (k : N) (v : V) : dictN V := (k, v) :: d.

Definition set_thread_map (tm : list tment) (old : dictN N * dictN (list N)) : dictN N * dictN (list N) :=
  fold_left (fun st e => match e with (tid, pid, name) => (dset (fst st) tid pid, dset (snd st) pid name) end)
            tm ([], []).                              (* .clear() on both, then fill in order *)

(* Callstacks.v — model of CallstacksParser (pykdebugparser/callstacks_parser.py): the sorted image table
   (insert_image), frame attribution by bisect, and feed_generator over decoded traces.  (C15)

   The implementation keeps two parallel lists (dyld_addresses, dyld_uuids) that always receive the same
   insert at the same index; the model keeps one list of (address, uuid) pairs (their zip).
   bisect.bisect(l, x) on a sorted list = the number of elements <= x. *)
From Coq Require Import NArith List Bool Lia Permutation.
From Kd Require Import theories.Base.
Import ListNotations.
Open Scope N_scope.

Section CS.
  Variable U : Type.                       (* image identity (uuid) *)
  Definition table := list (N * U).

  Definition bisect (l : list N) (x : N) : nat := length (filter (fun a => a <=? x) l).
  Definition memA (a : N) (t : table) : bool := existsb (fun p => N.eqb (fst p) a) t.

  Definition insert_image (t : table) (a : N) (u : U) : table :=
    if memA a t then t
    else let i := bisect (map fst t) a in firstn i t ++ (a, u) :: skipn i t.

  (* Frame(address, uuid, offset): None = no image at or below the frame *)
  Definition attribute (t : table) (x : N) : option (N * U * N) :=
    match bisect (map fst t) x with
    | O => None
    | S i => match nth_error t i with
             | Some (a, u) => Some (a, u, x - a)
             | None => None
             end
    end.

  (* ---------------- sortedness ---------------- *)
  Fixpoint ssorted (l : list N) : Prop :=
    match l with [] => True | x :: r => Forall (fun y => x < y) r /\ ssorted r end.

  Definition le_x (x : N) (p : N * U) : bool := fst p <=? x.
  Definition gt_x (x : N) (p : N * U) : bool := x <? fst p.

  Lemma bisect_map t x : bisect (map fst t) x = length (filter (le_x x) t).
  Proof. unfold bisect, le_x. induction t as [|p t IH]; cbn; auto. destruct (fst p <=? x); cbn; auto. Qed.

  Lemma filter_none {A} (f : A -> bool) l : Forall (fun y => f y = false) l -> filter f l = [].
  Proof. induction 1 as [|y l Hy _ IH]; cbn; auto. now rewrite Hy. Qed.
  Lemma filter_all {A} (f : A -> bool) l : Forall (fun y => f y = true) l -> filter f l = l.
  Proof. induction 1 as [|y l Hy _ IH]; cbn; auto. now rewrite Hy, IH. Qed.

  Lemma sorted_split t x : ssorted (map fst t) ->
    firstn (bisect (map fst t) x) t = filter (le_x x) t /\ skipn (bisect (map fst t) x) t = filter (gt_x x) t.
  Proof.
    rewrite bisect_map. induction t as [|p t IH]; intros S; [split; reflexivity|].
    cbn [map ssorted] in S. destruct S as [Hp S]. specialize (IH S). destruct IH as [IH1 IH2].
    cbn [filter]. change (le_x x p) with (fst p <=? x). change (gt_x x p) with (x <? fst p).
    destruct (fst p <=? x) eqn:E.
    - apply N.leb_le in E. replace (x <? fst p) with false by (symmetry; apply N.ltb_ge; lia).
      cbn [length firstn skipn]. rewrite IH1, IH2. split; reflexivity.
    - apply N.leb_gt in E. replace (x <? fst p) with true by (symmetry; apply N.ltb_lt; lia).
      assert (F : Forall (fun q => le_x x q = false) t).
      { apply Forall_forall. intros q Hq. rewrite Forall_forall in Hp.
        specialize (Hp (fst q) (in_map fst _ _ Hq)). unfold le_x. apply N.leb_gt. lia. }
      assert (G : Forall (fun q => gt_x x q = true) t).
      { apply Forall_forall. intros q Hq. rewrite Forall_forall in Hp.
        specialize (Hp (fst q) (in_map fst _ _ Hq)). unfold gt_x. apply N.ltb_lt. lia. }
      rewrite (filter_none _ _ F), (filter_all _ _ G). cbn. split; reflexivity.
  Qed.

  Lemma ssorted_app l1 l2 :
    ssorted l1 -> ssorted l2 -> (forall a b, In a l1 -> In b l2 -> a < b) -> ssorted (l1 ++ l2).
  Proof.
    induction l1 as [|x l1 IH]; cbn; intros S1 S2 H; auto.
    destruct S1 as [F S1]. split.
    - apply Forall_app. split; auto. apply Forall_forall. intros b Hb. apply H; auto.
    - apply IH; auto.
  Qed.

  Lemma ssorted_filter (f : N * U -> bool) t : ssorted (map fst t) -> ssorted (map fst (filter f t)).
  Proof.
    induction t as [|p t IH]; cbn; auto. intros [F S]. destruct (f p); cbn; auto. split; auto.
    apply Forall_forall. intros y Hy. rewrite Forall_forall in F. apply F.
    apply in_map_iff in Hy. destruct Hy as (q & <- & Hq). apply filter_In in Hq. apply in_map. tauto.
  Qed.

  Lemma memA_false a t : memA a t = false -> forall p, In p t -> fst p <> a.
  Proof.
    unfold memA. intros H p Hp E. assert (existsb (fun p => fst p =? a) t = true).
    { apply existsb_exists. exists p. split; auto. now apply N.eqb_eq. }
    congruence.
  Qed.

  Lemma insert_shape t a u : ssorted (map fst t) -> memA a t = false ->
    insert_image t a u = filter (le_x a) t ++ (a, u) :: filter (gt_x a) t.
  Proof.
    intros S M. unfold insert_image. rewrite M.
    destruct (sorted_split t a S) as [-> ->]. reflexivity.
  Qed.

  Theorem insert_sorted t a u : ssorted (map fst t) -> ssorted (map fst (insert_image t a u)).
  Proof.
    intros S. destruct (memA a t) eqn:M; [unfold insert_image; rewrite M; auto|].
    rewrite insert_shape by auto. rewrite map_app. cbn [map].
    pose proof (memA_false a t M) as NE.
    apply ssorted_app.
    - now apply ssorted_filter.
    - cbn [ssorted fst]. split; [|now apply ssorted_filter].
      apply Forall_forall. intros y Hy. apply in_map_iff in Hy. destruct Hy as (q & <- & Hq).
      apply filter_In in Hq. destruct Hq as [_ Hq]. unfold gt_x in Hq. now apply N.ltb_lt.
    - intros x y Hx Hy. apply in_map_iff in Hx. destruct Hx as (q & <- & Hq).
      apply filter_In in Hq. destruct Hq as [Hq1 Hq]. unfold le_x in Hq. apply N.leb_le in Hq.
      assert (fst q <> a) by (apply NE; auto).
      destruct Hy as [<-|Hy]; cbn [fst]; [lia|].
      apply in_map_iff in Hy. destruct Hy as (q' & <- & Hq'). apply filter_In in Hq'. destruct Hq' as [_ Hq'].
      unfold gt_x in Hq'. apply N.ltb_lt in Hq'. lia.
  Qed.

  (* ---------------- first announcement wins ---------------- *)
  Fixpoint assoc (a : N) (l : table) : option U :=
    match l with [] => None | (a', u) :: r => if N.eqb a' a then Some u else assoc a r end.

  Lemma assoc_app a l1 l2 : assoc a (l1 ++ l2) = match assoc a l1 with Some u => Some u | None => assoc a l2 end.
  Proof. induction l1 as [|[a' u] r IH]; cbn; auto. destruct (N.eqb a' a); auto. Qed.

  Lemma assoc_filter_none a (f : N * U -> bool) t : (forall p, In p t -> fst p = a -> f p = false) ->
    assoc a (filter f t) = None.
  Proof.
    induction t as [|[a' u] r IH]; cbn; auto. intros H.
    destruct (f (a', u)) eqn:F; cbn.
    - destruct (N.eqb a' a) eqn:E; [apply N.eqb_eq in E; rewrite (H (a', u)) in F; auto; discriminate|].
      apply IH. intros; apply H; auto.
    - apply IH. intros; apply H; auto.
  Qed.

  Lemma assoc_filter_keep a (f : N * U -> bool) t : (forall p, In p t -> fst p = a -> f p = true) ->
    assoc a (filter f t) = assoc a t.
  Proof.
    induction t as [|[a' u] r IH]; cbn; auto. intros H.
    destruct (N.eqb a' a) eqn:E.
    - apply N.eqb_eq in E. rewrite (H (a', u)) by auto. cbn. apply N.eqb_eq in E. now rewrite E.
    - destruct (f (a', u)); cbn; rewrite ?E; apply IH; intros; apply H; auto.
  Qed.

  Lemma memA_assoc a t : memA a t = true <-> assoc a t <> None.
  Proof.
    induction t as [|[a' u] r IH]; cbn; [split; [discriminate|congruence]|].
    destruct (N.eqb a' a); cbn; [split; [discriminate|auto]|exact IH].
  Qed.

  Lemma assoc_insert t a u b : ssorted (map fst t) ->
    assoc b (insert_image t a u) =
    match assoc b t with Some v => Some v | None => if N.eqb a b then Some u else None end.
  Proof.
    intros S. destruct (memA a t) eqn:M.
    - unfold insert_image. rewrite M. destruct (assoc b t) eqn:A; auto.
      destruct (N.eqb a b) eqn:E; auto. apply N.eqb_eq in E. subst b.
      apply memA_assoc in M. congruence.
    - rewrite insert_shape by auto. rewrite assoc_app. cbn [assoc].
      destruct (N.eqb a b) eqn:E.
      + apply N.eqb_eq in E. subst b.
        assert (A : assoc a t = None).
        { destruct (assoc a t) eqn:A; auto. assert (memA a t = true) by (apply memA_assoc; congruence). congruence. }
        rewrite A. rewrite assoc_filter_none; auto.
        intros p Hp Ep. exfalso. eapply memA_false; eauto.
      + destruct (b <=? a) eqn:L.
        * rewrite assoc_filter_keep by (intros p _ Ep; unfold le_x; rewrite Ep; exact L).
          destruct (assoc b t); auto.
          apply assoc_filter_none. intros p _ Ep. unfold gt_x. rewrite Ep. apply N.leb_le in L. apply N.ltb_ge. lia.
        * rewrite assoc_filter_none by (intros p _ Ep; unfold le_x; rewrite Ep; exact L).
          rewrite assoc_filter_keep; [destruct (assoc b t); auto|].
          intros p _ Ep. unfold gt_x. rewrite Ep. apply N.leb_gt in L. now apply N.ltb_lt.
  Qed.

  Definition insert_all (t : table) (anns : list (N * U)) : table :=
    fold_left (fun t p => insert_image t (fst p) (snd p)) anns t.

  Lemma insert_all_cons t p r : insert_all t (p :: r) = insert_all (insert_image t (fst p) (snd p)) r.
  Proof. reflexivity. Qed.

  Theorem insert_all_sorted anns : forall t, ssorted (map fst t) -> ssorted (map fst (insert_all t anns)).
  Proof. induction anns as [|p r IH]; cbn; auto. intros t S. apply IH, insert_sorted, S. Qed.

  Theorem insert_all_assoc anns : forall t b, ssorted (map fst t) ->
    assoc b (insert_all t anns) = match assoc b t with Some v => Some v | None => assoc b anns end.
  Proof.
    induction anns as [|[a u] r IH]; intros t b S.
    - cbn. destruct (assoc b t); auto.
    - rewrite insert_all_cons. cbn [assoc]. rewrite IH by now apply insert_sorted.
      cbn [fst snd]. rewrite assoc_insert by auto. destruct (assoc b t); auto.
      destruct (N.eqb a b); auto.
  Qed.

  (* two strictly sorted tables with the same lookups are equal *)
  Lemma assoc_In a u t : ssorted (map fst t) -> (assoc a t = Some u <-> In (a, u) t).
  Proof.
    induction t as [|[a' v] r IH]; cbn; [split; [discriminate|tauto]|].
    intros [F S]. destruct (N.eqb a' a) eqn:E.
    - apply N.eqb_eq in E. subst a'. split.
      + intros [= ->]. auto.
      + intros [[= ->]|H]; auto. exfalso. rewrite Forall_forall in F.
        specialize (F a (in_map fst _ _ H)). cbn in F. lia.
    - apply N.eqb_neq in E. rewrite IH by auto. split; auto. intros [[= -> ->]|H]; [congruence|auto].
  Qed.

  Lemma sorted_ext t1 t2 : ssorted (map fst t1) -> ssorted (map fst t2) ->
    (forall a, assoc a t1 = assoc a t2) -> t1 = t2.
  Proof.
    revert t2; induction t1 as [|[a u] r IH]; intros [|[b v] r2] S1 S2 H; auto.
    - specialize (H b). cbn in H. rewrite N.eqb_refl in H. discriminate.
    - specialize (H a). cbn in H. rewrite N.eqb_refl in H. discriminate.
    - cbn [map ssorted fst] in S1, S2. destruct S1 as [F1 S1], S2 as [F2 S2].
      assert (a = b).
      { pose proof (H a) as Ha. pose proof (H b) as Hb. cbn in Ha, Hb. rewrite N.eqb_refl in *.
        destruct (N.eqb b a) eqn:E1; [apply N.eqb_eq in E1; auto|].
        destruct (N.eqb a b) eqn:E2; [apply N.eqb_eq in E2; auto|].
        symmetry in Ha. apply assoc_In in Ha; auto. apply assoc_In in Hb; auto.
        rewrite Forall_forall in F1, F2.
        specialize (F2 a (in_map fst _ _ Ha)). specialize (F1 b (in_map fst _ _ Hb)). cbn in *. lia. }
      subst b. pose proof (H a) as Ha. cbn in Ha. rewrite N.eqb_refl in Ha. injection Ha as ->.
      f_equal. apply IH; auto. intros c. specialize (H c). cbn in H.
      destruct (N.eqb a c) eqn:E; auto. apply N.eqb_eq in E. subst c.
      assert (N1 : assoc a r = None).
      { destruct (assoc a r) eqn:A; auto. apply assoc_In in A; auto. rewrite Forall_forall in F1.
        specialize (F1 a (in_map fst _ _ A)). cbn in F1. lia. }
      assert (N2 : assoc a r2 = None).
      { destruct (assoc a r2) eqn:A; auto. apply assoc_In in A; auto. rewrite Forall_forall in F2.
        specialize (F2 a (in_map fst _ _ A)). cbn in F2. lia. }
      congruence.
  Qed.

  Lemma assoc_perm a l1 l2 : Permutation l1 l2 -> NoDup (map fst l1) -> assoc a l1 = assoc a l2.
  Proof.
    induction 1 as [|[b v] l1 l2 P IH|[b v] [c w] l|l1 l2 l3 P1 IH1 P2 IH2]; intros N; auto.
    - cbn. inversion N; subst. rewrite IH; auto.
    - cbn in *. inversion N as [|? ? Hn N']; subst.
      destruct (N.eqb c a) eqn:E1, (N.eqb b a) eqn:E2; auto.
      apply N.eqb_eq in E1, E2. subst. exfalso. apply Hn. left; auto.
    - rewrite IH1, IH2; auto. eapply Permutation_NoDup; [apply Permutation_map; eauto|auto].
  Qed.

  (* the table does not depend on the order in which distinct images were announced *)
  Theorem order_independent anns1 anns2 :
    Permutation anns1 anns2 -> NoDup (map fst anns1) -> insert_all [] anns1 = insert_all [] anns2.
  Proof.
    intros P N. apply sorted_ext; try (apply insert_all_sorted; exact I).
    intros a. rewrite !insert_all_assoc by exact I. cbn. now apply assoc_perm.
  Qed.

  (* ---------------- attribution ---------------- *)
  Lemma last_filter_le t x i p : ssorted (map fst t) ->
    length (filter (le_x x) t) = S i -> nth_error t i = Some p ->
    In p t /\ fst p <= x /\ (forall q, In q t -> fst q <= x -> fst q <= fst p).
  Proof.
    intros Hs L Hn.
    destruct (sorted_split t x Hs) as [F1 _]. rewrite bisect_map, L in F1.
    assert (Hp : In p (firstn (S i) t)).
    { clear -Hn. revert t Hn; induction i as [|i IH]; intros [|y t] Hn; cbn in *; try discriminate.
      - injection Hn as ->. auto.
      - right. apply IH; auto. }
    split; [eapply In_firstn_In; eauto|].
    rewrite F1 in Hp. apply filter_In in Hp. destruct Hp as [Hp1 Hp2]. unfold le_x in Hp2. apply N.leb_le in Hp2.
    split; auto. intros q Hq Lq.
    (* q is in the prefix of length S i, whose last element is p; the prefix is strictly sorted *)
    assert (Hq' : In q (firstn (S i) t)).
    { rewrite F1. apply filter_In. split; auto. unfold le_x. now apply N.leb_le. }
    clear -Hs Hn Hq'. revert t Hs Hn Hq'. induction i as [|i IH]; intros [|y t] Hs Hn Hq; cbn in *; try discriminate.
    - injection Hn as ->. destruct Hq as [->|Hq]; [lia|]. destruct Hq.
    - destruct Hs as [F Hs]. destruct Hq as [->|Hq].
      + rewrite Forall_forall in F. apply nth_error_In in Hn. specialize (F (fst p) (in_map fst _ _ Hn)). lia.
      + apply IH with (t := t); auto.
  Qed.

  Lemma filter_len_le {A} (f : A -> bool) l : (length (filter f l) <= length l)%nat.
  Proof. induction l as [|y l IH]; cbn; auto. destruct (f y); cbn; lia. Qed.

  Theorem attribute_some t x a u off : ssorted (map fst t) -> attribute t x = Some (a, u, off) ->
    In (a, u) t /\ a <= x /\ off = x - a /\ (forall q, In q t -> fst q <= x -> fst q <= a).
  Proof.
    intros S. unfold attribute. rewrite bisect_map.
    destruct (length (filter (le_x x) t)) as [|i] eqn:L; [discriminate|].
    destruct (nth_error t i) as [[a' u']|] eqn:Hn; [|discriminate].
    intros [= -> -> <-]. destruct (last_filter_le t x i (a, u) S L Hn) as (H1 & H2 & H3). cbn [fst] in *. auto.
  Qed.

  Theorem attribute_none t x : ssorted (map fst t) -> attribute t x = None -> forall q, In q t -> x < fst q.
  Proof.
    intros S. unfold attribute. rewrite bisect_map.
    destruct (length (filter (le_x x) t)) as [|i] eqn:L.
    - intros _ q Hq. destruct (fst q <=? x) eqn:E; [|now apply N.leb_gt in E].
      assert (In q (filter (le_x x) t)) by (apply filter_In; split; auto).
      destruct (filter (le_x x) t); [contradiction|discriminate].
    - destruct (nth_error t i) as [[a' u']|] eqn:Hn; [discriminate|].
      intros _. exfalso. apply nth_error_None in Hn.
      pose proof (filter_len_le (le_x x) t). lia.
  Qed.

  (* ---------------- feed_generator ---------------- *)
  Inductive trace :=
  | TPerf (ts tid : N) (frames : option (list N))     (* PerfEvent: ktraces[0].timestamp/.tid, cs_frames *)
  | TMapA (addr : N) (u : U)                           (* DyldUuidMapA *)
  | TLaunch (images : list (N * U))                    (* DyldLaunchExecutable.uuid_map_a, in its order *)
  | TOther.

  Definition callstack := (N * N * list (N * option (U * N)))%type.   (* ts, tid, [(address, Some (uuid, offset))] *)

  Definition frame_of (t : table) (x : N) : N * option (U * N) :=
    match attribute t x with Some (_, u, off) => (x, Some (u, off)) | None => (x, None) end.

  Fixpoint feed (t : table) (trs : list trace) : list callstack :=
    match trs with
    | [] => []
    | TPerf ts tid (Some fr) :: r => (ts, tid, map (frame_of t) fr) :: feed t r
    | TMapA a u :: r => feed (insert_image t a u) r
    | TLaunch imgs :: r => feed (insert_all t imgs) r
    | _ :: r => feed t r
    end.

  (* announcements made by a prefix of the trace stream *)
  Definition anns_of (tr : trace) : list (N * U) :=
    match tr with TMapA a u => [(a, u)] | TLaunch imgs => imgs | _ => [] end.

  Lemma insert_all_app t a b : insert_all t (a ++ b) = insert_all (insert_all t a) b.
  Proof. unfold insert_all. apply fold_left_app. Qed.

  (* the table in force when the k-th trace is processed is built from the announcements before it *)
  Theorem feed_split pre ts tid fr post t :
    feed t (pre ++ TPerf ts tid (Some fr) :: post) =
    feed t pre ++ (ts, tid, map (frame_of (insert_all t (flat_map anns_of pre))) fr)
             :: feed (insert_all t (flat_map anns_of pre)) post.
  Proof.
    revert t; induction pre as [|tr pre IH]; intros t; cbn [app flat_map feed]; auto.
    destruct tr as [ts' tid' [fr'|]|a u|imgs|]; cbn [feed anns_of app]; rewrite ?IH; auto.
    rewrite insert_all_app. reflexivity.
  Qed.
End CS.

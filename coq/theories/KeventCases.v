(* KeventCases.v — executable correspondence check for from_kd_buf (C01).
   A case is (words, tail, observed): the record is the concatenation of the 64-bit
   little-endian encodings of `words` followed by the raw bytes `tail` (so that both
   64-byte records and wrong-length buffers are cheap literals). *)
From Coq Require Import String ZArith NArith Arith List Bool.
From Kd Require Import theories.Base theories.PyStruct theories.Kevent theories.Harness gen.GenKevent.
Import ListNotations.
Open Scope N_scope.

Definition bytes_of_words (ws : list N) : list N := flat_map (enc 8) ws.

(* observed: None = struct.error; Some (ts, data as 4 LE words, values, tid, debugid, eventid, qual) *)
Definition kobs := option (N * list N * list N * N * N * N * N)%type.
Definition kcase := (list N * list N * kobs)%type.

Definition obs_of (e : kevent) : N * list N * list N * N * N * N * N :=
  (k_timestamp e, map le (chunks 8 (k_data e)), k_values e, k_tid e, k_debugid e, k_eventid e, k_qual e).

Definition obs_eqb (a b : N * list N * list N * N * N * N * N) : bool :=
  match a, b with
  | (t1, d1, v1, i1, g1, e1, q1), (t2, d2, v2, i2, g2, e2, q2) =>
    N.eqb t1 t2 && leqb d1 d2 && leqb v1 v2 && N.eqb i1 i2 && N.eqb g1 g2 && N.eqb e1 e2 && N.eqb q1 q2
  end.

Definition kcheck (c : kcase) : bool :=
  match c with
  | (ws, tl, o) =>
    let r := bytes_of_words ws ++ tl in
    opt_eqb obs_eqb (option_map obs_of (from_kd_buf r)) o
  end.

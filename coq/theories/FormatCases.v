(* FormatCases.v — executable correspondence for formatted_kevents / formatted_traces / _format_callstack (C14):
   event stream -> pairing machine -> table evolution -> lines, compared with the implementation's lines. *)
From Coq Require Import String NArith List Bool.
From Kd Require Import theories.Base theories.Harness theories.Printers theories.Container theories.Pairing
  theories.PairingCases theories.Format theories.FormatLog.
Import ListNotations.
Open Scope N_scope.

Definition lookup_str (t : list (N * list N)) (k : N) : option (list N) :=
  match List.find (fun p => N.eqb (fst p) k) t with Some p => Some (snd p) | None => None end.
Definition lookup_kind (t : list (N * N)) (k : N) : N :=
  match List.find (fun p => N.eqb (fst p) k) t with Some p => snd p | None => 0 end.

Definition cfg_of (bits : list bool) : fcfg :=
  mkF (nth 0 bits true) (nth 1 bits true) (nth 2 bits true) (nth 3 bits false) (nth 4 bits true) (nth 5 bits true).

(* (switches, code names, pairing classes, writer kinds, thread map, events (ts, tid, eid, q, words),
    observed kevent lines, trace bodies, observed trace lines) *)
Definition gcase := (list bool * list (N * list N) * pclasses * list (N * N) * list (N * N * list N)
                     * list (N * N * N * N * list N) * list (list N) * list (list N) * list (list N))%type.

Definition gcheck (c : gcase) : bool :=
  match c with
  | (bits, names, cl, kinds, tm, evs, oklines, bodies, otlines) =>
    let cfg := cfg_of bits in
    let tb0 := set_thread_map tm ([], []) in
    let fevs := map (fun x => match x with (ts, tid, eid, q, ws) => mkFe ts tid eid q ws end) evs in
    let klines := map (kevent_line cfg (lookup_str names) tb0) fevs in
    let dom c := fst (fst (pclass cl c)) in
    let dec c := snd (fst (pclass cl c)) in
    let pevs := mk_pevs 0 (map (fun x => match x with (ts, tid, eid, q, ws) => (tid, eid, q, ws) end) evs) in
    let wins := flat_map (fun o => match o with Some w => [map (fun p => nth (N.to_nat (p_uid p)) fevs (mkFe 0 0 0 0 [])) w]
                                               | None => [] end) (run_opt dom dec pst0 pevs) in
    let tlines := if Nat.eqb (length wins) (length bodies)
                  then trace_lines (lookup_kind kinds) cfg (mkTs tb0 []) (combine wins bodies) else [] in
    list_eqb leqb klines oklines && list_eqb leqb tlines otlines
  end.

(* callstack line: (switches, tables as thread map, ts, tid, frames (addr, uuid text | none, offset), observed) *)
Definition hcase := (list bool * list (N * N * list N) * N * N * list (N * option (list N * N)) * list N)%type.
Definition hcheck (c : hcase) : bool :=
  match c with
  | (bits, tm, ts, tid, fs, obs) => leqb (callstack_line (cfg_of bits) (set_thread_map tm ([], [])) ts tid fs) obs
  end.

(* log lines: (switches, colour, thread map, text of the date, tid, names-a-process, message, observed line) *)
Definition lcase := (list bool * bool * list (N * N * list N) * list N * N * bool * list N * list N)%type.
Definition lcheck (c : lcase) : bool :=
  match c with
  | (bits, color, tm, tstext, tid, hp, msg, obs) =>
      leqb (log_line (cfg_of bits) color (set_thread_map tm ([], [])) tstext tid hp msg) obs
      && (negb color || leqb (strip_ansi obs) (log_line (cfg_of bits) false (set_thread_map tm ([], [])) tstext tid hp msg))
  end.

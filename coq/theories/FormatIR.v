(* FormatIR.v — the line builders of pykdebugparser.py (_format_kevent, _format_trace, _format_callstack, _format_log) as lists
   of column descriptions: the switch that enables the column, what it shows, the alignment and width of its format spec and
   the literal text after it.  tools/translate/tr_format.py reads these off the f-strings of the current source
   (gen/GenFormat.v); FormatRefine.v proves that rendering them gives the lines of Format.v / FormatLog.v.  (C14) *)
From Coq Require Import String NArith List Bool.
From Kd Require Import theories.Base theories.Printers theories.Container theories.DecoderDSL theories.Format theories.FormatLog.
Import ListNotations.
Open Scope N_scope.

Inductive sw := SwTimestamp | SwName | SwQual | SwTid | SwProcess | SwArgs.
Definition sw_on (c : fcfg) (s : sw) : bool :=
  match s with
  | SwTimestamp => show_timestamp c | SwName => show_name c | SwQual => show_func_qual c
  | SwTid => show_tid c | SwProcess => show_process c | SwArgs => show_args c
  end.

Inductive kind :=
| KTimestamp      (* self._format_timestamp(x.timestamp), no time base configured: str(timestamp) + ' ' *)
| KName           (* name: the code table's name + ' (' + hex(eventid) + ')', or hex(eventid) *)
| KQual           (* DgbFuncQual(event.func_qualifier).name *)
| KHexTid         (* hex(tid) *)
| KDecTid         (* tid *)
| KProcess        (* self._format_process(tid) *)
| KData.          (* str(event.data) *)

Inductive align := ARaw | ALeft (w : nat) | ARight (w : nat).
Definition pad (a : align) (s : str) : str :=
  match a with ARaw => s | ALeft w => ljust w s | ARight w => rjust w s end.

Record colspec := mkCol { cs_sw : sw; cs_kind : kind; cs_align : align; cs_suffix : str }.

Definition content (codes : N -> option str) (tb : tables) (e : fev) (k : kind) : str :=
  match k with
  | KTimestamp => dec (e_ts e) ++ s2b " "
  | KName => kevent_name codes (e_eid e)
  | KQual => s2b (qual_name (e_q e))
  | KHexTid => hex (e_tid e)
  | KDecTid => dec (e_tid e)
  | KProcess => format_process tb (e_tid e)
  | KData => bytes_repr (e_data e)
  end.

Definition render_cols (c : fcfg) (codes : N -> option str) (tb : tables) (e : fev) (cols : list colspec) : str :=
  concat (map (fun cs => col (sw_on c (cs_sw cs)) (pad (cs_align cs) (content codes tb e (cs_kind cs)) ++ cs_suffix cs)) cols).

(* _format_log: widths of the three padded columns, the literal texts around them, the SGR codes of the three colours *)
Record logspec := mkLog { lg_ts_w : nat; lg_tid_w : nat; lg_tid_suffix : str; lg_proc_w : nat;
                          lg_proc_before : str; lg_proc_after : str;
                          lg_ts_colour : str; lg_proc_colour : str; lg_msg_colour : str }.

Definition render_log (g : logspec) (c : fcfg) (color : bool) (tb : tables) (tstext : str) (tid : N) (has_process : bool) (msg : str) : str :=
  col (show_timestamp c) (paint color (lg_ts_colour g) (ljust (lg_ts_w g) tstext))
  ++ col (show_tid c) (rjust (lg_tid_w g) (dec tid) ++ lg_tid_suffix g)
  ++ col (show_process c && has_process)
         (lg_proc_before g ++ paint color (lg_proc_colour g) (ljust (lg_proc_w g) (format_process tb tid)) ++ lg_proc_after g)
  ++ paint color (lg_msg_colour g) msg.

(* _format_process: the two shapes of the column *)
Record procspec := mkProc { pr_open : str; pr_close : str; pr_unknown : str }.
Definition render_process (p : procspec) (tb : tables) (tid : N) : str :=
  match dget (fst tb) tid with
  | Some pid => (match dget (snd tb) pid with Some n => n | None => [] end) ++ pr_open p ++ dec pid ++ pr_close p
  | None => pr_unknown p ++ dec tid
  end.

(* _format_callstack: frame lines *)
Record framespec := mkFrame { fr_sep : str; fr_prefix : str; fr_w : nat }.
Definition hexw (w : nat) (v : N) : str := let d := hexdigits v in repeat 48 (w - length d) ++ d.
Definition render_frame (f : framespec) (i : nat) (fr : N * option (str * N)) : str :=
  spaces i ++ match fr with
              | (_, Some (u, off)) => u ++ fr_sep f ++ hexw (fr_w f) off
              | (a, None) => fr_prefix f ++ hexw (fr_w f) a
              end.
Fixpoint render_frames (f : framespec) (i : nat) (fs : list (N * option (str * N))) : str :=
  match fs with [] => [] | fr :: r => [10] ++ render_frame f i fr ++ render_frames f (S i) r end.

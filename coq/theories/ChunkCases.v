(* ChunkCases.v — executable correspondence for the reassemblers (C08). *)
From Coq Require Import NArith List Bool.
From Kd Require Import theories.Base theories.Harness theories.Chunks.
Import ListNotations.
Open Scope N_scope.

(* (kind: 0 lookup / 1 global string / 2 thread name, records as (qualifier, 4 data words), observed (a, b, text)) *)
Definition kcase := (N * list (N * list N) * (N * N * list N))%type.

Definition recs_of (l : list (N * list N)) : list crec := map (fun qw => mkC (fst qw) (flat_map (enc 8) (snd qw))) l.

Definition kcheck (c : kcase) : bool :=
  match c with
  | (kind, rs, (a, b, text)) =>
    let recs := recs_of rs in
    if N.eqb kind 0 then
      match vnode_generator recs with
      | (vid, t) :: _ => N.eqb vid a && leqb t text
      | [] => N.eqb a 0 && leqb [] text          (* parse_vnode: Vnode([], 0, '') when nothing completes *)
      end
    else if N.eqb kind 1 then
      match global_string recs with (dbg, sid, t) => N.eqb dbg a && N.eqb sid b && leqb t text end
    else leqb (thread_name recs) text
  end.

(* TraceIR.v — the table writes of the kernel-trace decoders (trace_handlers/trace.py: new-thread / exec data and strings,
   thread-terminate pid) and of the sampler's thread-data decoder (perf.py handle_thd_data) as statement lists;
   tools/translate/tr_trace.py reads them off the current source (gen/GenTrace.v: dataclass field orders resolved, every other
   statement of these handlers checked to write neither table) and TraceRefine.v proves that executing them is the step of the
   hand model Format.apply_window.  (C14, C05, C13) *)
From Coq Require Import String NArith List Bool.
From Kd Require Import theories.Base theories.Printers theories.Container theories.DecoderDSL theories.Format.
Import ListNotations.
Open Scope N_scope.

Inductive wval :=
| VWord (i : nat)      (* events[0].values[i] *)
| VEmitTid.            (* events[0].tid *)

Inductive wstmt :=
| WSetSlot (exec : bool) (pid : wval)     (* parser.last_data_newthread / last_data_exec [events[0].tid] = event, event.pid = pid *)
| WSetThreadsPids (k v : wval)            (* parser.threads_pids[k] = v *)
| WNameFromSlot (exec : bool).            (* last = parser.last_data_*.get(events[0].tid); if last is not None:
                                               parser.pids_names[last.pid] = event.name  (name = the record's bytes without NULs) *)

Definition weval (h : fev) (v : wval) : N := match v with VWord i => ew h i | VEmitTid => e_tid h end.

Definition wexec1 (h : fev) (st : tstate) (s : wstmt) : tstate :=
  match s with
  | WSetSlot false p => set_slot st (e_tid h) (Some (weval h p), snd (slot_of st (e_tid h)))
  | WSetSlot true p => set_slot st (e_tid h) (fst (slot_of st (e_tid h)), Some (weval h p))
  | WSetThreadsPids k v => set_tp st (weval h k) (weval h v)
  | WNameFromSlot false => match fst (slot_of st (e_tid h)) with Some pid => set_pn st pid (name_of h) | None => st end
  | WNameFromSlot true => match snd (slot_of st (e_tid h)) with Some pid => set_pn st pid (name_of h) | None => st end
  end.

Definition wexec (st : tstate) (h : fev) (prog : list wstmt) : tstate := fold_left (wexec1 h) prog st.

(* the writer kind the model gives a decoder name *)
Definition tk_of_name (n : string) : N :=
  if String.eqb n "TRACE_DATA_NEWTHREAD" then TK_DATA_NEW
  else if String.eqb n "TRACE_DATA_EXEC" then TK_DATA_EXEC
  else if String.eqb n "TRACE_STRING_NEWTHREAD" then TK_STR_NEW
  else if String.eqb n "TRACE_STRING_EXEC" then TK_STR_EXEC
  else if String.eqb n "TRACE_DATA_THREAD_TERMINATE_PID" then TK_TERM_PID
  else if String.eqb n "PERF_THD_Data" then TK_THD_DATA
  else 0.

(* the step of the hand model for a window whose head has writer kind k (k <> the sampler's composite kind) *)
Definition model_step (k : N) (st : tstate) (h : fev) : tstate := apply_window (fun _ => k) st [h].

(* FiltersPipelineTables.v — part 2 of the C13 pipeline theorem: the generic table machine of FiltersPipeline.v
   instantiated with the table writes of the decoders as modelled for C14 (Format.apply_window): new-thread / exec
   data and strings, terminate-pid, sampler thread data (alone or nested in a sampler window), and with the process
   filter of PyKdebugParser._filter_process_callback. *)
From Coq Require Import String NArith List Bool Lia.
From Kd Require Import theories.Base theories.Printers theories.Filters theories.Pairing theories.PairingProofs
  theories.PairingFilter theories.FiltersTraces theories.FiltersPipeline theories.Container theories.DecoderDSL
  theories.Format.
Import ListNotations.
Open Scope N_scope.

Section Inst.
  Variable domc decc : N -> bool.
  Variable kind : N -> N.                 (* event id -> kind of table-writing decoder (0 = none), from the code table *)
  Variable payload : N -> list N.         (* the four words of the record with that position in the stream *)

  Definition tofev (e : pev) : Format.fev := mkFe (p_uid e) (p_tid e) (p_code e) 0 (payload (p_uid e)).
  Definition cstep (s : tstate) (w : list pev) : tstate := apply_window kind s (map tofev w).
  Definition cwriter (c : N) : bool := negb (N.eqb (kind c) 0).

  (* pid = threads_pids.get(tid, -1); name = pids_names.get(pid, ''); filter == str(pid) or filter == name *)
  Definition cproc_ok (p : str) (s : tstate) (tid : N) : bool :=
    match dget (fst (ts_tables s)) tid with
    | Some pid => leqb p (Printers.dec pid) || leqb p (match dget (snd (ts_tables s)) pid with Some n => n | None => [] end)
    | None => leqb p (s2b "-1") || leqb p []
    end.

  Definition thd (e : Format.fev) : bool := N.eqb (kind (e_eid e)) TK_THD_DATA.

  Lemma apply_window_ext st h t1 t2 :
    List.filter thd (h :: t1) = List.filter thd (h :: t2) -> apply_window kind st (h :: t1) = apply_window kind st (h :: t2).
  Proof. intros E. unfold apply_window. cbv beta iota zeta. fold thd. rewrite E. reflexivity. Qed.

  Lemma cstep_nonwriter s h r : cwriter (p_code h) = false -> cstep s (h :: r) = s.
  Proof.
    unfold cwriter. intros H. apply negb_false_iff, N.eqb_eq in H.
    unfold cstep, apply_window. cbn [map]. cbv beta iota zeta. cbn [tofev e_eid]. rewrite H. reflexivity.
  Qed.

  Lemma filter_thd_restrict (allow : N -> bool) r : (forall c, cwriter c = true -> allow c = true) ->
    List.filter thd (map tofev (List.filter (P allow) r)) = List.filter thd (map tofev r).
  Proof.
    intros HW. induction r as [|x r IH]; cbn [List.filter map]; auto.
    destruct (P allow x) eqn:Px; cbn [map List.filter]; rewrite IH; auto.
    assert (K : thd (tofev x) = false).
    { unfold thd, tofev. cbn [e_eid]. destruct (N.eqb (kind (p_code x)) TK_THD_DATA) eqn:E; auto.
      apply N.eqb_eq in E. assert (W : cwriter (p_code x) = true) by (unfold cwriter; rewrite E; reflexivity).
      apply HW in W. unfold P in Px. congruence. }
    now rewrite K.
  Qed.

  Lemma cstep_restrict (allow : N -> bool) s h r :
    (forall c, cwriter c = true -> allow c = true) -> allow (p_code h) = true ->
    cstep s (List.filter (P allow) (h :: r)) = cstep s (h :: r).
  Proof.
    intros HW A. unfold cstep. cbn [List.filter]. unfold P at 1. rewrite A. cbn [map].
    apply apply_window_ext. cbn [List.filter]. now rewrite filter_thd_restrict.
  Qed.

  (* the decoders that write the tables belong to the trace class and the sampler class: both are always fed *)
  Hypothesis writer_classes : forall c, kind c <> 0 -> cls c = DBG_TRACE \/ cls c = DBG_PERF.

  Lemma writers_fed cfg c : cwriter c = true -> fed cfg c = true.
  Proof.
    unfold cwriter. intros H. apply negb_true_iff, N.eqb_neq in H.
    destruct (writer_classes c H); [now apply trace_class_always_fed | now apply perf_class_always_fed].
  Qed.

  (* thread, process and class filters together: exactly the traces of the unfiltered run that satisfy all of them,
     the process judged with the tables the UNFILTERED run has at that trace; same order; same tables *)
  Theorem traces_filters_commute cfg s0 h :
    pipeline domc decc tstate cstep cproc_ok cfg s0 h =
    map (restrictS tstate (fed cfg))
        (filter (fun x => requested cfg (p_code (fst (fst x))) && keepT tstate cfg x && keepP tstate cproc_ok cfg x)
                (reference domc decc tstate cstep s0 h)).
  Proof.
    apply (pipeline_commutes domc decc tstate cstep cproc_ok cwriter).
    - apply cstep_nonwriter.
    - apply cstep_restrict.
    - apply writers_fed.
  Qed.
End Inst.

(* Bits.v — mask / shift facts used by C01, C11, C12, C16. Stdlib only. *)
From Coq Require Import ZArith NArith Bool Lia.
Open Scope N_scope.

Lemma bits_above n d : d < 2 ^ n -> forall m, n <= m -> N.testbit d m = false.
Proof.
  intros H m Hm. destruct (N.eq_dec d 0) as [->|Hd]; [apply N.bits_0|].
  apply N.bits_above_log2. apply N.log2_lt_pow2 in H; lia.
Qed.

(* the event-id mask clears exactly the two low bits of a 32-bit word *)
Lemma land_evmask d : d < 2 ^ 32 -> N.land d (N.ldiff (N.ones 32) (N.ones 2)) = N.ldiff d (N.ones 2).
Proof.
  intros H. apply N.bits_inj; intro n. rewrite N.land_spec, !N.ldiff_spec.
  destruct (N.ltb_spec n 32).
  - rewrite (N.ones_spec_low 32) by lia. now rewrite andb_true_l.
  - rewrite (bits_above 32 d H n) by lia. reflexivity.
Qed.

Lemma split_mask d : d < 2 ^ 32 ->
  N.land d (N.ldiff (N.ones 32) (N.ones 2)) = N.ldiff d 3 /\
  N.land d (N.ones 2) = d mod 4 /\
  d mod 4 < 4 /\
  N.land d (N.ones 2) = d mod 2 ^ 2.
Proof.
  intros H. repeat split.
  - rewrite land_evmask by assumption. reflexivity.
  - rewrite N.land_ones. reflexivity.
  - apply N.mod_lt. discriminate.
  - apply N.land_ones.
Qed.

Lemma lor_ldiff_mod4 d : N.lor (N.ldiff d 3) (d mod 4) = d.
Proof.
  change 3 with (N.ones 2). change 4 with (2 ^ 2). rewrite <- N.land_ones. apply N.lor_ldiff_and.
Qed.

Lemma land_ldiff_mod4 d : N.land (N.ldiff d 3) (d mod 4) = 0.
Proof.
  change 3 with (N.ones 2). change 4 with (2 ^ 2). rewrite <- N.land_ones.
  apply N.bits_inj; intro n. rewrite !N.land_spec, N.ldiff_spec, N.bits_0.
  destruct (N.testbit d n), (N.testbit (N.ones 2) n); reflexivity.
Qed.

Lemma shiftr_is_div d k : N.shiftr d k = d / 2 ^ k.
Proof. apply N.shiftr_div_pow2. Qed.

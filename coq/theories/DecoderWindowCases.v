(* DecoderWindowCases.v — executable correspondence for whole windows: START record, anything in between (lookups of
   several records, interrupts, nested calls), END record -> text.  The paths are reassembled by the model itself. *)
From Coq Require Import String ZArith NArith List Bool.
From Kd Require Import theories.Base theories.Harness theories.DecoderDSL theories.DecoderCases theories.DecoderWindow
  gen.GenEnums gen.GenDecoders.
Import ListNotations.
Open Scope N_scope.

(* (key, lookup event ids, window as (code, qualifier, 4 words, tid), global strings, observed: inl error | inr text) *)
Definition wcase := (string * list N * list (N * N * list N * N) * list (N * list N) * (N + list N))%type.

Definition wcheck (hd : host_data) (c : wcase) : bool :=
  match c with
  | (key, lks, evs, gs, obs) =>
    match find_row key with
    | None => false
    | Some r =>
      let w := map (fun x => match x with (c, q, ws, t) => mkW c q ws t end) evs in
      let X := ctx_of_window (fun c => existsb (N.eqb c) lks)
                             (fun k => match find (fun p => N.eqb (fst p) k) gs with Some p => Some (snd p) | None => None end)
                             false w in
      match render_row gen_enums (host_of hd) X r, obs with
      | ROk s, inr t => leqb s t
      | RErr e, inl n => N.eqb (err_code e) n
      | _, _ => false
      end
    end
  end.

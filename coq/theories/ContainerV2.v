(* ContainerV2.v — version-2 dumps: spec-side encoder, round trip (C02), truncation prefix (C06). *)
From Coq Require Import NArith Arith List Bool Lia.
From Kd Require Import theories.Base theories.PyStruct theories.Kevent theories.Utf8 gen.GenKevent
  theories.KeventProofs theories.Container.
Import ListNotations.
Open Scope N_scope.

(* ---------------- basic facts ---------------- *)
Lemma from_kd_buf_some_iff r : (exists e, from_kd_buf r = Some e) <-> length r = 64%nat.
Proof.
  split.
  - intros [e H]. destruct (Nat.eq_dec (length r) 64); auto. rewrite from_kd_buf_error in H by auto. discriminate.
  - intros H. rewrite from_kd_buf_raw by auto. eauto.
Qed.

(* what a 64-byte record decodes to (total function for stating "each equal to the decoding of its own record") *)
Definition decode (r : list N) : kevent :=
  match from_kd_buf r with Some e => e | None => mkKevent 0 [] [] 0 0 0 0 end.

Lemma from_kd_buf_decode r : length r = 64%nat -> from_kd_buf r = Some (decode r).
Proof. intros H. unfold decode. destruct (proj2 (from_kd_buf_some_iff r) H) as [e ->]. reflexivity. Qed.


(* ---------------- records loop ---------------- *)
Lemma recs2_step f r rest : length r = 64%nat ->
  recs2 (S f) (r ++ rest) = (decode r :: fst (recs2 f rest), snd (recs2 f rest)).
Proof.
  intros Hr. cbn [recs2].
  destruct (r ++ rest) as [|x xs] eqn:E.
  { destruct r; cbn in Hr; [lia|discriminate]. }
  rewrite <- E.
  replace (firstn 64 (r ++ rest)) with r by (rewrite <- Hr; symmetry; apply firstn_app_exact).
  replace (skipn 64 (r ++ rest)) with rest by (rewrite <- Hr; symmetry; apply skipn_app_exact).
  rewrite (from_kd_buf_decode r Hr). destruct (recs2 f rest). reflexivity.
Qed.

Lemma recs2_concat recs : forall fuel,
  Forall (fun r => length r = 64%nat) recs -> (length recs <= fuel)%nat ->
  recs2 fuel (concat recs) = (map decode recs, None).
Proof.
  induction recs as [|r recs IH]; intros fuel F Hf.
  - destruct fuel; reflexivity.
  - inversion F as [|? ? Hr F']; subst. destruct fuel as [|f]; [cbn in Hf; lia|].
    cbn [concat]. rewrite recs2_step by auto. rewrite IH by (auto; cbn in Hf; lia). reflexivity.
Qed.

(* ---------------- thread map entries ---------------- *)
Definition tm_ok (t : tment) : Prop :=
  match t with (tid, pid, name) =>
    tid < 2 ^ 64 /\ pid < 2 ^ 32 /\ (length name <= 19)%nat /\ bytes_ok name /\
    forallb (fun c => negb (N.eqb c 0)) name = true /\ utf8_ok name = true
  end.

Definition enc_tm (t : tment) : list N :=
  match t with (tid, pid, name) => enc 8 tid ++ enc 4 pid ++ name ++ zeros (20 - length name) end.

Lemma enc_tm_length t : tm_ok t -> length (enc_tm t) = 32%nat.
Proof.
  destruct t as [[tid pid] name]. intros (_ & _ & L & _). cbn [enc_tm].
  rewrite !app_length, !enc_length. unfold zeros. rewrite repeat_length. lia.
Qed.

Lemma until_nul_name name k : forallb (fun c => negb (N.eqb c 0)) name = true ->
  until_nul (name ++ zeros (S k)) = name.
Proof.
  induction name as [|c name IH]; cbn; auto. intros H. apply andb_true_iff in H. destruct H as [Hc H].
  apply negb_true_iff in Hc. rewrite Hc. f_equal. apply IH, H.
Qed.

Lemma cstring_fixed_name name : (length name <= 19)%nat ->
  forallb (fun c => negb (N.eqb c 0)) name = true -> utf8_ok name = true ->
  cstring_fixed (name ++ zeros (20 - length name)) = Ok name.
Proof.
  intros L NZ U. unfold cstring_fixed.
  replace (20 - length name)%nat with (S (19 - length name)) by lia.
  rewrite until_nul_name by auto. rewrite U.
  replace (existsb (N.eqb 0) (name ++ zeros (S (19 - length name)))) with true; auto.
  symmetry. apply existsb_exists. exists 0. split; [|reflexivity].
  apply in_or_app. right. cbn. left; auto.
Qed.

Lemma slice_at {A} (a b c : list A) : slice (a ++ b ++ c) (length a) (length b) = b.
Proof. unfold slice. rewrite skipn_app_exact. apply firstn_app_exact. Qed.

Lemma slice_mid {A} (a b c : list A) o n : o = length a -> n = length b -> slice (a ++ b ++ c) o n = b.
Proof. intros -> ->. apply slice_at. Qed.
Lemma slice_head {A} (a c : list A) n : n = length a -> slice (a ++ c) 0 n = a.
Proof. intros ->. unfold slice. cbn [skipn]. apply firstn_app_exact. Qed.

Lemma tm_entry_enc t rest : tm_ok t -> tm_entry (enc_tm t ++ rest) = Ok (t, rest).
Proof.
  intros Hok. pose proof (enc_tm_length t Hok) as L32.
  destruct t as [[tid pid] name]. destruct Hok as (Ht & Hp & L & Bn & NZ & U).
  unfold tm_entry.
  replace (length (enc_tm (tid, pid, name) ++ rest) <? 32)%nat with false
    by (symmetry; apply Nat.ltb_ge; rewrite app_length, L32; lia).
  assert (S12 : slice (enc_tm (tid, pid, name) ++ rest) 12 20 = name ++ zeros (20 - length name)).
  { cbn [enc_tm].
    replace ((enc 8 tid ++ enc 4 pid ++ name ++ zeros (20 - length name)) ++ rest)
      with ((enc 8 tid ++ enc 4 pid) ++ (name ++ zeros (20 - length name)) ++ rest)
      by (rewrite <- !app_assoc; reflexivity).
    apply slice_mid.
    - rewrite app_length, !enc_length. reflexivity.
    - rewrite app_length. unfold zeros. rewrite repeat_length. lia. }
  rewrite S12, cstring_fixed_name by auto.
  assert (S0 : slice (enc_tm (tid, pid, name) ++ rest) 0 8 = enc 8 tid).
  { cbn [enc_tm]. rewrite <- !app_assoc. apply slice_head. now rewrite enc_length. }
  assert (S8 : slice (enc_tm (tid, pid, name) ++ rest) 8 4 = enc 4 pid).
  { cbn [enc_tm]. rewrite <- !app_assoc. apply slice_mid; now rewrite enc_length. }
  rewrite S0, S8, !le_enc by (cbn; lia || assumption).
  rewrite <- L32 at 1. rewrite skipn_app_exact. reflexivity.
Qed.

Lemma tm_array_enc ts : forall fuel rest, Forall tm_ok ts -> (length ts <= fuel)%nat ->
  tm_array fuel (N.of_nat (length ts)) (flat_map enc_tm ts ++ rest) = Ok (ts, rest).
Proof.
  induction ts as [|t ts IH]; intros fuel rest F Hf.
  - destruct fuel; reflexivity.
  - inversion F as [|? ? Ht F']; subst. destruct fuel as [|f]; [cbn in Hf; lia|].
    cbn [length flat_map tm_array].
    replace (N.of_nat (S (length ts)) =? 0) with false by (symmetry; apply N.eqb_neq; lia).
    rewrite <- app_assoc, tm_entry_enc by auto.
    replace (N.of_nat (S (length ts)) - 1) with (N.of_nat (length ts)) by lia.
    rewrite IH by (auto; cbn in Hf; lia). reflexivity.
Qed.

Lemma flat_enc_tm_length ts : Forall tm_ok ts -> length (flat_map enc_tm ts) = (32 * length ts)%nat.
Proof.
  induction 1 as [|t ts Ht _ IH]; cbn [flat_map length]; auto.
  rewrite app_length, enc_tm_length, IH by auto. lia.
Qed.

Lemma skip_zeros_pad n body : (body = [] \/ hd 0 body <> 0) -> skip_zeros (zeros n ++ body) = body.
Proof.
  intros H. induction n as [|n IH].
  - unfold zeros. cbn [repeat app]. destruct body as [|c r]; [reflexivity|].
    destruct H as [H|H]; [discriminate|]. cbn [hd] in H. cbn [skip_zeros].
    apply N.eqb_neq in H. rewrite H. reflexivity.
  - unfold zeros in *. cbn [repeat app skip_zeros]. cbn [N.eqb]. exact IH.
Qed.

(* ---------------- the file the property describes (after the 4 magic bytes) ---------------- *)
Definition enc_v2_body (fill12 fill256 : list N) (is64 freq : N) (threads : list tment) (pad : nat)
           (recs : list (list N)) : list N :=
  enc 4 (N.of_nat (length threads)) ++ fill12 ++ enc 4 is64 ++ enc 8 freq ++ fill256
  ++ flat_map enc_tm threads ++ zeros pad ++ concat recs.

Theorem header_v2_enc fill12 fill256 is64 freq threads pad recs :
  length fill12 = 12%nat -> length fill256 = 256%nat ->
  N.of_nat (length threads) < 2 ^ 32 -> Forall tm_ok threads ->
  header_v2 (enc_v2_body fill12 fill256 is64 freq threads pad recs)
  = Ok (threads, skip_zeros (zeros pad ++ concat recs)).
Proof.
  intros L12 L256 Hn F. unfold header_v2, enc_v2_body.
  set (tail := flat_map enc_tm threads ++ zeros pad ++ concat recs).
  set (fixed := enc 4 (N.of_nat (length threads)) ++ fill12 ++ enc 4 is64 ++ enc 8 freq ++ fill256).
  assert (LF : length fixed = V2_FIXED).
  { unfold fixed, V2_FIXED. rewrite !app_length, !enc_length, L12, L256. reflexivity. }
  replace (enc 4 (N.of_nat (length threads)) ++ fill12 ++ enc 4 is64 ++ enc 8 freq ++ fill256 ++ tail)
    with (fixed ++ tail) by (unfold fixed; rewrite <- !app_assoc; reflexivity).
  replace (length (fixed ++ tail) <? V2_FIXED)%nat with false
    by (symmetry; apply Nat.ltb_ge; rewrite app_length; lia).
  assert (S0 : slice (fixed ++ tail) 0 4 = enc 4 (N.of_nat (length threads))).
  { unfold fixed. rewrite <- !app_assoc. apply slice_head. now rewrite enc_length. }
  rewrite S0, le_enc by exact Hn. rewrite <- LF, skipn_app_exact.
  unfold tail. rewrite tm_array_enc; auto.
  rewrite !app_length, flat_enc_tm_length by auto. lia.
Qed.

(* ---------------- C02: exactly the records, in order; exactly the thread map ---------------- *)
Theorem parse_v2_enc fill12 fill256 is64 freq threads pad recs :
  length fill12 = 12%nat -> length fill256 = 256%nat ->
  N.of_nat (length threads) < 2 ^ 32 -> Forall tm_ok threads ->
  Forall (fun r => length r = 64%nat) recs ->
  (concat recs = [] \/ hd 0 (concat recs) <> 0) ->
  parse_v2 (enc_v2_body fill12 fill256 is64 freq threads pad recs)
  = mkPout (Some threads) (map decode recs) None None.
Proof.
  intros L12 L256 Hn F R G. unfold parse_v2.
  rewrite header_v2_enc by auto. rewrite skip_zeros_pad by exact G.
  rewrite recs2_concat; auto.
  clear -R. induction R as [|r recs Hr _ IH]; cbn [concat length]; [lia|]. rewrite app_length. lia.
Qed.

Fixpoint last_pid (tm : list tment) (tid : N) : option N :=
  match tm with
  | [] => None
  | (t, p, _) :: r => match last_pid r tid with Some x => Some x | None => if N.eqb t tid then Some p else None end
  end.
Fixpoint last_name (tm : list tment) (pid : N) : option (list N) :=
  match tm with
  | [] => None
  | (_, p, n) :: r => match last_name r pid with Some x => Some x | None => if N.eqb p pid then Some n else None end
  end.

Lemma set_thread_map_acc tm : forall acc tid pid,
  let st := fold_left (fun st e => match e with (t, p, n) => (dset (fst st) t p, dset (snd st) p n) end) tm acc in
  dget (fst st) tid = match last_pid tm tid with Some x => Some x | None => dget (fst acc) tid end /\
  dget (snd st) pid = match last_name tm pid with Some x => Some x | None => dget (snd acc) pid end.
Proof.
  induction tm as [|[[t p] n] r IH]; intros acc tid pid; cbn [fold_left last_pid last_name]; [split; reflexivity|].
  specialize (IH (dset (fst acc) t p, dset (snd acc) p n) tid pid). cbv zeta in IH. destruct IH as [IH1 IH2].
  rewrite IH1, IH2. cbn [fst snd dset dget]. split.
  - destruct (last_pid r tid); auto. destruct (N.eqb t tid); auto.
  - destruct (last_name r pid); auto. destruct (N.eqb p pid); auto.
Qed.

(* after set_thread_map the two tables are exactly the file's thread map (a later entry for the same key wins),
   whatever they held before: nothing is left over from an earlier parse with the same objects *)
Theorem set_thread_map_spec tm old tid pid :
  dget (fst (set_thread_map tm old)) tid = last_pid tm tid /\
  dget (snd (set_thread_map tm old)) pid = last_name tm pid.
Proof.
  unfold set_thread_map. destruct (set_thread_map_acc tm ([], []) tid pid) as [H1 H2].
  cbv zeta in *. rewrite H1, H2. cbn. split; [destruct (last_pid tm tid)|destruct (last_name tm pid)]; reflexivity.
Qed.

Theorem set_thread_map_no_residue tm old1 old2 : set_thread_map tm old1 = set_thread_map tm old2.
Proof. reflexivity. Qed.

(* the full statement (without the guard) is FALSE of the faithful model: a first record that begins with a
   zero byte loses it to the padding skipper, and every later record is mis-framed (finding F01) *)
Definition f01_rec1 : list N := 0 :: repeat 7 63.
Definition f01_rec2 : list N := repeat 9 64.
Definition f01_body : list N := enc_v2_body (zeros 12) (zeros 256) 1 24000000 [] 0 [f01_rec1; f01_rec2].

Theorem leading_zero_refuted :
  Forall (fun r => length r = 64%nat) [f01_rec1; f01_rec2] /\
  o_events (parse_v2 f01_body) <> map decode [f01_rec1; f01_rec2] /\
  o_err (parse_v2 f01_body) = Some EStruct.
Proof.
  split; [repeat constructor|]. split; [|vm_compute; reflexivity].
  intros H. apply (f_equal (@length _)) in H. vm_compute in H. discriminate.
Qed.

(* ---------------- C06 (version 2): the events of a truncated dump are a prefix ---------------- *)
Definition prefix {A} (a b : list A) : Prop := exists c, b = a ++ c.

Lemma slice_firstn {A} (r : list A) k o n : (o + n <= k)%nat -> slice (firstn k r) o n = slice r o n.
Proof.
  intros H. unfold slice. rewrite skipn_firstn_comm, firstn_firstn. f_equal. lia.
Qed.

Lemma tm_entry_prefix r k x r1 : tm_entry (firstn k r) = Ok (x, r1) ->
  tm_entry r = Ok (x, skipn 32 r) /\ r1 = firstn (k - 32) (skipn 32 r).
Proof.
  unfold tm_entry. destruct (length (firstn k r) <? 32)%nat eqn:L; [discriminate|].
  apply Nat.ltb_ge in L. rewrite firstn_length in L.
  replace (length r <? 32)%nat with false by (symmetry; apply Nat.ltb_ge; lia).
  rewrite !slice_firstn by lia.
  destruct (cstring_fixed (slice r 12 20)); [|discriminate].
  intros H. assert (Hr : r1 = skipn 32 (firstn k r)) by congruence.
  assert (Hx : x = (le (slice r 0 8), le (slice r 8 4), a)) by congruence.
  subst x. split; auto. rewrite Hr. apply skipn_firstn_comm.
Qed.

Lemma tm_array_length f : forall n r xs r1, tm_array f n r = Ok (xs, r1) -> (length xs <= length r)%nat.
Proof.
  induction f as [|f IH]; intros n r xs r1; cbn [tm_array]; destruct (N.eqb n 0).
  - intros [= <- <-]. cbn; lia.
  - discriminate.
  - intros [= <- <-]. cbn; lia.
  - unfold tm_entry. destruct (length r <? 32)%nat eqn:L; [discriminate|]. apply Nat.ltb_ge in L.
    destruct (cstring_fixed (slice r 12 20)); [|discriminate].
    destruct (tm_array f (n - 1) (skipn 32 r)) as [[ys r2]|] eqn:T; [|discriminate].
    intros [= <- <-]. apply IH in T. rewrite skipn_length in T. cbn. lia.
Qed.

Lemma tm_array_prefix f1 : forall n k r xs r1, tm_array f1 n (firstn k r) = Ok (xs, r1) ->
  forall f2, (length xs <= f2)%nat -> exists r1' j, tm_array f2 n r = Ok (xs, r1') /\ r1 = firstn j r1'.
Proof.
  induction f1 as [|f1 IH]; intros n k r xs r1; cbn [tm_array]; destruct (N.eqb n 0) eqn:N0.
  - intros [= <- <-] f2 _. exists r, k. destruct f2; cbn [tm_array]; rewrite N0; auto.
  - discriminate.
  - intros [= <- <-] f2 _. exists r, k. destruct f2; cbn [tm_array]; rewrite N0; auto.
  - destruct (tm_entry (firstn k r)) as [[x q]|] eqn:E; [|discriminate].
    apply tm_entry_prefix in E. destruct E as [E ->].
    destruct (tm_array f1 (n - 1) (firstn (k - 32) (skipn 32 r))) as [[ys r2]|] eqn:T; [|discriminate].
    intros [= <- <-] f2 Hf. destruct f2 as [|f2]; [cbn in Hf; lia|].
    destruct (IH _ _ _ _ _ T f2 ltac:(cbn in Hf; lia)) as (r1' & j & T' & ->).
    exists r1', j. cbn [tm_array]. rewrite N0, E, T'. auto.
Qed.

Lemma skip_zeros_prefix x : forall j,
  skip_zeros (firstn j x) = [] \/ exists j', skip_zeros (firstn j x) = firstn j' (skip_zeros x).
Proof.
  induction x as [|c x IH]; intros j.
  - left. now rewrite firstn_nil.
  - destruct j as [|j]; [left; reflexivity|]. cbn [firstn skip_zeros].
    destruct (N.eqb c 0); [apply IH|]. right. exists (S j). reflexivity.
Qed.

Lemma recs2_prefix f1 : forall f2 j x, (length x <= f2)%nat ->
  prefix (fst (recs2 f1 (firstn j x))) (fst (recs2 f2 x)).
Proof.
  induction f1 as [|f1 IH]; intros f2 j x Hf; [eexists; reflexivity|].
  cbn [recs2]. destruct (firstn j x) as [|c y] eqn:Y; [eexists; reflexivity|]. rewrite <- Y.
  destruct (from_kd_buf (firstn 64 (firstn j x))) as [e|] eqn:D; [|eexists; reflexivity].
  assert (L : length (firstn 64 (firstn j x)) = 64%nat) by (apply from_kd_buf_some_iff; eauto).
  rewrite !firstn_length in L.
  apply Nat.min_l_iff in L.
  assert (Lj : (64 <= j)%nat) by (eapply Nat.min_glb_l; exact L).
  assert (Lx : (64 <= length x)%nat) by (eapply Nat.min_glb_r; exact L).
  assert (E64 : firstn 64 (firstn j x) = firstn 64 x) by (rewrite firstn_firstn; f_equal; now apply Nat.min_l).
  rewrite E64 in D.
  destruct x as [|c0 x0] eqn:X; [cbn in Lx; lia|]. rewrite <- X in *.
  destruct f2 as [|f2]; [rewrite X in Hf; cbn in Hf; lia|].
  cbn [recs2]. rewrite X. rewrite <- X. rewrite D.
  rewrite skipn_firstn_comm.
  specialize (IH f2 (j - 64)%nat (skipn 64 x)).
  assert (Hs : (length (skipn 64 x) <= f2)%nat) by (rewrite skipn_length; lia).
  destruct (IH Hs) as [c' Hc].
  destruct (recs2 f1 (firstn (j - 64) (skipn 64 x))) as [es1 x1].
  destruct (recs2 f2 (skipn 64 x)) as [es2 x2]. cbn [fst] in *.
  exists c'. rewrite Hc. reflexivity.
Qed.

Lemma header_v2_prefix r k tm r1 : header_v2 (firstn k r) = Ok (tm, r1) ->
  exists r1', header_v2 r = Ok (tm, r1') /\ (r1 = [] \/ exists j, r1 = firstn j r1').
Proof.
  unfold header_v2. destruct (length (firstn k r) <? V2_FIXED)%nat eqn:L; [discriminate|].
  apply Nat.ltb_ge in L. rewrite firstn_length in L. unfold V2_FIXED in *.
  replace (length r <? 284)%nat with false by (symmetry; apply Nat.ltb_ge; lia).
  rewrite slice_firstn by lia. rewrite skipn_firstn_comm.
  destruct (tm_array (length (firstn k r)) (le (slice r 0 4)) (firstn (k - 284) (skipn 284 r))) as [[xs q]|] eqn:T;
    [|discriminate].
  intros [= <- <-].
  pose proof (tm_array_length _ _ _ _ _ T) as Lx. rewrite firstn_length, skipn_length in Lx.
  destruct (tm_array_prefix _ _ _ _ _ _ T (length r) ltac:(lia)) as (q' & j & T' & ->).
  rewrite T'. eexists. split; [reflexivity|]. apply skip_zeros_prefix.
Qed.

Theorem parse_v2_truncation r k : prefix (o_events (parse_v2 (firstn k r))) (o_events (parse_v2 r)).
Proof.
  unfold parse_v2. destruct (header_v2 (firstn k r)) as [[tm r1]|e] eqn:H; [|eexists; reflexivity].
  apply header_v2_prefix in H. destruct H as (r1' & -> & Hr).
  destruct Hr as [->|[j ->]].
  - cbn. eexists; reflexivity.
  - pose proof (recs2_prefix (length (firstn j r1')) (length r1') j r1' (le_n _)) as P.
    destruct (recs2 (length (firstn j r1')) (firstn j r1')). destruct (recs2 (length r1') r1'). exact P.
Qed.

(* nothing is fabricated from a partial record: every reported event is the decoding of 64 bytes of the dump *)
Theorem recs2_only_whole f : forall x e, In e (fst (recs2 f x)) ->
  exists i, from_kd_buf (slice x (64 * i) 64) = Some e /\ (64 * i + 64 <= length x)%nat.
Proof.
  induction f as [|f IH]; intros x e; cbn [recs2]; [intros []|].
  destruct x as [|c y] eqn:X; [intros []|]. rewrite <- X.
  destruct (from_kd_buf (firstn 64 x)) as [e0|] eqn:D; [|intros []].
  destruct (recs2 f (skipn 64 x)) as [es z] eqn:R. cbn [fst]. intros [<-|I].
  - exists 0%nat. unfold slice. cbn [Nat.mul skipn]. split; auto.
    assert (length (firstn 64 x) = 64%nat) by (apply from_kd_buf_some_iff; eauto). rewrite firstn_length in H. lia.
  - specialize (IH (skipn 64 x) e). rewrite R in IH. destruct (IH I) as (i & Hi & Li).
    assert (L64 : length (firstn 64 x) = 64%nat) by (apply from_kd_buf_some_iff; eauto). rewrite firstn_length in L64.
    exists (S i). unfold slice in *. rewrite skipn_skipn in Hi. rewrite skipn_length in Li.
    replace (64 * S i)%nat with (64 + 64 * i)%nat by lia. split; [exact Hi|lia].
Qed.

(* TraceCodes.v — model of trace_codes.from_trace_codes_text:
     {int(s[0], 16): s[1] for s in map(lambda l: l.split(), codes_text.splitlines())}
   Text = list of Unicode code points.  str.splitlines / str.split() / int(tok, 16) are library oracles
   written out here (separator sets validated against the interpreter over all code points on every run;
   int(tok,16) modelled on the syntax (0x|0X)?[0-9a-fA-F]+ that the property names). *)
From Coq Require Import NArith List Bool Lia.
From Kd Require Import theories.Base.
Import ListNotations.
Open Scope N_scope.

Definition is_lb (c : N) : bool :=
  (c =? 10) || (c =? 13) || (c =? 11) || (c =? 12) || (c =? 28) || (c =? 29) || (c =? 30)
  || (c =? 133) || (c =? 8232) || (c =? 8233).

Definition is_ws (c : N) : bool :=
  is_lb c || (c =? 9) || (c =? 32) || (c =? 31) || (c =? 160) || (c =? 5760)
  || ((8192 <=? c) && (c <=? 8202)) || (c =? 8239) || (c =? 8287) || (c =? 12288).

(* str.splitlines(): "\r\n" is one break; no empty last line *)
Fixpoint sl (skip : bool) (cur : list N) (l : list N) : list (list N) :=
  match l with
  | [] => match cur with [] => [] | _ => [rev cur] end
  | c :: r =>
    if skip && (c =? 10) then sl false cur r
    else if is_lb c then rev cur :: sl (c =? 13) [] r
    else sl false (c :: cur) r
  end.
Definition splitlines (t : list N) := sl false [] t.

(* str.split() *)
Fixpoint toks (cur : list N) (l : list N) : list (list N) :=
  match l with
  | [] => match cur with [] => [] | _ => [rev cur] end
  | c :: r =>
    if is_ws c then match cur with [] => toks [] r | _ => rev cur :: toks [] r end
    else toks (c :: cur) r
  end.
Definition split (t : list N) := toks [] t.

Definition hexdig (c : N) : option N :=
  if (48 <=? c) && (c <=? 57) then Some (c - 48)
  else if (97 <=? c) && (c <=? 102) then Some (c - 87)
  else if (65 <=? c) && (c <=? 70) then Some (c - 55)
  else None.
Fixpoint hexnum (acc : N) (l : list N) : option N :=
  match l with
  | [] => Some acc
  | c :: r => match hexdig c with Some d => hexnum (acc * 16 + d) r | None => None end
  end.
(* int(tok, 16) on (0x|0X)?hex+ ; None = ValueError (or outside the modelled syntax) *)
Definition parse_hex (tok : list N) : option N :=
  match tok with
  | [] => None
  | a :: x :: d :: r => if (a =? 48) && ((x =? 120) || (x =? 88)) then hexnum 0 (d :: r) else hexnum 0 tok
  | _ => hexnum 0 tok
  end.

Inductive perr := IndexError | ValueError.
Inductive pres (A : Type) := POk (a : A) | PErr (e : perr).
Arguments POk {A}. Arguments PErr {A}.

(* {int(s[0], 16): s[1] ...}: the key expression is evaluated before the value expression, so a line whose only token is not a
   number raises ValueError, not IndexError *)
Definition parse_line (line : list N) : pres (N * list N) :=
  match split line with
  | [] => PErr IndexError                                   (* s[0] on an empty token list *)
  | t0 :: r =>
      match parse_hex t0 with
      | None => PErr ValueError
      | Some n => match r with t1 :: _ => POk (n, t1) | [] => PErr IndexError end      (* s[1] *)
      end
  end.

Fixpoint parse_lines (ls : list (list N)) : pres (list (N * list N)) :=
  match ls with
  | [] => POk []
  | l :: r => match parse_line l with
              | PErr e => PErr e
              | POk p => match parse_lines r with PErr e => PErr e | POk ps => POk (p :: ps) end
              end
  end.

(* the pairs in insertion order; the dict is `lookup_last` of this list *)
Definition from_text (t : list N) : pres (list (N * list N)) := parse_lines (splitlines t).

Fixpoint lookup_last (k : N) (l : list (N * list N)) : option (list N) :=
  match l with
  | [] => None
  | (k', v) :: r => match lookup_last k r with Some x => Some x | None => if N.eqb k' k then Some v else None end
  end.

(* ---------------- rendering side: a table text made of 'hex-id name [anything]' lines ---------------- *)
Record entry := mkEntry {
  e_tok : list N;      (* the id as written: optional 0x/0X, hex digits in either case *)
  e_sep : list N;      (* whitespace between id and name *)
  e_name : list N;
  e_tail : list N;     (* "" or whitespace followed by anything without a line break *)
  e_term : list N      (* line terminator *)
}.

Definition no_lb (l : list N) : bool := forallb (fun c => negb (is_lb c)) l.
Definition no_ws (l : list N) : bool := forallb (fun c => negb (is_ws c)) l.
Definition inline_ws (l : list N) : bool := forallb (fun c => is_ws c && negb (is_lb c)) l.

Definition term_ok (t : list N) : bool :=
  match t with
  | [c] => is_lb c && negb (c =? 13)
  | [c; c2] => (c =? 13) && (c2 =? 10)
  | _ => false
  end.

Definition entry_ok (e : entry) : bool :=
  match parse_hex (e_tok e) with Some _ => true | None => false end
  && negb (match e_sep e with [] => true | _ => false end) && inline_ws (e_sep e)
  && negb (match e_name e with [] => true | _ => false end) && no_ws (e_name e)
  && match e_tail e with [] => true | s :: r => is_ws s && no_lb (s :: r) end
  && term_ok (e_term e).

Definition render_entry (e : entry) : list N := e_tok e ++ e_sep e ++ e_name e ++ e_tail e ++ e_term e.
Definition render (es : list entry) : list N := flat_map render_entry es.
Definition pair_of (e : entry) : N * list N :=
  (match parse_hex (e_tok e) with Some n => n | None => 0 end, e_name e).

(* ---------------- lemmas ---------------- *)
Lemma is_lb_ws c : is_lb c = true -> is_ws c = true.
Proof. unfold is_ws. intros ->. reflexivity. Qed.

Lemma toks_nows w : forall cur l, no_ws w = true -> toks cur (w ++ l) = toks (rev w ++ cur) l.
Proof.
  induction w as [|c w IH]; intros cur l H; cbn [app rev]; auto.
  cbn [no_ws forallb] in H. apply andb_true_iff in H. destruct H as [Hc Hw].
  cbn [toks]. apply negb_true_iff in Hc. rewrite Hc. rewrite IH by exact Hw.
  rewrite <- app_assoc. reflexivity.
Qed.

Lemma toks_ws s : forall l, forallb is_ws s = true -> toks [] (s ++ l) = toks [] l.
Proof.
  induction s as [|c s IH]; intros l H; cbn [app]; auto.
  cbn [forallb] in H. apply andb_true_iff in H. destruct H as [Hc Hs]. cbn [toks]. rewrite Hc. apply IH, Hs.
Qed.

Lemma inline_ws_ws s : inline_ws s = true -> forallb is_ws s = true.
Proof.
  unfold inline_ws. rewrite !forallb_forall. intros H x Hx. specialize (H x Hx).
  apply andb_true_iff in H. tauto.
Qed.

Lemma hexdig_nows c d : hexdig c = Some d -> is_ws c = false.
Proof.
  unfold hexdig. intros H.
  destruct ((48 <=? c) && (c <=? 57)) eqn:A; [|destruct ((97 <=? c) && (c <=? 102)) eqn:B;
    [|destruct ((65 <=? c) && (c <=? 70)) eqn:C; [|discriminate]]];
  match goal with X : (_ && _) = true |- _ => apply andb_true_iff in X; destruct X as [X1 X2];
    apply N.leb_le in X1; apply N.leb_le in X2 end;
  unfold is_ws, is_lb;
  repeat match goal with |- context [?a =? ?b] => replace (a =? b) with false by (symmetry; apply N.eqb_neq; lia) end;
  replace (8192 <=? c) with false by (symmetry; apply N.leb_gt; lia); reflexivity.
Qed.

Lemma hexnum_nows l : forall acc n, hexnum acc l = Some n -> no_ws l = true.
Proof.
  induction l as [|c l IH]; intros acc n H; cbn; auto. cbn in H.
  destruct (hexdig c) eqn:D; [|discriminate]. rewrite (hexdig_nows c _ D). cbn. eapply IH; eauto.
Qed.

Lemma parse_hex_nows tok n : parse_hex tok = Some n -> no_ws tok = true.
Proof.
  unfold parse_hex. destruct tok as [|a [|x [|d r]]]; try discriminate;
    try (intros H; eapply hexnum_nows; eauto; fail).
  destruct ((a =? 48) && ((x =? 120) || (x =? 88))) eqn:C; [|intros H; eapply hexnum_nows; eauto].
  apply andb_true_iff in C. destruct C as [A X]. apply N.eqb_eq in A. subst a.
  intros H. apply hexnum_nows in H. cbn [no_ws forallb] in *.
  assert (is_ws x = false).
  { apply orb_true_iff in X. destruct X as [X|X]; apply N.eqb_eq in X; subst; reflexivity. }
  rewrite H0. cbn. exact H.
Qed.

Lemma split_entry e :
  entry_ok e = true ->
  exists rest, split (e_tok e ++ e_sep e ++ e_name e ++ e_tail e) = e_tok e :: e_name e :: rest.
Proof.
  unfold entry_ok. rewrite !andb_true_iff. intros [[[[[[Ht Hs0] Hs] Hn0] Hn] Htl] _].
  destruct (parse_hex (e_tok e)) as [n|] eqn:P; [|discriminate].
  pose proof (parse_hex_nows _ _ P) as Tn.
  unfold split. rewrite toks_nows by exact Tn. rewrite app_nil_r.
  destruct (e_sep e) as [|s sep]; [discriminate|]. cbn [app].
  cbn [inline_ws forallb] in Hs. apply andb_true_iff in Hs. destruct Hs as [Hs1 Hs2].
  apply andb_true_iff in Hs1. destruct Hs1 as [Hs1 _].
  cbn [toks]. rewrite Hs1.
  destruct (rev (e_tok e)) as [|c0 rt] eqn:R.
  { exfalso. destruct (e_tok e) as [|a b]; [discriminate|]. cbn in R. apply app_eq_nil in R. destruct R; discriminate. }
  rewrite <- R, rev_involutive.
  rewrite toks_ws by (apply inline_ws_ws; exact Hs2).
  rewrite toks_nows by exact Hn. rewrite app_nil_r.
  destruct (e_name e) as [|n0 nm] eqn:NM; [discriminate|]. rewrite <- NM in *.
  assert (RN : rev (e_name e) <> []).
  { rewrite NM. cbn. intros X. apply app_eq_nil in X. destruct X; discriminate. }
  destruct (e_tail e) as [|t0 tl].
  - cbn [toks]. destruct (rev (e_name e)) eqn:RR; [congruence|]. rewrite <- RR, rev_involutive. eauto.
  - apply andb_true_iff in Htl. destruct Htl as [Ht0 _]. cbn [toks]. rewrite Ht0.
    destruct (rev (e_name e)) eqn:RR; [congruence|]. rewrite <- RR, rev_involutive. eauto.
Qed.

Lemma sl_nolb w : forall cur l, no_lb w = true -> sl false cur (w ++ l) = sl false (rev w ++ cur) l.
Proof.
  induction w as [|c w IH]; intros cur l H; cbn [app rev]; auto.
  cbn [no_lb forallb] in H. apply andb_true_iff in H. destruct H as [Hc Hw].
  cbn [sl andb]. apply negb_true_iff in Hc. rewrite Hc. rewrite IH by exact Hw.
  rewrite <- app_assoc. reflexivity.
Qed.

Lemma no_ws_no_lb l : no_ws l = true -> no_lb l = true.
Proof.
  unfold no_ws, no_lb. rewrite !forallb_forall. intros H x Hx. specialize (H x Hx).
  apply negb_true_iff in H. apply negb_true_iff. destruct (is_lb x) eqn:E; auto.
  apply is_lb_ws in E. congruence.
Qed.

Lemma inline_no_lb l : inline_ws l = true -> no_lb l = true.
Proof.
  unfold inline_ws, no_lb. rewrite !forallb_forall. intros H x Hx. specialize (H x Hx).
  apply andb_true_iff in H. tauto.
Qed.

Lemma no_lb_app a b : no_lb a = true -> no_lb b = true -> no_lb (a ++ b) = true.
Proof. unfold no_lb. rewrite forallb_app. intros -> ->. reflexivity. Qed.

Lemma sl_entry e rest :
  entry_ok e = true ->
  splitlines (render_entry e ++ rest) = (e_tok e ++ e_sep e ++ e_name e ++ e_tail e) :: splitlines rest.
Proof.
  intros Ok. pose proof Ok as Ok'. unfold entry_ok in Ok. rewrite !andb_true_iff in Ok.
  destruct Ok as [[[[[[Ht Hs0] Hs] Hn0] Hn] Htl] Htm].
  destruct (parse_hex (e_tok e)) as [n|] eqn:P; [|discriminate].
  assert (NL : no_lb (e_tok e ++ e_sep e ++ e_name e ++ e_tail e) = true).
  { repeat apply no_lb_app.
    - apply no_ws_no_lb. eapply parse_hex_nows; eauto.
    - apply inline_no_lb; auto.
    - apply no_ws_no_lb; auto.
    - destruct (e_tail e); auto. apply andb_true_iff in Htl. tauto. }
  unfold splitlines, render_entry.
  replace ((e_tok e ++ e_sep e ++ e_name e ++ e_tail e ++ e_term e) ++ rest)
    with ((e_tok e ++ e_sep e ++ e_name e ++ e_tail e) ++ e_term e ++ rest)
    by (rewrite <- !app_assoc; reflexivity).
  rewrite sl_nolb by exact NL. rewrite app_nil_r, <- (rev_involutive (e_tok e ++ _ ++ _ ++ _)).
  set (L := rev (e_tok e ++ e_sep e ++ e_name e ++ e_tail e)).
  unfold term_ok in Htm. destruct (e_term e) as [|c [|c2 [|c3 t]]]; try discriminate.
  - apply andb_true_iff in Htm. destruct Htm as [Lb N13]. apply negb_true_iff in N13.
    cbn [app sl andb]. rewrite Lb, N13, rev_involutive. reflexivity.
  - apply andb_true_iff in Htm. destruct Htm as [E13 E10]. apply N.eqb_eq in E13, E10. subst c c2.
    cbn [app sl andb]. cbn. rewrite rev_involutive. reflexivity.
Qed.

Theorem from_text_render es :
  forallb entry_ok es = true -> from_text (render es) = POk (map pair_of es).
Proof.
  unfold from_text. induction es as [|e es IH]; intros H; [reflexivity|].
  cbn [forallb] in H. apply andb_true_iff in H. destruct H as [He Hes].
  cbn [render flat_map]. fold (render es). rewrite sl_entry by exact He.
  cbn [parse_lines]. unfold parse_line.
  destruct (split_entry e He) as [rest ->].
  unfold entry_ok in He. rewrite !andb_true_iff in He. destruct He as [[[[[[Ht _] _] _] _] _] _].
  destruct (parse_hex (e_tok e)) as [n|] eqn:P; [|discriminate].
  rewrite (IH Hes). cbn [map]. do 2 f_equal. unfold pair_of. rewrite P. reflexivity.
Qed.

(* last occurrence wins, nothing else is in the mapping *)
Lemma lookup_last_In k v l : lookup_last k l = Some v -> In (k, v) l.
Proof.
  induction l as [|[k' v'] r IH]; cbn; [discriminate|].
  destruct (lookup_last k r) eqn:L.
  - intros [= ->]. right. apply IH. reflexivity.
  - destruct (N.eqb k' k) eqn:E; [|discriminate]. intros [= ->]. apply N.eqb_eq in E. subst. left; auto.
Qed.

Lemma lookup_last_app k a b :
  lookup_last k (a ++ b) = match lookup_last k b with Some v => Some v | None => lookup_last k a end.
Proof.
  induction a as [|[k' v'] r IH]; cbn; [destruct (lookup_last k b); reflexivity|].
  rewrite IH. destruct (lookup_last k b); reflexivity.
Qed.

Lemma lookup_last_none k l : lookup_last k l = None <-> ~ In k (map fst l).
Proof.
  induction l as [|[k' v'] r IH]; cbn; [tauto|].
  destruct (lookup_last k r) eqn:L.
  - split; [discriminate|]. intros H. exfalso. apply H. right. apply lookup_last_In in L.
    apply (in_map fst) in L. exact L.
  - destruct (N.eqb k' k) eqn:E.
    + apply N.eqb_eq in E. split; [discriminate|]. intros H. exfalso. apply H. left; auto.
    + apply N.eqb_neq in E. split; auto. intros _ [H|H]; [congruence|]. apply IH in H; auto.
Qed.

(* canonical renderings of an id *)
Definition hexdigits_upper (l : list N) : list N := map (fun c => if (97 <=? c) && (c <=? 102) then c - 32 else c) l.

(* Darwin.v — reference values written from the XNU headers (sys/fcntl.h, sys/stat.h, unistd.h, sys/socket.h,
   sys/file.h, mach/vm_prot.h, kern/ast.h, kern/thread.h, kperf/action.h, kperf/callstack.h, kperf/thread_samplers.h,
   dlfcn.h), keyed by the tool's enum class.  Only families whose values are certain are listed; the others are
   proved sound/complete with respect to the tool's own table only (named in the C11 evidence). *)
From Coq Require Import String ZArith List.
Import ListNotations.
Local Open Scope string_scope.
Local Open Scope Z_scope.

Definition darwin_ref : list (string * list (string * Z)) := [
  ("BscOpenFlags", [("O_RDONLY", 0); ("O_WRONLY", 1); ("O_RDWR", 2); ("O_ACCMODE", 3); ("O_NONBLOCK", 4); ("O_APPEND", 8);
                    ("O_SHLOCK", 0x10); ("O_EXLOCK", 0x20); ("O_ASYNC", 0x40); ("O_NOFOLLOW", 0x100); ("O_CREAT", 0x200);
                    ("O_TRUNC", 0x400); ("O_EXCL", 0x800); ("O_EVTONLY", 0x8000); ("O_SYMLINK", 0x200000);
                    ("O_CLOEXEC", 0x1000000)]);
  ("StatFlags", [("S_IXOTH", 1); ("S_IWOTH", 2); ("S_IROTH", 4); ("S_IXGRP", 8); ("S_IWGRP", 16); ("S_IRGRP", 32);
                 ("S_IXUSR", 64); ("S_IWUSR", 128); ("S_IRUSR", 256); ("S_ISTXT", 512); ("S_ISGID", 1024); ("S_ISUID", 2048);
                 ("S_IFIFO", 4096); ("S_IFCHR", 8192); ("S_IFDIR", 16384); ("S_IFBLK", 24576); ("S_IFREG", 32768);
                 ("S_IFLNK", 40960); ("S_IFSOCK", 49152)]);
  ("BscAccessFlags", [("F_OK", 0); ("X_OK", 1); ("W_OK", 2); ("R_OK", 4)]);
  ("SocketMsgFlags", [("MSG_OOB", 1); ("MSG_PEEK", 2); ("MSG_DONTROUTE", 4); ("MSG_EOR", 8); ("MSG_TRUNC", 0x10);
                      ("MSG_CTRUNC", 0x20); ("MSG_WAITALL", 0x40); ("MSG_DONTWAIT", 0x80); ("MSG_EOF", 0x100);
                      ("MSG_WAITSTREAM", 0x200); ("MSG_FLUSH", 0x400); ("MSG_HOLD", 0x800); ("MSG_SEND", 0x1000);
                      ("MSG_HAVEMORE", 0x2000); ("MSG_RCVMORE", 0x4000); ("MSG_COMPAT", 0x8000); ("MSG_NEEDSA", 0x10000);
                      ("MSG_NBIO", 0x20000); ("MSG_SKIPCFIL", 0x40000); ("MSG_USEUPCALL", 0x80000000)]);
  ("FlockOperation", [("LOCK_SH", 1); ("LOCK_EX", 2); ("LOCK_NB", 4); ("LOCK_UN", 8)]);
  ("BscChangeableFlags", [("UF_NODUMP", 1); ("UF_IMMUTABLE", 2); ("UF_APPEND", 4); ("UF_OPAQUE", 8); ("UF_HIDDEN", 0x8000);
                          ("SF_ARCHIVED", 0x10000); ("SF_IMMUTABLE", 0x20000); ("SF_APPEND", 0x40000)]);
  ("VmProtection", [("VM_PROT_NONE", 0); ("VM_PROT_READ", 1); ("VM_PROT_WRITE", 2); ("VM_PROT_EXECUTE", 4);
                    ("VM_PROT_NO_CHANGE", 8); ("VM_PROT_COPY", 0x10); ("VM_PROT_TRUSTED", 0x20); ("VM_PROT_IS_MASK", 0x40);
                    ("VM_PROT_STRIP_READ", 0x80)]);
  ("ThreadState", [("TH_WAIT", 1); ("TH_SUSP", 2); ("TH_RUN", 4); ("TH_UNINT", 8); ("TH_TERMINATE", 0x10);
                   ("TH_TERMINATE2", 0x20); ("TH_WAIT_REPORT", 0x40); ("TH_IDLE", 0x80)]);
  ("RtldFlag", [("RTLD_LAZY", 1); ("RTLD_NOW", 2); ("RTLD_LOCAL", 4); ("RTLD_GLOBAL", 8); ("RTLD_NOLOAD", 0x10);
                ("RTLD_NODELETE", 0x80); ("RTLD_FIRST", 0x100)]);
  ("SamplerAction", [("SAMPLER_TH_INFO", 1); ("SAMPLER_TH_SNAPSHOT", 2); ("SAMPLER_KSTACK", 4); ("SAMPLER_USTACK", 8);
                     ("SAMPLER_PMC_THREAD", 0x10); ("SAMPLER_PMC_CPU", 0x20); ("SAMPLER_PMC_CONFIG", 0x40);
                     ("SAMPLER_MEMINFO", 0x80); ("SAMPLER_TH_SCHEDULING", 0x100); ("SAMPLER_TH_DISPATCH", 0x200);
                     ("SAMPLER_TK_SNAPSHOT", 0x400); ("SAMPLER_SYS_MEM", 0x800); ("SAMPLER_TH_INSCYC", 0x1000);
                     ("SAMPLER_TK_INFO", 0x2000)]);
  ("CallstackFlag", [("CALLSTACK_VALID", 1); ("CALLSTACK_DEFERRED", 2); ("CALLSTACK_64BIT", 4); ("CALLSTACK_KERNEL", 8);
                     ("CALLSTACK_TRUNCATED", 0x10); ("CALLSTACK_CONTINUATION", 0x20); ("CALLSTACK_KERNEL_WORDS", 0x40);
                     ("CALLSTACK_TRANSLATED", 0x80); ("CALLSTACK_FIXUP_PC", 0x100)]);
  ("AsynchronousSystemTrapsReason",
   [("AST_NONE", 0); ("AST_PREEMPT", 1); ("AST_QUANTUM", 2); ("AST_URGENT", 4); ("AST_HANDOFF", 8); ("AST_YIELD", 0x10);
    ("AST_APC", 0x20); ("AST_LEDGER", 0x40); ("AST_BSD", 0x80); ("AST_KPERF", 0x100); ("AST_MACF", 0x200);
    ("AST_RESET_PCS", 0x400); ("AST_ARCADE", 0x800); ("AST_GUARD", 0x1000); ("AST_TELEMETRY_USER", 0x2000);
    ("AST_TELEMETRY_KERNEL", 0x4000); ("AST_TELEMETRY_PMI", 0x8000); ("AST_SFI", 0x10000); ("AST_DTRACE", 0x20000);
    ("AST_TELEMETRY_IO", 0x40000); ("AST_KEVENT", 0x80000); ("AST_REBALANCE", 0x100000); ("AST_UNQUIESCE", 0x200000)]);
  ("KperfTiState", [("KPERF_TI_RUNNING", 1); ("KPERF_TI_RUNNABLE", 2); ("KPERF_TI_WAIT", 4); ("KPERF_TI_UNINT", 8);
                    ("KPERF_TI_SUSP", 0x10); ("KPERF_TI_TERMINATE", 0x20); ("KPERF_TI_IDLE", 0x40)])
].

(* ioctl direction values (sys/ioccom.h) *)
From Coq Require Import NArith.
Definition IOC_VOID : N := 0x20000000%N. Definition IOC_OUT : N := 0x40000000%N. Definition IOC_IN : N := 0x80000000%N.
Definition IOC_INOUT : N := 0xc0000000%N. Definition IOC_DIRMASK : N := 0xe0000000%N. Definition IOCPARM_MASK : N := 0x1fff%N.

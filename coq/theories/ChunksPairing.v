(* ChunksPairing.v — the records of one split path / string go through the pairing machine as ONE trace:
   the START record opens the window, the unqualified continuation records are swallowed (F07 repair), the END record
   delivers the whole run; a single START|END record is delivered alone.  (C08 "exactly once") *)
From Coq Require Import NArith List Bool Lia.
From Kd Require Import theories.Pairing theories.PairingProofs.
Import ListNotations.
Open Scope N_scope.

Section CP.
  Variable dom : N -> bool.
  Variable dec : N -> bool.
  Variables (t c : N).                      (* emitting thread, the lookup / string code *)
  Hypothesis decodable : dec c = true.

  Definition K : key := (t, c).
  Definition mid (u : N) : pev := mkPev t c QN u.

  Lemma isS_mid u : isS K (mid u) = false. Proof. unfold isS. cbn. apply andb_false_r. Qed.
  Lemma isE_mid u : isE K (mid u) = false. Proof. unfold isE. cbn. apply andb_false_r. Qed.
  Lemma sideT_mid u : sideT dom K (mid u) = true.
  Proof. unfold sideT, K. cbn. rewrite N.eqb_refl, eqb_reflx. reflexivity. Qed.

  (* after the START record s and continuation records `mids`, the window of the key is s :: mids *)
  Lemma window_after_mids hr s us : p_tid s = t -> p_code s = c -> p_q s = QS ->
    window dom (rev (map mid us) ++ s :: hr) K = Some (s :: map mid us) /\
    is_open (rev (map mid us) ++ s :: hr) K = true.
  Proof.
    intros Ht Hc Hq.
    assert (S0 : isS K s = true).
    { unfold isS, kof, K, keyb. cbn. rewrite Ht, Hc, !N.eqb_refl, Hq. reflexivity. }
    induction us as [|u us IH] using rev_ind.
    - cbn [map rev app Pairing.window is_open]. rewrite S0. auto.
    - rewrite map_app, rev_app_distr. cbn [map rev app Pairing.window is_open].
      rewrite isS_mid, isE_mid. destruct IH as [-> ->]. rewrite sideT_mid.
      unfold strayb. cbn [p_q mid andb negb map app]. auto.
  Qed.

  (* n >= 2 records: None for the START and for every continuation, the whole run at the END *)
  Theorem split_delivered_once hr s us e :
    p_tid s = t -> p_code s = c -> p_q s = QS -> p_tid e = t -> p_code e = c -> p_q e = QE ->
    spec_run dom dec hr (s :: map mid us ++ [e]) =
      None :: map (fun _ => None) us ++ [Some (s :: map mid us ++ [e])].
  Proof.
    intros Ht Hc Hq Het Hec Heq. cbn [spec_run]. unfold spec_out at 1. rewrite Hq. f_equal.
    assert (G : forall done todo,
      spec_run dom dec (rev (map mid done) ++ s :: hr) (map mid todo ++ [e]) =
      map (fun _ => None) todo ++ [Some (s :: map mid (done ++ todo) ++ [e])]).
    { intros done todo. revert done. induction todo as [|u todo IH]; intros done.
      - cbn [map app spec_run]. rewrite app_nil_r. unfold spec_out. rewrite Heq.
        replace (kof e) with K by (unfold kof, K; now rewrite Het, Hec).
        destruct (window_after_mids hr s done Ht Hc Hq) as [-> _].
        cbn [app deliver]. rewrite Hc, decodable. reflexivity.
      - cbn [map app spec_run]. unfold spec_out at 1. cbn [p_q mid].
        replace (kof (mid u)) with K by reflexivity.
        destruct (window_after_mids hr s done Ht Hc Hq) as [_ ->]. f_equal.
        specialize (IH (done ++ [u])). rewrite map_app, rev_app_distr in IH. cbn [map rev app] in IH.
        rewrite IH. rewrite <- app_assoc. reflexivity. }
    apply (G [] us).
  Qed.

  (* a text that fits one record: START|END, delivered alone *)
  Theorem single_delivered_once hr a : p_code a = c -> p_q a = QA -> spec_run dom dec hr [a] = [Some [a]].
  Proof. intros Hc Hq. cbn [spec_run]. unfold spec_out. rewrite Hq. cbn [deliver]. now rewrite Hc, decodable. Qed.
End CP.

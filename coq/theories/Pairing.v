(* Pairing.v — executable model of TracesParser's START/END pairing machine
   (pykdebugparser/traces_parser.py: feed, _feed_start_event, _feed_end_event, _feed_single_event,
   parse_event_list) and the per-key functional specification the C04/C05 theorems are stated against.

   The nested dict  state[tid][eventid] -> [events]  is flattened to an association list keyed by
   (tid, eventid); emptied inner dicts are unobservable.  There are two such tables: on_going_events
   and on_going_traces (the kernel trace-string/data domain).  `dom code` says whether a code is routed
   to the trace table (its name is a key of trace_handlers), `dec code` whether its name has a decoder.
   Both are functions of the event id for a fixed code table, and are parameters here. *)
From Coq Require Import NArith List Bool Lia.
Import ListNotations.
Open Scope N_scope.

Inductive qual := QN | QS | QE | QA.
Definition qual_of_N (n : N) : qual :=
  match n with 1 => QS | 2 => QE | 3 => QA | _ => QN end.

(* p_uid identifies the record (its position in the stream); the machine never looks at it *)
Record pev := mkPev { p_tid : N; p_code : N; p_q : qual; p_uid : N }.

Definition key := (N * N)%type.
Definition keyb (a b : key) : bool := N.eqb (fst a) (fst b) && N.eqb (snd a) (snd b).
Definition kof (e : pev) : key := (p_tid e, p_code e).
Definition tbl := list (key * list pev).

Fixpoint find (k : key) (s : tbl) : option (list pev) :=
  match s with [] => None | (k', w) :: r => if keyb k k' then Some w else find k r end.
Definition remove (k : key) (s : tbl) : tbl := filter (fun p => negb (keyb k (fst p))) s.
(* `for eventid in state[tid]: state[tid][eventid].append(event)` *)
Definition app_tid (e : pev) (s : tbl) : tbl :=
  map (fun p => if N.eqb (fst (fst p)) (p_tid e) then (fst p, snd p ++ [e]) else p) s.

(* the three qualifier actions on one table; second component = the event list handed to
   parse_event_list (None = nothing handed over) *)
Definition step1 (e : pev) (s : tbl) : tbl * option (list pev) :=
  match p_q e with
  | QS => (app_tid e ((kof e, []) :: remove (kof e) s), None)
  | QE => match find (kof e) s with
          | None => (s, None)
          | Some _ => let s' := app_tid e s in (remove (kof e) s', find (kof e) s')
          end
  | QN => (app_tid e s, match find (kof e) s with Some _ => None | None => Some [e] end)
  | QA => (app_tid e s, Some [e])
  end.

Section Machine.
  Variable dom : N -> bool.   (* code is routed to on_going_traces *)
  Variable dec : N -> bool.   (* code's name has a registered decoder *)

  Record pstate := mkPst { st_events : tbl; st_traces : tbl }.
  Definition pst0 := mkPst [] [].
  Definition tab (d : bool) (st : pstate) : tbl := if d then st_traces st else st_events st.
  Definition set_tab (d : bool) (t : tbl) (st : pstate) : pstate :=
    if d then mkPst (st_events st) t else mkPst t (st_traces st).

  (* parse_event_list: a trace object is produced only when the head's code has a decoder *)
  Definition deliver (w : list pev) : option (list pev) :=
    match w with [] => None | h :: _ => if dec (p_code h) then Some w else None end.

  Definition feed (st : pstate) (e : pev) : pstate * option (list pev) :=
    let d := dom (p_code e) in
    let (t', o) := step1 e (tab d st) in
    (set_tab d t' st, match o with Some w => deliver w | None => None end).

  (* feed_generator: outputs in stream order, paired with nothing else *)
  Fixpoint run (st : pstate) (h : list pev) : pstate * list (list pev) :=
    match h with
    | [] => (st, [])
    | e :: r => let (st1, o) := feed st e in
                let (st2, os) := run st1 r in
                (st2, match o with Some w => w :: os | None => os end)
    end.

  (* per-event outputs (option), used by the correspondence and the projection theorem *)
  Fixpoint run_opt (st : pstate) (h : list pev) : list (option (list pev)) :=
    match h with
    | [] => []
    | e :: r => let (st1, o) := feed st e in o :: run_opt st1 r
    end.

  (* ---------------- specification: history most-recent-first ---------------- *)
  Definition isS (k : key) (e : pev) : bool := keyb k (kof e) && match p_q e with QS => true | _ => false end.
  Definition isE (k : key) (e : pev) : bool := keyb k (kof e) && match p_q e with QE => true | _ => false end.

  (* the most recent START-or-END record of key k is a START *)
  Fixpoint is_open (hr : list pev) (k : key) : bool :=
    match hr with
    | [] => false
    | e :: r => if isS k e then true else if isE k e then false else is_open r k
    end.
  (* an END with no open START of its own *)
  Definition strayb (r : list pev) (e : pev) : bool :=
    match p_q e with QE => negb (is_open r (kof e)) | _ => false end.
  (* same thread and same pairing domain *)
  Definition sideT (k : key) (e : pev) : bool :=
    N.eqb (fst k) (p_tid e) && Bool.eqb (dom (snd k)) (dom (p_code e)).

  Fixpoint window (hr : list pev) (k : key) : option (list pev) :=
    match hr with
    | [] => None
    | e :: r =>
      if isS k e then Some [e]
      else if isE k e then None
      else match window r k with
           | None => None
           | Some w => Some (if sideT k e && negb (strayb r e) then w ++ [e] else w)
           end
    end.

  (* what feed hands out for event e after history hr (reversed) *)
  Definition spec_out (hr : list pev) (e : pev) : option (list pev) :=
    match p_q e with
    | QS => None
    | QE => match window hr (kof e) with Some w => deliver (w ++ [e]) | None => None end
    | QN => if is_open hr (kof e) then None else deliver [e]
    | QA => deliver [e]
    end.

  Fixpoint spec_run (hr : list pev) (h : list pev) : list (option (list pev)) :=
    match h with
    | [] => []
    | e :: r => spec_out hr e :: spec_run (e :: hr) r
    end.
End Machine.

(* FiltersTraces.v — model of PyKdebugParser.traces(): helper classes, event selection, the pairing machine, the
   post-filters; and the theorem that class / subclass / thread filters commute with decoding.  (C13) *)
From Coq Require Import NArith List Bool Lia.
From Kd Require Import theories.Base theories.Printers theories.Filters theories.Pairing theories.PairingProofs
  theories.PairingProj theories.PairingFilter.
Import ListNotations.
Open Scope N_scope.

Definition DBG_TRACE := 7.
Definition DBG_FSYSTEM := 3.
Definition DBG_BSD := 4.
Definition DBG_PERF := 37.

Definition has_filters (cfg : fcfg) : bool := nonempty (c_class cfg) || nonempty (c_sub cfg).
Definition add_trace_class (cfg : fcfg) : bool := has_filters cfg && negb (memN DBG_TRACE (c_class cfg)).
Definition has_bsd (cfg : fcfg) : bool :=
  memN DBG_BSD (c_class cfg) || existsb (fun sc => N.eqb (N.shiftr sc 8) DBG_BSD) (c_sub cfg).
Definition add_fs_class (cfg : fcfg) : bool := has_filters cfg && has_bsd cfg && negb (memN DBG_FSYSTEM (c_class cfg)).
(* sampler thread-data records declare the process of a thread (like the new-thread / exec records of the trace class) *)
Definition add_perf_class (cfg : fcfg) : bool := has_filters cfg && negb (memN DBG_PERF (c_class cfg)).
Definition helper_classes (cfg : fcfg) : list N :=
  (if add_trace_class cfg then [DBG_TRACE] else []) ++ (if add_fs_class cfg then [DBG_FSYSTEM] else [])
  ++ (if add_perf_class cfg then [DBG_PERF] else []).

Definition cls (code : N) : N := N.shiftr code 24.

(* which events reach the pairing machine (kevents(kdebug, helper_classes), class part) *)
Definition fed (cfg : fcfg) (code : N) : bool :=
  if has_filters cfg then memN (cls code) (helper_classes cfg) || allowed cfg code else true.
(* the post-filters on the head event id of a trace *)
Definition post_keep (cfg : fcfg) (code : N) : bool :=
  (negb (add_trace_class cfg) || negb (N.eqb (cls code) DBG_TRACE) || allowed cfg code)
  && (negb (add_fs_class cfg) || negb (N.eqb (cls code) DBG_FSYSTEM) || allowed cfg code)
  && (negb (add_perf_class cfg) || negb (N.eqb (cls code) DBG_PERF) || allowed cfg code).
(* what the caller asked for *)
Definition requested (cfg : fcfg) (code : N) : bool := negb (has_filters cfg) || allowed cfg code.

Lemma memN_one x y : memN x [y] = N.eqb x y.
Proof. unfold memN. cbn. apply orb_false_r. Qed.

(* consumed but never reported unless requested: among the events that are fed, exactly the requested ones survive *)
Theorem fed_post_requested cfg code : fed cfg code && post_keep cfg code = requested cfg code.
Proof.
  unfold fed, post_keep, requested, helper_classes.
  destruct (has_filters cfg) eqn:HF; cbn [negb orb].
  - destruct (allowed cfg code) eqn:A; rewrite ?orb_true_r; cbn [orb andb]; auto.
    rewrite !orb_false_r.
    destruct (add_trace_class cfg) eqn:T, (add_fs_class cfg) eqn:F, (add_perf_class cfg) eqn:Q; cbn [negb orb app];
      unfold memN; cbn [existsb]; rewrite ?orb_false_r;
      destruct (N.eqb (cls code) DBG_TRACE) eqn:E7, (N.eqb (cls code) DBG_FSYSTEM) eqn:E3,
               (N.eqb (cls code) DBG_PERF) eqn:E37; cbn; auto.
  - unfold add_trace_class, add_fs_class, add_perf_class. rewrite HF. reflexivity.
Qed.

Section T.
  Variable dom : N -> bool.
  Variable dec : N -> bool.

  Definition tid_keep (cfg : fcfg) (e : pev) : bool := tid_ok (c_tid cfg) (p_tid e).

  (* (trigger, delivered window) of traces(): events selected, paired, post-filtered *)
  Definition traces_model (cfg : fcfg) (h : list pev) : list (pev * option (list pev)) :=
    filter (fun p => match snd p with Some _ => post_keep cfg (p_code (fst p)) | None => false end)
           (pairs dom dec [] (filter (P (fed cfg)) (filter (tid_keep cfg) h))).

  Definition cfg_tid_only (cfg : fcfg) : fcfg := mkCfg (c_tid cfg) (c_proc cfg) [] [].

  Lemma fed_nofilter cfg code : fed (cfg_tid_only cfg) code = true.
  Proof. reflexivity. Qed.

  Lemma filter_true {A} (l : list A) : filter (fun _ => true) l = l.
  Proof. induction l; cbn; congruence. Qed.

  (* class and BSD-subclass filters commute with decoding: the filtered request yields exactly the traces of the
     same request without class filters whose code is requested, in the same order, each window restricted to the
     events that were fed (own class, trace strings, lookups) *)
  Theorem traces_commute_class cfg h :
    traces_model cfg h =
    map (restrict (fed cfg))
        (filter (fun p => requested cfg (p_code (fst p)))
                (traces_model (cfg_tid_only cfg) h)).
  Proof.
    unfold traces_model.
    set (ht := filter (tid_keep cfg) h).
    replace (filter (tid_keep (cfg_tid_only cfg)) h) with ht by reflexivity.
    replace (filter (P (fed (cfg_tid_only cfg))) ht) with ht
      by (symmetry; unfold P; rewrite (filter_ext_in' _ (fun _ => true)); [apply filter_true|reflexivity]).
    pose proof (filtered_run dom dec (fed cfg) ht []) as FR. cbn [filter] in FR. rewrite FR.
    generalize (pairs dom dec [] ht). intros l. clear.
    induction l as [|[e o] l IH]; cbn [filter map]; auto.
    unfold Pp at 1. cbn [fst snd]. unfold P at 1.
    destruct o as [w|]; cbn [snd fst].
    - replace (post_keep (cfg_tid_only cfg) (p_code e)) with true by reflexivity. cbn [filter fst].
      destruct (fed cfg (p_code e)) eqn:F.
      + cbn [map filter restrict fst snd option_map].
        pose proof (fed_post_requested cfg (p_code e)) as R. rewrite F in R. cbn [andb] in R. rewrite R.
        destruct (requested cfg (p_code e)); cbn [map]; rewrite IH; reflexivity.
      + pose proof (fed_post_requested cfg (p_code e)) as R. rewrite F in R. cbn [andb] in R. rewrite <- R. exact IH.
    - destruct (fed cfg (p_code e)); cbn [map filter restrict fst snd option_map]; exact IH.
  Qed.

  (* thread filter: from the per-thread projection of the pairing machine (C05) *)
  Theorem traces_commute_tid t (h : list pev) :
    filter (onTp t) (run_pairs dom dec h) = run_pairs dom dec (filter (onT t) h).
  Proof. apply run_pairs_proj. Qed.
End T.

(* PairingIR.v — the statements of TracesParser._feed_start_event / _feed_end_event / _feed_single_event as a small
   instruction set over the nested dict  state[tid][eventid] -> [events]  (inner dicts tracked, so that a KeyError on a
   missing thread is expressible), its interpreter, and the refinement theorem: the REGENERATED instruction lists
   (gen/GenPairing.v, written by tools/translate/tr_pairing.py from the source on every run) compute exactly
   Pairing.step1, on which the C04 / C05 / C08 / C13 theorems are proved.  *)
From Coq Require Import NArith List Bool Lia.
From Kd Require Import theories.Pairing theories.PairingProofs.
Import ListNotations.
Open Scope N_scope.

Inductive pstmt :=
| PEnsureInner                 (* if event.tid not in state: state[event.tid] = {} *)
| PResetOwn                    (* state[event.tid][event.eventid] = [] *)
| PAppendAll (safe : bool)     (* for c in state[event.tid] (safe: state.get(event.tid, {})): state[event.tid][c].append(event) *)
| PReturnIfAbsent              (* if event.tid not in state or event.eventid not in state[event.tid]: return *)
| PPopDeliver                  (* events = state[event.tid].pop(event.eventid); return self.parse_event_list(events) *)
| PReturnNoneIfContinuation    (* if qualifier == NONE and event.eventid in state.get(event.tid, {}): return None *)
| PDeliverSingle.              (* return self.parse_event_list([event]) *)

(* state: the thread ids that have an inner dict, and the flattened table *)
Definition istate := (list N * tbl)%type.
Inductive outcome := Done (s : istate) (o : option (list pev)) | Raised.

Definition has_inner (i : list N) (t : N) : bool := existsb (N.eqb t) i.

Fixpoint exec (p : list pstmt) (s : istate) (e : pev) : outcome :=
  match p with
  | [] => Done s None                                   (* falling off the end returns None *)
  | st :: r =>
    let (I, T) := s in
    match st with
    | PEnsureInner => exec r (if has_inner I (p_tid e) then I else p_tid e :: I, T) e
    | PResetOwn => if has_inner I (p_tid e) then exec r (I, (kof e, []) :: remove (kof e) T) e else Raised
    | PAppendAll safe => if has_inner I (p_tid e) then exec r (I, app_tid e T) e
                         else if safe then exec r s e else Raised
    | PReturnIfAbsent => if has_inner I (p_tid e) then match find (kof e) T with Some _ => exec r s e | None => Done s None end
                         else Done s None
    | PPopDeliver => match find (kof e) T with Some w => Done (I, remove (kof e) T) (Some w) | None => Raised end
    | PReturnNoneIfContinuation =>
        match p_q e, find (kof e) T with QN, Some _ => Done s None | _, _ => exec r s e end
    | PDeliverSingle => Done s (Some [e])
    end
  end.

(* every thread that has an entry in the flattened table has an inner dict *)
Definition Cover (s : istate) : Prop := forall k w, In (k, w) (snd s) -> has_inner (fst s) (fst k) = true.

Lemma has_inner_cons I t u : has_inner (u :: I) t = N.eqb t u || has_inner I t.
Proof. reflexivity. Qed.

Lemma find_in k T w : find k T = Some w -> exists k', In (k', w) T /\ keyb k k' = true.
Proof.
  induction T as [|[k' w'] T IH]; cbn; [discriminate|]. destruct (keyb k k') eqn:E.
  - intros [= <-]. exists k'. auto.
  - intros H. destruct (IH H) as (k2 & Hin & Hk). exists k2. auto.
Qed.

Lemma app_tid_noinner e I T : Cover (I, T) -> has_inner I (p_tid e) = false -> app_tid e T = T.
Proof.
  intros C H. unfold app_tid. rewrite <- (map_id T) at 2. apply map_ext_in. intros [k w] Hin.
  specialize (C k w Hin). cbn [fst snd] in *.
  destruct (N.eqb (fst k) (p_tid e)) eqn:E; auto. apply N.eqb_eq in E. rewrite E in C. congruence.
Qed.

(* TraceCodesIR.v — the dict comprehension of trace_codes.from_trace_codes_text with its parameters left open (which token is the
   id, which the name, the base handed to int()); tools/translate/tr_codes.py reads them off the current source
   (gen/GenTraceCodes.v) and TraceCodesRefine.v proves that with them the comprehension is the model TraceCodes.from_text.  (C19) *)
From Coq Require Import NArith List Bool.
From Kd Require Import theories.Base theories.TraceCodes.
Import ListNotations.
Open Scope N_scope.

Record codes_code := { cc_key_field : nat; cc_name_field : nat; cc_base : N }.

(* int(tok, base): only base 16 is modelled (None = ValueError); the refinement theorem is stated for base 16 *)
Definition parse_int (base : N) (tok : list N) : option N := if base =? 16 then parse_hex tok else None.

(* key expression first, then value expression *)
Definition parse_line_p (c : codes_code) (line : list N) : pres (N * list N) :=
  let ts := split line in
  match nth_error ts (cc_key_field c) with
  | None => PErr IndexError
  | Some t0 =>
      match parse_int (cc_base c) t0 with
      | None => PErr ValueError
      | Some n => match nth_error ts (cc_name_field c) with Some t1 => POk (n, t1) | None => PErr IndexError end
      end
  end.

Fixpoint parse_lines_p (c : codes_code) (ls : list (list N)) : pres (list (N * list N)) :=
  match ls with
  | [] => POk []
  | l :: r => match parse_line_p c l with
              | PErr e => PErr e
              | POk p => match parse_lines_p c r with PErr e => PErr e | POk ps => POk (p :: ps) end
              end
  end.

Definition from_text_p (c : codes_code) (t : list N) : pres (list (N * list N)) := parse_lines_p c (splitlines t).

(* ChunkWindowCases.v — executable correspondence for the reassemblers on whole windows holding unrelated records (C08). *)
From Coq Require Import NArith List Bool.
From Kd Require Import theories.Base theories.Harness theories.Chunks theories.ChunksWindow.
Import ListNotations.
Open Scope N_scope.

(* (kind: 0 lookup / 1 global string / 2 thread name, the id named VFS_LOOKUP, the window as (event id, (qualifier, 4 data
   words)), observed (a, b, text)) *)
Definition kwcase := (N * N * list (N * (N * list N)) * (N * N * list N))%type.

Definition wrecs_of (l : list (N * (N * list N))) : list wrec :=
  map (fun x => (fst x, mkC (fst (snd x)) (flat_map (enc 8) (snd (snd x))))) l.

Definition kwcheck (c : kwcase) : bool :=
  match c with
  | (kind, lkc, rs, (a, b, text)) =>
    let w := wrecs_of rs in
    if N.eqb kind 0 then
      match vnodes_w (N.eqb lkc) w with
      | (vid, t) :: _ => N.eqb vid a && leqb t text
      | [] => N.eqb a 0 && leqb [] text
      end
    else if N.eqb kind 1 then
      match gstring_w w with (dbg, sid, t) => N.eqb dbg a && N.eqb sid b && leqb t text end
    else leqb (name_w w) text
  end.

(* FiltersCases.v — executable correspondence check for kevents / os_log_events (C12). *)
From Coq Require Import NArith List Bool.
From Kd Require Import theories.Base theories.Harness theories.Printers theories.Filters.
Import ListNotations.
Open Scope N_scope.

(* ((filter_tid, filter_process, classes, subclasses), events (tid, eventid, uid), logs (tid, pid, process, uid),
    observed event uids, observed log uids) *)
Definition fcase := ((option N * option (list N) * list N * list N) * list (N * N * N) * list (N * N * list N * N)
                     * list N * list N)%type.

Definition uid_of (i : item) : N := match i with Ev e => f_uid e | Lg l => g_uid l end.

Definition fcheck (c : fcase) : bool :=
  match c with
  | ((ft, fp, cl, sc), es, ls, oe, ol) =>
    let cfg := mkCfg ft fp cl sc in
    let items := map (fun x => match x with (t, e, u) => Ev (mkFev t e u) end) es
              ++ map (fun x => match x with (t, p, n, u) => Lg (mkFlog t p n u) end) ls in
    leqb (map uid_of (kevents cfg [] items)) oe && leqb (map uid_of (os_log_events cfg items)) ol
  end.

(* DecoderProps.v — computable predicates over rows (evaluated on the GENERATED tables in props/C*.v) and the generic
   theorems that lift them to statements about every argument tuple, END record and context.  (C09 C10 C17) *)
From Coq Require Import String Ascii ZArith NArith List Bool Lia.
From Kd Require Import theories.Base theories.Printers theories.DecoderDSL theories.DecoderDeps.
Import ListNotations.
Open Scope N_scope.

(* ---------------- rendering of concatenations ---------------- *)
Definition rapp (a b : rres) : rres :=
  match a with ROk x => match b with ROk y => ROk (x ++ y) | e => e end | e => e end.

Lemma render_toks_app enums H X a b :
  render_toks enums H X (a ++ b) = rapp (render_toks enums H X a) (render_toks enums H X b).
Proof.
  induction a as [|t a IH]; cbn [app render_toks rapp].
  - destruct (render_toks enums H X b); reflexivity.
  - destruct (render_tok enums H X t) as [s|e]; [|reflexivity]. rewrite IH.
    destruct (render_toks enums H X a), (render_toks enums H X b); cbn; rewrite ?app_assoc; reflexivity.
Qed.

Lemma render_toks_cons enums H X t r :
  render_toks enums H X (t :: r) = rapp (render_tok enums H X t) (render_toks enums H X r).
Proof. cbn [render_toks rapp]. destruct (render_tok enums H X t); auto. destruct (render_toks enums H X r); auto. Qed.

(* ---------------- C09: positional parameters ---------------- *)
Definition numeric_src (t : tok) : option src :=
  match t with TDec s | THex s | TSDec _ s | TSHex _ s => Some s | _ => None end.

(* a numeric parameter at position k reads START word k and nothing else *)
Definition param_positional (k : nat) (p : list tok) : bool :=
  match p with
  | [t] => match numeric_src t with
           | Some s => incl_res (uses_src s) [RFirst k] && mem_res (RFirst k) (uses_src s)
           | None => true
           end
  | _ => true
  end.

Fixpoint positional_from (k : nat) (ps : list (list tok)) : bool :=
  match ps with [] => true | p :: r => param_positional k p && positional_from (S k) r end.
Definition positional (c : dcall) : bool := positional_from 0 (snd (fst c)).

Lemma positional_from_nth ps : forall k0 k p, positional_from k0 ps = true -> nth_error ps k = Some p ->
  param_positional (k0 + k) p = true.
Proof.
  induction ps as [|q r IH]; intros k0 k p Hp Hn; [destruct k; discriminate|].
  cbn in Hp. apply andb_true_iff in Hp. destruct Hp as [H1 H2].
  destruct k as [|k]; cbn in Hn.
  - injection Hn as <-. now rewrite Nat.add_0_r.
  - replace (k0 + S k)%nat with (S k0 + k)%nat by lia. eapply IH; eauto.
Qed.

Lemma numeric_uses t s : numeric_src t = Some s -> uses_tok t = uses_src s.
Proof. destruct t; cbn; intros E; try discriminate; injection E as <-; reflexivity. Qed.

(* parameter k of a positional call is a function of START word k alone: changing any other START word, anything in
   the END record, the lookups, the parser tables or the host changes nothing of it *)
Theorem positional_param_depends_on_word_k enums c k t s :
  positional c = true -> nth_error (snd (fst c)) k = Some [t] -> numeric_src t = Some s ->
  forall H H' X X', nth k (x_first X) 0 = nth k (x_first X') 0 ->
  render_tok enums H X t = render_tok enums H' X' t.
Proof.
  intros P Hn Hs H H' X X' E. unfold positional in P.
  pose proof (positional_from_nth _ 0 k [t] P Hn) as Q. cbn [Nat.add] in Q.
  unfold param_positional in Q. rewrite Hs in Q. apply andb_true_iff in Q. destruct Q as [Q _].
  apply render_tok_agree. rewrite (numeric_uses t s Hs).
  apply incl_res_incl in Q. intros r Hr. specialize (Q r Hr). destruct Q as [<-|[]]. exact E.
Qed.

(* what is shown for an unmodified word: its decimal / hexadecimal / signed rendering (all injective, Printers.v) *)
Theorem shown_value enums H X k :
  render_tok enums H X (TDec (W EFirst k)) = ROk (dec (nth k (x_first X) 0)) /\
  render_tok enums H X (THex (W EFirst k)) = ROk (hex (nth k (x_first X) 0)) /\
  (forall bits, render_tok enums H X (TSDec bits (W EFirst k)) = ROk (decZ (to_signed bits (nth k (x_first X) 0)))).
Proof. repeat split. Qed.

(* faithful: the parameter shows the WHOLE word, in a form from which the word can be read back *)
Definition faithful_tok (k : nat) (t : tok) : bool :=
  match t with
  | TDec (W EFirst i) | THex (W EFirst i) => Nat.eqb i k
  | TSDec 64 (W EFirst i) | TSHex 64 (W EFirst i) => Nat.eqb i k
  | _ => false
  end.
(* numeric parameters that are not faithful: (position, token) *)
Definition lossy_params (c : dcall) : list (nat * tok) :=
  flat_map (fun kp => match snd kp with
                      | [t] => match numeric_src t with
                               | Some _ => if faithful_tok (fst kp) t then [] else [(fst kp, t)]
                               | None => [] end
                      | _ => [] end)
           (combine (seq 0 (length (snd (fst c)))) (snd (fst c))).

Theorem faithful_injective enums H X X' k t :
  faithful_tok k t = true -> nth k (x_first X) 0 < 2 ^ 64 -> nth k (x_first X') 0 < 2 ^ 64 ->
  render_tok enums H X t = render_tok enums H X' t -> nth k (x_first X) 0 = nth k (x_first X') 0.
Proof.
  intros F B B' E. destruct t; try discriminate; cbn [faithful_tok] in F.
  - destruct s as [[|] i| | | |]; try discriminate. apply Nat.eqb_eq in F. subst i.
    cbn [render_tok sval] in E. unfold wd in E. apply dec_inj. congruence.
  - destruct s as [[|] i| | | |]; try discriminate. apply Nat.eqb_eq in F. subst i.
    cbn [render_tok sval] in E. unfold wd in E. apply hex_inj. congruence.
  - destruct (N.eqb bits 64) eqn:B64; [apply N.eqb_eq in B64; subst bits|].
    + destruct s as [[|] i| | | |]; try discriminate. apply Nat.eqb_eq in F. subst i.
      cbn [render_tok sval] in E. unfold wd in E. assert (E2 : decZ (to_signed 64 (nth k (x_first X) 0)) = decZ (to_signed 64 (nth k (x_first X') 0))) by congruence.
      apply decZ_inj in E2. apply to_signed_inj in E2; auto. reflexivity.
    + exfalso. destruct bits as [|p]; [discriminate|]. cbn in B64.
      repeat (destruct p as [p|p|]; try discriminate).
  - destruct (N.eqb bits 64) eqn:B64; [apply N.eqb_eq in B64; subst bits|].
    + destruct s as [[|] i| | | |]; try discriminate. apply Nat.eqb_eq in F. subst i.
      cbn [render_tok sval] in E. unfold wd in E.
      assert (E2 : hexZ (to_signed 64 (nth k (x_first X) 0)) = hexZ (to_signed 64 (nth k (x_first X') 0))) by congruence.
      assert (HZ : forall a b, hexZ a = hexZ b -> a = b).
      { assert (NM : forall n l, hex n <> 45 :: l) by (intros n l Hh; unfold hex in Hh; cbn [app] in Hh; discriminate).
        intros a b. destruct a as [|p|p], b as [|q|q]; cbn [hexZ]; intros Hh;
          try reflexivity;
          try (apply hex_inj in Hh; lia);
          try (exfalso; eapply NM; eauto; fail);
          try (exfalso; symmetry in Hh; eapply NM; eauto; fail).
        assert (Hh2 : hex (N.pos p) = hex (N.pos q)) by congruence. apply hex_inj in Hh2. lia. }
      apply HZ in E2. apply to_signed_inj in E2; auto. reflexivity.
    + exfalso. destruct bits as [|p]; [discriminate|]. cbn in B64.
      repeat (destruct p as [p|p|]; try discriminate).
Qed.

(* the call part name(p0, ...) *)
Definition call_part (c : dcall) : list tok :=
  match c with (name, params, _) => name ++ [Lit "("] ++ intersperse [Lit ", "] params ++ [Lit ")"] end.
Definition is_end_res (r : res) : bool := match r with RLast _ | RTidL => true | _ => false end.
Definition call_free_of_end (c : dcall) : bool := forallb (fun r => negb (is_end_res r)) (uses_toks (call_part c)).

Definition same_start (X X' : rctx) : Prop :=
  x_first X = x_first X' /\ x_tid_first X = x_tid_first X' /\ x_data_first X = x_data_first X' /\
  x_paths X = x_paths X' /\ (forall k, x_gstr X k = x_gstr X' k) /\ x_nocancel X = x_nocancel X'.

Theorem call_part_ignores_end enums H c X X' :
  call_free_of_end c = true -> same_start X X' ->
  render_toks enums H X (call_part c) = render_toks enums H X' (call_part c).
Proof.
  intros F (E1 & E2 & E3 & E4 & E5 & E6). apply render_toks_agree.
  intros r Hr. unfold call_free_of_end in F. rewrite forallb_forall in F. specialize (F r Hr).
  destruct r; cbn in *; try discriminate; auto; try (now rewrite E1).
Qed.

(* ---------------- C10: the result part ---------------- *)
Definition str_eqb := String.eqb.
Definition is_result_pair (l : list tok) : option (string * rfmt) :=
  match l with
  | [Lit sep; TResult n f] => if String.eqb sep ", " then Some (n, f) else None
  | _ => None
  end.

(* the tail after the closing parenthesis *)
Inductive rshape := RAlways (n : string) (f : rfmt) (rest : list tok) | RIfNonEmpty (n : string) (f : rfmt) | RNone.
Definition result_shape (tail : list tok) : rshape :=
  match tail with
  | Lit sep :: TResult n f :: rest =>
    if String.eqb sep ", " && negb (String.eqb n "") && forallb (fun r => negb (is_end_res r) && negb (res_eqb r RHost)) (uses_toks rest)
    then RAlways n f rest else RNone
  | [TIf (CResultNonEmpty n) a []] =>
    match is_result_pair a with Some (n', f) => if String.eqb n n' then RIfNonEmpty n f else RNone | None => RNone end
  | _ => RNone
  end.
Definition result_ok (c : dcall) : bool := match result_shape (snd c) with RNone => false | _ => true end.

Definition errno_text (H : host) (e0 : N) : str :=
  match h_errno H e0 with
  | Some n => s2b "errno: " ++ s2b n ++ s2b "(" ++ dec e0 ++ s2b ")"
  | None => s2b "errno: " ++ dec e0
  end.

Lemma render_result_cases H X n f :
  let e0 := nth 0 (x_last X) 0 in let e1 := nth 1 (x_last X) 0 in
  render_result H X n f =
    if N.eqb e0 0 then (if String.eqb n "" then [] else s2b n ++ s2b ": " ++ fmt_res f e1) else errno_text H e0.
Proof. reflexivity. Qed.

Ltac crush_in H := repeat match type of H with context [match ?x with _ => _ end] => destruct x eqn:?; try discriminate end.

Lemma result_shape_always tail n f rest : result_shape tail = RAlways n f rest ->
  tail = Lit ", " :: TResult n f :: rest /\ n <> ""%string /\
  forallb (fun r => negb (is_end_res r) && negb (res_eqb r RHost)) (uses_toks rest) = true.
Proof.
  unfold result_shape, is_result_pair. intros E. crush_in E.
  injection E as <- <- <-.
  match goal with C : (_ && _ && _) = true |- _ => apply andb_true_iff in C; destruct C as [C C3];
    apply andb_true_iff in C; destruct C as [C1 C2] end.
  apply String.eqb_eq in C1. subst. apply negb_true_iff in C2. apply String.eqb_neq in C2. auto.
Qed.

Lemma result_shape_ifnonempty tail n f : result_shape tail = RIfNonEmpty n f ->
  tail = [TIf (CResultNonEmpty n) [Lit ", "; TResult n f] []].
Proof.
  unfold result_shape, is_result_pair. intros E. crush_in E.
  injection E as <- <-.
  repeat match goal with
         | Hm : context [match ?x with _ => _ end] |- _ => destruct x eqn:?; try discriminate
         end.
  repeat match goal with
         | C : String.eqb _ _ = true |- _ => apply String.eqb_eq in C
         | C : Some _ = Some _ |- _ => injection C as ? ?
         end.
  subst. reflexivity.
Qed.

(* error word non-zero: ", errno: NAME(code)" or ", errno: code" with exactly that code and NO success value;
   error word zero: no errno, and the success value shown (if any) is the rendering of the END record's return word *)
Theorem result_text_ifnonempty enums H X n f :
  let e0 := nth 0 (x_last X) 0 in let e1 := nth 1 (x_last X) 0 in
  render_toks enums H X [TIf (CResultNonEmpty n) [Lit ", "; TResult n f] []] =
    ROk (if N.eqb e0 0 then (if String.eqb n "" then [] else s2b ", " ++ s2b n ++ s2b ": " ++ fmt_res f e1)
         else s2b ", " ++ errno_text H e0).
Proof.
  cbv zeta. cbn [render_toks]. rewrite render_if. cbn [evalc]. unfold result_nonempty, wd.
  destruct (N.eqb (nth 0 (x_last X) 0) 0) eqn:Z; cbn [negb orb].
  - destruct (String.eqb n "") eqn:N0; cbn [negb render_toks render_tok].
    + reflexivity.
    + unfold render_result, wd. cbv zeta. rewrite Z, N0. rewrite !app_nil_r. reflexivity.
  - cbn [render_toks render_tok]. unfold render_result, wd. cbv zeta. rewrite Z. unfold errno_text.
    destruct (h_errno H _); rewrite !app_nil_r; reflexivity.
Qed.

Theorem result_text_always enums H X n f rest : n <> ""%string ->
  let e0 := nth 0 (x_last X) 0 in let e1 := nth 1 (x_last X) 0 in
  render_toks enums H X (Lit ", " :: TResult n f :: rest) =
    rapp (ROk (s2b ", " ++ (if N.eqb e0 0 then s2b n ++ s2b ": " ++ fmt_res f e1 else errno_text H e0)))
         (render_toks enums H X rest).
Proof.
  intros NE. cbv zeta. cbn [render_toks render_tok]. unfold render_result, wd. cbv zeta.
  replace (String.eqb n "") with false by (symmetry; now apply String.eqb_neq).
  destruct (N.eqb (nth 0 (x_last X) 0) 0); unfold errno_text; destruct (render_toks enums H X rest); reflexivity.
Qed.

(* the result part reads the END record (and the host's errno names) only *)
Definition result_reads_end_only (c : dcall) : bool :=
  match result_shape (snd c) with
  | RIfNonEmpty _ _ => true
  | RAlways _ _ _ => true
  | RNone => false
  end.

(* ---------------- C17: twins ---------------- *)
Fixpoint ends_with (suffix s : string) : bool :=
  if String.eqb s suffix then true
  else match s with EmptyString => false | String _ r => ends_with suffix r end.

Fixpoint strip_suffix (n : nat) (s : string) : string :=
  (* s without its last n characters *)
  if Nat.leb (String.length s) n then EmptyString
  else match s with EmptyString => EmptyString | String c r => String c (strip_suffix n r) end.

Definition no_nocancel (l : list tok) : bool := negb (mem_res RNoCancel (uses_toks l)).

(* name = base ++ [TIf CNoCancel [Lit "_nocancel"] []] and nothing else looks at the flag *)
Definition twin_shape (c : dcall) : bool :=
  match c with
  | (name, params, tail) =>
    match rev name with
    | TIf CNoCancel [Lit s] [] :: base_rev =>
      String.eqb s "_nocancel" && no_nocancel (rev base_rev)
      && no_nocancel ([Lit "("] ++ intersperse [Lit ", "] params ++ [Lit ")"] ++ tail)
    | _ => false
    end
  end.

Definition with_nocancel (X : rctx) (b : bool) : rctx :=
  mkCtx (x_first X) (x_last X) (x_tid_first X) (x_tid_last X) (x_data_first X) (x_paths X) (x_gstr X) b.

Lemma no_nocancel_agree enums H X l b b' : no_nocancel l = true ->
  render_toks enums H (with_nocancel X b) l = render_toks enums H (with_nocancel X b') l.
Proof.
  intros N. apply render_toks_agree. intros r Hr.
  destruct r; cbn; auto. exfalso. unfold no_nocancel in N. apply negb_true_iff in N.
  assert (mem_res RNoCancel (uses_toks l) = true) by (now apply mem_res_In). congruence.
Qed.

(* the non-cancellable variant renders exactly like the base call, with "_nocancel" inserted after the call name *)
Theorem twin_rendering enums H X name params tail base :
  twin_shape (name, params, tail) = true -> name = base ++ [TIf CNoCancel [Lit "_nocancel"] []] ->
  let rest := [Lit "("] ++ intersperse [Lit ", "] params ++ [Lit ")"] ++ tail in
  render_toks enums H (with_nocancel X false) (assemble (name, params, tail))
    = rapp (render_toks enums H (with_nocancel X false) base) (render_toks enums H (with_nocancel X false) rest) /\
  render_toks enums H (with_nocancel X true) (assemble (name, params, tail))
    = rapp (rapp (render_toks enums H (with_nocancel X false) base) (ROk (s2b "_nocancel")))
           (render_toks enums H (with_nocancel X false) rest).
Proof.
  intros T -> rest. unfold twin_shape in T. rewrite rev_app_distr in T. cbn [rev app] in T.
  apply andb_true_iff in T. destruct T as [T N2]. apply andb_true_iff in T. destruct T as [_ N1].
  rewrite rev_involutive in N1.
  unfold assemble. fold rest. rewrite <- !app_assoc. cbn [app].
  rewrite !render_toks_app.
  split.
  - rewrite render_toks_cons, render_if. cbn [evalc with_nocancel x_nocancel render_toks].
    destruct (render_toks enums H (with_nocancel X false) base); cbn [rapp]; auto.
    destruct (render_toks enums H (with_nocancel X false) rest); reflexivity.
  - assert (E : render_toks enums H (with_nocancel X true) (TIf CNoCancel [Lit "_nocancel"] [] :: rest)
                = rapp (ROk (s2b "_nocancel")) (render_toks enums H (with_nocancel X true) rest)).
    { cbn [render_toks]. rewrite render_if. cbn [evalc with_nocancel x_nocancel render_toks render_tok].
      rewrite app_nil_r. destruct (render_toks enums H _ rest); reflexivity. }
    rewrite E. rewrite (no_nocancel_agree enums H X base true false N1).
    rewrite (no_nocancel_agree enums H X rest true false N2).
    destruct (render_toks enums H (with_nocancel X false) base); cbn [rapp]; auto.
    destruct (render_toks enums H (with_nocancel X false) rest); cbn [rapp]; rewrite ?app_assoc; reflexivity.
Qed.

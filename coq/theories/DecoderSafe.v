(* DecoderSafe.v — a decoder row cannot raise, whatever context is missing (C07).
   `safe` is a static check of the tokens: every indexed lookup is guarded by a length test, every errno-name lookup
   by a membership test.  Then for EVERY window context (no lookups at all, fewer than the call has paths, unknown
   string ids, any tables) rendering succeeds, provided the enum-typed words are members of their enum
   ("individually well-formed"). *)
From Coq Require Import String ZArith NArith List Bool Lia.
From Kd Require Import theories.Base theories.Printers theories.DecoderDSL theories.DecoderDeps.
Import ListNotations.
Open Scope N_scope.

Fixpoint src_eqb (a b : src) : bool :=
  match a, b with
  | W EFirst i, W EFirst j | W ELast i, W ELast j => Nat.eqb i j
  | SAnd s m, SAnd s' m' => src_eqb s s' && N.eqb m m'
  | SShr s k, SShr s' k' => src_eqb s s' && N.eqb k k'
  | SConst n, SConst n' => N.eqb n n'
  | STid EFirst, STid EFirst | STid ELast, STid ELast => true
  | _, _ => false
  end.
Lemma src_eqb_eq a b : src_eqb a b = true -> a = b.
Proof.
  revert b; induction a as [e i|s IH m|s IH k|n|e]; intros b; destruct b; cbn; try discriminate;
    try (destruct e; discriminate).
  - destruct e, e0; try discriminate; intros H; apply Nat.eqb_eq in H; now subst.
  - rewrite andb_true_iff, N.eqb_eq. intros [H ->]. now rewrite (IH _ H).
  - rewrite andb_true_iff, N.eqb_eq. intros [H ->]. now rewrite (IH _ H).
  - rewrite N.eqb_eq. now intros ->.
  - destruct e, e0; try discriminate; auto.
Qed.

(* what the enclosing conditions have established *)
Record facts := mkFacts { f_paths : nat; f_errno : list src }.
Definition facts0 := mkFacts 0 [].
Fixpoint add_facts (c : cond) (f : facts) : facts :=
  match c with
  | CPathsMore k => mkFacts (Nat.max (S k) (f_paths f)) (f_errno f)
  | CErrnoKnown s => mkFacts (f_paths f) (s :: f_errno f)
  | CAnd a b => add_facts b (add_facts a f)
  | _ => f
  end.

Definition path_safe (f : facts) (p : psrc) : bool :=
  match p with PNth k => Nat.ltb k (f_paths f) | PLast => Nat.ltb 0 (f_paths f) | _ => true end.

Fixpoint safe_tok (f : facts) (t : tok) : bool :=
  match t with
  | TPath p | TVnodeId p => path_safe f p
  | TErrnoName s => existsb (src_eqb s) (f_errno f)
  | TIf c a b =>
    (fix go (g : facts) (l : list tok) : bool := match l with [] => true | x :: r => safe_tok g x && go g r end) (add_facts c f) a
    && (fix go (g : facts) (l : list tok) : bool := match l with [] => true | x :: r => safe_tok g x && go g r end) f b
  | _ => true
  end.
Definition safe_toks (f : facts) (l : list tok) : bool := forallb (safe_tok f) l.

Lemma safe_if f c a b : safe_tok f (TIf c a b) = safe_toks (add_facts c f) a && safe_toks f b.
Proof.
  cbn [safe_tok].
  assert (G : forall g l, (fix go (g : facts) (l : list tok) : bool := match l with [] => true | x :: r => safe_tok g x && go g r end) g l
                          = safe_toks g l).
  { intros g l. induction l as [|x r IH]; cbn [safe_toks forallb]; auto; try (now rewrite IH). }
  now rewrite !G.
Qed.

Section S.
  Variable enums : enum_tbl.
  Variable H : host.
  Variable X : rctx.

  (* the enum-typed words of the window are members of their enums (every conversion the row can perform) *)
  Fixpoint in_domain (t : tok) : bool :=
    match t with
    | TEnumName e s => match enum_name enums H e (Z.of_N (sval X s)) with Some _ => true | None => false end
    | TSEnumName e bits s => match enum_name enums H e (to_signed bits (sval X s)) with Some _ => true | None => false end
    | TIf c a b =>
      (fix go (l : list tok) : bool := match l with [] => true | x :: r => in_domain x && go r end) a
      && (fix go (l : list tok) : bool := match l with [] => true | x :: r => in_domain x && go r end) b
    | _ => true
    end.
  Definition in_domain_toks (l : list tok) : bool := forallb in_domain l.
  Lemma in_domain_if c a b : in_domain (TIf c a b) = in_domain_toks a && in_domain_toks b.
  Proof.
    cbn [in_domain].
    assert (G : forall l, (fix go (l : list tok) : bool := match l with [] => true | x :: r => in_domain x && go r end) l
                          = in_domain_toks l).
    { induction l as [|x r IH]; cbn [in_domain_toks forallb]; auto; try (now rewrite IH). }
    now rewrite !G.
  Qed.

  Definition holds (f : facts) : Prop :=
    (f_paths f <= length (x_paths X))%nat /\ forall s, In s (f_errno f) -> h_errno H (sval X s) <> None.

  Lemma holds0 : holds facts0.
  Proof. split; [cbn; lia|intros s []]. Qed.

  Lemma add_facts_holds c : forall f, holds f -> evalc enums H X c = true -> holds (add_facts c f).
  Proof.
    induction c; intros f Hf E; cbn [add_facts]; auto.
    - destruct Hf as [Hp He]. split; auto. cbn [f_paths]. cbn [evalc] in E. apply Nat.ltb_lt in E. unfold paths in E.
      apply Nat.max_lub; lia.
    - destruct Hf as [Hp He]. split; auto. cbn [f_errno]. intros s0 [<-|I]; auto.
      cbn [evalc] in E. destruct (h_errno H (sval X s)); congruence.
    - cbn [evalc] in E. apply andb_true_iff in E. destruct E as [E1 E2]. auto.
  Qed.

  Theorem safe_render : forall t f, holds f -> safe_tok f t = true -> in_domain t = true ->
    exists s, render_tok enums H X t = ROk s.
  Proof.
    apply (tok_ind2 (fun t => forall f, holds f -> safe_tok f t = true -> in_domain t = true ->
                                        exists s, render_tok enums H X t = ROk s)).
    - intros t NI f Hf S D. destruct t; try discriminate; cbn [render_tok]; try (eexists; reflexivity).
      + cbn [in_domain] in D. destruct (enum_name enums H e _); [eexists; reflexivity|discriminate].
      + cbn [in_domain] in D. destruct (enum_name enums H e _); [eexists; reflexivity|discriminate].
      + destruct (enum_name enums H e _); eexists; reflexivity.
      + destruct (find _ tbl); eexists; reflexivity.
      + cbn [safe_tok] in S. destruct Hf as [Hp _]. unfold path_of, paths. destruct p; cbn [path_safe] in S.
        * destruct (nth 0 (x_paths X) (0, [])); eexists; reflexivity.
        * destruct (nth 1 (x_paths X) (0, [])); eexists; reflexivity.
        * apply Nat.ltb_lt in S. destruct (nth_error (x_paths X) k) as [[v tx]|] eqn:E; [eexists; reflexivity|].
          apply nth_error_None in E. lia.
        * apply Nat.ltb_lt in S. destruct (x_paths X) as [|p0 ps] eqn:E; [cbn in Hp; lia|].
          destruct (last (p0 :: ps) (0, [])); eexists; reflexivity.
      + cbn [safe_tok] in S. destruct Hf as [Hp _]. unfold path_of, paths. destruct p; cbn [path_safe] in S.
        * destruct (nth 0 (x_paths X) (0, [])); eexists; reflexivity.
        * destruct (nth 1 (x_paths X) (0, [])); eexists; reflexivity.
        * apply Nat.ltb_lt in S. destruct (nth_error (x_paths X) k) as [[v tx]|] eqn:E; [eexists; reflexivity|].
          apply nth_error_None in E. lia.
        * apply Nat.ltb_lt in S. destruct (x_paths X) as [|p0 ps] eqn:E; [cbn in Hp; lia|].
          destruct (last (p0 :: ps) (0, [])); eexists; reflexivity.
      + cbn [safe_tok] in S. apply existsb_exists in S. destruct S as (s0 & I & E). apply src_eqb_eq in E. subst s0.
        destruct Hf as [_ He]. specialize (He s I). destruct (h_errno H (sval X s)); [eexists; reflexivity|congruence].
    - intros c a b Fa Fb f Hf S D. rewrite safe_if in S. rewrite in_domain_if in D. rewrite render_if.
      apply andb_true_iff in S. destruct S as [Sa Sb]. apply andb_true_iff in D. destruct D as [Da Db].
      assert (G : forall l g, Forall (fun t => forall f, holds f -> safe_tok f t = true -> in_domain t = true ->
                                                         exists s, render_tok enums H X t = ROk s) l ->
                              holds g -> safe_toks g l = true -> in_domain_toks l = true ->
                              exists s, render_toks enums H X l = ROk s).
      { induction l as [|x r IH]; intros g Fl Hg Sl Dl; cbn [render_toks]; [eexists; reflexivity|].
        inversion Fl as [|? ? Hx Fr]; subst. cbn [safe_toks in_domain_toks forallb] in Sl, Dl.
        apply andb_true_iff in Sl. destruct Sl as [S1 S2]. apply andb_true_iff in Dl. destruct Dl as [D1 D2].
        destruct (Hx g Hg S1 D1) as [s1 ->]. destruct (IH g Fr Hg S2 D2) as [s2 ->]. eexists; reflexivity. }
      destruct (evalc enums H X c) eqn:E.
      + apply (G a (add_facts c f)); auto. now apply add_facts_holds.
      + apply (G b f); auto.
  Qed.

  Theorem safe_render_toks l : safe_toks facts0 l = true -> in_domain_toks l = true ->
    exists s, render_toks enums H X l = ROk s.
  Proof.
    induction l as [|x r IH]; intros S D; cbn [render_toks]; [eexists; reflexivity|].
    cbn [safe_toks in_domain_toks forallb] in S, D.
    apply andb_true_iff in S. destruct S as [S1 S2]. apply andb_true_iff in D. destruct D as [D1 D2].
    destruct (safe_render x facts0 holds0 S1 D1) as [s1 ->]. destruct (IH S2 D2) as [s2 ->]. eexists; reflexivity.
  Qed.
End S.

(* V3Meta.v — model of the second half of KdBufParser.parse_v3: interpretation of the tagged blocks
   (metadata sections, log records) once kd_v3_additional_data has split them.  plistlib.loads is the parameter
   `loads`.  (C03: metadata exposed equal to payloads, list-valued ones concatenated in file order; logs decoded in
   order through the string index; log records extend the thread/process tables.) *)
From Coq Require Import String NArith List Bool Lia.
From Kd Require Import theories.Base theories.Utf8 theories.OsLogBase theories.OsLog gen.GenOsLog theories.OsLogCases.
Import ListNotations.
Open Scope N_scope.

Definition TAG_DYLD_MODULES : list N := [0x01; 0x80; 0; 0; 0; 0; 0; 0].
Definition TAG_TRACE_CODES : list N := [0x0f; 0x80; 0; 0; 0; 0; 0; 0].
Definition TAG_PROCESSES : list N := [0x10; 0x80; 0; 0; 0; 0; 0; 0].
Definition TAG_LOG_EVENTS : list N := [0x11; 0x80; 0; 0; 0; 0; 0; 0].
Definition TAG_LOG_STRINGS : list N := [0x12; 0x80; 0; 0; 0; 0; 0; 0].
Definition TAG_KERNEL_EXTENSIONS : list N := [0x05; 0x80; 0; 0; 0; 0; 0; 0].
Definition TAG_IMAGES : list N := [0x04; 0x80; 0; 0; 1; 0; 0; 0].

Fixpoint bytes_of_string (s : string) : list N :=
  match s with EmptyString => [] | String c r => N.of_nat (Ascii.nat_of_ascii c) :: bytes_of_string r end.

Record mstate := mkMs {
  ms_dyld : dict;                 (* self.dyld_modules *)
  ms_codes : list N;              (* self.trace_codes (UTF-8 bytes of the text) *)
  ms_processes : pv;
  ms_kexts : list pv;             (* self.kernel_extensions['Binaries'] *)
  ms_images : pv;
  ms_logev : list pv;             (* log_events *)
  ms_strings : list (N * list N)  (* log_strings: index -> text, most recent binding first *)
}.
Definition ms0 := mkMs [] [] (PDict []) [] (PDict []) [] [].

Section Meta.
  Variable loads : list N -> option pv.

  Definition loadd (b : list N) : ores dict :=
    match loads b with Some (PDict d) => OOk d | Some _ => OErr OTypeError | None => OErr OValueError end.
  Definition get_list (k : string) (d : dict) : ores (list pv) := dget k d >>= as_list.

  (* {v: k for k, v in StringIndex.items()} : a later item wins *)
  Definition invert (d : dict) : ores (list (N * list N)) :=
    omap (fun kv => match snd kv with PInt i => OOk (i, bytes_of_string (fst kv)) | _ => OErr OTypeError end) d
    >>= fun l => OOk (rev l).

  Definition mstep (s : mstate) (b : list N * list N) : ores mstate :=
    let (tag, pl) := b in
    if leqb tag TAG_DYLD_MODULES then
      loadd pl >>= fun d =>
      match ms_dyld s with
      | [] => OOk (mkMs d (ms_codes s) (ms_processes s) (ms_kexts s) (ms_images s) (ms_logev s) (ms_strings s))
      | old => get_list "Binaries" old >>= fun a => get_list "Binaries" d >>= fun n =>
               OOk (mkMs (dset "Binaries" (PList (a ++ n)) old) (ms_codes s) (ms_processes s) (ms_kexts s)
                         (ms_images s) (ms_logev s) (ms_strings s))
      end
    else if leqb tag TAG_TRACE_CODES then
      if utf8_ok pl then OOk (mkMs (ms_dyld s) (ms_codes s ++ pl) (ms_processes s) (ms_kexts s) (ms_images s)
                                   (ms_logev s) (ms_strings s))
      else OErr OValueError
    else if leqb tag TAG_PROCESSES then
      match loads pl with
      | Some v => OOk (mkMs (ms_dyld s) (ms_codes s) v (ms_kexts s) (ms_images s) (ms_logev s) (ms_strings s))
      | None => OErr OValueError end
    else if leqb tag TAG_KERNEL_EXTENSIONS then
      loadd pl >>= fun d => get_list "Binaries" d >>= fun n =>
      OOk (mkMs (ms_dyld s) (ms_codes s) (ms_processes s) (ms_kexts s ++ n) (ms_images s) (ms_logev s) (ms_strings s))
    else if leqb tag TAG_IMAGES then
      match loads pl with
      | Some v => OOk (mkMs (ms_dyld s) (ms_codes s) (ms_processes s) (ms_kexts s) v (ms_logev s) (ms_strings s))
      | None => OErr OValueError end
    else if leqb tag TAG_LOG_EVENTS then
      loadd pl >>= fun d => get_list "Events" d >>= fun n =>
      OOk (mkMs (ms_dyld s) (ms_codes s) (ms_processes s) (ms_kexts s) (ms_images s) (ms_logev s ++ n) (ms_strings s))
    else if leqb tag TAG_LOG_STRINGS then
      loadd pl >>= fun d => dget "StringIndex" d >>= as_dict >>= invert >>= fun st =>
      OOk (mkMs (ms_dyld s) (ms_codes s) (ms_processes s) (ms_kexts s) (ms_images s) (ms_logev s) st)
    else OOk s.

  Fixpoint minterp (s : mstate) (bs : list (list N * list N)) : ores mstate :=
    match bs with [] => OOk s | b :: r => mstep s b >>= fun s' => minterp s' r end.

  (* the log phase: every raw record decoded in order (C16 model); a record that names a process and a thread
     extends the tables *)
  Definition log_update (o : dict) : list (N * N * list N) :=
    match dlookup "process" o, dlookup "thread_identifier" o, dlookup "process_identifier" o with
    | Some (PStr p), Some (PInt t), Some (PInt pid) =>
      if negb (match p with [] => true | _ => false end) && negb (N.eqb t 0) then [(t, pid, p)] else []
    | _, _, _ => []
    end.

  Definition decode_logs (s : mstate) : ores (list dict) :=
    omap (fun ev => as_dict ev >>= gen_from_raw (ms_strings s)) (ms_logev s).

  (* ---------------- what the fold computes, section by section ---------------- *)
  Definition is_tag (t : list N) (b : list N * list N) : bool := leqb (fst b) t.

  (* contributions of one block to the list-valued sections, when the block is well-formed *)
  Definition kext_of (b : list N * list N) : list pv :=
    if is_tag TAG_KERNEL_EXTENSIONS b
    then match loadd (snd b) >>= get_list "Binaries" with OOk l => l | OErr _ => [] end else [].
  Definition codes_of (b : list N * list N) : list N := if is_tag TAG_TRACE_CODES b then snd b else [].
  Definition logev_of (b : list N * list N) : list pv :=
    if is_tag TAG_LOG_EVENTS b
    then match loadd (snd b) >>= get_list "Events" with OOk l => l | OErr _ => [] end else [].

  Lemma tags_distinct :
    leqb TAG_TRACE_CODES TAG_DYLD_MODULES = false /\ leqb TAG_KERNEL_EXTENSIONS TAG_DYLD_MODULES = false /\
    leqb TAG_KERNEL_EXTENSIONS TAG_TRACE_CODES = false /\ leqb TAG_KERNEL_EXTENSIONS TAG_PROCESSES = false /\
    leqb TAG_LOG_EVENTS TAG_DYLD_MODULES = false.
  Proof. repeat split; reflexivity. Qed.

  Ltac tagcase t :=
    unfold is_tag; cbn [fst snd];
    destruct (leqb t TAG_DYLD_MODULES) eqn:?T1;
    [|destruct (leqb t TAG_TRACE_CODES) eqn:?T2;
      [|destruct (leqb t TAG_PROCESSES) eqn:?T3;
        [|destruct (leqb t TAG_KERNEL_EXTENSIONS) eqn:?T4;
          [|destruct (leqb t TAG_IMAGES) eqn:?T5;
            [|destruct (leqb t TAG_LOG_EVENTS) eqn:?T6;
              [|destruct (leqb t TAG_LOG_STRINGS) eqn:?T7]]]]]].

  Lemma leqb_two a t1 t2 : leqb a t1 = true -> leqb t1 t2 = false -> leqb a t2 = false.
  Proof. intros H1 H2. apply leqb_eq in H1. subst. exact H2. Qed.

  Lemma mstep_lists s b s' : mstep s b = OOk s' ->
    ms_kexts s' = ms_kexts s ++ kext_of b /\ ms_codes s' = ms_codes s ++ codes_of b /\
    ms_logev s' = ms_logev s ++ logev_of b.
  Proof.
    destruct b as [t pl]. unfold mstep, kext_of, codes_of, logev_of. tagcase t.
    - rewrite (leqb_two t TAG_DYLD_MODULES TAG_TRACE_CODES T1 eq_refl), (leqb_two t TAG_DYLD_MODULES TAG_KERNEL_EXTENSIONS T1 eq_refl),
        (leqb_two t TAG_DYLD_MODULES TAG_LOG_EVENTS T1 eq_refl).
      destruct (loadd pl) as [d|]; [|discriminate]. cbn [obind].
      destruct (ms_dyld s).
      + intros [= <-]. cbn. rewrite !app_nil_r. auto.
      + destruct (get_list "Binaries" _) as [a|]; [|discriminate]. cbn [obind].
        destruct (get_list "Binaries" d) as [n|]; [|discriminate]. cbn [obind].
        intros [= <-]. cbn. rewrite !app_nil_r. auto.
    - rewrite (leqb_two t TAG_TRACE_CODES TAG_KERNEL_EXTENSIONS T2 eq_refl),
        (leqb_two t TAG_TRACE_CODES TAG_LOG_EVENTS T2 eq_refl).
      destruct (utf8_ok pl); [|discriminate]. intros [= <-]. cbn. rewrite !app_nil_r. auto.
    - rewrite (leqb_two t TAG_PROCESSES TAG_KERNEL_EXTENSIONS T3 eq_refl),
        (leqb_two t TAG_PROCESSES TAG_LOG_EVENTS T3 eq_refl).
      destruct (loads pl); [|discriminate]. intros [= <-]. cbn. rewrite !app_nil_r. auto.
    - rewrite (leqb_two t TAG_KERNEL_EXTENSIONS TAG_LOG_EVENTS T4 eq_refl).
      destruct (loadd pl) as [d|]; [|discriminate]. cbn [obind].
      destruct (get_list "Binaries" d) as [n|]; [|discriminate]. cbn [obind].
      intros [= <-]. cbn. rewrite !app_nil_r. auto.
    - rewrite (leqb_two t TAG_IMAGES TAG_LOG_EVENTS T5 eq_refl).
      destruct (loads pl); [|discriminate]. intros [= <-]. cbn. rewrite !app_nil_r. auto.
    - destruct (loadd pl) as [d|]; [|discriminate]. cbn [obind].
      destruct (get_list "Events" d) as [n|]; [|discriminate]. cbn [obind].
      intros [= <-]. cbn. rewrite !app_nil_r. auto.
    - destruct (loadd pl) as [d|]; [|discriminate]. cbn [obind].
      destruct (dget "StringIndex" d >>= as_dict >>= invert) as [st|]; [|discriminate]. cbn [obind].
      intros [= <-]. cbn. rewrite !app_nil_r. auto.
    - intros [= <-]. cbn. rewrite !app_nil_r. auto.
  Qed.

  (* list-valued sections: concatenation over the blocks, in file order *)
  Theorem minterp_lists bs : forall s s', minterp s bs = OOk s' ->
    ms_kexts s' = ms_kexts s ++ flat_map kext_of bs /\ ms_codes s' = ms_codes s ++ flat_map codes_of bs /\
    ms_logev s' = ms_logev s ++ flat_map logev_of bs.
  Proof.
    induction bs as [|b bs IH]; intros s s' H; cbn [minterp flat_map] in *.
    - injection H as <-. rewrite !app_nil_r. auto.
    - destruct (mstep s b) as [s1|] eqn:E; [|discriminate]. cbn [obind] in H.
      destruct (mstep_lists _ _ _ E) as (K & C & L). destruct (IH _ _ H) as (K' & C' & L').
      rewrite K', C', L', K, C, L, <- !app_assoc. auto.
  Qed.

  (* single-valued sections: the payload of the LAST such block *)
  Definition last_loaded (t : list N) (bs : list (list N * list N)) (dflt : pv) : pv :=
    fold_left (fun acc b => if is_tag t b then match loads (snd b) with Some v => v | None => acc end else acc) bs dflt.

  Lemma mstep_single s b s' : mstep s b = OOk s' ->
    ms_processes s' = (if is_tag TAG_PROCESSES b then match loads (snd b) with Some v => v | None => ms_processes s end else ms_processes s) /\
    ms_images s' = (if is_tag TAG_IMAGES b then match loads (snd b) with Some v => v | None => ms_images s end else ms_images s).
  Proof.
    destruct b as [t pl]. unfold mstep. tagcase t.
    - rewrite (leqb_two t TAG_DYLD_MODULES TAG_PROCESSES T1 eq_refl), (leqb_two t TAG_DYLD_MODULES TAG_IMAGES T1 eq_refl).
      destruct (loadd pl) as [d|]; [|discriminate]. cbn [obind]. destruct (ms_dyld s).
      + intros [= <-]. auto.
      + destruct (get_list "Binaries" _); [|discriminate]. cbn [obind].
        destruct (get_list "Binaries" d); [|discriminate]. cbn [obind]. intros [= <-]. auto.
    - rewrite (leqb_two t TAG_TRACE_CODES TAG_PROCESSES T2 eq_refl), (leqb_two t TAG_TRACE_CODES TAG_IMAGES T2 eq_refl).
      destruct (utf8_ok pl); [|discriminate]. intros [= <-]. auto.
    - rewrite (leqb_two t TAG_PROCESSES TAG_IMAGES T3 eq_refl).
      destruct (loads pl); [|discriminate]. intros [= <-]. auto.
    - rewrite (leqb_two t TAG_KERNEL_EXTENSIONS TAG_IMAGES T4 eq_refl).
      destruct (loadd pl) as [d|]; [|discriminate]. cbn [obind].
      destruct (get_list "Binaries" d); [|discriminate]. cbn [obind]. intros [= <-]. auto.
    - destruct (loads pl); [|discriminate]. intros [= <-]. auto.
    - destruct (loadd pl) as [d|]; [|discriminate]. cbn [obind].
      destruct (get_list "Events" d); [|discriminate]. cbn [obind]. intros [= <-]. auto.
    - destruct (loadd pl) as [d|]; [|discriminate]. cbn [obind].
      destruct (dget "StringIndex" d >>= as_dict >>= invert); [|discriminate]. cbn [obind]. intros [= <-]. auto.
    - intros [= <-]. auto.
  Qed.

  Theorem minterp_single bs : forall s s', minterp s bs = OOk s' ->
    ms_processes s' = last_loaded TAG_PROCESSES bs (ms_processes s) /\
    ms_images s' = last_loaded TAG_IMAGES bs (ms_images s).
  Proof.
    unfold last_loaded. induction bs as [|b bs IH]; intros s s' H; cbn [minterp fold_left] in *.
    - injection H as <-. auto.
    - destruct (mstep s b) as [s1|] eqn:E; [|discriminate]. cbn [obind] in H.
      destruct (mstep_single _ _ _ E) as (P & I). destruct (IH _ _ H) as (P' & I').
      rewrite P', I', P, I. auto.
  Qed.
End Meta.

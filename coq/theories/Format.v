(* Format.v — model of the line builders of PyKdebugParser (_format_kevent, _format_trace, _format_callstack,
   _format_process, default _format_timestamp) and of the evolution of the thread / process tables along the trace
   stream (thread map, then the writes of the trace-class and sampler decoders).  (C14) *)
From Coq Require Import String NArith List Bool Lia.
From Kd Require Import theories.Base theories.Printers theories.Container theories.Pairing theories.DecoderDSL.
Import ListNotations.
Open Scope N_scope.

(* ---------------- text helpers ---------------- *)
(* len() of a Python str given as UTF-8 bytes: the number of code points *)
Definition cplen (s : str) : nat := length (List.filter (fun b => negb ((128 <=? b) && (b <? 192))) s).
Definition spaces (n : nat) : str := repeat 32 n.
Definition ljust (w : nat) (s : str) : str := s ++ spaces (w - cplen s).      (* f'{s:<w}' : pads, never truncates *)
Definition rjust (w : nat) (s : str) : str := spaces (w - cplen s) ++ s.      (* f'{s:>w}' *)

(* repr() of a bytes object *)
Definition bytes_repr (b : list N) : str :=
  let q := if existsb (N.eqb 39) b && negb (existsb (N.eqb 34) b) then 34 else 39 in
  let esc (c : N) : str :=
      if N.eqb c q || N.eqb c 92 then [92; c]
      else if N.eqb c 9 then [92; 116] else if N.eqb c 10 then [92; 110] else if N.eqb c 13 then [92; 114]
      else if (c <? 32) || (127 <=? c) then [92; 120; hex_digit (c / 16); hex_digit (c mod 16)]
      else [c] in
  [98; q] ++ flat_map esc b ++ [q].

Definition qual_name (q : N) : string :=
  match q with 0 => "DBG_FUNC_NONE" | 1 => "DBG_FUNC_START" | 2 => "DBG_FUNC_END" | _ => "DBG_FUNC_ALL" end.

(* ---------------- the tables and the process column ---------------- *)
Definition tables := (dictN N * dictN str)%type.           (* threads_pids, pids_names *)
Definition format_process (tb : tables) (tid : N) : str :=
  match dget (fst tb) tid with
  | Some pid => (match dget (snd tb) pid with Some n => n | None => [] end) ++ s2b "(" ++ dec pid ++ s2b ")"
  | None => s2b "Error: tid " ++ dec tid
  end.

(* ---------------- column switches ---------------- *)
Record fcfg := mkF { show_timestamp : bool; show_name : bool; show_func_qual : bool; show_tid : bool;
                     show_process : bool; show_args : bool }.

Record fev := mkFe { e_ts : N; e_tid : N; e_eid : N; e_q : N; e_words : list N }.
Definition e_data (e : fev) : list N := flat_map (enc 8) (e_words e).

Definition col (on : bool) (s : str) : str := if on then s else [].

(* _format_kevent with the default timestamp format *)
Definition kevent_name (codes : N -> option str) (eid : N) : str :=
  match codes eid with Some n => n ++ s2b " (" ++ hex eid ++ s2b ")" | None => hex eid end.
Definition kevent_columns (codes : N -> option str) (tb : tables) (e : fev) : list str :=
  [dec (e_ts e) ++ s2b " "; ljust 58 (kevent_name codes (e_eid e)); ljust 15 (s2b (qual_name (e_q e)));
   ljust 12 (hex (e_tid e)); ljust 27 (format_process tb (e_tid e)); ljust 34 (bytes_repr (e_data e))].
Definition kswitches (c : fcfg) : list bool :=
  [show_timestamp c; show_name c; show_func_qual c; show_tid c; show_process c; show_args c].
Definition kevent_line (c : fcfg) (codes : N -> option str) (tb : tables) (e : fev) : str :=
  concat (map (fun p => col (fst p) (snd p)) (combine (kswitches c) (kevent_columns codes tb e))).

(* _format_trace (color off): timestamp, tid, process, then the text of the trace *)
Definition trace_columns (tb : tables) (ts tid : N) (body : str) : list str :=
  [dec ts ++ s2b " "; rjust 11 (dec tid) ++ s2b " "; ljust 34 (format_process tb tid); body].
Definition tswitches (c : fcfg) : list bool := [show_timestamp c; show_tid c; show_process c; true].
Definition trace_line (c : fcfg) (tb : tables) (ts tid : N) (body : str) : str :=
  concat (map (fun p => col (fst p) (snd p)) (combine (tswitches c) (trace_columns tb ts tid body))).

(* _format_callstack: the same prefix, then one line per frame, frame i indented by i spaces *)
Definition hex016 (v : N) : str := let d := hexdigits v in repeat 48 (16 - length d) ++ d.
Definition frame_line (i : nat) (f : N * option (str * N)) : str :=
  spaces i ++ match f with
              | (_, Some (u, off)) => u ++ s2b ":0x" ++ hex016 off
              | (a, None) => s2b "0x" ++ hex016 a
              end.
Fixpoint frame_lines (i : nat) (fs : list (N * option (str * N))) : str :=
  match fs with [] => [] | f :: r => [10] ++ frame_line i f ++ frame_lines (S i) r end.
Definition callstack_line (c : fcfg) (tb : tables) (ts tid : N) (fs : list (N * option (str * N))) : str :=
  concat (map (fun p => col (fst p) (snd p)) (combine [show_timestamp c; show_tid c; show_process c]
                                                      [dec ts ++ s2b " "; rjust 11 (dec tid) ++ s2b " "; ljust 34 (format_process tb tid)]))
  ++ frame_lines 0 fs.

(* ---------------- columns compose ---------------- *)
(* every line is the concatenation, in a fixed order, of its enabled columns; the text of a column does not depend on
   the switches (kevent_columns / trace_columns do not take the configuration), so switching one column off removes
   exactly that column and alters no other *)
Theorem kevent_line_columns c codes tb e :
  let C i := nth i (kevent_columns codes tb e) [] in
  kevent_line c codes tb e =
    col (show_timestamp c) (C 0%nat) ++ col (show_name c) (C 1%nat) ++ col (show_func_qual c) (C 2%nat)
    ++ col (show_tid c) (C 3%nat) ++ col (show_process c) (C 4%nat) ++ col (show_args c) (C 5%nat).
Proof. cbv zeta. unfold kevent_line, kswitches, kevent_columns. cbn [combine map concat nth fst snd]. now rewrite app_nil_r. Qed.

Theorem trace_line_columns c tb ts tid body :
  let C i := nth i (trace_columns tb ts tid body) [] in
  trace_line c tb ts tid body =
    col (show_timestamp c) (C 0%nat) ++ col (show_tid c) (C 1%nat) ++ col (show_process c) (C 2%nat) ++ body.
Proof. cbv zeta. unfold trace_line, tswitches, trace_columns. cbn [combine map concat nth fst snd col]. now rewrite app_nil_r. Qed.

Theorem callstack_line_columns c tb ts tid fs :
  callstack_line c tb ts tid fs =
    col (show_timestamp c) (dec ts ++ s2b " ") ++ col (show_tid c) (rjust 11 (dec tid) ++ s2b " ")
    ++ col (show_process c) (ljust 34 (format_process tb tid)) ++ frame_lines 0 fs.
Proof. unfold callstack_line. cbn [combine map concat fst snd]. rewrite app_nil_r, <- !app_assoc. reflexivity. Qed.

(* padding never truncates: the column text is a prefix of the padded column *)
Theorem ljust_keeps w s : firstn (length s) (ljust w s) = s.
Proof. unfold ljust. apply firstn_app_exact. Qed.

(* an undeclared thread is reported as unknown, never attributed to a process *)
Theorem undeclared_is_unknown tb tid : dget (fst tb) tid = None -> format_process tb tid = s2b "Error: tid " ++ dec tid.
Proof. intros H. unfold format_process. now rewrite H. Qed.
Theorem declared_names_its_process tb tid pid : dget (fst tb) tid = Some pid ->
  format_process tb tid = (match dget (snd tb) pid with Some n => n | None => [] end) ++ s2b "(" ++ dec pid ++ s2b ")".
Proof. intros H. unfold format_process. now rewrite H. Qed.

(* ---------------- evolution of the tables along the trace stream ---------------- *)
(* kinds of decoders that write the tables (by the name the code table gives the head record's id) *)
Definition TK_DATA_NEW := 1. Definition TK_DATA_EXEC := 2. Definition TK_STR_NEW := 3. Definition TK_STR_EXEC := 4.
Definition TK_TERM_PID := 5. Definition TK_THD_DATA := 6. Definition TK_PERF_EVENT := 7.

Record tstate := mkTs { ts_tables : tables; ts_slots : list (N * (option N * option N)) }.
Definition slot_of (st : tstate) (tid : N) : option N * option N :=
  match List.find (fun p => N.eqb (fst p) tid) (ts_slots st) with Some p => snd p | None => (None, None) end.
Definition set_slot (st : tstate) (tid : N) (s : option N * option N) : tstate :=
  mkTs (ts_tables st) ((tid, s) :: ts_slots st).
Definition set_tp (st : tstate) (k v : N) : tstate := mkTs (dset (fst (ts_tables st)) k v, snd (ts_tables st)) (ts_slots st).
Definition set_pn (st : tstate) (k : N) (v : str) : tstate := mkTs (fst (ts_tables st), dset (snd (ts_tables st)) k v) (ts_slots st).

Definition ew (e : fev) (i : nat) : N := nth i (e_words e) 0.
Definition name_of (e : fev) : str := List.filter (fun b => negb (N.eqb b 0)) (e_data e).

Section Evo.
  Variable kind : N -> N.          (* event id -> writer kind (0 = none) *)

  (* the table writes of decoding one delivered window *)
  Definition apply_window (st : tstate) (w : list fev) : tstate :=
    match w with
    | [] => st
    | h :: _ =>
      let k := kind (e_eid h) in
      if N.eqb k TK_DATA_NEW then
        set_slot (set_tp st (ew h 0) (ew h 1)) (e_tid h) (Some (ew h 1), snd (slot_of st (e_tid h)))
      else if N.eqb k TK_DATA_EXEC then set_slot st (e_tid h) (fst (slot_of st (e_tid h)), Some (ew h 0))
      else if N.eqb k TK_STR_NEW then
        match fst (slot_of st (e_tid h)) with Some pid => set_pn st pid (name_of h) | None => st end
      else if N.eqb k TK_STR_EXEC then
        match snd (slot_of st (e_tid h)) with Some pid => set_pn st pid (name_of h) | None => st end
      else if N.eqb k TK_TERM_PID then set_tp st (e_tid h) (ew h 0)
      else if N.eqb k TK_THD_DATA then set_tp st (ew h 1) (ew h 0)
      else if N.eqb k TK_PERF_EVENT then
        if negb (N.eqb (N.land 1 (ew h 0)) 0)
        then match List.filter (fun e => N.eqb (kind (e_eid e)) TK_THD_DATA) w with
             | d :: _ => set_tp st (ew d 1) (ew d 0) | [] => st end
        else st
      else st
    end.

  (* the lines of formatted_traces: line k is built right after trace k was decoded, with the tables as they are then *)
  Fixpoint trace_lines (c : fcfg) (st : tstate) (ws : list (list fev * str)) : list str :=
    match ws with
    | [] => []
    | (w, body) :: r =>
      let st' := apply_window st w in
      let h := hd (mkFe 0 0 0 0 []) w in
      trace_line c (ts_tables st') (e_ts h) (e_tid h) body :: trace_lines c st' r
    end.

  (* ... so a line never depends on what comes later in the stream *)
  Theorem trace_lines_app c st a b :
    trace_lines c st (a ++ b) = trace_lines c st a ++ trace_lines c (fold_left (fun s wb => apply_window s (fst wb)) a st) b.
  Proof.
    revert st; induction a as [|[w body] a IH]; intros st; cbn [app trace_lines fold_left fst]; auto.
    now rewrite IH.
  Qed.

  (* the process column of line k names the process declared for the emitting thread by the thread map as superseded
     by the table-writing records up to and including trace k *)
  Theorem trace_line_process c st w body r :
    show_process c = true ->
    exists pre post, hd [] (trace_lines c st ((w, body) :: r)) =
      pre ++ ljust 34 (format_process (ts_tables (apply_window st w)) (e_tid (hd (mkFe 0 0 0 0 []) w))) ++ post.
  Proof.
    intros Hp. cbn [trace_lines hd]. rewrite trace_line_columns. cbv zeta. rewrite Hp. cbn [col nth trace_columns].
    eexists. eexists. rewrite <- app_assoc. reflexivity.
  Qed.
End Evo.

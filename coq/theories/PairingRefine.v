(* PairingRefine.v — the regenerated qualifier actions (gen/GenPairing.v) compute Pairing.step1.
   If the source of _feed_start_event / _feed_end_event / _feed_single_event or of the dispatch table changes, either the
   translator rejects it or these proofs no longer go through: the C04 / C05 / C08 / C13 theorems are then no longer
   known to speak about the code. *)
From Coq Require Import NArith List Bool Lia.
From Kd Require Import theories.Pairing theories.PairingProofs theories.PairingIR gen.GenPairing.
Import ListNotations.
Open Scope N_scope.

(* the dispatch table: qualifier value -> action *)
Definition action_of (q : qual) : list pstmt :=
  let v := match q with QN => 0 | QS => 1 | QE => 2 | QA => 3 end in
  match List.find (fun p => N.eqb (fst p) v) gen_actions with
  | Some (_, 0) => gen_start | Some (_, 1) => gen_end | Some (_, 2) => gen_single | _ => []
  end.

Lemma cover_find I T k w : Cover (I, T) -> find k T = Some w -> has_inner I (fst k) = true.
Proof.
  intros C F. destruct (find_in k T w F) as (k' & Hin & Hk). apply keyb_eq in Hk. subst k'. exact (C k w Hin).
Qed.

Lemma cover_app_tid e I T : Cover (I, T) -> Cover (I, app_tid e T).
Proof.
  intros C k w Hin. cbn [fst snd] in *. unfold app_tid in Hin. apply in_map_iff in Hin. destruct Hin as ([k0 w0] & E & Hin0).
  specialize (C k0 w0 Hin0). cbn [fst snd] in *. destruct (N.eqb (fst k0) (p_tid e)); inversion E; subst; exact C.
Qed.

Lemma cover_remove k I T : Cover (I, T) -> Cover (I, remove k T).
Proof. intros C k' w Hin. cbn [fst snd] in *. unfold remove in Hin. apply filter_In in Hin. destruct Hin as [Hin _]. exact (C k' w Hin). Qed.

Lemma cover_more I I' T : (forall t, has_inner I t = true -> has_inner I' t = true) -> Cover (I, T) -> Cover (I', T).
Proof. intros H C k w Hin. apply H. exact (C k w Hin). Qed.

Theorem refines e I T : Cover (I, T) ->
  exists I', exec (action_of (p_q e)) (I, T) e = Done (I', fst (step1 e T)) (snd (step1 e T))
             /\ Cover (I', fst (step1 e T)).
Proof.
  intros C. unfold step1. destruct (p_q e) eqn:Q; unfold action_of; cbn [List.find gen_actions fst snd N.eqb Pos.eqb].
  - (* NONE: _feed_single_event *)
    unfold gen_single. cbn [exec]. rewrite Q.
    destruct (has_inner I (p_tid e)) eqn:H.
    + rewrite find_app_tid. destruct (find (kof e) T) as [w|] eqn:F; cbn [fst snd].
      * exists I. split; [reflexivity | now apply cover_app_tid].
      * exists I. split; [reflexivity | now apply cover_app_tid].
    + rewrite (app_tid_noinner e I T C H).
      destruct (find (kof e) T) as [w|] eqn:F.
      * apply (cover_find I T (kof e) w C) in F. cbn [kof fst] in F. congruence.
      * exists I. split; [reflexivity | exact C].
  - (* START *)
    unfold gen_start. cbn [exec].
    set (I1 := if has_inner I (p_tid e) then I else p_tid e :: I).
    assert (H1 : has_inner I1 (p_tid e) = true).
    { unfold I1. destruct (has_inner I (p_tid e)) eqn:H; auto. rewrite has_inner_cons, N.eqb_refl. reflexivity. }
    rewrite H1. exists I1. split; [reflexivity|].
    apply cover_app_tid. intros k w [E|Hin]; cbn [fst snd] in *.
    + inversion E; subst. exact H1.
    + pose proof (cover_remove (kof e) I T C k w Hin) as C2. cbn [fst snd] in C2. unfold I1.
      destruct (has_inner I (p_tid e)); auto. rewrite has_inner_cons, C2. apply orb_true_r.
  - (* END *)
    unfold gen_end. cbn [exec].
    destruct (find (kof e) T) as [w|] eqn:F.
    + assert (HI : has_inner I (p_tid e) = true) by exact (cover_find I T (kof e) w C F).
      rewrite HI. rewrite find_app_tid, F. cbn [kof fst]. rewrite N.eqb_refl. cbn [fst snd].
      exists I. split; [reflexivity|]. apply cover_remove. now apply cover_app_tid.
    + destruct (has_inner I (p_tid e)); exists I; (split; [reflexivity | exact C]).
  - (* ALL: _feed_single_event *)
    unfold gen_single. cbn [exec]. rewrite Q.
    destruct (has_inner I (p_tid e)) eqn:H.
    + destruct (find (kof e) (app_tid e T)); exists I; (split; [reflexivity | now apply cover_app_tid]).
    + rewrite (app_tid_noinner e I T C H). destruct (find (kof e) T); exists I; (split; [reflexivity | exact C]).
Qed.

(* the initial state (both tables empty dicts) is covered *)
Lemma cover_init : Cover ([], []).
Proof. intros k w []. Qed.

(* the other shapes the translator checks textually *)
Example shapes : gen_shapes_ok = true. Proof. reflexivity. Qed.

(* DecoderCases.v — executable string-exact correspondence for the generated decoder rows
   (C07 C09 C10 C11 C17 C18): model text of str(trace) vs the implementation's. *)
From Coq Require Import String ZArith NArith List Bool.
From Kd Require Import theories.Base theories.Harness theories.Printers theories.DecoderDSL gen.GenEnums gen.GenDecoders.
Import ListNotations.
Open Scope N_scope.

Definition find_row (key : string) : option drow := find (fun r => String.eqb (d_key r) key) gen_rows.

(* host tables as data *)
Definition host_data := (list (N * string) * list (string * list (Z * string)) * list (string * N))%type.
Definition host_of (d : host_data) : host :=
  match d with
  | (er, en, co) =>
    mkHost (fun n => match find (fun p => N.eqb (fst p) n) er with Some p => Some (snd p) | None => None end)
           (fun e v => match find (fun t => String.eqb (fst t) e) en with
                       | Some t => match find (fun p => Z.eqb (fst p) v) (snd t) with Some p => Some (snd p) | None => None end
                       | None => None end)
           (fun c => match find (fun p => String.eqb (fst p) c) co with Some p => snd p | None => 0 end)
  end.

(* (key, first words, last words, tid, paths, global strings, observed) ; observed = inl error code | inr text *)
Definition rcase := (string * list N * list N * N * list (N * list N) * list (N * list N) * (N + list N))%type.

Definition err_code (e : rerr) : N := match e with EValueError => 1 | EIndexError => 2 | EKeyError => 3 | EInternal => 98 end.

Definition data_of_words (ws : list N) : list N := flat_map (enc 8) ws.

Definition rcheck (hd : host_data) (c : rcase) : bool :=
  match c with
  | (key, first, last, tid, paths, gs, obs) =>
    match find_row key with
    | None => false
    | Some r =>
      let X := mkCtx first last tid tid (data_of_words first) paths
                     (fun k => match find (fun p => N.eqb (fst p) k) gs with Some p => Some (snd p) | None => None end) false in
      match render_row gen_enums (host_of hd) X r, obs with
      | ROk s, inr t => leqb s t
      | RErr e, inl n => N.eqb (err_code e) n
      | _, _ => false
      end
    end
  end.

Definition rmodel (hd : host_data) (c : rcase) : rres :=
  match c with
  | (key, first, last, tid, paths, gs, obs) =>
    match find_row key with
    | None => RErr EInternal
    | Some r =>
      render_row gen_enums (host_of hd)
        (mkCtx first last tid tid (data_of_words first) paths
               (fun k => match find (fun p => N.eqb (fst p) k) gs with Some p => Some (snd p) | None => None end) false) r
    end
  end.

(* FiltersPipelineCases.v — executable correspondence for PyKdebugParser.traces() with thread, process, class and
   subclass filters all at once (C13): events -> selection -> pairing -> table writes -> post-filters. *)
From Coq Require Import String NArith List Bool.
From Kd Require Import theories.Base theories.Harness theories.Printers theories.Filters theories.Pairing
  theories.PairingFilter theories.PairingCases theories.FiltersTraces theories.FiltersPipeline theories.Container
  theories.DecoderDSL theories.Format theories.FiltersPipelineTables.
Import ListNotations.
Open Scope N_scope.

Definition kind_of (t : list (N * N)) (k : N) : N :=
  match List.find (fun p => N.eqb (fst p) k) t with Some p => snd p | None => 0 end.

(* (code classification, writer kinds, (filter_tid, filter_process, classes, subclasses), thread map, events,
    observed traces as (first, last) record index of ktraces) *)
Definition ppcase := (pclasses * list (N * N) * (option N * option (list N) * list N * list N)
                      * list (N * N * list N) * list pin * list (N * N))%type.

Definition ppcheck (c : ppcase) : bool :=
  match c with
  | (cl, kinds, (ft, fp, cs, ss), tm, ins, obs) =>
    let dom c := fst (fst (pclass cl c)) in
    let dec c := snd (fst (pclass cl c)) in
    let cfg := mkCfg ft fp cs ss in
    let s0 := mkTs (set_thread_map tm ([], [])) [] in
    let out := pipeline dom dec tstate (cstep (kind_of kinds) (words_of ins)) cproc_ok cfg s0 (mk_pevs 0 ins) in
    let summ := flat_map (fun x : tr * (tstate * tstate) => match snd (fst x) with
                                                 | h :: r => [(p_uid h, p_uid (last r h))]
                                                 | [] => [] end) out in
    list_eqb (fun a b => N.eqb (fst a) (fst b) && N.eqb (snd a) (snd b)) summ obs
  end.

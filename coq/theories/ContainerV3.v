(* ContainerV3.v — version-3 dumps: no fuel is ever exhausted (bounded reading), and the events of a truncated
   dump are a prefix of the events of the whole dump (C06). *)
From Coq Require Import NArith Arith List Bool Lia.
From Kd Require Import theories.Base theories.PyStruct theories.Kevent theories.Utf8 gen.GenKevent
  theories.KeventProofs theories.Container theories.ContainerV2.
Import ListNotations.
Open Scope N_scope.

(* `a` is what is left of a truncated stream whose untruncated remainder is `b` *)
Definition pre (a b : list N) : Prop := exists j, a = firstn j b.

Lemma pre_nil b : pre [] b.
Proof. exists 0%nat. reflexivity. Qed.
Lemma pre_refl b : pre b b.
Proof. exists (length b). now rewrite firstn_all. Qed.
Lemma pre_length a b : pre a b -> (length a <= length b)%nat.
Proof. intros [j ->]. rewrite firstn_length. lia. Qed.
Lemma pre_skipn n a b : pre a b -> pre (skipn n a) (skipn n b).
Proof. intros [j ->]. exists (j - n)%nat. apply skipn_firstn_comm. Qed.
Lemma pre_firstn_full n a b : pre a b -> (n <= length a)%nat -> firstn n a = firstn n b.
Proof. intros [j ->] H. rewrite firstn_length in H. rewrite firstn_firstn. f_equal. lia. Qed.
Lemma pre_cons b c r : pre (c :: r) b -> exists r', b = c :: r' /\ pre r r'.
Proof.
  intros [j H]. destruct b as [|c' r']; [rewrite firstn_nil in H; discriminate|].
  destruct j as [|j]; [discriminate|]. cbn in H. injection H as -> ->. exists r'. split; auto. exists j; auto.
Qed.
Lemma pre_trunc k b : pre (firstn k b) b.
Proof. exists k. reflexivity. Qed.

(* ---------------- seek_until ---------------- *)
Lemma seek_no_fuel pat : forall fuel win rest, (length rest < fuel)%nat -> seek fuel pat win rest <> Err EFuel.
Proof.
  induction fuel as [|f IH]; intros win rest H; [lia|].
  cbn [seek]. destruct (leqb win pat); [discriminate|].
  destruct rest as [|b r]; [discriminate|]. apply IH. cbn in H. lia.
Qed.

Lemma seek_until_no_fuel pat r : seek_until pat r <> Err EFuel.
Proof. unfold seek_until. apply seek_no_fuel. rewrite skipn_length. lia. Qed.

Lemma seek_shorter pat : forall fuel win rest r', seek fuel pat win rest = Ok r' -> (length r' <= length rest)%nat.
Proof.
  induction fuel as [|f IH]; intros win rest r'; cbn [seek].
  - destruct (leqb win pat); [intros [= ->]; lia|discriminate].
  - destruct (leqb win pat); [intros [= ->]; lia|].
    destruct rest as [|b r]; [discriminate|]. intros H. apply IH in H. cbn. lia.
Qed.

(* a successful tag scan consumed the tag: at least |pat| bytes *)
Lemma seek_until_consumes pat r r' : seek_until pat r = Ok r' -> (length r' + length pat <= length r)%nat.
Proof.
  unfold seek_until. intros H.
  destruct (Nat.le_gt_cases (length pat) (length r)) as [L|L].
  - apply seek_shorter in H. rewrite skipn_length in H. lia.
  - exfalso. rewrite skipn_all2 in H by lia. cbn [seek] in H.
    destruct (leqb (firstn (length pat) r) pat) eqn:E.
    + apply leqb_eq in E. apply (f_equal (@length _)) in E. rewrite firstn_length in E. lia.
    + discriminate.
Qed.

Lemma seek_pre pat : forall f1 win ra rb a', pre ra rb -> seek f1 pat win ra = Ok a' ->
  forall f2, (length rb < f2)%nat -> exists b', seek f2 pat win rb = Ok b' /\ pre a' b'.
Proof.
  induction f1 as [|f1 IH]; intros win ra rb a' P; cbn [seek].
  - destruct (leqb win pat) eqn:E; [|discriminate]. intros [= <-] f2 Hf.
    exists rb. destruct f2; cbn [seek]; rewrite E; auto.
  - destruct (leqb win pat) eqn:E.
    + intros [= <-] f2 Hf. exists rb. destruct f2; cbn [seek]; rewrite E; auto.
    + destruct ra as [|b r]; [discriminate|]. intros H f2 Hf.
      destruct (pre_cons _ _ _ P) as (r' & -> & P').
      destruct f2 as [|f2]; [lia|]. cbn [seek]. rewrite E. apply (IH _ _ _ _ P' H). cbn in Hf. lia.
Qed.

Lemma seek_until_pre pat a b a' : pre a b -> seek_until pat a = Ok a' ->
  exists b', seek_until pat b = Ok b' /\ pre a' b'.
Proof.
  intros P H. pose proof (seek_until_consumes _ _ _ H) as L.
  unfold seek_until in *.
  rewrite <- (pre_firstn_full (length pat) a b P) by lia.
  eapply seek_pre; [apply pre_skipn; exact P|exact H|]. rewrite skipn_length. lia.
Qed.

Section V3P.
  Variable plist_ok : list N -> bool.

  Lemma lenN_le (a b : list N) : (length a <= length b)%nat -> lenN a <= lenN b.
  Proof. unfold lenN. lia. Qed.

  Lemma prefixed_pre a b pl a' : pre a b -> prefixed a = Some (pl, a') ->
    exists b', prefixed b = Some (pl, b') /\ pre a' b'.
  Proof.
    intros P. unfold prefixed.
    destruct (length a <? 8)%nat eqn:L8; [discriminate|]. apply Nat.ltb_ge in L8.
    pose proof (pre_length _ _ P) as Lab.
    replace (length b <? 8)%nat with false by (symmetry; apply Nat.ltb_ge; lia).
    rewrite <- (pre_firstn_full 8 a b P) by lia.
    pose proof (pre_skipn 8 _ _ P) as P8.
    remember (skipn 8 a) as a8. remember (skipn 8 b) as b8. remember (le (firstn 8 a)) as L.
    clear Heqa8 Heqb8 HeqL.
    destruct (lenN a8 <? L) eqn:LL; [discriminate|]. apply N.ltb_ge in LL.
    pose proof (pre_length _ _ P8) as L8b.
    assert (Ln : (N.to_nat L <= length a8)%nat) by (unfold lenN in LL; lia).
    replace (lenN b8 <? L) with false by (symmetry; apply N.ltb_ge; unfold lenN in *; lia).
    intros H. injection H as Hpl Ha'. subst pl a'.
    exists (skipn (N.to_nat L) b8). split.
    - f_equal. f_equal. symmetry. apply pre_firstn_full; auto.
    - apply pre_skipn; auto.
  Qed.

  Lemma prefixed_shorter r pl r' : prefixed r = Some (pl, r') -> (length r' + 8 <= length r)%nat.
  Proof.
    unfold prefixed. destruct (length r <? 8)%nat eqn:L8; [discriminate|]. apply Nat.ltb_ge in L8.
    assert (E : length (skipn 8 r) = (length r - 8)%nat) by apply skipn_length.
    remember (skipn 8 r) as r8. clear Heqr8.
    destruct (lenN r8 <? le (firstn 8 r)); [discriminate|].
    intros H. injection H as _ Hr'. subst r'. rewrite skipn_length. lia.
  Qed.

  Lemma header_v3_pre a b a' : pre a b -> header_v3 plist_ok a = Ok a' ->
    exists b', header_v3 plist_ok b = Ok b' /\ pre a' b'.
  Proof.
    intros P. unfold header_v3.
    destruct (length a <? 60)%nat eqn:L; [discriminate|]. apply Nat.ltb_ge in L.
    pose proof (pre_length _ _ P) as Lab.
    replace (length b <? 60)%nat with false by (symmetry; apply Nat.ltb_ge; lia).
    destruct (prefixed (skipn 60 a)) as [[pl r1]|] eqn:E; [|discriminate].
    destruct (prefixed_pre _ _ _ _ (pre_skipn 60 _ _ P) E) as (b1 & -> & P1).
    destruct (plist_ok pl); [|discriminate].
    destruct (length r1 <? pad8 (68 + lenN pl))%nat eqn:LP; [discriminate|]. apply Nat.ltb_ge in LP.
    pose proof (pre_length _ _ P1).
    replace (length b1 <? pad8 (68 + lenN pl))%nat with false by (symmetry; apply Nat.ltb_ge; lia).
    intros [= <-]. eexists. split; [reflexivity|]. now apply pre_skipn.
  Qed.

  (* ---------------- records of one chunk ---------------- *)
  Lemma recs3_no_fuel f : forall n r, snd (recs3 f n r) <> Err EFuel.
  Proof.
    induction f as [|f IH]; intros n r; cbn [recs3]; destruct (N.eqb n 0); try discriminate.
    destruct (from_kd_buf (firstn 64 r)); [|discriminate].
    specialize (IH (n - 1) (skipn 64 r)). destruct (recs3 f (n - 1) (skipn 64 r)). exact IH.
  Qed.

  Lemma recs3_shorter f : forall n r r', snd (recs3 f n r) = Ok r' -> (length r' <= length r)%nat.
  Proof.
    induction f as [|f IH]; intros n r r'; cbn [recs3]; destruct (N.eqb n 0).
    - intros [= ->]. lia.
    - discriminate.
    - intros [= ->]. lia.
    - destruct (from_kd_buf (firstn 64 r)); [|discriminate].
      specialize (IH (n - 1) (skipn 64 r) r'). destruct (recs3 f (n - 1) (skipn 64 r)). cbn [snd] in *.
      intros H. apply IH in H. rewrite skipn_length in H. lia.
  Qed.

  (* truncated vs whole: the events of the truncated stream are a prefix; when the truncated loop completes,
     the whole one completes with the same events and related remainders *)
  Lemma recs3_pre f1 : forall n a b f2, pre a b -> (length b < f2)%nat ->
    prefix (fst (recs3 f1 n a)) (fst (recs3 f2 n b)) /\
    (forall a', snd (recs3 f1 n a) = Ok a' ->
       fst (recs3 f1 n a) = fst (recs3 f2 n b) /\ exists b', snd (recs3 f2 n b) = Ok b' /\ pre a' b').
  Proof.
    induction f1 as [|f1 IH]; intros n a b f2 P Hf.
    - cbn [recs3]. destruct (N.eqb n 0) eqn:N0.
      + destruct f2; cbn [recs3]; rewrite N0; (split; [eexists; reflexivity|]);
          intros a' [= <-]; (split; [reflexivity|]); exists b; (split; [reflexivity|exact P]).
      + split; [eexists; reflexivity|]. discriminate.
    - cbn [recs3]. destruct (N.eqb n 0) eqn:N0.
      + destruct f2; cbn [recs3]; rewrite N0; (split; [eexists; reflexivity|]);
          intros a' [= <-]; (split; [reflexivity|]); exists b; (split; [reflexivity|exact P]).
      + destruct (from_kd_buf (firstn 64 a)) as [e|] eqn:D.
        * assert (L : length (firstn 64 a) = 64%nat) by (apply from_kd_buf_some_iff; eauto).
          rewrite firstn_length in L. apply Nat.min_l_iff in L.
          rewrite (pre_firstn_full 64 a b P L) in D.
          destruct f2 as [|f2]; [lia|]. cbn [recs3]. rewrite N0, D.
          pose proof (pre_length _ _ P) as Lab.
          specialize (IH (n - 1) (skipn 64 a) (skipn 64 b) f2 (pre_skipn 64 _ _ P)).
          assert (Hs : (length (skipn 64 b) < f2)%nat) by (rewrite skipn_length; lia).
          destruct (IH Hs) as [IH1 IH2].
          destruct (recs3 f1 (n - 1) (skipn 64 a)) as [es1 x1].
          destruct (recs3 f2 (n - 1) (skipn 64 b)) as [es2 x2]. cbn [fst snd] in *.
          split.
          -- destruct IH1 as [c ->]. exists c. reflexivity.
          -- intros a' Ha. destruct (IH2 a' Ha) as (-> & b' & -> & Pb). split; eauto.
        * split; [eexists; reflexivity|]. discriminate.
  Qed.

  (* ---------------- the chunk loop ---------------- *)
  Lemma chunks3_no_fuel f : forall r, (length r < f)%nat -> snd (chunks3 f r) <> Err EFuel.
  Proof.
    induction f as [|f IH]; intros r Hf; [lia|]. cbn [chunks3].
    destruct (seek_until EVENTS_TAG r) as [r1|e] eqn:Sk.
    - pose proof (seek_until_consumes _ _ _ Sk) as L1. cbn [EVENTS_TAG tag8 length] in L1.
      destruct (length r1 <? 8)%nat; [discriminate|].
      pose proof (recs3_no_fuel (S (length (skipn 8 (skipn 8 r1)))) (le (firstn 8 r1) / 64) (skipn 8 (skipn 8 r1))) as NF.
      pose proof (recs3_shorter (S (length (skipn 8 (skipn 8 r1)))) (le (firstn 8 r1) / 64) (skipn 8 (skipn 8 r1))) as SH.
      destruct (recs3 _ _ _) as [es x]. cbn [snd] in *. destruct x as [r3|e].
      + destruct (leqb (firstn 8 r3) MORE_EVENTS); [|discriminate].
        specialize (SH r3 eq_refl). rewrite !skipn_length in SH.
        assert (Hl : (length (skipn 8 r3) < f)%nat) by (rewrite skipn_length; lia).
        specialize (IH (skipn 8 r3) Hl). destruct (chunks3 f (skipn 8 r3)). exact IH.
      + cbn [snd]. intros H. injection H as ->. now apply NF.
    - cbn [snd]. intros H. injection H as H. subst e. eapply seek_until_no_fuel; eauto.
  Qed.

  Lemma chunks3_pre f1 : forall a b f2, pre a b -> (length b < f2)%nat ->
    prefix (fst (chunks3 f1 a)) (fst (chunks3 f2 b)).
  Proof.
    induction f1 as [|f1 IH]; intros a b f2 P Hf; [eexists; reflexivity|].
    cbn [chunks3]. destruct (seek_until EVENTS_TAG a) as [a1|e] eqn:Sk; [|eexists; reflexivity].
    destruct (seek_until_pre _ _ _ _ P Sk) as (b1 & Sb & P1).
    destruct f2 as [|f2]; [lia|]. cbn [chunks3]. rewrite Sb.
    pose proof (seek_until_consumes _ _ _ Sb) as Lb. cbn [EVENTS_TAG tag8 length] in Lb.
    destruct (length a1 <? 8)%nat eqn:L8; [eexists; reflexivity|]. apply Nat.ltb_ge in L8.
    pose proof (pre_length _ _ P1) as L1.
    replace (length b1 <? 8)%nat with false by (symmetry; apply Nat.ltb_ge; lia).
    rewrite <- (pre_firstn_full 8 a1 b1 P1 L8).
    set (n := le (firstn 8 a1) / 64).
    pose proof (pre_skipn 8 _ _ (pre_skipn 8 _ _ P1)) as P2.
    set (a2 := skipn 8 (skipn 8 a1)) in *. set (b2 := skipn 8 (skipn 8 b1)) in *.
    destruct (recs3_pre (S (length a2)) n a2 b2 (S (length b2)) P2 (Nat.lt_succ_diag_r _)) as [R1 R2].
    pose proof (recs3_shorter (S (length b2)) n b2) as SHb.
    destruct (recs3 (S (length a2)) n a2) as [es1 x1]. destruct (recs3 (S (length b2)) n b2) as [es2 x2].
    cbn [fst snd] in *.
    destruct x1 as [a3|e1].
    - destruct (R2 a3 eq_refl) as (-> & b3 & -> & P3).
      specialize (SHb b3 eq_refl).
      destruct (leqb (firstn 8 a3) MORE_EVENTS) eqn:M.
      + (* the truncated stream still holds a full MORE_EVENTS tag: so does the whole one *)
        assert (L3 : (8 <= length a3)%nat).
        { apply leqb_eq in M. apply (f_equal (@length _)) in M. rewrite firstn_length in M.
          cbn [MORE_EVENTS tag8 length] in M. apply Nat.min_l_iff in M. exact M. }
        rewrite <- (pre_firstn_full 8 a3 b3 P3 L3), M.
        assert (Hl : (length (skipn 8 b3) < f2)%nat).
        { rewrite skipn_length. unfold b2 in SHb. rewrite !skipn_length in SHb. lia. }
        destruct (IH (skipn 8 a3) (skipn 8 b3) f2 (pre_skipn 8 _ _ P3) Hl) as [c Hc].
        destruct (chunks3 f1 (skipn 8 a3)). destruct (chunks3 f2 (skipn 8 b3)). cbn [fst] in *.
        exists c. rewrite Hc. now rewrite app_assoc.
      + destruct (leqb (firstn 8 b3) MORE_EVENTS).
        * destruct (chunks3 f2 (skipn 8 b3)) as [es3 y]. cbn [fst]. exists es3. reflexivity.
        * cbn [fst]. exists []. now rewrite app_nil_r.
    - cbn [fst]. destruct x2 as [b3|e2].
      + destruct (leqb (firstn 8 b3) MORE_EVENTS).
        * destruct (chunks3 f2 (skipn 8 b3)) as [es3 y]. cbn [fst]. destruct R1 as [c ->].
          exists (c ++ es3). now rewrite app_assoc.
        * exact R1.
      + exact R1.
  Qed.

  (* ---------------- whole parse ---------------- *)
  Theorem parse_v3_truncation file k :
    prefix (o_events (parse_v3 plist_ok (firstn k file))) (o_events (parse_v3 plist_ok file)).
  Proof.
    unfold parse_v3.
    destruct (header_v3 plist_ok (firstn k file)) as [a0|e] eqn:H; [|eexists; reflexivity].
    destruct (header_v3_pre _ _ _ (pre_trunc k file) H) as (b0 & -> & P0).
    pose proof (pre_skipn 4 _ _ P0) as P1.
    destruct (seek_until STACKSHOT_END (skipn 4 a0)) as [a2|e] eqn:S1; [|eexists; reflexivity].
    destruct (seek_until_pre _ _ _ _ P1 S1) as (b2 & -> & P2).
    destruct (seek_until THREADMAP_TAG a2) as [a3|e] eqn:S2; [|eexists; reflexivity].
    destruct (seek_until_pre _ _ _ _ P2 S2) as (b3 & -> & P3).
    destruct (prefixed a3) as [[sub a4]|] eqn:PF; [|eexists; reflexivity].
    destruct (prefixed_pre _ _ _ _ P3 PF) as (b4 & -> & P4).
    pose proof (chunks3_pre (S (length a4)) a4 b4 (S (length b4)) P4 (Nat.lt_succ_diag_r _)) as C.
    destruct (chunks3 (S (length a4)) a4) as [es1 x1]. destruct (chunks3 (S (length b4)) b4) as [es2 x2].
    cbn [fst] in C.
    destruct x1 as [[g1 r1]|e1]; destruct x2 as [[g2 r2]|e2]; exact C.
  Qed.

  Theorem parse_truncation data k :
    prefix (o_events (parse plist_ok (firstn k data))) (o_events (parse plist_ok data)).
  Proof.
    unfold parse. destruct (Nat.le_gt_cases 4 k) as [L|L].
    - rewrite firstn_firstn. replace (Init.Nat.min 4 k) with 4%nat by (symmetry; now apply Nat.min_l).
      rewrite skipn_firstn_comm.
      destruct (leqb (firstn 4 data) [0; 2; 170; 85]); [apply parse_v2_truncation|].
      destruct (leqb (firstn 4 data) [0; 3; 170; 85]); [apply parse_v3_truncation|]. eexists; reflexivity.
    - assert (Hs : (length (firstn 4 (firstn k data)) < 4)%nat) by (rewrite !firstn_length; lia).
      destruct (leqb (firstn 4 (firstn k data)) [0; 2; 170; 85]) eqn:E1.
      { apply leqb_eq in E1. rewrite E1 in Hs. cbn in Hs. lia. }
      destruct (leqb (firstn 4 (firstn k data)) [0; 3; 170; 85]) eqn:E2.
      { apply leqb_eq in E2. rewrite E2 in Hs. cbn in Hs. lia. }
      eexists; reflexivity.
  Qed.

  (* no loop ever runs out of its (linear) fuel: parsing stops after at most |data|+1 steps of every loop *)
  Theorem parse_no_fuel data : o_err (parse plist_ok data) <> Some EFuel.
  Proof.
    unfold parse.
    destruct (leqb (firstn 4 data) [0; 2; 170; 85]).
    - unfold parse_v2. destruct (header_v2 (skipn 4 data)) as [[tm r1]|e] eqn:H.
      + assert (G : forall f r, snd (recs2 f r) <> Some EFuel).
        { induction f as [|f IH]; intros r; cbn [recs2]; [discriminate|].
          destruct r; [discriminate|]. destruct (from_kd_buf _); [|discriminate].
          specialize (IH (skipn 64 (n :: r))). destruct (recs2 f (skipn 64 (n :: r))). exact IH. }
        specialize (G (length r1) r1). destruct (recs2 (length r1) r1). exact G.
      + cbn. intros [= ->]. unfold header_v2 in H.
        destruct (length (skipn 4 data) <? V2_FIXED)%nat; [discriminate|].
        assert (G : forall f n r, tm_array f n r <> Err EFuel).
        { induction f as [|f IH]; intros n r; cbn [tm_array]; destruct (N.eqb n 0); try discriminate.
          unfold tm_entry. destruct (length r <? 32)%nat; [discriminate|].
          destruct (cstring_fixed (slice r 12 20)) as [nm|e] eqn:C.
          - specialize (IH (n - 1) (skipn 32 r)). destruct (tm_array f (n - 1) (skipn 32 r)) as [[? ?]|e]; [discriminate|].
            intros [= ->]. now apply IH.
          - unfold cstring_fixed in C. destruct (existsb _ _); [destruct (utf8_ok _)|]; congruence. }
        specialize (G (length (skipn 4 data)) (le (slice (skipn 4 data) 0 4)) (skipn V2_FIXED (skipn 4 data))).
        destruct (tm_array _ _ _) as [[? ?]|e]; [discriminate|]. congruence.
    - destruct (leqb (firstn 4 data) [0; 3; 170; 85]); [|discriminate].
      unfold parse_v3. set (file := skipn 4 data).
      destruct (header_v3 plist_ok file) as [r0|e] eqn:H.
      + destruct (seek_until STACKSHOT_END (skipn 4 r0)) as [r2|e] eqn:S1.
        * destruct (seek_until THREADMAP_TAG r2) as [r3|e] eqn:S2.
          -- destruct (prefixed r3) as [[sub r4]|]; [|discriminate].
             pose proof (chunks3_no_fuel (S (length r4)) r4 (Nat.lt_succ_diag_r _)) as NF.
             destruct (chunks3 (S (length r4)) r4) as [es x]. cbn [snd] in NF.
             destruct x as [[g r5]|e]; [discriminate|]. cbn. congruence.
          -- cbn. intros [= ->]. eapply seek_until_no_fuel; eauto.
        * cbn. intros [= ->]. eapply seek_until_no_fuel; eauto.
      + cbn. intros [= ->]. unfold header_v3 in H.
        destruct (length file <? 60)%nat; [discriminate|].
        destruct (prefixed (skipn 60 file)) as [[pl r1]|]; [|discriminate].
        destruct (plist_ok pl); [|discriminate]. destruct (length r1 <? _)%nat; discriminate.
  Qed.
End V3P.

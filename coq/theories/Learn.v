(* Learn.v — the process-name learning done by the trace-class decoders
   (trace_handlers/trace.py: handle_trace_data_newthread, handle_trace_data_exec,
   handle_trace_string_newthread, handle_trace_string_exec) on top of the pairing machine.
   last_data_newthread / last_data_exec are dicts keyed by the EMITTING thread (events[0].tid);
   a STRING record names the pid of the last DATA record of the same emitting thread, if any. *)
From Coq Require Import NArith List Bool Lia.
From Kd Require Import theories.Pairing theories.PairingProofs theories.PairingProj.
Import ListNotations.
Open Scope N_scope.

Inductive lkind := LDataNew | LDataExec | LStrNew | LStrExec | LOther.

Record litem := mkLitem { l_tid : N; l_kind : lkind; l_pid : N; l_name : list N }.

Definition lslot := (option N * option N)%type.   (* (last_data_newthread[tid].pid, last_data_exec[tid].pid) *)

(* one delivered trace: new slot, and the writes  pids_names[pid] = name  it performs *)
Definition lstep (s : lslot) (i : litem) : lslot * list (N * list N) :=
  match l_kind i with
  | LDataNew => ((Some (l_pid i), snd s), [])
  | LDataExec => ((fst s, Some (l_pid i)), [])
  | LStrNew => (s, match fst s with Some p => [(p, l_name i)] | None => [] end)
  | LStrExec => (s, match snd s with Some p => [(p, l_name i)] | None => [] end)
  | LOther => (s, [])
  end.

Definition learn (items : list litem) : list (N * (N * list N)) :=
  krun litem lslot (N * list N) l_tid lstep (None, None) [] items.

Section OnPairing.
  Variable dom : N -> bool.
  Variable dec : N -> bool.
  (* how a decoder reads its head record: kind from the code's name, pid and name from the words/data *)
  Variable kind_of : pev -> lkind.
  Variable pid_of : pev -> N.
  Variable name_of : pev -> list N.

  Definition item_of (p : pev * option (list pev)) : list litem :=
    match snd p with
    | Some (h :: _) => [mkLitem (p_tid h) (kind_of h) (pid_of h) (name_of h)]
    | _ => []
    end.
  Definition items (h : list pev) : list litem := flat_map item_of (run_pairs dom dec h).

  (* the (pid, name) writes tagged with the emitting thread, for a whole stream *)
  Definition learned (h : list pev) : list (N * (N * list N)) := learn (items h).

  Lemma spec_pairs_out hr h e o :
    In (e, o) (spec_pairs dom dec hr h) -> exists hr', o = spec_out dom dec hr' e.
  Proof.
    unfold spec_pairs. revert hr; induction h as [|x r IH]; intros hr; cbn [spec_run combine]; [intros []|].
    intros [[= <- <-]|H]; eauto.
  Qed.

  Lemma item_of_tid hr h p i : In p (spec_pairs dom dec hr h) -> In i (item_of p) -> l_tid i = p_tid (fst p).
  Proof.
    destruct p as [e o]. intros H Hi. apply spec_pairs_out in H. destruct H as [hr' ->].
    unfold item_of in Hi. cbn [snd fst] in *.
    destruct (spec_out dom dec hr' e) as [[|x w]|] eqn:O; try contradiction.
    destruct Hi as [<-|[]]. cbn [l_tid].
    eapply spec_out_tids; eauto. left; auto.
  Qed.

  Lemma filter_items t l hr h :
    (forall p, In p l -> In p (spec_pairs dom dec hr h)) ->
    filter (itemT litem l_tid t) (flat_map item_of l) = flat_map item_of (filter (onTp t) l).
  Proof.
    induction l as [|p l IH]; intros Hin; cbn [flat_map filter]; auto.
    rewrite filter_app, IH by (intros; apply Hin; right; auto).
    assert (Hp : forall i, In i (item_of p) -> l_tid i = p_tid (fst p)).
    { intros i Hi. eapply item_of_tid; eauto. apply Hin. left; auto. }
    unfold onTp at 2, onT. destruct (N.eqb (p_tid (fst p)) t) eqn:T; cbn [flat_map]; f_equal.
    - clear -Hp T. induction (item_of p) as [|i r IHr]; cbn; auto.
      unfold itemT at 1. rewrite (Hp i) by (left; auto). rewrite T. f_equal. apply IHr. intros; apply Hp; right; auto.
    - clear -Hp T. induction (item_of p) as [|i r IHr]; cbn; auto.
      unfold itemT at 1. rewrite (Hp i) by (left; auto). rewrite T. apply IHr. intros; apply Hp; right; auto.
  Qed.

  Theorem items_proj t h : filter (itemT litem l_tid t) (items h) = items (filter (onT t) h).
  Proof.
    unfold items. rewrite <- run_pairs_proj.
    unfold run_pairs at 1 2. rewrite (run_opt_spec dom dec h [] pst0 (Inv_init dom)).
    apply (filter_items t _ [] h). auto.
  Qed.

  (* the names learned on behalf of thread t depend only on t's own records *)
  Theorem learned_proj t h :
    filter (tagT (N * list N) t) (learned h) = learned (filter (onT t) h).
  Proof. unfold learned, learn. rewrite krun_proj0, items_proj. reflexivity. Qed.

  Theorem learned_interleaving h1 h2 :
    (forall t, filter (onT t) h1 = filter (onT t) h2) ->
    forall t, filter (tagT (N * list N) t) (learned h1) = filter (tagT (N * list N) t) (learned h2).
  Proof. intros H t. rewrite !learned_proj, H. reflexivity. Qed.
End OnPairing.

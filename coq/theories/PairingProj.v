(* PairingProj.v — per-thread projection of the pairing machine (C05) and the generic
   "state keyed by emitting thread" projection lemma used for the name-learning slots. *)
From Coq Require Import NArith List Bool Lia.
From Kd Require Import theories.Pairing theories.PairingProofs.
Import ListNotations.
Open Scope N_scope.

Definition onT (t : N) (e : pev) : bool := N.eqb (p_tid e) t.

Section Proj.
  Variable dom : N -> bool.
  Variable dec : N -> bool.

  Lemma other_thread k e : N.eqb (p_tid e) (fst k) = false ->
    isS k e = false /\ isE k e = false /\ sideT dom k e = false.
  Proof.
    intros H. unfold isS, isE, sideT, keyb; cbn. rewrite (N.eqb_sym (fst k)), H. auto.
  Qed.

  Lemma is_open_filter t hr k : fst k = t -> is_open (filter (onT t) hr) k = is_open hr k.
  Proof.
    intros <-. induction hr as [|e r IH]; cbn; auto. unfold onT at 1.
    destruct (N.eqb (p_tid e) (fst k)) eqn:T; cbn; rewrite IH; auto.
    destruct (other_thread k e T) as (-> & -> & _); auto.
  Qed.

  Theorem window_filter t hr k : fst k = t -> window dom (filter (onT t) hr) k = window dom hr k.
  Proof.
    intros <-. induction hr as [|e r IH]; cbn; auto. unfold onT at 1.
    destruct (N.eqb (p_tid e) (fst k)) eqn:T; cbn.
    - rewrite IH. unfold strayb. rewrite is_open_filter; auto. cbn. apply N.eqb_eq in T; auto.
    - destruct (other_thread k e T) as (-> & -> & ->). rewrite IH. cbn. destruct (window dom r k); auto.
  Qed.

  Lemma spec_out_filter t hr e : p_tid e = t ->
    spec_out dom dec (filter (onT t) hr) e = spec_out dom dec hr e.
  Proof.
    intros H. unfold spec_out.
    rewrite window_filter by (cbn; auto). rewrite is_open_filter by (cbn; auto). reflexivity.
  Qed.

  (* (trigger event, what feed returned for it) *)
  Definition spec_pairs (hr h : list pev) : list (pev * option (list pev)) :=
    combine h (spec_run dom dec hr h).
  Definition onTp (t : N) (p : pev * option (list pev)) : bool := onT t (fst p).

  Theorem spec_pairs_proj t h : forall hr,
    filter (onTp t) (spec_pairs hr h) = spec_pairs (filter (onT t) hr) (filter (onT t) h).
  Proof.
    unfold spec_pairs.
    induction h as [|e r IH]; intros hr; cbn [spec_run combine filter]; auto.
    unfold onTp at 1. cbn [fst]. destruct (onT t e) eqn:T.
    - cbn [spec_run combine]. rewrite spec_out_filter by (now apply N.eqb_eq). f_equal.
      rewrite IH. cbn [filter]. rewrite T. reflexivity.
    - rewrite IH. cbn [filter]. rewrite T. reflexivity.
  Qed.

  (* the machine itself *)
  Definition run_pairs (h : list pev) : list (pev * option (list pev)) :=
    combine h (run_opt dom dec pst0 h).

  Theorem run_pairs_proj t h :
    filter (onTp t) (run_pairs h) = run_pairs (filter (onT t) h).
  Proof.
    unfold run_pairs.
    rewrite (run_opt_spec dom dec h [] pst0 (Inv_init dom)).
    rewrite (run_opt_spec dom dec (filter (onT t) h) [] pst0 (Inv_init dom)).
    apply (spec_pairs_proj t h []).
  Qed.

  Theorem interleaving_invariance h1 h2 :
    (forall t, filter (onT t) h1 = filter (onT t) h2) ->
    forall t, filter (onTp t) (run_pairs h1) = filter (onTp t) (run_pairs h2).
  Proof. intros H t. rewrite !run_pairs_proj, H. reflexivity. Qed.

  (* every event of a delivered window is on the trigger's thread *)
  Lemma window_tids hr k w x : window dom hr k = Some w -> In x w -> p_tid x = fst k.
  Proof.
    intros W I. apply window_char in W. destruct W as (b & s & a & _ & Hs & _ & ->).
    destruct I as [<-|I].
    - unfold isS in Hs. apply andb_true_iff in Hs. destruct Hs as [Hs _].
      apply keyb_eq in Hs. subst k. reflexivity.
    - apply collect_In in I. tauto.
  Qed.

  Lemma deliver_some w w' : deliver dec w = Some w' -> w' = w.
  Proof. unfold deliver. destruct w; [discriminate|]. destruct (dec _); congruence. Qed.

  Theorem spec_out_tids hr e w x : spec_out dom dec hr e = Some w -> In x w -> p_tid x = p_tid e.
  Proof.
    unfold spec_out. intros H I. destruct (p_q e).
    - destruct (is_open hr (kof e)); [discriminate|]. apply deliver_some in H. subst.
      destruct I as [<-|[]]; auto.
    - discriminate.
    - destruct (window dom hr (kof e)) eqn:W; [|discriminate]. apply deliver_some in H. subst.
      apply in_app_or in I. destruct I as [I|[<-|[]]]; auto.
      eapply window_tids in W; eauto.
    - apply deliver_some in H. subst. destruct I as [<-|[]]; auto.
  Qed.
End Proj.

(* ---------------------------------------------------------------------------------------
   Generic: a machine whose state is a table keyed by the emitting thread, each step reading and
   writing only the slot of its own thread (the repaired last_data_newthread / last_data_exec). *)
Section Keyed.
  Variables (I S O : Type).
  Variable tidI : I -> N.
  Variable stepk : S -> I -> S * list O.
  Variable s0 : S.

  Definition kstate := list (N * S).
  Fixpoint klookup (t : N) (st : kstate) : S :=
    match st with [] => s0 | (t', s) :: r => if N.eqb t t' then s else klookup t r end.
  Definition kupdate (t : N) (s : S) (st : kstate) : kstate := (t, s) :: st.

  Lemma klookup_update t t' s st :
    klookup t (kupdate t' s st) = if N.eqb t t' then s else klookup t st.
  Proof. reflexivity. Qed.

  (* outputs tagged with the emitting thread *)
  Fixpoint krun (st : kstate) (items : list I) : list (N * O) :=
    match items with
    | [] => []
    | i :: r => let (s', os) := stepk (klookup (tidI i) st) i in
                map (fun o => (tidI i, o)) os ++ krun (kupdate (tidI i) s' st) r
    end.

  Definition tagT (t : N) (p : N * O) : bool := N.eqb (fst p) t.
  Definition itemT (t : N) (i : I) : bool := N.eqb (tidI i) t.

  Lemma filter_tag_all t os : filter (tagT t) (map (fun o : O => (t, o)) os) = map (fun o => (t, o)) os.
  Proof. induction os; cbn; auto. unfold tagT at 1. cbn. rewrite N.eqb_refl. f_equal; auto. Qed.
  Lemma filter_tag_none t t' os : N.eqb t' t = false -> filter (tagT t) (map (fun o : O => (t', o)) os) = [].
  Proof. intros H. induction os; cbn; auto. unfold tagT at 1. cbn. rewrite H. auto. Qed.

  Theorem krun_proj t items : forall st st', klookup t st = klookup t st' ->
    filter (tagT t) (krun st items) = krun st' (filter (itemT t) items).
  Proof.
    induction items as [|i r IH]; intros st st' E; cbn [krun filter]; auto.
    unfold itemT at 1. destruct (N.eqb (tidI i) t) eqn:T.
    - apply N.eqb_eq in T. cbn [krun]. rewrite T, E.
      destruct (stepk (klookup t st') i) as [s' os]. rewrite filter_app, filter_tag_all. f_equal.
      apply IH. rewrite !klookup_update, N.eqb_refl. reflexivity.
    - destruct (stepk (klookup (tidI i) st) i) as [s' os]. rewrite filter_app, filter_tag_none by auto.
      cbn [app]. apply IH. rewrite klookup_update. rewrite (N.eqb_sym t), T. exact E.
  Qed.

  Corollary krun_proj0 t items : filter (tagT t) (krun [] items) = krun [] (filter (itemT t) items).
  Proof. apply krun_proj. reflexivity. Qed.
End Keyed.

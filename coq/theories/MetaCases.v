(* MetaCases.v — executable correspondence for the block-interpretation half of parse_v3 (C03). *)
From Coq Require Import String NArith List Bool.
From Kd Require Import theories.Base theories.Harness theories.OsLogBase theories.OsLog gen.GenOsLog theories.OsLogCases
  theories.V3Meta.
Import ListNotations.
Open Scope N_scope.

Definition ecode (e : oerr) : N := match e with OKeyError => 1 | OValueError => 2 | OTypeError => 3 end.

(* logs decoded in order until the first failure *)
Fixpoint logs_until (strings : list (N * list N)) (evs : list pv) : list dict * N :=
  match evs with
  | [] => ([], 0)
  | ev :: r => match as_dict ev >>= gen_from_raw strings with
               | OErr e => ([], ecode e)
               | OOk o => let (os, c) := logs_until strings r in (o :: os, c)
               end
  end.

(* (loads table, blocks, observed error code, trace codes, processes, kext binaries, images, dyld modules, logs) *)
Definition mcase := (list (list N * pv) * list (list N * list N) * N * list N * pv * list pv * pv * pv * list pv)%type.

Definition mcheck (c : mcase) : bool :=
  match c with
  | (tbl, blocks, err, codes, procs, kexts, imgs, dyld, logs) =>
    let loads b := match find (fun p => leqb (fst p) b) tbl with Some p => Some (snd p) | None => None end in
    match minterp loads ms0 blocks with
    | OErr e => N.eqb err (ecode e)
    | OOk s =>
      let (os, c) := logs_until (ms_strings s) (ms_logev s) in
      N.eqb err c && leqb (ms_codes s) codes && pv_eqb (ms_processes s) procs && pv_eqb (PList (ms_kexts s)) (PList kexts)
      && pv_eqb (ms_images s) imgs && pv_eqb (PDict (ms_dyld s)) dyld && pv_eqb (PList (map PDict os)) (PList logs)
    end
  end.

(* OsLog.v — model of OsLogEvent.from_raw_log_event / parse_trace_identifier / parse_decomposed(_segment)
   (pykdebugparser/os_log_event.py) over plist values.  The key -> field chain, the dataclass field list and
   the enums are GENERATED (gen/GenOsLog.v); this file gives them their semantics, generically. *)
From Coq Require Import String NArith List Bool Lia.
From Kd Require Import theories.Base theories.OsLogBase.
Import ListNotations.
Open Scope N_scope.

Inductive oerr := OKeyError | OValueError | OTypeError.
Inductive ores (A : Type) := OOk (a : A) | OErr (e : oerr).
Arguments OOk {A}. Arguments OErr {A}.

Definition obind {A B} (x : ores A) (f : A -> ores B) : ores B :=
  match x with OOk a => f a | OErr e => OErr e end.
Notation "x >>= f" := (obind x f) (at level 50, left associativity).

Fixpoint omap {A B} (f : A -> ores B) (l : list A) : ores (list B) :=
  match l with
  | [] => OOk []
  | x :: r => f x >>= fun y => omap f r >>= fun ys => OOk (y :: ys)
  end.

Definition dict := list (string * pv).
Fixpoint dlookup (k : string) (d : dict) : option pv :=
  match d with [] => None | (k', v) :: r => if String.eqb k' k then Some v else dlookup k r end.
Definition dhas (k : string) (d : dict) : bool := match dlookup k d with Some _ => true | None => false end.
(* d[k] on a plist dict *)
Definition dget (k : string) (d : dict) : ores pv :=
  match dlookup k d with Some v => OOk v | None => OErr OKeyError end.
(* parsed[k] = v : replace in place if present (dict keeps first insertion position), else append *)
Fixpoint dset (k : string) (v : pv) (d : dict) : dict :=
  match d with
  | [] => [(k, v)]
  | (k', v') :: r => if String.eqb k' k then (k', v) :: r else (k', v') :: dset k v r
  end.

Section Dec.
  Variable strings : list (N * list N).        (* log_strings: index -> text *)
  Variable log_types namespaces pc_styles : list N.
  Variable type_enums flag_enums : list (N * (bool * list N)).

  Definition memN (x : N) (l : list N) : bool := existsb (N.eqb x) l.
  Fixpoint assocN {V} (k : N) (l : list (N * V)) : option V :=
    match l with [] => None | (k', v) :: r => if N.eqb k' k then Some v else assocN k r end.

  (* log_strings[v] *)
  Definition str_of (v : pv) : ores pv :=
    match v with
    | PInt i => match assocN i strings with Some s => OOk (PStr s) | None => OErr OKeyError end
    | PList _ | PDict _ => OErr OTypeError          (* unhashable *)
    | _ => OErr OKeyError
    end.

  Definition as_dict (v : pv) : ores dict := match v with PDict d => OOk d | _ => OErr OTypeError end.
  Definition as_list (v : pv) : ores (list pv) := match v with PList l => OOk l | _ => OErr OTypeError end.

  (* ---- parse_trace_identifier: Struct(namespace Byte, type_ Byte, trace_flags BitStruct(Padding 2, Flag, Flag,
          BitsInteger 3, Flag), flags Byte, code Int32ul) over Int64ul.build(word) ---- *)
  Definition enum_conv (e : bool * list N) (v : N) : ores pv :=
    if fst e then OOk (PInt v) else if memN v (snd e) then OOk (PInt v) else OErr OValueError.

  Definition parse_tid (w : N) : ores pv :=
    let ns := w mod 256 in
    let ty := (w / 2 ^ 8) mod 256 in
    let tf := (w / 2 ^ 16) mod 256 in
    let fl := (w / 2 ^ 24) mod 256 in
    let code := (w / 2 ^ 32) mod 2 ^ 32 in
    if 2 ^ 64 <=? w then OErr OValueError            (* Int64ul.build fails *)
    else if memN ns namespaces then
      (match assocN ns type_enums with Some e => enum_conv e ty | None => OOk (PInt ty) end) >>= fun ty' =>
      (if memN ((tf / 2) mod 8) pc_styles then OOk (PInt ((tf / 2) mod 8)) else OErr OValueError) >>= fun pc =>
      (match assocN ns flag_enums with Some e => enum_conv e fl | None => OOk PNone end) >>= fun fl' =>
      OOk (PDict [("namespace"%string, PInt ns); ("type_"%string, ty');
                  ("has_large_offset"%string, PBool (N.eqb ((tf / 32) mod 2) 1));
                  ("has_unique_pid"%string, PBool (N.eqb ((tf / 16) mod 2) 1));
                  ("pc_style"%string, pc);
                  ("has_current_aid"%string, PBool (N.eqb (tf mod 2) 1));
                  ("flags"%string, fl'); ("code"%string, PInt code)])
    else OErr OValueError.

  (* ---- parse_decomposed_segment ---- *)
  Definition opt_field (src : dict) (k : string) (f : pv -> ores pv) (name : string) (acc : dict) : ores dict :=
    match dlookup k src with Some v => f v >>= fun x => OOk (dset name x acc) | None => OOk acc end.

  Definition truthy (v : pv) : bool :=
    match v with
    | PInt 0 => false | PList [] => false | PDict [] => false | PStr [] => false | PBytes [] => false
    | PBool b => b | PNone => false | _ => true
    end.

  Definition pv_is_int (v : pv) (n : N) : bool := match v with PInt m => N.eqb m n | _ => false end.

  Definition parse_placeholder (p : dict) : ores pv :=
    opt_field p "rs" str_of "raw_string" [] >>= fun a1 =>
    (match dlookup "t" p with
     | Some t => if truthy t then as_list t >>= fun l => omap str_of l >>= fun ts => OOk (dset "tokens" (PList ts) a1)
                 else OOk a1
     | None => OOk a1 end) >>= fun a2 =>
    opt_field p "tn" str_of "type_namespace" a2 >>= fun a3 =>
    opt_field p "ty" str_of "type" a3 >>= fun a4 =>
    dget "w" p >>= fun w => dget "p" p >>= fun pr =>
    OOk (PDict (dset "precision" pr (dset "width" w a4))).

  Definition parse_arg (a : dict) : ores pv :=
    opt_field a "a" OOk "availability" [] >>= fun r1 =>
    opt_field a "p" OOk "privacy" r1 >>= fun r2 =>
    opt_field a "c" OOk "category" r2 >>= fun r3 =>
    dget "category" r3 >>= fun cat =>
    (if pv_is_int cat 1
     then opt_field a "sc" OOk "scalar_category" r3 >>= fun x => opt_field a "st" OOk "scalar_type" x
     else OOk r3) >>= fun r4 =>
    (if negb (dhas "availability" r4) || (match dlookup "availability" r4 with Some v => pv_is_int v 3 | None => false end)
     then match dlookup "or" a with
          | Some o => (if pv_is_int cat 2 then str_of o else OOk o) >>= fun x => OOk (dset "object_representation" x r4)
          | None => OOk r4
          end
     else OOk r4) >>= fun r5 =>
    OOk (PDict r5).

  Definition parse_segment (seg : pv) : ores pv :=
    as_dict seg >>= fun s =>
    opt_field s "lp" str_of "literal_prefix" [] >>= fun a1 =>
    (match dlookup "p" s with
     | Some p => as_dict p >>= fun pd => parse_placeholder pd >>= fun x => OOk (dset "placeholder" x a1)
     | None => OOk a1 end) >>= fun a2 =>
    (match dlookup "a" s with
     | Some a => as_dict a >>= fun ad => parse_arg ad >>= fun x => OOk (dset "arg" x a2)
     | None => OOk a2 end) >>= fun a3 =>
    OOk (PDict a3).

  Definition parse_decomposed (v : pv) : ores pv :=
    as_dict v >>= fun d =>
    dget "pc" d >>= fun pc => dget "s" d >>= fun st =>
    let base := [("placeholder_count"%string, pc); ("state"%string, st)] in
    if truthy pc
    then dget "seg" d >>= fun sg => as_list sg >>= fun l => omap parse_segment l >>= fun segs =>
         OOk (PDict (base ++ [("segments"%string, PList segs)]))
    else OOk (PDict base).

  Definition two_keys (v : pv) (k1 k2 n1 n2 : string) : ores pv :=
    as_dict v >>= fun d => dget k1 d >>= fun a => dget k2 d >>= fun b => OOk (PDict [(n1, a); (n2, b)]).

  (* unix_date: sec + usec/10^6 as a UTC instant; modelled exactly, in microseconds since the epoch *)
  Definition unix_date (v : pv) : ores pv :=
    as_dict v >>= fun d => dget "sec" d >>= fun s => dget "usec" d >>= fun u =>
    match s, u with PInt a, PInt b => OOk (PInt (a * 1000000 + b)) | _, _ => OErr OTypeError end.

  Definition apply_conv (c : conv) (v : pv) : ores pv :=
    match c with
    | CId => OOk v
    | CStr => str_of v
    | CLogType => match v with PInt i => if memN i log_types then OOk (PInt i) else OErr OValueError
                               | _ => OErr OValueError end
    | CTraceId => match v with PInt w => parse_tid w | _ => OErr OTypeError end
    | CTz => two_keys v "mw" "dt" "minutes_west" "dst_time"
    | CLossCount => two_keys v "c" "s" "count" "unknown"
    | CBacktrace => as_list v >>= fun l =>
                    omap (fun lv => two_keys lv "iu" "io" "image_uuid" "image_offset") l >>= fun r => OOk (PList r)
    | CDecomposed => parse_decomposed v
    | CUnixDate => unix_date v
    end.

  (* ---- from_raw_log_event ---- *)
  Definition chain := list (string * string * conv).

  Fixpoint run_mandatory (ch : chain) (ev : dict) (acc : dict) : ores dict :=
    match ch with
    | [] => OOk acc
    | (k, f, c) :: r => dget k ev >>= fun v => apply_conv c v >>= fun x => run_mandatory r ev (dset f x acc)
    end.
  Fixpoint run_optional (ch : chain) (ev : dict) (acc : dict) : ores dict :=
    match ch with
    | [] => OOk acc
    | (k, f, c) :: r =>
      match dlookup k ev with
      | Some v => apply_conv c v >>= fun x => run_optional r ev (dset f x acc)
      | None => run_optional r ev acc
      end
    end.

  (* the OsLogEvent constructor call with keyword arguments: TypeError for an undeclared keyword or a missing field without default;
     the object = every declared field with the produced value or its default *)
  Definition construct (fields : list (string * option pv)) (parsed : dict) : ores dict :=
    if forallb (fun kv => existsb (fun f => String.eqb (fst f) (fst kv)) fields) parsed
    then omap (fun f => match dlookup (fst f) parsed with
                        | Some v => OOk (fst f, v)
                        | None => match snd f with Some d => OOk (fst f, d) | None => OErr OTypeError end
                        end) fields
    else OErr OTypeError.

  Definition from_raw (fields : list (string * option pv)) (mand opt : chain) (ev : dict) : ores dict :=
    run_mandatory mand ev [] >>= fun a => run_optional opt ev a >>= fun b => construct fields b.
End Dec.

(* ChunksWindow.v — the reassemblers on the WINDOW their decoder receives: records of other event ids of the same thread and
   pairing domain may lie between the chunks (C04 puts them there); the text is built from the records of the decoder's own
   id only (repair F28), the path of a syscall from the lookup records only.  Whatever unrelated records are merged between
   the chunks, and however, the round trips of Chunks.v still hold.  (C08 "arbitrary unrelated same-thread records in between") *)
From Coq Require Import NArith List Bool Lia.
From Kd Require Import theories.Base theories.Chunks.
Import ListNotations.
Open Scope N_scope.

(* a record of a window: its event id and what the reassemblers read of it *)
Definition wrec := (N * crec)%type.
Definition own (c : N) (w : list wrec) : list crec := map snd (filter (fun r => N.eqb (fst r) c) w).

(* handle_trace_string_global / handle_trace_string_threadname on their window: own id = id of the first record *)
Definition gstring_w (w : list wrec) : N * N * list N :=
  match w with [] => global_string [] | (c, _) :: _ => global_string (own c w) end.
Definition name_w (w : list wrec) : list N :=
  match w with [] => thread_name [] | (c, _) :: _ => thread_name (own c w) end.
(* parse_vnodes on a syscall window: the records whose name is VFS_LOOKUP (lk = the ids the table gives that name) *)
Definition vnodes_w (lk : N -> bool) (w : list wrec) : list (N * list N) :=
  vnode_generator (map snd (filter (fun r => lk (fst r)) w)).

(* w is an interleaving of a and b that keeps the order of each *)
Inductive merge {A} : list A -> list A -> list A -> Prop :=
| merge_nil : merge [] [] []
| merge_l x a b w : merge a b w -> merge (x :: a) b (x :: w)
| merge_r y a b w : merge a b w -> merge a (y :: b) (y :: w).

Lemma filter_merge {A} (f : A -> bool) a b w : merge a b w ->
  Forall (fun x => f x = true) a -> Forall (fun y => f y = false) b -> filter f w = a.
Proof.
  induction 1 as [|x a b w M IH|y a b w M IH]; intros Ha Hb; cbn [filter]; auto.
  - inversion Ha as [|? ? Hx Ha']; subst. rewrite Hx. f_equal. now apply IH.
  - inversion Hb as [|? ? Hy Hb']; subst. rewrite Hy. now apply IH.
Qed.

Definition tag (c : N) (l : list crec) : list wrec := map (pair c) l.

Lemma own_merge c chunks foreign w :
  merge (tag c chunks) foreign w -> Forall (fun r => fst r <> c) foreign -> own c w = chunks.
Proof.
  intros M F. unfold own. rewrite (filter_merge _ _ _ _ M).
  - unfold tag. rewrite map_map. cbn [snd]. apply map_id.
  - unfold tag. apply Forall_forall. intros r Hr. apply in_map_iff in Hr. destruct Hr as (x & <- & _). cbn. apply N.eqb_refl.
  - eapply Forall_impl; [|exact F]. intros r Hr. cbn. now apply N.eqb_neq.
Qed.

(* the window begins with the START chunk of the text (C04: a window begins with the START of its own code) *)
Theorem gstring_with_unrelated c dbg sid text first rest foreign w :
  dbg < 2 ^ 64 -> sid < 2 ^ 64 -> clean text -> enc_gstring dbg sid text = first :: rest ->
  merge (tag c rest) foreign w -> Forall (fun r => fst r <> c) foreign ->
  gstring_w ((c, first) :: w) = (dbg, sid, text).
Proof.
  intros Hd Hs Hc E M F. unfold gstring_w.
  assert (O : own c ((c, first) :: w) = first :: rest).
  { unfold own. cbn [filter fst]. rewrite N.eqb_refl. cbn [map snd]. f_equal. exact (own_merge c rest foreign w M F). }
  rewrite O, <- E. now apply gstring_roundtrip.
Qed.

Theorem name_with_unrelated c text first rest foreign w :
  clean text -> enc_name text = first :: rest ->
  merge (tag c rest) foreign w -> Forall (fun r => fst r <> c) foreign ->
  name_w ((c, first) :: w) = text.
Proof.
  intros Hc E M F. unfold name_w.
  assert (O : own c ((c, first) :: w) = first :: rest).
  { unfold own. cbn [filter fst]. rewrite N.eqb_refl. cbn [map snd]. f_equal. exact (own_merge c rest foreign w M F). }
  rewrite O, <- E. now apply name_roundtrip.
Qed.

(* a syscall window: any records that are not lookups, merged anyhow between and around the chunks of one lookup *)
Theorem lookup_with_unrelated (lk : N -> bool) c vid text foreign w :
  lk c = true -> vid < 2 ^ 64 -> clean text ->
  merge (tag c (enc_lookup vid text)) foreign w -> Forall (fun r => lk (fst r) = false) foreign ->
  vnodes_w lk w = [(vid, text)].
Proof.
  intros L Hv Hc M F. unfold vnodes_w. rewrite (filter_merge _ _ _ _ M).
  - unfold tag. rewrite map_map. cbn [snd]. rewrite map_id. now apply lookup_roundtrip.
  - unfold tag. apply Forall_forall. intros r Hr. apply in_map_iff in Hr. destruct Hr as (x & <- & _). exact L.
  - exact F.
Qed.

(* what the text would be WITHOUT the restriction to the own id (the code before the repair): a witness that it differs *)
Example unrestricted_differs :
  let first := mkC 1 (enc 8 5 ++ enc 8 9 ++ [104; 105] ++ repeat 0 14) in
  let last := mkC 2 ([33] ++ repeat 0 31) in
  let other := mkC 0 ([65; 66] ++ repeat 0 30) in
  gstring_w [(7, first); (8, other); (7, last)] = (5, 9, [104; 105; 33]) /\
  global_string [first; other; last] = (5, 9, [104; 105; 65; 66; 33]).
Proof. vm_compute. split; reflexivity. Qed.

(* TraceCodesCases.v — executable correspondence for from_trace_codes_text and for decoding under a
   caller-supplied table (C19). *)
From Coq Require Import NArith List Bool.
From Kd Require Import theories.Base theories.Harness theories.TraceCodes theories.TraceCodesThms theories.Pairing
  theories.PairingCases.
Import ListNotations.
Open Scope N_scope.

(* (text as code points, observed): observed = inl 1 (IndexError) | inl 2 (ValueError) | inr dict items *)
Definition xcase := (list N * (N + list (N * list N)))%type.

Definition xcheck (c : xcase) : bool :=
  match c with
  | (text, obs) =>
    match from_text text, obs with
    | PErr IndexError, inl 1 => true
    | PErr ValueError, inl 2 => true
    | POk l, inr items =>
      forallb (fun kv => opt_eqb leqb (lookup_last (fst kv) l) (Some (snd kv))) items
      && forallb (fun kv => existsb (fun it => N.eqb (fst it) (fst kv)) items) l
    | _, _ => false
    end
  end.

(* (table, trace-handler names, all handler names, events, observed windows); names are small tags *)
Definition tcase := (list (N * list N) * list (list N) * list (list N) * list pin * list (option (list N)))%type.

Definition tcheck (c : tcase) : bool :=
  match c with
  | (t, tn, hn, ins, ow) =>
    let h := mk_pevs 0 ins in
    list_eqb (opt_eqb leqb) (map (option_map (map p_uid)) (run_opt (dom_of tn t) (dec_of hn t) pst0 h)) ow
  end.

(* FiltersPipeline.v — PyKdebugParser.traces() as a whole: event selection (helper classes), pairing machine, the
   table writes of the decoders along the delivered traces, and the thread / process / helper post-filters.
   Theorem: the filtered request yields exactly the traces of the run WITHOUT ANY FILTER that satisfy the thread, the
   process and the class filters - the process being judged with the tables as the unfiltered run has them at that
   trace - in the same order, each window restricted to the fed events, each with the same tables.  (C13)

   Part 1 is generic in the table machine (state S, step, the set of codes whose decoders write the tables);
   part 2 instantiates it with the table writes of Format.apply_window (the C14 model). *)
From Coq Require Import NArith List Bool Lia.
From Kd Require Import theories.Base theories.Printers theories.Filters theories.Pairing theories.PairingProofs
  theories.PairingProj theories.PairingFilter theories.FiltersTraces.
Import ListNotations.
Open Scope N_scope.

Definition tr := (pev * list pev)%type.                  (* trigger record, delivered window *)
Definition delivered (l : list (pev * option (list pev))) : list tr :=
  flat_map (fun p => match snd p with Some w => [(fst p, w)] | None => [] end) l.

(* every delivered window starts with a record of the trigger's own key (its START, or the trigger itself) *)
Definition headed (t : tr) : Prop := exists h r, snd t = h :: r /\ kof h = kof (fst t).

Section Heads.
  Variable dom dec : N -> bool.

  Lemma deliver_some w w' : deliver dec w = Some w' -> w' = w.
  Proof. unfold deliver. destruct w as [|h r]; [discriminate|]. destruct (dec (p_code h)); congruence. Qed.

  Lemma spec_out_headed hr e w : spec_out dom dec hr e = Some w -> headed (e, w).
  Proof.
    unfold spec_out, headed. cbn [fst snd]. destruct (p_q e).
    - destruct (is_open hr (kof e)); [discriminate|]. intros H. apply deliver_some in H. subst w. now exists e, [].
    - discriminate.
    - destruct (window dom hr (kof e)) as [w0|] eqn:W; [|discriminate]. intros H. apply deliver_some in H. subst w.
      apply window_char in W. destruct W as (b & s & a & _ & Hs & _ & ->).
      exists s, (collect dom (s :: rev b) (kof e) a ++ [e]). split; [reflexivity|].
      unfold isS in Hs. apply andb_true_iff in Hs. destruct Hs as [Hk _]. apply keyb_eq in Hk. now symmetry.
    - intros H. apply deliver_some in H. subst w. now exists e, [].
  Qed.

  Lemma delivered_headed h : forall hr, Forall headed (delivered (pairs dom dec hr h)).
  Proof.
    unfold pairs. induction h as [|e r IH]; intros hr; cbn [spec_run combine delivered flat_map]; [constructor|].
    cbn [fst snd]. destruct (spec_out dom dec hr e) as [w|] eqn:O; cbn [app].
    - constructor; [eapply spec_out_headed; eassumption | apply IH].
    - apply IH.
  Qed.
End Heads.

Lemma delivered_restrict allow l :
  delivered (map (restrict allow) (filter (Pp allow) l))
  = map (fun t : tr => (fst t, filter (P allow) (snd t))) (filter (fun t : tr => allow (p_code (fst t))) (delivered l)).
Proof.
  induction l as [|[e o] l IH]; cbn [filter map delivered flat_map]; auto.
  unfold Pp at 1, P at 1. cbn [fst snd].
  destruct o as [w|]; cbn [app].
  - destruct (allow (p_code e)) eqn:A; cbn [map filter delivered flat_map restrict fst snd option_map app].
    + rewrite A. cbn [map]. f_equal. exact IH.
    + rewrite A. exact IH.
  - destruct (allow (p_code e)); cbn [map delivered flat_map restrict fst snd option_map app]; exact IH.
Qed.

(* ================= part 1: generic table machine ================= *)
Section Pipe.
  Variable dom dec : N -> bool.
  Variable S : Type.
  Variable step : S -> list pev -> S.          (* table writes of decoding one delivered window *)
  Variable proc_ok : str -> S -> N -> bool.    (* _filter_process_callback: filter value, tables, thread id *)
  Variable writer : N -> bool.                 (* codes whose decoders write the tables (or are read for it) *)
  Hypothesis step_nonwriter : forall s h r, writer (p_code h) = false -> step s (h :: r) = s.
  Hypothesis step_restrict : forall (allow : N -> bool) s h r,
    (forall c, writer c = true -> allow c = true) -> allow (p_code h) = true ->
    step s (filter (P allow) (h :: r)) = step s (h :: r).

  (* each delivered trace with the tables before and after its own decoding *)
  Fixpoint annot (s : S) (l : list tr) : list (tr * (S * S)) :=
    match l with [] => [] | t :: r => let s' := step s (snd t) in (t, (s, s')) :: annot s' r end.

  Definition restrictS (allow : N -> bool) (x : tr * (S * S)) : tr * (S * S) :=
    ((fst (fst x), filter (P allow) (snd (fst x))), snd x).

  Lemma annot_restrict allow : (forall c, writer c = true -> allow c = true) ->
    forall l s, Forall headed l ->
    annot s (map (fun t : tr => (fst t, filter (P allow) (snd t))) (filter (fun t : tr => allow (p_code (fst t))) l))
    = map (restrictS allow) (filter (fun x : tr * (S * S) => allow (p_code (fst (fst x)))) (annot s l)).
  Proof.
    intros HW. remember (filter (P allow)) as FW eqn:EFW.
    induction l as [|[e w] l IH]; intros s HF; cbn [filter map annot]; auto.
    inversion HF as [|? ? (h & r & Hw & Hk) HF']; subst x l0. cbn [fst snd] in *. subst w.
    assert (Hc : p_code h = p_code e) by (unfold kof in Hk; congruence).
    destruct (allow (p_code e)) eqn:A; cbn [map annot fst snd filter].
    - cbn [map]. unfold restrictS at 1. cbn [fst snd]. rewrite <- EFW.
      assert (E : step s (FW (h :: r)) = step s (h :: r)) by (subst FW; apply step_restrict; auto; now rewrite Hc).
      rewrite E. f_equal. apply IH. exact HF'.
    - assert (Wn : writer (p_code h) = false).
      { destruct (writer (p_code h)) eqn:Wh; auto. apply HW in Wh. rewrite Hc, A in Wh. discriminate. }
      rewrite step_nonwriter by exact Wn. apply IH. exact HF'.
  Qed.

  Definition procf (cfg : fcfg) (s : S) (tid : N) : bool :=
    match c_proc cfg with None => true | Some p => proc_ok p s tid end.
  Definition keepT (cfg : fcfg) (x : tr * (S * S)) : bool := tid_ok (c_tid cfg) (p_tid (fst (fst x))).
  (* the process filter runs on the decoded trace: tables as they are AFTER its own decoding *)
  Definition keepP (cfg : fcfg) (x : tr * (S * S)) : bool := procf cfg (snd (snd x)) (p_tid (fst (fst x))).
  Definition keepH (cfg : fcfg) (x : tr * (S * S)) : bool := post_keep cfg (p_code (fst (fst x))).

  (* traces(): events selected by class (helper classes included), paired, decoded (tables written), then the
     thread filter, the process filter and the helper post-filters on the decoded traces *)
  Definition pipeline (cfg : fcfg) (s0 : S) (h : list pev) : list (tr * (S * S)) :=
    filter (keepH cfg) (filter (keepP cfg) (filter (keepT cfg)
      (annot s0 (delivered (pairs dom dec [] (filter (P (fed cfg)) h)))))).

  (* the same dump read with no filter at all *)
  Definition reference (s0 : S) (h : list pev) : list (tr * (S * S)) := annot s0 (delivered (pairs dom dec [] h)).

  Lemma filter_map_comm {A B} (f : A -> B) (p : B -> bool) (q : A -> bool) l :
    (forall x, p (f x) = q x) -> filter p (map f l) = map f (filter q l).
  Proof. intros H. induction l as [|x l IH]; cbn; auto. rewrite H. destruct (q x); cbn; now rewrite IH. Qed.

  Theorem pipeline_commutes cfg s0 h :
    (forall c, writer c = true -> fed cfg c = true) ->
    pipeline cfg s0 h =
    map (restrictS (fed cfg))
        (filter (fun x => requested cfg (p_code (fst (fst x))) && keepT cfg x && keepP cfg x) (reference s0 h)).
  Proof.
    intros HW. unfold pipeline, reference.
    pose proof (filtered_run dom dec (fed cfg) h []) as FR. cbn [filter] in FR. rewrite FR.
    rewrite delivered_restrict.
    rewrite (annot_restrict (fed cfg) HW) by apply delivered_headed.
    generalize (annot s0 (delivered (pairs dom dec [] h))). intros l.
    rewrite (filter_map_comm (restrictS (fed cfg)) (keepT cfg) (keepT cfg)) by reflexivity.
    rewrite (filter_map_comm (restrictS (fed cfg)) (keepP cfg) (keepP cfg)) by reflexivity.
    rewrite (filter_map_comm (restrictS (fed cfg)) (keepH cfg) (keepH cfg)) by reflexivity.
    f_equal. rewrite !filter_filter. apply filter_ext_in'. intros x _.
    change (fed cfg (p_code (fst (fst x))) && (keepT cfg x && (keepP cfg x && post_keep cfg (p_code (fst (fst x)))))
            = requested cfg (p_code (fst (fst x))) && keepT cfg x && keepP cfg x).
    pose proof (fed_post_requested cfg (p_code (fst (fst x)))) as R.
    destruct (fed cfg (p_code (fst (fst x)))), (post_keep cfg (p_code (fst (fst x)))),
             (requested cfg (p_code (fst (fst x)))), (keepT cfg x), (keepP cfg x); cbn in *; congruence.
  Qed.

  (* in particular: the tables a reported trace is decoded and formatted with are those of the unfiltered run *)
  Corollary pipeline_states cfg s0 h :
    (forall c, writer c = true -> fed cfg c = true) ->
    forall x, In x (pipeline cfg s0 h) -> exists y, In y (reference s0 h) /\ snd x = snd y /\ fst (fst x) = fst (fst y).
  Proof.
    intros HW x Hx. rewrite pipeline_commutes in Hx by exact HW. apply in_map_iff in Hx. destruct Hx as (y & <- & Hy).
    apply filter_In in Hy. destruct Hy as [Hy _]. exists y. auto.
  Qed.
  (* ---- identical text ----
     The text of a trace is a function of the tables before its decoding and of its window.  Hypothesis (read-set
     closure, c13_closed + c13_bsd_feeds_lookups + the always-fed classes): for a requested trace, dropping the records
     that are not fed does not change the text. *)
  Variable T : Type.
  Variable text : S -> list pev -> T.
  Definition text_of (x : tr * (S * S)) : T := text (fst (snd x)) (snd (fst x)).

  Corollary pipeline_texts cfg s0 h :
    (forall c, writer c = true -> fed cfg c = true) ->
    (forall s e w, headed (e, w) -> requested cfg (p_code e) = true -> text s (filter (P (fed cfg)) w) = text s w) ->
    map text_of (pipeline cfg s0 h)
    = map text_of (filter (fun x => requested cfg (p_code (fst (fst x))) && keepT cfg x && keepP cfg x) (reference s0 h)).
  Proof.
    intros HW HT. rewrite pipeline_commutes by exact HW. rewrite map_map.
    unfold reference. pose proof (delivered_headed dom dec h []) as HF.
    assert (HA : forall l s, Forall headed l -> Forall (fun x : tr * (S * S) => headed (fst x)) (annot s l)).
    { induction l as [|t l IH]; intros s H; cbn [annot]; constructor; inversion H; subst; auto. }
    specialize (HA _ s0 HF). rewrite Forall_forall in HA.
    apply map_ext_in. intros x Hx. apply filter_In in Hx. destruct Hx as [Hin Hp].
    apply andb_true_iff in Hp. destruct Hp as [Hp _]. apply andb_true_iff in Hp. destruct Hp as [Hr _].
    specialize (HA x Hin). destruct x as [[e w] ss]. unfold text_of, restrictS. cbn [fst snd] in *. apply (HT (fst ss) e w); assumption.
  Qed.
End Pipe.

(* the classes that write the tables are always fed *)
Lemma perf_class_always_fed cfg code : cls code = DBG_PERF -> fed cfg code = true.
Proof.
  intros C. unfold fed. destruct (has_filters cfg) eqn:HF; auto.
  unfold helper_classes, add_perf_class. rewrite HF. cbn [andb].
  destruct (memN DBG_PERF (c_class cfg)) eqn:M.
  - unfold allowed. change (N.shiftr code 24) with (cls code). rewrite C, M. cbn. apply orb_true_r.
  - cbn [negb]. unfold memN. rewrite !existsb_app. rewrite C. cbn. rewrite !orb_true_r. reflexivity.
Qed.
Lemma trace_class_always_fed cfg code : cls code = DBG_TRACE -> fed cfg code = true.
Proof.
  intros C. unfold fed. destruct (has_filters cfg) eqn:HF; auto.
  unfold helper_classes, add_trace_class. rewrite HF. cbn [andb].
  destruct (memN DBG_TRACE (c_class cfg)) eqn:M.
  - unfold allowed. change (N.shiftr code 24) with (cls code). rewrite C, M. cbn. apply orb_true_r.
  - cbn [negb app]. unfold memN. rewrite C. cbn. reflexivity.
Qed.

(* Utf8.v — strict UTF-8 validity (bytes.decode('utf8') succeeds iff utf8_ok), a library oracle written out.
   Validated against the interpreter by the container correspondences (all 1- and 2-byte strings, sampled longer). *)
From Coq Require Import NArith List Bool.
Import ListNotations.
Open Scope N_scope.

Definition inr (lo hi b : N) : bool := (lo <=? b) && (b <=? hi).
Definition cont (b : N) : bool := inr 128 191 b.

Fixpoint utf8_ok (l : list N) : bool :=
  match l with
  | [] => true
  | b :: r =>
    if b <? 128 then utf8_ok r
    else if inr 194 223 b then
      match r with b1 :: r1 => cont b1 && utf8_ok r1 | _ => false end
    else if inr 224 239 b then
      match r with
      | b1 :: b2 :: r2 =>
        (if b =? 224 then inr 160 191 b1 else if b =? 237 then inr 128 159 b1 else cont b1)
        && cont b2 && utf8_ok r2
      | _ => false end
    else if inr 240 244 b then
      match r with
      | b1 :: b2 :: b3 :: r3 =>
        (if b =? 240 then inr 144 191 b1 else if b =? 244 then inr 128 143 b1 else cont b1)
        && cont b2 && cont b3 && utf8_ok r3
      | _ => false end
    else false
  end.

(* Filters.v — model of PyKdebugParser.kevents / os_log_events / _is_eventid_allowed
   (pykdebugparser/pykdebugparser.py) as stage-by-stage filter chains, and the exact-subsequence
   theorems of C12.  The stream is what KdBufParser.parse yields: events and log records. *)
From Coq Require Import NArith List Bool Lia.
From Kd Require Import theories.Base theories.Printers.
Import ListNotations.
Open Scope N_scope.

Record fev := mkFev { f_tid : N; f_eid : N; f_uid : N }.
Record flog := mkFlog { g_tid : N; g_pid : N; g_proc : str; g_uid : N }.
Inductive item := Ev (e : fev) | Lg (l : flog).

Record fcfg := mkCfg { c_tid : option N; c_proc : option str; c_class : list N; c_sub : list N }.

Definition memN (x : N) (l : list N) : bool := existsb (N.eqb x) l.
Definition nonempty {A} (l : list A) : bool := match l with [] => false | _ => true end.

(* _is_eventid_allowed *)
Definition allowed (cfg : fcfg) (eid : N) : bool :=
  memN (N.shiftr eid 24) (c_class cfg) || memN (N.shiftr eid 16) (c_sub cfg).

Definition is_ev (i : item) : bool := match i with Ev _ => true | Lg _ => false end.
Definition is_log (i : item) : bool := negb (is_ev i).

(* kevents(): three filter stages, the 2nd and 3rd present only when configured.  After stage 1 only
   events remain, so the lambdas of stages 2/3 (which read e.tid / e.eventid) never see a log record. *)
Definition kevents (cfg : fcfg) (helper : list N) (items : list item) : list item :=
  let s1 := filter is_ev items in
  let s2 := match c_tid cfg with
            | Some t => filter (fun i => match i with Ev e => N.eqb (f_tid e) t | Lg _ => false end) s1
            | None => s1 end in
  if nonempty (c_class cfg) || nonempty (c_sub cfg)
  then filter (fun i => match i with
                        | Ev e => memN (N.shiftr (f_eid e) 24) helper || allowed cfg (f_eid e)
                        | Lg _ => false end) s2
  else s2.

(* os_log_events() *)
Definition os_log_events (cfg : fcfg) (items : list item) : list item :=
  let s1 := filter is_log items in
  let s2 := match c_tid cfg with
            | Some t => filter (fun i => match i with Lg l => N.eqb (g_tid l) t | Ev _ => false end) s1
            | None => s1 end in
  match c_proc cfg with
  | Some p => filter (fun i => match i with
                               | Lg l => leqb p (g_proc l) || leqb p (dec (g_pid l))
                               | Ev _ => false end) s2
  | None => s2
  end.

(* ---------------- specification ---------------- *)
Definition evs (items : list item) : list fev :=
  flat_map (fun i => match i with Ev e => [e] | Lg _ => [] end) items.
Definition logs (items : list item) : list flog :=
  flat_map (fun i => match i with Lg l => [l] | Ev _ => [] end) items.

Definition tid_ok (ft : option N) (t : N) : bool := match ft with None => true | Some x => N.eqb t x end.

(* class = top byte of the (32-bit) event id, subclass = top 16 bits *)
Definition sat (cfg : fcfg) (e : fev) : bool :=
  tid_ok (c_tid cfg) (f_tid e) &&
  ((negb (nonempty (c_class cfg)) && negb (nonempty (c_sub cfg)))
   || memN (f_eid e / 2 ^ 24) (c_class cfg) || memN (f_eid e / 2 ^ 16) (c_sub cfg)).

Definition lsat (cfg : fcfg) (l : flog) : bool :=
  tid_ok (c_tid cfg) (g_tid l) &&
  match c_proc cfg with None => true | Some p => leqb p (g_proc l) || leqb p (dec (g_pid l)) end.

Lemma filter_filter {A} (f g : A -> bool) l : filter f (filter g l) = filter (fun x => g x && f x) l.
Proof. induction l as [|x l IH]; cbn; auto. destruct (g x); cbn; [destruct (f x)|]; rewrite IH; auto. Qed.

Lemma filter_ext_in' {A} (f g : A -> bool) l : (forall x, In x l -> f x = g x) -> filter f l = filter g l.
Proof. intros H. induction l as [|x l IH]; cbn; auto. rewrite H by (left; auto). rewrite IH; auto. intros; apply H; right; auto. Qed.

Lemma filter_ev_map (p : item -> bool) (q : fev -> bool) items :
  (forall e, p (Ev e) = q e) -> (forall l, p (Lg l) = false) ->
  filter p items = map Ev (filter q (evs items)).
Proof.
  intros H1 H2. induction items as [|[e|l] r IH]; cbn; auto.
  - rewrite H1. destruct (q e); cbn; rewrite IH; auto.
  - rewrite H2. auto.
Qed.

Lemma filter_log_map (p : item -> bool) (q : flog -> bool) items :
  (forall l, p (Lg l) = q l) -> (forall e, p (Ev e) = false) ->
  filter p items = map Lg (filter q (logs items)).
Proof.
  intros H1 H2. induction items as [|[e|l] r IH]; cbn; auto.
  - rewrite H2. auto.
  - rewrite H1. destruct (q l); cbn; rewrite IH; auto.
Qed.

Definition kpred (cfg : fcfg) (helper : list N) (e : fev) : bool :=
  tid_ok (c_tid cfg) (f_tid e) &&
  (if nonempty (c_class cfg) || nonempty (c_sub cfg)
   then memN (N.shiftr (f_eid e) 24) helper || allowed cfg (f_eid e) else true).

Lemma kevents_kpred cfg helper items :
  kevents cfg helper items = map Ev (filter (kpred cfg helper) (evs items)).
Proof.
  unfold kevents.
  destruct (c_tid cfg) as [t|] eqn:T;
  destruct (nonempty (c_class cfg) || nonempty (c_sub cfg)) eqn:NE; rewrite ?filter_filter;
  apply filter_ev_map; intros x; cbn [is_ev andb]; auto; unfold kpred; rewrite T, NE; cbn [tid_ok andb]; auto.
  rewrite andb_true_r. reflexivity.
Qed.

Theorem kevents_spec cfg items : kevents cfg [] items = map Ev (filter (sat cfg) (evs items)).
Proof.
  rewrite kevents_kpred. f_equal. apply filter_ext_in'. intros e _.
  unfold kpred, sat, allowed. rewrite <- !N.shiftr_div_pow2. cbn [memN existsb orb].
  destruct (nonempty (c_class cfg)), (nonempty (c_sub cfg)); cbn [orb negb andb]; auto.
Qed.

Theorem os_log_events_spec cfg items : os_log_events cfg items = map Lg (filter (lsat cfg) (logs items)).
Proof.
  unfold os_log_events.
  destruct (c_tid cfg) as [t|] eqn:T; destruct (c_proc cfg) as [p|] eqn:P; rewrite ?filter_filter;
  apply filter_log_map; intros x; cbn; auto; unfold lsat; rewrite T, P; cbn [tid_ok]; auto.
  - rewrite andb_true_r. reflexivity.
Qed.

Theorem kevents_no_logs cfg helper items : forallb is_ev (kevents cfg helper items) = true.
Proof. rewrite kevents_kpred. induction (filter (kpred cfg helper) (evs items)); cbn; auto. Qed.

Theorem os_log_events_no_events cfg items : forallb is_log (os_log_events cfg items) = true.
Proof. rewrite os_log_events_spec. induction (filter (lsat cfg) (logs items)); cbn; auto. Qed.

(* the helper classes of traces() only ever ADD events of exactly those classes *)
Theorem kevents_helper_spec cfg helper items :
  kevents cfg helper items =
  map Ev (filter (fun e => tid_ok (c_tid cfg) (f_tid e) &&
                           ((negb (nonempty (c_class cfg)) && negb (nonempty (c_sub cfg)))
                            || memN (f_eid e / 2 ^ 24) helper
                            || memN (f_eid e / 2 ^ 24) (c_class cfg) || memN (f_eid e / 2 ^ 16) (c_sub cfg)))
                 (evs items)).
Proof.
  rewrite kevents_kpred. f_equal. apply filter_ext_in'. intros e _.
  unfold kpred, allowed. rewrite <- !N.shiftr_div_pow2.
  destruct (nonempty (c_class cfg)), (nonempty (c_sub cfg)); cbn [orb negb andb]; auto;
    rewrite ?orb_assoc; auto; rewrite ?orb_true_r; auto.
Qed.

(* PairingProofs.v — invariant of the pairing machine and its consequences (C04, C05). *)
From Coq Require Import NArith List Bool Lia.
From Kd Require Import theories.Pairing.
Import ListNotations.
Open Scope N_scope.

Lemma keyb_eq a b : keyb a b = true <-> a = b.
Proof.
  destruct a, b; unfold keyb; cbn. rewrite andb_true_iff, !N.eqb_eq.
  split; [intros [-> ->]|intros [= -> ->]]; auto.
Qed.
Lemma keyb_refl a : keyb a a = true.
Proof. apply keyb_eq; auto. Qed.
Lemma keyb_sym a b : keyb a b = keyb b a.
Proof. unfold keyb. now rewrite (N.eqb_sym (fst a)), (N.eqb_sym (snd a)). Qed.

Lemma find_remove_same k s : find k (remove k s) = None.
Proof.
  induction s as [|[k' w] r IH]; cbn; auto.
  destruct (keyb k k') eqn:E; cbn; auto. rewrite E; auto.
Qed.
Lemma find_remove_other k k' s : keyb k k' = false -> find k (remove k' s) = find k s.
Proof.
  intros H. induction s as [|[k2 w] r IH]; cbn; auto.
  destruct (keyb k' k2) eqn:E; cbn.
  - apply keyb_eq in E; subst. rewrite H; auto.
  - destruct (keyb k k2); auto.
Qed.
Lemma find_app_tid k e s :
  find k (app_tid e s) =
  match find k s with
  | None => None
  | Some w => Some (if N.eqb (fst k) (p_tid e) then w ++ [e] else w)
  end.
Proof.
  induction s as [|[k2 w] r IH]; cbn; auto.
  destruct (N.eqb (fst k2) (p_tid e)) eqn:T; cbn; destruct (keyb k k2) eqn:E; auto.
  - apply keyb_eq in E; subst. rewrite T; auto.
  - apply keyb_eq in E; subst. rewrite T; auto.
Qed.

Section P.
  Variable dom : N -> bool.
  Variable dec : N -> bool.
  Notation window := (window dom).
  Notation sideT := (sideT dom).

  Lemma window_open hr k : (exists w, window hr k = Some w) <-> is_open hr k = true.
  Proof.
    induction hr as [|e r IH]; cbn.
    - split; [intros [w H]; discriminate|discriminate].
    - destruct (isS k e); [split; eauto|].
      destruct (isE k e); [split; [intros [w H]; discriminate|discriminate]|].
      rewrite <- IH. destruct (window r k); split; eauto; intros [w H]; discriminate.
  Qed.

  Lemma window_none_closed hr k : window hr k = None <-> is_open hr k = false.
  Proof.
    split; intros H.
    - destruct (is_open hr k) eqn:O; auto. apply window_open in O. destruct O as [w O]. congruence.
    - destruct (window hr k) eqn:W; auto.
      assert (is_open hr k = true) by (apply window_open; eauto). congruence.
  Qed.

  Lemma window_nonempty hr k w : window hr k = Some w -> w <> [].
  Proof.
    revert w; induction hr as [|e r IH]; cbn; intros w; [discriminate|].
    destruct (isS k e); [intros [= <-]; discriminate|].
    destruct (isE k e); [discriminate|].
    destruct (window r k) as [w0|]; [|discriminate].
    intros [= <-]. specialize (IH w0 eq_refl).
    destruct (sideT k e && negb (strayb r e)); auto. destruct w0; cbn; congruence.
  Qed.

  (* table T holds exactly the windows of the keys of domain d *)
  Definition InvT (hr : list pev) (T : tbl) (d : bool) : Prop :=
    forall k, find k T = if Bool.eqb (dom (snd k)) d then window hr k else None.

  Lemma keyb_dom k e : keyb k (kof e) = true -> dom (snd k) = dom (p_code e).
  Proof. intros H. apply keyb_eq in H. subst k. reflexivity. Qed.

  Lemma other_dom_key k e d :
    dom (p_code e) = d -> Bool.eqb (dom (snd k)) d = false -> keyb k (kof e) = false.
  Proof.
    intros Hd Hk. destruct (keyb k (kof e)) eqn:K; auto.
    apply keyb_dom in K. rewrite K, Hd, eqb_reflx in Hk. discriminate.
  Qed.

  Lemma sideT_same k e d :
    dom (p_code e) = d -> Bool.eqb (dom (snd k)) d = true -> sideT k e = N.eqb (fst k) (p_tid e).
  Proof.
    intros Hd Hk. unfold Pairing.sideT. apply eqb_prop in Hk. rewrite Hk, Hd, eqb_reflx. apply andb_true_r.
  Qed.

  Lemma sideT_other k e d :
    dom (p_code e) = negb d -> Bool.eqb (dom (snd k)) d = true -> sideT k e = false.
  Proof.
    intros Hd Hk. unfold Pairing.sideT. apply eqb_prop in Hk. rewrite Hk, Hd.
    destruct d; cbn; apply andb_false_r.
  Qed.

  Theorem step1_inv_same hr T e d :
    dom (p_code e) = d -> InvT hr T d -> InvT (e :: hr) (fst (step1 e T)) d.
  Proof.
    intros Hd I k. unfold step1. cbn [Pairing.window].
    destruct (Bool.eqb (dom (snd k)) d) eqn:KD.
    - (* key of this table's domain *)
      pose proof (sideT_same k e d Hd KD) as ST.
      assert (Ik : find k T = window hr k) by (rewrite I, KD; reflexivity).
      assert (Ie : find (kof e) T = window hr (kof e)).
      { rewrite I. cbn [snd kof]. rewrite Hd, eqb_reflx. reflexivity. }
      destruct (p_q e) eqn:Q.
      + cbn [fst]. unfold isS, isE; rewrite Q, !andb_false_r.
        rewrite find_app_tid, Ik. unfold strayb; rewrite Q; cbn [negb]. rewrite ST, andb_true_r; auto.
      + cbn [fst]. unfold isS, isE; rewrite Q, andb_true_r, andb_false_r.
        rewrite find_app_tid. cbn [find].
        destruct (keyb k (kof e)) eqn:K.
        * apply keyb_eq in K; subst k. cbn. rewrite N.eqb_refl. auto.
        * rewrite find_remove_other by auto. rewrite Ik. unfold strayb; rewrite Q; cbn [negb].
          rewrite ST, andb_true_r; auto.
      + unfold isS, isE; rewrite Q, andb_true_r, andb_false_r.
        destruct (find (kof e) T) eqn:F; cbn [fst].
        * destruct (keyb k (kof e)) eqn:K.
          -- apply keyb_eq in K; subst k. apply find_remove_same.
          -- rewrite find_remove_other by auto. rewrite find_app_tid, Ik.
             destruct (window hr k); auto. unfold strayb; rewrite Q.
             assert (O : is_open hr (kof e) = true). { apply window_open. rewrite <- Ie. eauto. }
             rewrite O; cbn [negb]. rewrite ST, andb_true_r; auto.
        * destruct (keyb k (kof e)) eqn:K.
          -- apply keyb_eq in K; subst k. rewrite F; auto.
          -- rewrite Ik. destruct (window hr k); auto. unfold strayb; rewrite Q.
             assert (O : is_open hr (kof e) = false).
             { apply window_none_closed. symmetry. exact Ie. }
             rewrite O; cbn [negb]. rewrite andb_false_r; auto.
      + cbn [fst]. unfold isS, isE; rewrite Q, !andb_false_r.
        rewrite find_app_tid, Ik. unfold strayb; rewrite Q; cbn [negb]. rewrite ST, andb_true_r; auto.
    - (* key of the other domain: never in this table *)
      pose proof (other_dom_key k e d Hd KD) as K.
      assert (Ik : find k T = None) by (rewrite I, KD; reflexivity).
      destruct (p_q e) eqn:Q; cbn [fst].
      + rewrite find_app_tid, Ik; auto.
      + rewrite find_app_tid. cbn [find]. rewrite K. rewrite find_remove_other by auto. rewrite Ik; auto.
      + destruct (find (kof e) T); cbn [fst]; auto.
        rewrite find_remove_other by auto. rewrite find_app_tid, Ik; auto.
      + rewrite find_app_tid, Ik; auto.
  Qed.

  Theorem step1_inv_other hr T e d :
    dom (p_code e) = negb d -> InvT hr T d -> InvT (e :: hr) T d.
  Proof.
    intros Hd I k. rewrite I. cbn [Pairing.window].
    destruct (Bool.eqb (dom (snd k)) d) eqn:KD; auto.
    assert (K : keyb k (kof e) = false).
    { destruct (keyb k (kof e)) eqn:K; auto. apply keyb_dom in K.
      apply eqb_prop in KD. rewrite K, Hd in KD. destruct d; discriminate. }
    unfold isS, isE. rewrite K. cbn [andb].
    rewrite (sideT_other k e d Hd KD). cbn [andb]. destruct (window hr k); auto.
  Qed.

  Definition raw_out (hr : list pev) (e : pev) : option (list pev) :=
    match p_q e with
    | QS => None
    | QE => match window hr (kof e) with Some w => Some (w ++ [e]) | None => None end
    | QN => if is_open hr (kof e) then None else Some [e]
    | QA => Some [e]
    end.

  Theorem step1_out hr T e d :
    dom (p_code e) = d -> InvT hr T d -> snd (step1 e T) = raw_out hr e.
  Proof.
    intros Hd I. unfold step1, raw_out.
    assert (Ie : find (kof e) T = window hr (kof e)).
    { rewrite I. cbn [snd kof]. rewrite Hd, eqb_reflx. reflexivity. }
    destruct (p_q e) eqn:Q; auto; cbn [snd].
    - rewrite Ie. destruct (window hr (kof e)) eqn:W.
      + assert (O : is_open hr (kof e) = true) by (apply window_open; eauto). rewrite O; auto.
      + apply window_none_closed in W. rewrite W; auto.
    - destruct (find (kof e) T) eqn:F; cbn [snd].
      + rewrite find_app_tid, F. rewrite <- Ie. cbn. rewrite N.eqb_refl; auto.
      + rewrite <- Ie; auto.
  Qed.

  Lemma spec_out_raw hr e :
    spec_out dom dec hr e = match raw_out hr e with Some w => deliver dec w | None => None end.
  Proof.
    unfold spec_out, raw_out. destruct (p_q e); auto.
    - destruct (is_open hr (kof e)); auto.
    - destruct (window hr (kof e)); auto.
  Qed.

  Definition Inv (hr : list pev) (st : pstate) : Prop :=
    InvT hr (st_events st) false /\ InvT hr (st_traces st) true.

  Lemma Inv_init : Inv [] pst0.
  Proof. split; intros k; cbn; destruct (Bool.eqb _ _); reflexivity. Qed.

  Theorem feed_inv hr st e : Inv hr st -> Inv (e :: hr) (fst (feed dom dec st e)).
  Proof.
    intros [I0 I1]. unfold feed.
    destruct (dom (p_code e)) eqn:D; cbn [tab].
    - destruct (step1 e (st_traces st)) as [t' o] eqn:S. cbn [fst set_tab st_events st_traces].
      split; cbn [st_events st_traces].
      + apply step1_inv_other; auto.
      + replace t' with (fst (step1 e (st_traces st))) by (rewrite S; auto). apply step1_inv_same; auto.
    - destruct (step1 e (st_events st)) as [t' o] eqn:S. cbn [fst set_tab st_events st_traces].
      split; cbn [st_events st_traces].
      + replace t' with (fst (step1 e (st_events st))) by (rewrite S; auto). apply step1_inv_same; auto.
      + apply step1_inv_other; auto.
  Qed.

  Theorem feed_out hr st e : Inv hr st -> snd (feed dom dec st e) = spec_out dom dec hr e.
  Proof.
    intros [I0 I1]. unfold feed. rewrite spec_out_raw.
    destruct (dom (p_code e)) eqn:D; cbn [tab].
    - pose proof (step1_out hr (st_traces st) e true D I1) as O.
      destruct (step1 e (st_traces st)) as [t' o]. cbn [snd] in *. rewrite O; auto.
    - pose proof (step1_out hr (st_events st) e false D I0) as O.
      destruct (step1 e (st_events st)) as [t' o]. cbn [snd] in *. rewrite O; auto.
  Qed.

  (* the machine's per-event outputs are the specification's, for every history *)
  Theorem run_opt_spec h : forall hr st, Inv hr st -> run_opt dom dec st h = spec_run dom dec hr h.
  Proof.
    induction h as [|e r IH]; intros hr st I; cbn [run_opt spec_run]; auto.
    pose proof (feed_inv hr st e I) as I'. pose proof (feed_out hr st e I) as O.
    destruct (feed dom dec st e) as [st1 o]. cbn [fst snd] in *. rewrite O. f_equal. apply IH; auto.
  Qed.

  Theorem run_inv h : forall hr st, Inv hr st -> Inv (rev h ++ hr) (fst (run dom dec st h)).
  Proof.
    induction h as [|e r IH]; intros hr st I; cbn [run rev app fst]; auto.
    pose proof (feed_inv hr st e I) as I'.
    destruct (feed dom dec st e) as [st1 o]. cbn [fst] in I'.
    specialize (IH (e :: hr) st1 I').
    destruct (run dom dec st1 r) as [st2 os]. cbn [fst] in *. rewrite <- app_assoc. exact IH.
  Qed.

  Fixpoint somes {A} (l : list (option A)) : list A :=
    match l with [] => [] | Some x :: r => x :: somes r | None :: r => somes r end.

  Lemma run_somes h : forall st, snd (run dom dec st h) = somes (run_opt dom dec st h).
  Proof.
    induction h as [|e r IH]; intros st; cbn [run run_opt somes snd]; auto.
    destruct (feed dom dec st e) as [st1 o]. specialize (IH st1).
    destruct (run dom dec st1 r) as [st2 os]. cbn [snd] in *. destruct o; cbn [somes]; congruence.
  Qed.

  (* ---------------- a stray END changes nothing ---------------- *)
  Theorem stray_end_noop hr st e :
    Inv hr st -> p_q e = QE -> is_open hr (kof e) = false -> feed dom dec st e = (st, None).
  Proof.
    intros [I0 I1] Q O. unfold feed, step1. rewrite Q.
    assert (W : window hr (kof e) = None) by (now apply window_none_closed).
    destruct (dom (p_code e)) eqn:D; cbn [tab].
    - rewrite I1. cbn [snd kof]. rewrite D. cbn [Bool.eqb]. rewrite W. destruct st; reflexivity.
    - rewrite I0. cbn [snd kof]. rewrite D. cbn [Bool.eqb]. rewrite W. destruct st; reflexivity.
  Qed.

  (* ---------------- declarative reading of `window` ---------------- *)
  (* records collected after the START, walking forward; hr = history before the next record *)
  Fixpoint collect (hr : list pev) (k : key) (after : list pev) : list pev :=
    match after with
    | [] => []
    | x :: r => (if sideT k x && negb (strayb hr x) then [x] else []) ++ collect (x :: hr) k r
    end.

  Lemma collect_app hr k a b :
    collect hr k (a ++ b) = collect hr k a ++ collect (rev a ++ hr) k b.
  Proof.
    revert hr; induction a as [|x a IH]; intros hr; cbn [collect app rev]; auto.
    rewrite IH, <- !app_assoc. reflexivity.
  Qed.

  Definition quiet (k : key) (x : pev) : Prop := isS k x = false /\ isE k x = false.

  (* window hr k = Some w  iff  the history splits as  before ++ [s] ++ after  where s is a START of k,
     no later START/END of k exists, and w is s followed by the same-thread same-domain non-stray
     records of `after`, in stream order *)
  Theorem window_char hr k w :
    window hr k = Some w <->
    exists before s after,
      rev hr = before ++ s :: after /\ isS k s = true /\ Forall (quiet k) after /\
      w = s :: collect (s :: rev before) k after.
  Proof.
    revert w; induction hr as [|e r IH]; intros w; cbn [Pairing.window].
    - split; [discriminate|]. intros (b & s & a & H & _). cbn in H. destruct b; discriminate.
    - destruct (isS k e) eqn:S.
      + split.
        * intros [= <-]. exists (rev r), e, []. cbn [rev]. repeat split; auto.
        * intros (b & s & a & H & Hs & Hq & ->). cbn [rev] in H.
          destruct a as [|x a] using rev_ind.
          -- apply app_inj_tail in H. destruct H as [_ ->]. reflexivity.
          -- rewrite app_comm_cons, app_assoc in H. apply app_inj_tail in H. destruct H as [_ <-].
             apply Forall_app in Hq. destruct Hq as [_ Hq]. inversion Hq as [|? ? [Hx _] _]; subst.
             congruence.
      + destruct (isE k e) eqn:E.
        * split; [discriminate|].
          intros (b & s & a & H & Hs & Hq & ->). cbn [rev] in H.
          destruct a as [|x a _] using rev_ind.
          -- apply app_inj_tail in H. destruct H as [_ ->]. congruence.
          -- rewrite app_comm_cons, app_assoc in H. apply app_inj_tail in H. destruct H as [_ <-].
             apply Forall_app in Hq. destruct Hq as [_ Hq]. inversion Hq as [|? ? [_ Hx] _]; subst.
             congruence.
        * destruct (window r k) as [w0|] eqn:W.
          -- destruct (proj1 (IH w0) eq_refl) as (b & s & a & H & Hs & Hq & Hw).
             split.
             ++ intros [= <-]. exists b, s, (a ++ [e]). cbn [rev]. rewrite H.
                rewrite <- app_assoc. cbn [app]. repeat split; auto.
                ** apply Forall_app; split; auto. constructor; [split; auto|constructor].
                ** rewrite collect_app. cbn [collect]. rewrite app_nil_r.
                   assert (R : rev a ++ s :: rev b = r).
                   { rewrite <- (rev_involutive r), H, rev_app_distr. cbn [rev].
                     rewrite <- app_assoc. reflexivity. }
                   rewrite R, Hw. destruct (sideT k e && negb (strayb r e)); cbn [app].
                   --- rewrite app_comm_cons. reflexivity.
                   --- rewrite app_nil_r. reflexivity.
             ++ intros (b' & s' & a' & H' & Hs' & Hq' & ->). cbn [rev] in H'.
                destruct a' as [|x a' _] using rev_ind.
                { apply app_inj_tail in H'. destruct H' as [_ ->]. congruence. }
                rewrite app_comm_cons, app_assoc in H'. apply app_inj_tail in H'. destruct H' as [H' <-].
                apply Forall_app in Hq'. destruct Hq' as [Hq' _].
                assert (W' : window r k = Some (s' :: collect (s' :: rev b') k a')).
                { rewrite W. apply IH. exists b', s', a'. repeat split; auto. }
                rewrite W in W'. injection W' as ->.
                rewrite collect_app. cbn [collect]. rewrite app_nil_r.
                assert (R : rev a' ++ s' :: rev b' = r).
                { rewrite <- (rev_involutive r), H', rev_app_distr. cbn [rev].
                  rewrite <- app_assoc. reflexivity. }
                rewrite R. destruct (sideT k e && negb (strayb r e)); cbn [app].
                ** rewrite app_comm_cons. reflexivity.
                ** rewrite app_nil_r. reflexivity.
          -- split; [discriminate|].
             intros (b' & s' & a' & H' & Hs' & Hq' & ->). cbn [rev] in H'.
             destruct a' as [|x a' _] using rev_ind.
             { apply app_inj_tail in H'. destruct H' as [_ ->]. congruence. }
             rewrite app_comm_cons, app_assoc in H'. apply app_inj_tail in H'. destruct H' as [H' <-].
             apply Forall_app in Hq'. destruct Hq' as [Hq' _].
             assert (W' : window r k = Some (s' :: collect (s' :: rev b') k a')).
             { rewrite W. apply IH. exists b', s', a'. repeat split; auto. }
             congruence.
  Qed.

  (* every collected record is one of `after`, on the key's thread and in its domain, not stray *)
  Lemma collect_In hr k after x :
    In x (collect hr k after) -> In x after /\ p_tid x = fst k /\ dom (p_code x) = dom (snd k).
  Proof.
    revert hr; induction after as [|y r IH]; intros hr; cbn [collect]; [intros []|].
    rewrite in_app_iff. intros [H|H].
    - destruct (sideT k y && negb (strayb hr y)) eqn:C; [|contradiction].
      destruct H as [<-|[]]. apply andb_true_iff in C. destruct C as [C _].
      unfold Pairing.sideT in C. apply andb_true_iff in C. destruct C as [C1 C2].
      apply N.eqb_eq in C1. apply eqb_prop in C2. split; [left; auto|]. split; congruence.
    - destruct (IH _ H) as (? & ? & ?). split; [right; auto|]. split; auto.
  Qed.

  (* subsequence: collect only deletes *)
  Inductive subseq {A} : list A -> list A -> Prop :=
  | sub_nil : subseq [] []
  | sub_skip x a b : subseq a b -> subseq a (x :: b)
  | sub_keep x a b : subseq a b -> subseq (x :: a) (x :: b).

  Lemma collect_subseq hr k after : subseq (collect hr k after) after.
  Proof.
    revert hr; induction after as [|y r IH]; intros hr; cbn [collect]; [constructor|].
    destruct (sideT k y && negb (strayb hr y)); cbn [app]; constructor; apply IH.
  Qed.

  Lemma subseq_In {A} (a b : list A) x : subseq a b -> In x a -> In x b.
  Proof. induction 1; cbn; intuition. Qed.

  Lemma subseq_NoDup {A} (a b : list A) : subseq a b -> NoDup b -> NoDup a.
  Proof.
    induction 1; intros N; auto.
    - inversion N; auto.
    - inversion N; subst. constructor; auto. intros I. eapply subseq_In in I; eauto.
  Qed.

  (* completeness: a same-thread same-domain record after the START that is not a stray END is collected *)
  Lemma collect_complete hr k a x b :
    sideT k x = true -> strayb (rev a ++ hr) x = false -> In x (collect hr k (a ++ x :: b)).
  Proof.
    intros S N. rewrite collect_app. apply in_or_app. right. cbn [collect].
    rewrite S, N. cbn. left; auto.
  Qed.
End P.

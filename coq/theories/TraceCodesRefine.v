(* TraceCodesRefine.v — with the parameters read off the current source the comprehension is the model.  (C19) *)
From Coq Require Import NArith Arith List Bool.
From Kd Require Import theories.Base theories.TraceCodes theories.TraceCodesIR gen.GenTraceCodes.
Import ListNotations.
Open Scope N_scope.

Definition codes_ok (c : codes_code) : bool :=
  Nat.eqb (cc_key_field c) 0 && Nat.eqb (cc_name_field c) 1 && (cc_base c =? 16).

Lemma parse_line_refines c line : codes_ok c = true -> parse_line_p c line = parse_line line.
Proof.
  unfold codes_ok. intros H. apply andb_true_iff in H. destruct H as [H Hb]. apply andb_true_iff in H. destruct H as [Hk Hn].
  apply Nat.eqb_eq in Hk, Hn. unfold parse_line_p, parse_line, parse_int. rewrite Hk, Hn, Hb.
  destruct (split line) as [|t0 [|t1 r]]; cbn [nth_error]; try reflexivity; destruct (parse_hex t0); reflexivity.
Qed.

Lemma parse_lines_refines c ls : codes_ok c = true -> parse_lines_p c ls = parse_lines ls.
Proof.
  intros H. induction ls as [|l r IH]; cbn [parse_lines_p parse_lines]; [reflexivity|].
  rewrite parse_line_refines by exact H. rewrite IH. reflexivity.
Qed.

Theorem codes_code_refines t : from_text_p gen_codes t = from_text t.
Proof. unfold from_text_p, from_text. apply parse_lines_refines. reflexivity. Qed.

(* Harness.v — helpers used only by the generated correspondence case files (cases/*.v). *)
From Coq Require Import NArith List Bool.
Import ListNotations.

Fixpoint bad_indices_from {A} (i : nat) (f : A -> bool) (l : list A) : list nat :=
  match l with
  | [] => []
  | x :: r => if f x then bad_indices_from (S i) f r else i :: bad_indices_from (S i) f r
  end.
Definition bad_indices {A} (f : A -> bool) (l : list A) : list nat := bad_indices_from O f l.

Definition opt_eqb {A} (eqb : A -> A -> bool) (a b : option A) : bool :=
  match a, b with
  | Some x, Some y => eqb x y
  | None, None => true
  | _, _ => false
  end.

Fixpoint list_eqb {A} (eqb : A -> A -> bool) (a b : list A) : bool :=
  match a, b with
  | [], [] => true
  | x :: a', y :: b' => eqb x y && list_eqb eqb a' b'
  | _, _ => false
  end.

(* ContainerRefine.v — the constants and layouts tools/translate/tr_container.py reads off kd_buf_parser.py (gen/GenContainer.v)
   are the ones the hand model of the container (Container.v, V3Meta.v) is written with: the two dump magics of the dispatch,
   the stackshot end marker and the section tags the version-3 parser seeks, the seven block tags of the metadata, the byte
   layout of a thread-map entry, the fixed parts of the two headers.  (C02, C03, C06) *)
From Coq Require Import NArith Arith List Bool Lia.
From Kd Require Import theories.Base theories.Container theories.V3Meta gen.GenContainer.
Import ListNotations.
Open Scope N_scope.

(* a thread-map entry with the field sizes left open *)
Definition tm_entry_p (a b c : nat) (r : list N) : res (tment * list N) :=
  if (length r <? a + b + c)%nat then Err EStream
  else match cstring_fixed (slice r (a + b) c) with
       | Err e => Err e
       | Ok name => Ok ((le (slice r 0 a), le (slice r a b), name), skipn (a + b + c) r)
       end.

Theorem threadmap_entry_refines r :
  match gen_threadmap_sizes with
  | [a; b; c] => tm_entry_p a b c r = tm_entry r
  | _ => False
  end.
Proof. reflexivity. Qed.

(* the dispatch of KdBufParser.parse with the magics left open *)
Section P.
  Variable plist_ok : list N -> bool.
  Definition parse_file_p (m2 m3 : list N) (data : list N) : pout :=
    let v := firstn 4 data in
    if leqb v m2 then parse_v2 (skipn 4 data)
    else if leqb v m3 then parse_v3 plist_ok (skipn 4 data)
    else mkPout None [] None (Some EKey).
End P.

Theorem dispatch_refines plist_ok data :
  parse_file_p plist_ok gen_RAW_VERSION2_BYTES gen_RAW_VERSION3_BYTES data = parse plist_ok data.
Proof. reflexivity. Qed.

Theorem constants_refine :
  gen_TRACEV3_STACKSHOT_END = STACKSHOT_END /\ gen_TRACEV3_THREADMAP_TAG = THREADMAP_TAG /\
  gen_TRACEV3_EVENTS_TAG = EVENTS_TAG /\ gen_TRACEV3_MORE_EVENTS = MORE_EVENTS /\
  gen_TRACEV3_DYLD_MODULES = TAG_DYLD_MODULES /\ gen_TRACEV3_TRACE_CODES = TAG_TRACE_CODES /\
  gen_TRACEV3_PROCESSES = TAG_PROCESSES /\ gen_TRACEV3_LOG_EVENTS = TAG_LOG_EVENTS /\
  gen_TRACEV3_LOG_STRINGS = TAG_LOG_STRINGS /\ gen_TRACEV3_KERNEL_EXTENSIONS = TAG_KERNEL_EXTENSIONS /\
  gen_TRACEV3_IMAGES = TAG_IMAGES.
Proof. repeat split; reflexivity. Qed.

Theorem layouts_refine :
  fold_right Nat.add 0%nat gen_v2_fixed_sizes = V2_FIXED /\ hd 0%nat gen_v2_fixed_sizes = 4%nat /\
  fold_right Nat.add 0%nat gen_v3_fixed_sizes = 60%nat /\ gen_magic_size = 4%nat /\
  fold_right Nat.add 0%nat gen_threadmap_sizes = 32%nat.
Proof. repeat split; reflexivity. Qed.

(* DecoderDSL.v — the token language the decoder translator (tools/translate/tr_decoders.py) emits, and its
   interpreter `render`: the text str(trace) of a decoded trace as a function of the START/END argument words, the
   lookups nested in the window, the parser's global strings and the host tables.
   Rows are GENERATED (gen/GenDecoders.v); this file is their semantics. *)
From Coq Require Import String Ascii ZArith NArith List Bool Lia.
From Kd Require Import theories.Base theories.Printers.
Import ListNotations.
Open Scope N_scope.

Inductive evsel := EFirst | ELast.
Inductive src := W (e : evsel) (i : nat) | SAnd (s : src) (m : N) | SShr (s : src) (k : N) | SConst (n : N) | STid (e : evsel).
Inductive psrc := PFirst | PSecond | PNth (k : nat) | PLast.
Inductive rfmt := RDec | RHex | RS64 | RS32 | RBool.

Inductive lsrc :=
| LAnyBit (e : string) (s : src)
| LAnyBitOrIfZero (e d : string) (s : src)
| LAnyBitOrIfEmpty (e d : string) (s : src)
| LOpenFlags (acc : list string) (dflt : string) (rest : list string) (s : src)
| LStatFlags (mask : N) (s : src)
| LIfMember (e m : string) (test a b : lsrc)      (* a if E.m in test else b *)
| LNil.
Inductive cond :=
| CTrue | CFalse | CNoCancel
| CNonZero (s : src) | CResultNonEmpty (name : string) | CListNonEmpty (l : lsrc)
| CMember (e m : string) (l : lsrc) | CEq (s : src) (n : N) | CEqHost (s : src) (h : string)
| CPathsMore (k : nat) | CPathNonEmpty (p : psrc) | CErrnoKnown (s : src)
| CNot (c : cond) | CAnd (a b : cond).

Inductive tok :=
| Lit (s : string)
| TDec (s : src) | THex (s : src) | TSDec (bits : N) (s : src) | TSHex (bits : N) (s : src)
| TBool (s : src) | TBoolLower (s : src)
| TEnumName (e : string) (s : src) | TSEnumName (e : string) (bits : N) (s : src) | TEnumNameOrDec (e : string) (s : src)
| TNames (l : lsrc) (sep : string)
| TChr (s : src) | TDictGetHex (tbl : list (N * string)) (s : src)
| TPath (p : psrc) | TVnodeId (p : psrc) | TGStr (s : src) | TErrnoName (s : src)
| TResult (name : string) (f : rfmt) | TUuid (e : evsel)
| TIf (c : cond) (a b : list tok).

Record drow := mkRow { d_family : string; d_key : string; d_handler : string; d_nocancel : bool; d_toks : list tok }.

(* ---------------- strings ---------------- *)
Fixpoint s2b (s : string) : str :=
  match s with EmptyString => [] | String c r => N.of_nat (nat_of_ascii c) :: s2b r end.

Fixpoint join (sep : str) (l : list str) : str :=
  match l with [] => [] | [x] => x | x :: r => x ++ sep ++ join sep r end.

(* ---------------- enum tables ---------------- *)
Definition enum_tbl := list (string * string * list (string * Z)).

Record host := mkHost {
  h_errno : N -> option string;               (* errno.errorcode *)
  h_enum : string -> Z -> option string;      (* signal.Signals / socket.AddressFamily / socket.SocketKind: value -> name *)
  h_const : string -> N                       (* socket.SOL_SOCKET *)
}.

Record rctx := mkCtx {
  x_first : list N; x_last : list N;          (* events[0].values, events[-1].values *)
  x_tid_first : N; x_tid_last : N;
  x_data_first : list N;                      (* events[0].data *)
  x_paths : list (N * str);                   (* the lookups of the window: (vnode id, path) in stream order *)
  x_gstr : N -> option str;                   (* parser.global_strings *)
  x_nocancel : bool
}.

Inductive rerr := EValueError | EIndexError | EKeyError | EInternal.
Inductive rres := ROk (s : str) | RErr (e : rerr).

Section Render.
  Variable enums : enum_tbl.
  Variable H : host.
  Variable X : rctx.

  Definition wd (e : evsel) (i : nat) : N := nth i (match e with EFirst => x_first X | ELast => x_last X end) 0.
  Fixpoint sval (s : src) : N :=
    match s with
    | W e i => wd e i
    | SAnd s m => N.land (sval s) m
    | SShr s k => N.shiftr (sval s) k
    | SConst n => n
    | STid e => match e with EFirst => x_tid_first X | ELast => x_tid_last X end
    end.

  Definition enum_entry (e : string) : option (string * list (string * Z)) :=
    match find (fun t => String.eqb (fst (fst t)) e) enums with
    | Some (_, kind, ms) => Some (kind, ms) | None => None end.
  Definition members (e : string) : list (string * Z) := match enum_entry e with Some (_, ms) => ms | None => [] end.
  Definition is_flag_kind (k : string) : bool := String.eqb k "Flag" || String.eqb k "IntFlag".

  Definition is_pow2 (z : Z) : bool := (0 <? z)%Z && Z.eqb (Z.land z (z - 1)) 0.
  (* iteration order of `for m in E` (Python >= 3.11): definition order without value aliases; Flag classes yield
     only their single-bit members *)
  Fixpoint dedup_vals (seen : list Z) (ms : list (string * Z)) : list (string * Z) :=
    match ms with
    | [] => []
    | (n, v) :: r => if existsb (Z.eqb v) seen then dedup_vals seen r else (n, v) :: dedup_vals (v :: seen) r
    end.
  Definition iter_members (e : string) : list (string * Z) :=
    match enum_entry e with
    | Some (k, ms) => let d := dedup_vals [] ms in if is_flag_kind k then filter (fun m => is_pow2 (snd m)) d else d
    | None => []
    end.

  (* E(v).name : the first member with that value; host enums through the host table *)
  Definition is_host (e : string) : bool := String.prefix "host:" e.
  Definition enum_name (e : string) (v : Z) : option string :=
    if is_host e then h_enum H e v
    else match find (fun m => Z.eqb (snd m) v) (members e) with Some m => Some (fst m) | None => None end.
  Definition member_val (e m : string) : Z :=
    match find (fun x => String.eqb (fst x) m) (members e) with Some x => snd x | None => 0%Z end.
  (* canonical name of a member object (an alias name denotes the first member with its value) *)
  Definition canon (e m : string) : string :=
    match find (fun x => Z.eqb (snd x) (member_val e m)) (members e) with Some x => fst x | None => m end.

  Definition hasbit (v : Z) (w : N) : bool := negb (Z.eqb (Z.land v (Z.of_N w)) 0).
  Definition anybit (e : string) (w : N) : list string :=
    map fst (filter (fun m => hasbit (snd m) w) (iter_members e)).

  Definition paths := x_paths X.
  Definition path_of (p : psrc) : option (N * str) :=
    match p with
    | PFirst => Some (nth 0 paths (0, []))
    | PSecond => Some (nth 1 paths (0, []))
    | PNth k => nth_error paths k
    | PLast => match paths with [] => None | _ => Some (last paths (0, [])) end
    end.

  Definition result_nonempty (name : string) : bool :=
    negb (N.eqb (wd ELast 0) 0) || negb (String.eqb name "").

  Fixpoint lnames (l : lsrc) : list string :=
    match l with
    | LAnyBit e s => anybit e (sval s)
    | LAnyBitOrIfZero e d s => if N.eqb (sval s) 0 then [canon e d] else anybit e (sval s)
    | LAnyBitOrIfEmpty e d s => match anybit e (sval s) with [] => [canon e d] | l => l end
    | LOpenFlags acc d rest s =>
      let e := "BscOpenFlags"%string in
      let w := sval s in
      (match filter (fun m => hasbit (member_val e m) w) acc with m :: _ => [canon e m] | [] => [canon e d] end)
      ++ map (canon e) (filter (fun m => hasbit (member_val e m) w) rest)
    | LStatFlags mask s =>
      let w := sval s in
      map (fun m => canon "StatFlags" (fst m))
          (filter (fun m => if hasbit (snd m) mask then Z.eqb (Z.of_N (N.land w mask)) (snd m) else hasbit (snd m) w)
                  (members "StatFlags"))
    | LIfMember e m t a b => if existsb (String.eqb (canon e m)) (lnames t) then lnames a else lnames b
    | LNil => []
    end.
  Fixpoint evalc (c : cond) : bool :=
    match c with
    | CTrue => true | CFalse => false
    | CNoCancel => x_nocancel X
    | CNonZero s => negb (N.eqb (sval s) 0)
    | CResultNonEmpty name => result_nonempty name
    | CListNonEmpty l => match lnames l with [] => false | _ => true end
    | CMember e m l => existsb (String.eqb (canon e m)) (lnames l)
    | CEq s n => N.eqb (sval s) n
    | CEqHost s h => N.eqb (sval s) (h_const H h)
    | CPathsMore k => Nat.ltb k (length paths)
    | CPathNonEmpty p => match path_of p with Some (_, t) => match t with [] => false | _ => true end | None => false end
    | CErrnoKnown s => match h_errno H (sval s) with Some _ => true | None => false end
    | CNot c => negb (evalc c)
    | CAnd a b => evalc a && evalc b
    end.

  Definition fmt_res (f : rfmt) (v : N) : str :=
    match f with
    | RDec => dec v | RHex => hex v
    | RS64 => decZ (to_signed 64 v) | RS32 => decZ (to_signed 32 v)
    | RBool => s2b (if N.eqb v 0 then "False" else "True")
    end.

  (* serialize_result(events[-1], name, fmt) *)
  Definition render_result (name : string) (f : rfmt) : str :=
    let e0 := wd ELast 0 in
    if N.eqb e0 0 then (if String.eqb name "" then [] else s2b name ++ s2b ": " ++ fmt_res f (wd ELast 1))
    else match h_errno H e0 with
         | Some n => s2b "errno: " ++ s2b n ++ s2b "(" ++ dec e0 ++ s2b ")"
         | None => s2b "errno: " ++ dec e0
         end.

  Definition hex2 (b : N) : str := [hex_digit (b / 16); hex_digit (b mod 16)].
  Definition uuid_text (d : list N) : str :=
    let h (o n : nat) := flat_map hex2 (slice d o n) in
    h 0%nat 4%nat ++ [45] ++ h 4%nat 2%nat ++ [45] ++ h 6%nat 2%nat ++ [45] ++ h 8%nat 2%nat ++ [45] ++ h 10%nat 6%nat.

  Definition chr_utf8 (n : N) : str := if n <? 128 then [n] else [192 + n / 64; 128 + n mod 64].
  Definition hexZ (z : Z) : str := match z with Zneg p => 45 :: hex (Npos p) | _ => hex (Z.to_N z) end.

  Fixpoint render_tok (t : tok) : rres :=
    match t with
    | Lit s => ROk (s2b s)
    | TDec s => ROk (dec (sval s))
    | THex s => ROk (hex (sval s))
    | TSDec bits s => ROk (decZ (to_signed bits (sval s)))
    | TSHex bits s => ROk (hexZ (to_signed bits (sval s)))
    | TBool s => ROk (s2b (if N.eqb (sval s) 0 then "False" else "True"))
    | TBoolLower s => ROk (s2b (if N.eqb (sval s) 0 then "false" else "true"))
    | TEnumName e s => match enum_name e (Z.of_N (sval s)) with Some n => ROk (s2b n) | None => RErr EValueError end
    | TSEnumName e bits s => match enum_name e (to_signed bits (sval s)) with Some n => ROk (s2b n) | None => RErr EValueError end
    | TEnumNameOrDec e s => match enum_name e (Z.of_N (sval s)) with Some n => ROk (s2b n) | None => ROk (dec (sval s)) end
    | TNames l sep => ROk (join (s2b sep) (map s2b (lnames l)))
    | TChr s => ROk (chr_utf8 (sval s))
    | TDictGetHex tbl s =>
      match find (fun p => N.eqb (fst p) (sval s)) tbl with Some p => ROk (s2b (snd p)) | None => ROk (hex (sval s)) end
    | TPath p => match path_of p with Some (_, t) => ROk t | None => RErr EIndexError end
    | TVnodeId p => match path_of p with Some (v, _) => ROk (dec v) | None => RErr EIndexError end
    | TGStr s => ROk (match x_gstr X (sval s) with Some t => t | None => [] end)
    | TErrnoName s => match h_errno H (sval s) with Some n => ROk (s2b n) | None => RErr EKeyError end
    | TResult name f => ROk (render_result name f)
    | TUuid e => ROk (uuid_text (x_data_first X))
    | TIf c a b =>
      (fix go (l : list tok) : rres :=
         match l with
         | [] => ROk []
         | x :: r => match render_tok x with
                     | ROk s1 => match go r with ROk s2 => ROk (s1 ++ s2) | e => e end
                     | e => e
                     end
         end) (if evalc c then a else b)
    end.

  Fixpoint render_toks (l : list tok) : rres :=
    match l with
    | [] => ROk []
    | x :: r => match render_tok x with
                | ROk s1 => match render_toks r with ROk s2 => ROk (s1 ++ s2) | e => e end
                | e => e
                end
    end.

  Lemma render_if c a b : render_tok (TIf c a b) = render_toks (if evalc c then a else b).
  Proof.
    cbn [render_tok]. generalize (if evalc c then a else b). intros l.
    induction l as [|x r IH]; cbn [render_toks]; auto.
  Qed.
End Render.

Definition render_row (enums : enum_tbl) (H : host) (X : rctx) (r : drow) : rres :=
  render_toks enums H (mkCtx (x_first X) (x_last X) (x_tid_first X) (x_tid_last X) (x_data_first X) (x_paths X)
                             (x_gstr X) (d_nocancel r)) (d_toks r).

(* name(p0, p1, ...)tail *)
Definition dcall := (list tok * list (list tok) * list tok)%type.
Fixpoint intersperse (sep : list tok) (ps : list (list tok)) : list tok :=
  match ps with [] => [] | [p] => p | p :: r => p ++ sep ++ intersperse sep r end.
Definition assemble (c : dcall) : list tok :=
  match c with (name, params, tail) => name ++ [Lit "("] ++ intersperse [Lit ", "] params ++ [Lit ")"] ++ tail end.

(* CallstacksRefine.v — the program tools/translate/tr_callstacks.py reads off callstacks_parser.py (gen/GenCallstacks.v), run
   on the two parallel lists of the code, computes the one-list model of Callstacks.v: never an IndexError / NameError, the
   two lists stay the projections of the model's table, every yielded callstack is the model's.  (C15) *)
From Coq Require Import NArith ZArith List Bool Lia.
From Kd Require Import theories.Base theories.Callstacks theories.CallstacksIR gen.GenCallstacks.
Import ListNotations.
Open Scope N_scope.

Section R.
  Variable U : Type.
  Notation table := (table U).

  Definition unz (t : table) : cst U := {| addrs := map fst t; uuids := map snd t |}.

  Definition convf (f : N * option (U * N)) : frameZ U :=
    (fst f, match snd f with Some (u, off) => Some (u, Z.of_N off) | None => None end).
  Definition convc (c : callstack U) : callstackZ U :=
    match c with (ts, tid, fs) => (ts, tid, map convf fs) end.

  Lemma existsb_memA a (t : table) : existsb (N.eqb a) (map fst t) = memA U a t.
  Proof.
    unfold memA. induction t as [|p t IH]; cbn [map existsb]; auto. rewrite IH, (N.eqb_sym a). reflexivity.
  Qed.

  Lemma py_insert_fst i a u (t : table) : py_insert i a (map fst t) = map fst (firstn i t ++ (a, u) :: skipn i t).
  Proof. unfold py_insert. now rewrite map_app, firstn_map, skipn_map. Qed.
  Lemma py_insert_snd i a u (t : table) : py_insert i u (map snd t) = map snd (firstn i t ++ (a, u) :: skipn i t).
  Proof. unfold py_insert. now rewrite map_app, firstn_map, skipn_map. Qed.

  (* insert_image: the four statements of the source; the two inserts may come in either order *)
  Definition insert_ok (ins : list istmt) : bool :=
    match ins with
    | [IReturnIfPresent; IBisect; IInsertAddr; IInsertUuid] => true
    | [IReturnIfPresent; IBisect; IInsertUuid; IInsertAddr] => true
    | _ => false
    end.

  Lemma insert_ok_cases ins : insert_ok ins = true ->
    ins = [IReturnIfPresent; IBisect; IInsertAddr; IInsertUuid] \/ ins = [IReturnIfPresent; IBisect; IInsertUuid; IInsertAddr].
  Proof.
    destruct ins as [|[] [|[] [|[] [|[] [|? ?]]]]]; cbn; try discriminate; auto.
  Qed.

  Lemma insert_refines ins (t : table) a u : insert_ok ins = true ->
    iexec ins a u None (unz t) = Some (unz (insert_image U t a u)).
  Proof.
    intros OK. destruct (insert_ok_cases ins OK) as [-> | ->];
      unfold insert_image; cbn [iexec unz addrs uuids]; rewrite existsb_memA;
      (destruct (memA U a t); [reflexivity|]);
      rewrite (py_insert_fst _ a u), (py_insert_snd _ a u); reflexivity.
  Qed.

  Lemma insert_images_refines ins imgs : insert_ok ins = true -> forall t : table,
    insert_images ins imgs (unz t) = Some (unz (insert_all U t imgs)).
  Proof.
    intros OK. induction imgs as [|[a u] r IH]; intros t; cbn [insert_images]; [reflexivity|].
    rewrite insert_refines by exact OK. rewrite IH. reflexivity.
  Qed.

  Lemma py_nth_nat {A} (l : list A) (k : nat) : py_nth l (Z.of_nat k) = nth_error l k.
  Proof.
    unfold py_nth. destruct (Z.of_nat k <? 0)%Z eqn:E; [apply Z.ltb_lt in E; lia|]. now rewrite Nat2Z.id.
  Qed.

  (* one frame: bisect - 1, the guard (> -1, or the same test written >= 0), the two indexings, the subtraction *)
  Definition attr_ok (c : attr_code) : bool :=
    (a_off c =? -1)%Z && (if a_ge c then (a_thr c =? 0)%Z else (a_thr c =? -1)%Z).

  Lemma attr_refines c (t : table) x : attr_ok c = true -> ssorted (map fst t) ->
    attr_exec c (unz t) x = Some (convf (frame_of U t x)).
  Proof.
    intros OK HS. unfold attr_ok in OK. apply andb_true_iff in OK. destruct OK as [O1 O2]. apply Z.eqb_eq in O1.
    unfold attr_exec, frame_of. rewrite O1. cbn [unz addrs uuids].
    pose proof (attribute_some U t x) as AS. unfold attribute in *.
    destruct (bisect (map fst t) x) as [|k] eqn:B.
    - replace (Z.of_nat 0 + -1)%Z with (-1)%Z by lia.
      destruct (a_ge c); apply Z.eqb_eq in O2; rewrite O2; reflexivity.
    - replace (Z.of_nat (S k) + -1)%Z with (Z.of_nat k) by lia.
      assert (G : (if a_ge c then (a_thr c <=? Z.of_nat k)%Z else (a_thr c <? Z.of_nat k)%Z) = true).
      { destruct (a_ge c); apply Z.eqb_eq in O2; rewrite O2; [apply Z.leb_le | apply Z.ltb_lt]; lia. }
      rewrite G.
      rewrite !py_nth_nat, !nth_error_map.
      assert (L : (k < length t)%nat).
      { rewrite bisect_map in B. pose proof (filter_len_le (le_x U x) t). lia. }
      destruct (nth_error t k) as [[a' u']|] eqn:Hn; [|apply nth_error_None in Hn; lia].
      cbn [option_map fst snd].
      destruct (AS a' u' (x - a') HS eq_refl) as (_ & Hle & _).
      unfold convf. cbn [fst snd]. rewrite N2Z.inj_sub by exact Hle. reflexivity.
  Qed.

  Lemma attr_all_refines c (t : table) xs : attr_ok c = true -> ssorted (map fst t) ->
    attr_all c (unz t) xs = Some (map convf (map (frame_of U t) xs)).
  Proof.
    intros OK HS. induction xs as [|x r IH]; cbn [attr_all map]; [reflexivity|].
    rewrite attr_refines by assumption. rewrite IH. reflexivity.
  Qed.

  (* the if / elif chain: the three kinds of trace exclude one another, so only the presence of each branch matters *)
  Definition is_b (k : fbranch) (b : fbranch) : bool :=
    match k, b with BPerfFrames, BPerfFrames | BMapA, BMapA | BLaunch, BLaunch => true | _, _ => false end.
  Definition branches_ok (br : list fbranch) : bool :=
    existsb (is_b BPerfFrames) br && existsb (is_b BMapA) br && existsb (is_b BLaunch) br.

  Lemma branch_step_spec br ins ac (s : cst U) tr :
    branch_step br ins ac s tr =
    match tr with
    | TPerf _ ts tid (Some fr) =>
        if existsb (is_b BPerfFrames) br
        then match attr_all ac s fr with Some fs => Some (s, Some (ts, tid, fs)) | None => None end
        else Some (s, None)
    | TMapA _ a u =>
        if existsb (is_b BMapA) br
        then match iexec ins a u None s with Some s' => Some (s', None) | None => None end
        else Some (s, None)
    | TLaunch _ imgs =>
        if existsb (is_b BLaunch) br
        then match insert_images ins imgs s with Some s' => Some (s', None) | None => None end
        else Some (s, None)
    | _ => Some (s, None)
    end.
  Proof.
    induction br as [|b br IH]; [destruct tr as [ts tid [fr|]|a u|imgs|]; reflexivity|].
    destruct b; destruct tr as [ts tid [fr|]|a u|imgs|]; cbn [branch_step existsb is_b orb]; try rewrite IH; reflexivity.
  Qed.

  (* the whole loop, for every program of the recognised shape *)
  Theorem feed_refines_gen br ins ac : branches_ok br = true -> insert_ok ins = true -> attr_ok ac = true ->
    forall trs (t : table), ssorted (map fst t) ->
    fexec br ins ac (unz t) trs = Some (map convc (feed U t trs)).
  Proof.
    intros OB OI OA. unfold branches_ok in OB. apply andb_true_iff in OB. destruct OB as [OB O3].
    apply andb_true_iff in OB. destruct OB as [O1 O2].
    induction trs as [|tr r IH]; intros t HS; cbn [fexec feed map]; [reflexivity|].
    rewrite branch_step_spec.
    destruct tr as [ts tid [fr|]|a u|imgs|]; cbn [feed].
    - rewrite O1. rewrite attr_all_refines by assumption. rewrite IH by exact HS. reflexivity.
    - rewrite IH by exact HS. reflexivity.
    - rewrite O2. rewrite insert_refines by exact OI. rewrite IH by (apply insert_sorted; exact HS). reflexivity.
    - rewrite O3. rewrite insert_images_refines by exact OI. rewrite IH by (apply insert_all_sorted; exact HS). reflexivity.
    - rewrite IH by exact HS. reflexivity.
  Qed.

  (* ... and for the program the translator read off the current source *)
  Theorem feed_refines trs (t : table) : ssorted (map fst t) ->
    fexec gen_branches gen_insert gen_attr (unz t) trs = Some (map convc (feed U t trs)).
  Proof. apply feed_refines_gen; reflexivity. Qed.

  (* the lists the code holds are always the two projections of one sorted table: equally long, addresses strictly increasing *)
  Corollary lists_in_step (t : table) a u : ssorted (map fst t) ->
    exists t', iexec gen_insert a u None (unz t) = Some (unz t') /\ ssorted (map fst t')
               /\ length (addrs (unz t')) = length (uuids (unz t')).
  Proof.
    intros HS. exists (insert_image U t a u). split; [apply insert_refines; reflexivity|]. split; [now apply insert_sorted|].
    cbn [unz addrs uuids]. now rewrite !map_length.
  Qed.
End R.

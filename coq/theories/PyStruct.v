(* PyStruct.v — model of Python's struct.unpack / struct.calcsize for the little-endian,
   standard-size, unaligned mode ('<') and the item codes the repository uses (Q I H B s x).
   This is a LIBRARY ORACLE (DESIGN §4.5): assumed behaviour of CPython's struct module,
   validated by the correspondence check on every run, not verified. *)
From Coq Require Import String Ascii ZArith NArith Arith List Bool Lia.
From Kd Require Import theories.Base.
Import ListNotations.
Open Scope N_scope.

Inductive fitem := FInt (size : nat) | FBytes (n : nat) | FPad (n : nat).
Inductive value := VInt (v : N) | VBytes (b : list N).

Definition fsize (it : fitem) : nat :=
  match it with FInt s => s | FBytes n => n | FPad n => n end.

Fixpoint fmt_size (its : list fitem) : nat :=
  match its with [] => O | it :: r => (fsize it + fmt_size r)%nat end.

(* unpack without the length test: item k is decoded from its own slice *)
Fixpoint unpack_go (its : list fitem) (r : list N) : list value :=
  match its with
  | [] => []
  | FInt s :: rest => VInt (le (firstn s r)) :: unpack_go rest (skipn s r)
  | FBytes n :: rest => VBytes (firstn n r) :: unpack_go rest (skipn n r)
  | FPad n :: rest => unpack_go rest (skipn n r)
  end.

(* struct.unpack(fmt, buf): struct.error (None) unless len(buf) == calcsize(fmt) *)
Definition unpack (its : list fitem) (r : list N) : option (list value) :=
  if Nat.eqb (length r) (fmt_size its) then Some (unpack_go its r) else None.

(* ---- format strings ---- *)
Definition digit_of (c : ascii) : option nat :=
  let n := nat_of_ascii c in
  if (48 <=? n)%nat && (n <=? 57)%nat then Some (n - 48)%nat else None.

Definition item_of (c : ascii) (cnt : option nat) : option (list fitem) :=
  let k := match cnt with Some k => k | None => 1%nat end in
  match c with
  | "Q"%char => Some (repeat (FInt 8) k)
  | "I"%char => Some (repeat (FInt 4) k)
  | "H"%char => Some (repeat (FInt 2) k)
  | "B"%char => Some (repeat (FInt 1) k)
  | "s"%char => Some [FBytes k]
  | "x"%char => Some [FPad k]
  | _ => None
  end.

Fixpoint parse_items (s : string) (cnt : option nat) : option (list fitem) :=
  match s with
  | EmptyString => match cnt with None => Some [] | Some _ => None end
  | String c r =>
    match digit_of c with
    | Some d => parse_items r (Some (match cnt with Some k => 10 * k + d | None => d end)%nat)
    | None =>
      match item_of c cnt, parse_items r None with
      | Some a, Some b => Some (a ++ b)
      | _, _ => None
      end
    end
  end.

(* only the '<' mode is modelled; any other first character is outside the model *)
Definition parse_fmt (s : string) : option (list fitem) :=
  match s with
  | String "<"%char r => parse_items r None
  | _ => None
  end.

Definition unpack_str (fmt : string) (r : list N) : option (list value) :=
  match parse_fmt fmt with Some its => unpack its r | None => None end.

Definition calcsize (fmt : string) : option nat :=
  match parse_fmt fmt with Some its => Some (fmt_size its) | None => None end.

Fixpoint ints_of (vs : list value) : option (list N) :=
  match vs with
  | [] => Some []
  | VInt v :: r => match ints_of r with Some l => Some (v :: l) | None => None end
  | VBytes _ :: _ => None
  end.

(* ---- facts ---- *)
Lemma unpack_total its r : length r = fmt_size its -> unpack its r = Some (unpack_go its r).
Proof. intros H. unfold unpack. now rewrite H, Nat.eqb_refl. Qed.

Lemma unpack_error its r : length r <> fmt_size its -> unpack its r = None.
Proof. intros H. unfold unpack. apply Nat.eqb_neq in H. now rewrite H. Qed.

Lemma unpack_some_length its r vs : unpack its r = Some vs -> length r = fmt_size its.
Proof.
  unfold unpack. destruct (Nat.eqb (length r) (fmt_size its)) eqn:E; [|discriminate].
  intros _. now apply Nat.eqb_eq.
Qed.

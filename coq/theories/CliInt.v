(* CliInt.v — model of the command line's "based int" option type (BasedIntParamType.convert = int(value, 0)):
   Python's integer-literal grammar with base prefixes, single underscores between digits, an optional sign and
   surrounding ASCII whitespace.  None = ValueError (click then fails with a usage error).  (C12/C13 configurations) *)
From Coq Require Import String Ascii ZArith NArith List Bool Lia.
From Kd Require Import theories.Base theories.Printers.
Import ListNotations.
Open Scope N_scope.

Definition digit_val (c : N) : option N :=
  if (48 <=? c) && (c <=? 57) then Some (c - 48)
  else if (97 <=? c) && (c <=? 122) then Some (c - 87)
  else if (65 <=? c) && (c <=? 90) then Some (c - 55)
  else None.

(* ( ["_"] digit )* with the bookkeeping of Python's rule: an underscore only between two digits (or right after a
   base prefix); `seen` = at least one digit so far; `us` = the previous character was an underscore *)
Fixpoint digs (b acc : N) (us seen : bool) (l : str) : option N :=
  match l with
  | [] => if us || negb seen then None else Some acc
  | c :: r =>
    if c =? 95 then (if us then None else digs b acc true seen r)
    else match digit_val c with
         | Some d => if d <? b then digs b (acc * b + d) false true r else None
         | None => None
         end
  end.

Definition is_ws (c : N) : bool := ((9 <=? c) && (c <=? 13)) || ((28 <=? c) && (c <=? 32)).
Fixpoint lstrip (l : str) : str := match l with c :: r => if is_ws c then lstrip r else l | [] => [] end.
Definition strip (l : str) : str := rev (lstrip (rev (lstrip l))).

(* the magnitude: 0x.. 0o.. 0b.. | nonzero-leading decimal | zeros *)
Definition magnitude (l : str) : option N :=
  match l with
  | 48 :: p :: r =>
    if (p =? 120) || (p =? 88) then digs 16 0 false false r
    else if (p =? 111) || (p =? 79) then digs 8 0 false false r
    else if (p =? 98) || (p =? 66) then digs 2 0 false false r
    else digs 1 0 false true (p :: r)                       (* "0" then only zeros / single underscores *)
  | [48] => Some 0
  | c :: r => match digit_val c with
              | Some d => if (0 <? d) && (d <? 10) then digs 10 d false true r else None
              | None => None
              end
  | [] => None
  end.

Definition based_int (text : str) : option Z :=
  match strip text with
  | 45 :: r => option_map (fun n => (- Z.of_N n)%Z) (magnitude r)
  | 43 :: r => option_map Z.of_N (magnitude r)
  | l => option_map Z.of_N (magnitude l)
  end.

(* ---------------- what plain digit strings mean ---------------- *)
Definition digit_str (b : N) (l : str) : Prop := Forall (fun c => exists d, digit_val c = Some d /\ d < b) l.
Definition valb (b : N) (l : str) (acc : N) : N :=
  fold_left (fun a c => a * b + match digit_val c with Some d => d | None => 0 end) l acc.

Lemma digit_not_us c d : digit_val c = Some d -> (c =? 95) = false.
Proof.
  unfold digit_val. intros H. apply N.eqb_neq. intros ->. cbn in H. discriminate.
Qed.

Lemma digs_plain b l : digit_str b l -> forall acc seen, (seen = true \/ l <> []) ->
  digs b acc false seen l = Some (valb b l acc).
Proof.
  induction 1 as [|c l (d & Hd & Hb) _ IH]; intros acc seen Hs; cbn [digs valb fold_left].
  - destruct Hs as [->|Hs]; [reflexivity|congruence].
  - rewrite (digit_not_us c d Hd), Hd. apply N.ltb_lt in Hb. rewrite Hb. apply IH. now left.
Qed.

(* every non-empty string of base-b digits after its prefix is accepted and denotes its value *)
Theorem magnitude_hex l : l <> [] -> digit_str 16 l -> forall x, x = 120 \/ x = 88 -> magnitude (48 :: x :: l) = Some (valb 16 l 0).
Proof.
  intros Hl Hd x Hx. unfold magnitude. assert (E : (x =? 120) || (x =? 88) = true) by (destruct Hx; subst; reflexivity).
  rewrite E. apply digs_plain; auto.
Qed.
Theorem magnitude_oct l : l <> [] -> digit_str 8 l -> forall x, x = 111 \/ x = 79 -> magnitude (48 :: x :: l) = Some (valb 8 l 0).
Proof.
  intros Hl Hd x Hx. unfold magnitude.
  assert (E1 : (x =? 120) || (x =? 88) = false) by (destruct Hx; subst; reflexivity).
  assert (E2 : (x =? 111) || (x =? 79) = true) by (destruct Hx; subst; reflexivity).
  rewrite E1, E2. apply digs_plain; auto.
Qed.
Theorem magnitude_bin l : l <> [] -> digit_str 2 l -> forall x, x = 98 \/ x = 66 -> magnitude (48 :: x :: l) = Some (valb 2 l 0).
Proof.
  intros Hl Hd x Hx. unfold magnitude.
  assert (E1 : (x =? 120) || (x =? 88) = false) by (destruct Hx; subst; reflexivity).
  assert (E2 : (x =? 111) || (x =? 79) = false) by (destruct Hx; subst; reflexivity).
  assert (E3 : (x =? 98) || (x =? 66) = true) by (destruct Hx; subst; reflexivity).
  rewrite E1, E2, E3. apply digs_plain; auto.
Qed.
(* decimal: a non-zero first digit, then digits *)
Theorem magnitude_dec c l d : digit_val c = Some d -> 0 < d < 10 -> digit_str 10 l ->
  magnitude (c :: l) = Some (valb 10 l d).
Proof.
  intros Hc Hd Hl. unfold magnitude.
  assert (C48 : c <> 48). { intros ->. cbn in Hc. injection Hc as <-. lia. }
  destruct c as [|p]; [cbn in Hc; discriminate|].
  assert (G : match digit_val (N.pos p) with
              | Some d0 => if (0 <? d0) && (d0 <? 10) then digs 10 d0 false true l else None
              | None => None end = Some (valb 10 l d)).
  { rewrite Hc. replace ((0 <? d) && (d <? 10)) with true
      by (symmetry; apply andb_true_iff; split; apply N.ltb_lt; lia).
    apply digs_plain; auto. }
  (* the literal-48 branches of the match do not apply *)
  destruct p as [p|p|]; try exact G; destruct p as [p|p|]; try exact G; destruct p as [p|p|]; try exact G;
    destruct p as [p|p|]; try exact G; destruct p as [p|p|]; try exact G; destruct p as [p|p|]; try exact G.
  all: try (exfalso; apply C48; reflexivity).
Qed.

(* spot values, incl. what Python rejects: a leading zero before other decimal digits, doubled / leading / trailing
   underscores, an empty body, a digit outside the base, a blank between sign and digits *)
Fixpoint sb (s : String.string) : str :=
  match s with String.EmptyString => [] | String.String c r => N.of_nat (Ascii.nat_of_ascii c) :: sb r end.
Example based_int_accepts :
  map (fun t => based_int (sb t)) ["12"; "0x1F"; "0X_1f"; " -0b101 "; "0o17"; "1_000"; "00"; "0_0"; "+7"; "0B100"]%string
  = [Some 12; Some 31; Some 31; Some (-5); Some 15; Some 1000; Some 0; Some 0; Some 7; Some 4]%Z.
Proof. vm_compute. reflexivity. Qed.
Example based_int_rejects :
  map (fun t => based_int (sb t)) ["012"; "0x"; "1__0"; "1_"; "_1"; "0b102"; ""; "- 1"; "12a"; "0x_"; "0_"]%string
  = [None; None; None; None; None; None; None; None; None; None; None].
Proof. vm_compute. reflexivity. Qed.

(* Base.v — bytes, little-endian words, slices, boolean list equality.
   Everything here is stdlib-only and closed under the global context. *)
From Coq Require Import ZArith NArith Arith List Bool Lia.
Import ListNotations.
Open Scope N_scope.

Ltac nlia := let H := fresh in
  (Z.to_euclidean_division_equations; lia) || lia.

Notation byte := N (only parsing).
Notation bytes := (list N) (only parsing).

Definition is_byte (b : N) : Prop := b < 256.
Definition bytes_ok (l : list N) : Prop := Forall is_byte l.
Definition is_byteb (b : N) : bool := b <? 256.
Definition bytes_okb (l : list N) : bool := forallb is_byteb l.

Lemma bytes_okb_ok l : bytes_okb l = true <-> bytes_ok l.
Proof.
  unfold bytes_okb, bytes_ok. rewrite forallb_forall, Forall_forall.
  split; intros H x Hx; specialize (H x Hx); unfold is_byteb, is_byte in *; now apply N.ltb_lt.
Qed.

(* ---- slices ---- *)
Definition slice {A} (l : list A) (o n : nat) : list A := firstn n (skipn o l).

Lemma slice_length {A} (l : list A) o n : (o + n <= length l)%nat -> length (slice l o n) = n.
Proof. intros H. unfold slice. rewrite firstn_length, skipn_length. lia. Qed.

Lemma In_firstn_In {A} (l : list A) n x : In x (firstn n l) -> In x l.
Proof. revert l; induction n; intros [|y l]; cbn; auto; try tauto. intros [->|H]; auto. Qed.
Lemma bytes_ok_firstn l n : bytes_ok l -> bytes_ok (firstn n l).
Proof. unfold bytes_ok. rewrite !Forall_forall. intros H x Hx. apply H. eapply In_firstn_In; eauto. Qed.
Lemma In_skipn_In {A} (l : list A) n x : In x (skipn n l) -> In x l.
Proof. revert l; induction n; intros [|y l]; cbn; auto. Qed.
Lemma bytes_ok_skipn l n : bytes_ok l -> bytes_ok (skipn n l).
Proof. unfold bytes_ok. rewrite !Forall_forall. intros H x Hx. apply H. eapply In_skipn_In; eauto. Qed.
Lemma bytes_ok_slice l o n : bytes_ok l -> bytes_ok (slice l o n).
Proof. intros. unfold slice. now apply bytes_ok_firstn, bytes_ok_skipn. Qed.
Lemma bytes_ok_app a b : bytes_ok a -> bytes_ok b -> bytes_ok (a ++ b).
Proof. unfold bytes_ok. intros. now apply Forall_app. Qed.

(* ---- little-endian decode / encode ---- *)
Fixpoint le (l : list N) : N :=
  match l with [] => 0 | b :: r => b + 256 * le r end.

Fixpoint enc (n : nat) (v : N) : list N :=
  match n with O => [] | S k => (v mod 256) :: enc k (v / 256) end.

Lemma enc_length n v : length (enc n v) = n.
Proof. revert v; induction n; cbn; auto. Qed.

Lemma enc_ok n v : bytes_ok (enc n v).
Proof.
  revert v; induction n as [|n IH]; intros v; cbn [enc]; [constructor|].
  constructor; [|apply IH]. unfold is_byte. apply N.mod_lt. discriminate.
Qed.

Lemma le_bound l : bytes_ok l -> le l < 256 ^ N.of_nat (length l).
Proof.
  induction 1 as [|b r Hb _ IH]; [cbn; lia|].
  cbn [le length]. rewrite Nat2N.inj_succ, N.pow_succ_r'. unfold is_byte in Hb. lia.
Qed.

Lemma le_enc n v : v < 256 ^ N.of_nat n -> le (enc n v) = v.
Proof.
  revert v; induction n as [|n IH]; intros v Hv.
  - cbn in *. lia.
  - cbn [enc le]. rewrite Nat2N.inj_succ, N.pow_succ_r' in Hv.
    rewrite IH.
    + rewrite N.add_comm. symmetry. apply N.div_mod'.
    + apply N.div_lt_upper_bound; lia.
Qed.

Lemma enc_le l : bytes_ok l -> enc (length l) (le l) = l.
Proof.
  induction 1 as [|b r Hb _ IH]; [reflexivity|].
  unfold is_byte in Hb. cbn [length enc le].
  assert (E1 : (b + 256 * le r) mod 256 = b).
  { rewrite (N.mul_comm 256), N.mod_add by discriminate. now apply N.mod_small. }
  assert (E2 : (b + 256 * le r) / 256 = le r).
  { rewrite (N.mul_comm 256), N.div_add by discriminate.
    rewrite N.div_small by assumption. lia. }
  rewrite E1, E2, IH. reflexivity.
Qed.

Lemma le_inj a b : bytes_ok a -> bytes_ok b -> length a = length b -> le a = le b -> a = b.
Proof.
  intros Ha Hb Hl He. rewrite <- (enc_le a Ha), <- (enc_le b Hb). now rewrite Hl, He.
Qed.

(* ---- boolean equality on lists of N ---- *)
Fixpoint leqb (a b : list N) : bool :=
  match a, b with
  | [], [] => true
  | x :: a', y :: b' => N.eqb x y && leqb a' b'
  | _, _ => false
  end.

Lemma leqb_eq a b : leqb a b = true <-> a = b.
Proof.
  revert b; induction a as [|x a IH]; destruct b; cbn; split; try discriminate; auto.
  - rewrite andb_true_iff, N.eqb_eq, IH. intros [-> ->]; auto.
  - intros [= -> ->]. rewrite N.eqb_refl. apply IH; auto.
Qed.

Lemma leqb_refl a : leqb a a = true.
Proof. now apply leqb_eq. Qed.

Lemma leqb_neq a b : leqb a b = false <-> a <> b.
Proof.
  split.
  - intros H E. apply leqb_eq in E. congruence.
  - intros H. destruct (leqb a b) eqn:E; auto. apply leqb_eq in E. contradiction.
Qed.

(* chunks of k elements (used for the 4 argument words and for 64-byte records) *)
Fixpoint chunks_fuel {A} (fuel k : nat) (l : list A) : list (list A) :=
  match fuel with
  | O => []
  | S f => match l with [] => [] | _ => firstn k l :: chunks_fuel f k (skipn k l) end
  end.
Definition chunks {A} (k : nat) (l : list A) : list (list A) := chunks_fuel (length l) k l.

(* zeros *)
Definition zeros (n : nat) : list N := repeat 0 n.
Lemma zeros_ok n : bytes_ok (zeros n).
Proof. unfold zeros, bytes_ok. induction n; cbn; constructor; auto. unfold is_byte; lia. Qed.

Lemma skipn_skipn {A} (a b : nat) (l : list A) : skipn a (skipn b l) = skipn (b + a) l.
Proof.
  revert l; induction b as [|b IH]; intros l; [reflexivity|].
  destruct l as [|x l]; cbn [skipn Nat.add]; [now rewrite skipn_nil|apply IH].
Qed.

Lemma slice_slice {A} (l : list A) o n o' n' :
  (o' + n' <= n)%nat -> slice (slice l o n) o' n' = slice l (o + o') n'.
Proof.
  intros H. unfold slice. rewrite skipn_firstn_comm, skipn_skipn, firstn_firstn.
  f_equal. lia.
Qed.

Lemma slice_app_l {A} (a b : list A) o n : (o + n <= length a)%nat -> slice (a ++ b) o n = slice a o n.
Proof.
  intros H. unfold slice. rewrite skipn_app, firstn_app, skipn_length.
  replace (n - (length a - o))%nat with O by lia. cbn [firstn]. now rewrite app_nil_r.
Qed.

Lemma slice_app_r {A} (a b : list A) o n : (length a <= o)%nat -> slice (a ++ b) o n = slice b (o - length a) n.
Proof.
  intros H. unfold slice. rewrite skipn_app, skipn_all2 by lia. reflexivity.
Qed.

Lemma slice_all {A} (l : list A) : slice l 0 (length l) = l.
Proof. unfold slice. cbn [skipn]. apply firstn_all. Qed.

Lemma slice_cat {A} (l : list A) o n m : slice l o n ++ slice l (o + n) m = slice l o (n + m).
Proof.
  unfold slice. rewrite <- skipn_skipn.
  set (k := skipn o l). clearbody k. revert k. induction n as [|n IH]; intros k; [reflexivity|].
  destruct k as [|x k]; cbn [firstn skipn Nat.add app].
  - now rewrite firstn_nil.
  - f_equal. apply IH.
Qed.

Lemma slice_cat' {A} (l : list A) o n o' m : o' = (o + n)%nat -> slice l o n ++ slice l o' m = slice l o (n + m).
Proof. intros ->. apply slice_cat. Qed.

Lemma firstn_app_exact {A} (a b : list A) : firstn (length a) (a ++ b) = a.
Proof. rewrite firstn_app, Nat.sub_diag, firstn_all. cbn [firstn]. apply app_nil_r. Qed.
Lemma skipn_app_exact {A} (a b : list A) : skipn (length a) (a ++ b) = b.
Proof. rewrite skipn_app, Nat.sub_diag, skipn_all. reflexivity. Qed.

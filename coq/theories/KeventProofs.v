(* KeventProofs.v — facts about the GENERATED from_kd_buf (gen/GenKevent.v). C01. *)
From Coq Require Import String ZArith NArith Arith List Bool Lia.
From Kd Require Import theories.Base theories.Bits theories.PyStruct theories.Kevent gen.GenKevent.
Import ListNotations.
Open Scope N_scope.

(* what the property says a decoded record is, field by field *)
Definition decode_spec (r : list N) : kevent :=
  let d := slice r 8 32 in
  let dbg := le (slice r 48 4) in
  mkKevent (le (slice r 0 8)) d
           [le (slice d 0 8); le (slice d 8 8); le (slice d 16 8); le (slice d 24 8)]
           (le (slice r 40 8)) dbg (N.ldiff dbg 3) (dbg mod 4).

Lemma kd_fmt_parsed :
  parse_fmt KD_BUF_FORMAT = Some [FInt 8; FBytes 32; FInt 8; FInt 4; FInt 4; FInt 8].
Proof. vm_compute. reflexivity. Qed.

Lemma args_fmt_parsed : parse_fmt "<QQQQ" = Some [FInt 8; FInt 8; FInt 8; FInt 8].
Proof. vm_compute. reflexivity. Qed.

Lemma masks_are_darwin : KDBG_EVENTID_MASK = N.ldiff (N.ones 32) (N.ones 2) /\ KDBG_FUNC_MASK = N.ones 2.
Proof. split; vm_compute; reflexivity. Qed.

Lemma slice_bound32 r o : bytes_ok r -> (o + 4 <= length r)%nat -> le (slice r o 4) < 2 ^ 32.
Proof.
  intros Hr Hl. pose proof (le_bound (slice r o 4) (bytes_ok_slice r o 4 Hr)) as H.
  rewrite slice_length in H by lia. exact H.
Qed.

Lemma from_kd_buf_raw r : length r = 64%nat ->
  from_kd_buf r =
  let d := slice r 8 32 in
  let dbg := le (slice r 48 4) in
  Some (mkKevent (le (slice r 0 8)) d
           [le (slice d 0 8); le (slice d 8 8); le (slice d 16 8); le (slice d 24 8)]
           (le (slice r 40 8)) dbg (N.land dbg KDBG_EVENTID_MASK) (N.land dbg KDBG_FUNC_MASK)).
Proof.
  intros Hl. unfold from_kd_buf, unpack_str. rewrite kd_fmt_parsed, args_fmt_parsed.
  rewrite unpack_total by (rewrite Hl; reflexivity).
  cbn [unpack_go].
  rewrite unpack_total.
  2:{ rewrite firstn_length, skipn_length, Hl. reflexivity. }
  cbn [unpack_go ints_of].
  unfold slice. rewrite !skipn_skipn. cbn [Nat.add]. cbn [skipn]. reflexivity.
Qed.

Lemma from_kd_buf_spec r : length r = 64%nat -> bytes_ok r -> from_kd_buf r = Some (decode_spec r).
Proof.
  intros Hl Hr. rewrite from_kd_buf_raw by assumption. cbv zeta. unfold decode_spec.
  assert (Hb : le (slice r 48 4) < 2 ^ 32) by (apply slice_bound32; [assumption|lia]).
  destruct masks_are_darwin as [-> ->].
  destruct (split_mask _ Hb) as (E1 & _ & _ & E2).
  rewrite E1. rewrite N.land_ones. reflexivity.
Qed.

Lemma from_kd_buf_error r : length r <> 64%nat -> from_kd_buf r = None.
Proof.
  intros Hl. unfold from_kd_buf, unpack_str. rewrite kd_fmt_parsed.
  rewrite unpack_error; [reflexivity|exact Hl].
Qed.

(* ---- the C01 statements ---- *)
Lemma some_len r e : bytes_ok r -> from_kd_buf r = Some e -> length r = 64%nat /\ e = decode_spec r.
Proof.
  intros Hr H. destruct (Nat.eq_dec (length r) 64) as [Hl|Hl].
  - split; [assumption|]. rewrite from_kd_buf_spec in H by assumption. congruence.
  - rewrite from_kd_buf_error in H by assumption. discriminate.
Qed.

Lemma c01_total_lemma : forall r, bytes_ok r ->
  (length r = 64%nat -> exists e, from_kd_buf r = Some e) /\
  (length r <> 64%nat -> from_kd_buf r = None).
Proof.
  intros r Hr. split; intros Hl.
  - eexists. now apply from_kd_buf_spec.
  - now apply from_kd_buf_error.
Qed.

Lemma c01_fields_lemma : forall r e, bytes_ok r -> from_kd_buf r = Some e ->
  k_timestamp e = le (slice r 0 8) /\
  k_data e = slice r 8 32 /\
  k_tid e = le (slice r 40 8) /\
  k_debugid e = le (slice r 48 4) /\
  k_values e = [le (slice r 8 8); le (slice r 16 8); le (slice r 24 8); le (slice r 32 8)].
Proof.
  intros r e Hr H. destruct (some_len r e Hr H) as [Hl ->]. unfold decode_spec. cbv zeta. cbn [k_timestamp k_data k_values k_tid k_debugid k_eventid k_qual].
  repeat split. rewrite !slice_slice by lia. reflexivity.
Qed.

Lemma c01_split_lemma : forall r e, bytes_ok r -> from_kd_buf r = Some e ->
  k_eventid e = N.ldiff (k_debugid e) 3 /\
  k_qual e = k_debugid e mod 4 /\
  k_qual e < 4 /\
  N.lor (k_eventid e) (k_qual e) = k_debugid e /\
  N.land (k_eventid e) (k_qual e) = 0.
Proof.
  intros r e Hr H. destruct (some_len r e Hr H) as [Hl ->]. unfold decode_spec. cbv zeta. cbn [k_timestamp k_data k_values k_tid k_debugid k_eventid k_qual].
  repeat split.
  - apply N.mod_lt. discriminate.
  - apply lor_ldiff_mod4.
  - apply land_ldiff_mod4.
Qed.

Lemma c01_rebuild_lemma : forall r e, bytes_ok r -> from_kd_buf r = Some e ->
  enc 8 (k_timestamp e) ++ k_data e ++ enc 8 (k_tid e) ++ enc 4 (N.lor (k_eventid e) (k_qual e))
  = firstn 52 r.
Proof.
  intros r e Hr H. destruct (some_len r e Hr H) as [Hl ->]. unfold decode_spec. cbv zeta. cbn [k_timestamp k_data k_values k_tid k_debugid k_eventid k_qual].
  rewrite lor_ldiff_mod4.
  assert (E : forall o n, (o + n <= 64)%nat -> enc n (le (slice r o n)) = slice r o n).
  { intros o n Hon. rewrite <- (slice_length r o n) at 1 by lia. apply enc_le. now apply bytes_ok_slice. }
  rewrite !E by lia.
  rewrite (slice_cat' r 40 8 48 4) by reflexivity.
  rewrite (slice_cat' r 8 32 40) by reflexivity.
  rewrite (slice_cat' r 0 8 8) by reflexivity.
  reflexivity.
Qed.

Lemma c01_noninterference_lemma : forall r r' e e', bytes_ok r -> bytes_ok r' ->
  from_kd_buf r = Some e -> from_kd_buf r' = Some e' ->
  (slice r 0 8 = slice r' 0 8 -> k_timestamp e = k_timestamp e') /\
  (slice r 8 32 = slice r' 8 32 -> k_data e = k_data e' /\ k_values e = k_values e') /\
  (forall i, (i < 4)%nat -> slice r (8 + 8 * i) 8 = slice r' (8 + 8 * i) 8 ->
             nth i (k_values e) 0 = nth i (k_values e') 0) /\
  (slice r 40 8 = slice r' 40 8 -> k_tid e = k_tid e') /\
  (slice r 48 4 = slice r' 48 4 ->
     k_debugid e = k_debugid e' /\ k_eventid e = k_eventid e' /\ k_qual e = k_qual e').
Proof.
  intros r r' e e' Hr Hr' H H'.
  destruct (some_len r e Hr H) as [Hl ->]. destruct (some_len r' e' Hr' H') as [Hl' ->].
  unfold decode_spec. cbv zeta. cbn [k_timestamp k_data k_values k_tid k_debugid k_eventid k_qual].
  repeat split.
  - intros ->. reflexivity.
  - assumption.
  - rewrite H0. reflexivity.
  - intros i Hi. rewrite !slice_slice by lia.
    destruct i as [|[|[|[|i]]]]; try lia; cbn [Nat.add Nat.mul nth]; intros ->; reflexivity.
  - intros ->. reflexivity.
  - rewrite H0. reflexivity.
  - rewrite H0. reflexivity.
  - rewrite H0. reflexivity.
Qed.

(* ContainerV3RT.v — version-3 dumps: spec-side encoder and the round trip (C03): all chunked events, in file
   order, however they are split across chunks; the thread map; the tagged blocks. *)
From Coq Require Import NArith Arith List Bool Lia.
From Kd Require Import theories.Base theories.PyStruct theories.Kevent theories.Utf8 gen.GenKevent
  theories.KeventProofs theories.Container theories.ContainerV2 theories.ContainerV3.
Import ListNotations.
Open Scope N_scope.

(* ---------------- tag scan: finds the FIRST occurrence ---------------- *)
Definition occurs_at (pat s : list N) (i : nat) : Prop := firstn (length pat) (skipn i s) = pat.

Lemma firstn_snoc {A} n (l : list A) b r : skipn n l = b :: r -> firstn n l ++ [b] = firstn (S n) l.
Proof. revert l; induction n; intros l H; destruct l; cbn in *; try discriminate. - injection H as -> ->; auto. - f_equal; eauto. Qed.
Lemma skipn_S_tail {A} n (l : list A) b r : skipn n l = b :: r -> r = skipn (S n) l.
Proof. revert l; induction n; intros l H; destruct l; cbn in *; try discriminate. - injection H as -> ->; auto. - eauto. Qed.

Lemma seek_first pat : pat <> [] -> forall pre rest fuel,
  (forall i, (i < length pre)%nat -> ~ occurs_at pat (pre ++ pat ++ rest) i) ->
  (length pre <= fuel)%nat ->
  seek fuel pat (firstn (length pat) (pre ++ pat ++ rest)) (skipn (length pat) (pre ++ pat ++ rest)) = Ok rest.
Proof.
  intros NE pre. induction pre as [|x pre IH]; intros rest fuel NO F.
  - cbn [app]. rewrite firstn_app_exact, skipn_app_exact.
    destruct fuel; cbn [seek]; rewrite leqb_refl; reflexivity.
  - destruct fuel as [|f]; [cbn in F; lia|].
    set (s := (x :: pre) ++ pat ++ rest).
    assert (N0 : firstn (length pat) s <> pat) by (apply (NO 0%nat); cbn; lia).
    cbn [seek]. destruct (leqb (firstn (length pat) s) pat) eqn:E; [apply leqb_eq in E; contradiction|].
    assert (L : (length pat < length s)%nat) by (unfold s; rewrite !app_length; cbn [length]; lia).
    destruct (skipn (length pat) s) as [|b r] eqn:SK.
    { apply (f_equal (@length _)) in SK. rewrite skipn_length in SK. cbn [length] in SK. lia. }
    assert (NO' : forall i, (i < length pre)%nat -> ~ occurs_at pat (pre ++ pat ++ rest) i).
    { intros i Hi. apply (NO (S i)). cbn; lia. }
    specialize (IH rest f NO' ltac:(cbn in F; lia)).
    assert (W : tl (firstn (length pat) s) ++ [b] = firstn (length pat) (pre ++ pat ++ rest)).
    { unfold s in *. cbn [app] in *. destruct pat as [|p0 pt]; [contradiction|]. cbn [length firstn tl] in *.
      cbn [skipn] in SK. eapply firstn_snoc; eauto. }
    assert (R : r = skipn (length pat) (pre ++ pat ++ rest)).
    { unfold s in SK. cbn [app] in SK. destruct pat as [|p0 pt]; [contradiction|]. cbn [length skipn] in *.
      eapply skipn_S_tail; eauto. }
    rewrite W, R. exact IH.
Qed.

Definition first_at_end (pat pre : list N) : Prop :=
  forall rest i, (i < length pre)%nat -> ~ occurs_at pat (pre ++ pat ++ rest) i.

Lemma seek_until_first pat pre rest : pat <> [] -> first_at_end pat pre ->
  seek_until pat (pre ++ pat ++ rest) = Ok rest.
Proof.
  intros NE H. unfold seek_until. apply seek_first; auto. rewrite !app_length. lia.
Qed.

Lemma first_at_end_nil pat : first_at_end pat [].
Proof. intros rest i Hi. cbn in Hi. lia. Qed.

(* ---------------- Prefixed ---------------- *)
Lemma prefixed_enc pl rest : lenN pl < 2 ^ 64 -> prefixed (enc 8 (lenN pl) ++ pl ++ rest) = Some (pl, rest).
Proof.
  intros H. unfold prefixed.
  replace (length (enc 8 (lenN pl) ++ pl ++ rest) <? 8)%nat with false
    by (symmetry; apply Nat.ltb_ge; rewrite app_length, enc_length; lia).
  replace (firstn 8 (enc 8 (lenN pl) ++ pl ++ rest)) with (enc 8 (lenN pl))
    by (symmetry; rewrite <- (enc_length 8 (lenN pl)) at 1; apply firstn_app_exact).
  replace (skipn 8 (enc 8 (lenN pl) ++ pl ++ rest)) with (pl ++ rest)
    by (symmetry; rewrite <- (enc_length 8 (lenN pl)) at 1; apply skipn_app_exact).
  rewrite le_enc by exact H.
  replace (lenN (pl ++ rest) <? lenN pl) with false
    by (symmetry; apply N.ltb_ge; unfold lenN; rewrite app_length; lia).
  unfold lenN. rewrite Nat2N.id, firstn_app_exact, skipn_app_exact. reflexivity.
Qed.

(* ---------------- thread map chunk ---------------- *)
Lemma tm_greedy_enc ts : forall fuel trailing, Forall tm_ok ts ->
  (forall x r, tm_entry trailing <> Ok (x, r)) -> (length ts <= fuel)%nat ->
  tm_greedy fuel (flat_map enc_tm ts ++ trailing) = ts.
Proof.
  induction ts as [|t ts IH]; intros fuel trailing F NT Hf.
  - cbn [flat_map app]. destruct fuel; cbn [tm_greedy]; auto.
    destruct (tm_entry trailing) as [[x r]|] eqn:E; auto. exfalso. eapply NT; eauto.
  - inversion F as [|? ? Ht F']; subst. destruct fuel as [|f]; [cbn in Hf; lia|].
    cbn [flat_map tm_greedy]. rewrite <- app_assoc, tm_entry_enc by auto. f_equal. apply IH; auto. cbn in Hf; lia.
Qed.

(* ---------------- one events chunk ---------------- *)
Lemma recs3_concat recs : forall fuel rest, Forall (fun r => length r = 64%nat) recs -> (length recs <= fuel)%nat ->
  recs3 fuel (N.of_nat (length recs)) (concat recs ++ rest) = (map decode recs, Ok rest).
Proof.
  induction recs as [|r recs IH]; intros fuel rest F Hf.
  - destruct fuel; reflexivity.
  - inversion F as [|? ? Hr F']; subst. destruct fuel as [|f]; [cbn in Hf; lia|].
    cbn [length concat recs3].
    replace (N.of_nat (S (length recs)) =? 0) with false by (symmetry; apply N.eqb_neq; lia).
    rewrite <- app_assoc.
    replace (firstn 64 (r ++ concat recs ++ rest)) with r by (rewrite <- Hr; symmetry; apply firstn_app_exact).
    replace (skipn 64 (r ++ concat recs ++ rest)) with (concat recs ++ rest) by (rewrite <- Hr; symmetry; apply skipn_app_exact).
    rewrite (from_kd_buf_decode r Hr).
    replace (N.of_nat (S (length recs)) - 1) with (N.of_nat (length recs)) by lia.
    rewrite IH by (auto; cbn in Hf; lia). reflexivity.
Qed.

Lemma concat_length_ge (recs : list (list N)) (rest : list N) : Forall (fun r => length r = 64%nat) recs ->
  (length recs <= S (length (concat recs ++ rest)))%nat.
Proof.
  intros F. rewrite app_length. induction F as [|r recs Hr _ IH]; cbn [concat length]; [lia|]. rewrite app_length. lia.
Qed.

(* a chunk as the file holds it: bytes before the events tag, the 8 unknown bytes, the records *)
Record chunk := mkChunk { c_before : list N; c_unk : list N; c_recs : list (list N) }.

Definition chunk_ok (c : chunk) : Prop :=
  first_at_end EVENTS_TAG (c_before c) /\ length (c_unk c) = 8%nat /\
  Forall (fun r => length r = 64%nat) (c_recs c) /\ 64 * N.of_nat (length (c_recs c)) < 2 ^ 64.

Definition enc_chunk (c : chunk) : list N :=
  c_before c ++ EVENTS_TAG ++ enc 8 (64 * N.of_nat (length (c_recs c))) ++ c_unk c ++ concat (c_recs c).

Fixpoint enc_chunks (c : chunk) (cs : list chunk) : list N :=
  match cs with
  | [] => enc_chunk c
  | c' :: cs' => enc_chunk c ++ MORE_EVENTS ++ enc_chunks c' cs'
  end.

Lemma chunk_body c rest : chunk_ok c ->
  exists r1, seek_until EVENTS_TAG (enc_chunk c ++ rest) = Ok r1 /\
    (length r1 <? 8)%nat = false /\ le (firstn 8 r1) / 64 = N.of_nat (length (c_recs c)) /\
    skipn 8 (skipn 8 r1) = concat (c_recs c) ++ rest.
Proof.
  intros (FE & LU & FR & SZ). unfold enc_chunk.
  exists (enc 8 (64 * N.of_nat (length (c_recs c))) ++ c_unk c ++ concat (c_recs c) ++ rest).
  split; [|split; [|split]].
  - rewrite <- !app_assoc. apply seek_until_first; [discriminate|exact FE].
  - apply Nat.ltb_ge. rewrite app_length, enc_length. apply Nat.le_add_r.
  - replace (firstn 8 (enc 8 (64 * N.of_nat (length (c_recs c))) ++ c_unk c ++ concat (c_recs c) ++ rest))
      with (enc 8 (64 * N.of_nat (length (c_recs c))))
      by (symmetry; rewrite <- (enc_length 8 (64 * N.of_nat (length (c_recs c)))) at 1; apply firstn_app_exact).
    rewrite le_enc by exact SZ. rewrite N.mul_comm. apply N.div_mul. discriminate.
  - replace (skipn 8 (enc 8 (64 * N.of_nat (length (c_recs c))) ++ c_unk c ++ concat (c_recs c) ++ rest))
      with (c_unk c ++ concat (c_recs c) ++ rest)
      by (symmetry; rewrite <- (enc_length 8 (64 * N.of_nat (length (c_recs c)))) at 1; apply skipn_app_exact).
    rewrite <- LU. apply skipn_app_exact.
Qed.

(* the chunk loop yields the records of ALL chunks in file order, for every chunking *)
Theorem chunks3_enc cs : forall c tail fuel,
  chunk_ok c -> Forall chunk_ok cs -> leqb (firstn 8 tail) MORE_EVENTS = false -> (length cs < fuel)%nat ->
  chunks3 fuel (enc_chunks c cs ++ tail)
  = (map decode (concat (map c_recs (c :: cs))), Ok (length (firstn 8 tail), skipn 8 tail)).
Proof.
  induction cs as [|c' cs IH]; intros c tail fuel Hc Hcs NM Hf; (destruct fuel as [|f]; [cbn in Hf; lia|]).
  - cbn [enc_chunks chunks3 map concat]. rewrite app_nil_r.
    destruct (chunk_body c tail Hc) as (r1 & -> & L8 & SZ & SK). rewrite L8, SZ, SK.
    destruct Hc as (_ & _ & FR & _).
    rewrite recs3_concat by (auto; apply concat_length_ge; auto). rewrite NM. reflexivity.
  - cbn [enc_chunks chunks3]. inversion Hcs as [|? ? Hc' Hcs']; subst.
    rewrite <- !app_assoc.
    destruct (chunk_body c (MORE_EVENTS ++ enc_chunks c' cs ++ tail) Hc) as (r1 & -> & L8 & SZ & SK). rewrite L8, SZ, SK.
    pose proof Hc as (_ & _ & FR & _).
    rewrite recs3_concat by (auto; apply concat_length_ge; auto).
    replace (firstn 8 (MORE_EVENTS ++ enc_chunks c' cs ++ tail)) with MORE_EVENTS by reflexivity.
    rewrite leqb_refl.
    replace (skipn 8 (MORE_EVENTS ++ enc_chunks c' cs ++ tail)) with (enc_chunks c' cs ++ tail) by reflexivity.
    rewrite IH by (auto; cbn in Hf; lia).
    cbn [map concat]. rewrite !map_app. reflexivity.
Qed.

(* ---------------- tagged blocks ---------------- *)
Definition block_ok (b : list N * list N) : Prop := length (fst b) = 8%nat /\ lenN (snd b) < 2 ^ 64.
Definition enc_block (padded : bool) (b : list N * list N) : list N :=
  fst b ++ enc 8 (lenN (snd b)) ++ snd b ++ (if padded then zeros (pad8 (8 + lenN (snd b))) else []).

(* every block padded to 8, except possibly the last *)
Fixpoint enc_blocks (last_padded : bool) (bs : list (list N * list N)) : list N :=
  match bs with
  | [] => []
  | [b] => enc_block last_padded b
  | b :: r => enc_block true b ++ enc_blocks last_padded r
  end.

Lemma block_step f b padded rest : block_ok b ->
  (padded = true \/ (rest = [] /\ padded = false)) ->
  blocks3 (S f) (enc_block padded b ++ rest) = b :: blocks3 f (if padded then rest else []).
Proof.
  intros [L8 LP] HP. destruct b as [tag pl]. cbn [fst snd] in *. unfold enc_block. cbn [fst snd blocks3].
  rewrite <- !app_assoc.
  replace (length (tag ++ enc 8 (lenN pl) ++ pl ++ (if padded then zeros (pad8 (8 + lenN pl)) else []) ++ rest) <? 8)%nat
    with false by (symmetry; apply Nat.ltb_ge; rewrite app_length; lia).
  replace (skipn 8 (tag ++ enc 8 (lenN pl) ++ pl ++ (if padded then zeros (pad8 (8 + lenN pl)) else []) ++ rest))
    with (enc 8 (lenN pl) ++ pl ++ (if padded then zeros (pad8 (8 + lenN pl)) else []) ++ rest)
    by (symmetry; rewrite <- L8; apply skipn_app_exact).
  replace (firstn 8 (tag ++ enc 8 (lenN pl) ++ pl ++ (if padded then zeros (pad8 (8 + lenN pl)) else []) ++ rest))
    with tag by (symmetry; rewrite <- L8; apply firstn_app_exact).
  rewrite prefixed_enc by exact LP.
  destruct HP as [->|[-> ->]].
  - replace (length (zeros (pad8 (8 + lenN pl)) ++ rest) <? pad8 (8 + lenN pl))%nat with false
      by (symmetry; apply Nat.ltb_ge; rewrite app_length; unfold zeros; rewrite repeat_length; lia).
    replace (skipn (pad8 (8 + lenN pl)) (zeros (pad8 (8 + lenN pl)) ++ rest)) with rest; [reflexivity|].
    symmetry. replace (pad8 (8 + lenN pl)) with (length (zeros (pad8 (8 + lenN pl)))) at 1
      by (unfold zeros; apply repeat_length). apply skipn_app_exact.
  - cbn [app]. destruct (length (@nil N) <? pad8 (8 + lenN pl))%nat; [reflexivity|]. now rewrite skipn_nil.
Qed.

Theorem blocks3_enc bs : forall last_padded fuel, Forall block_ok bs -> (length bs < fuel)%nat ->
  blocks3 fuel (enc_blocks last_padded bs) = bs.
Proof.
  induction bs as [|b bs IH]; intros lp fuel F Hf; (destruct fuel as [|f]; [cbn in Hf; lia|]).
  - reflexivity.
  - inversion F as [|? ? Hb F']; subst. destruct bs as [|b2 bs].
    + cbn [enc_blocks]. rewrite <- (app_nil_r (enc_block lp b)).
      rewrite block_step; auto; [|destruct lp; auto].
      f_equal. destruct f; destruct lp; reflexivity.
    + cbn [enc_blocks]. fold (enc_blocks lp (b2 :: bs)). rewrite block_step by auto.
      f_equal. apply IH; auto. cbn in *; lia.
Qed.

(* ---------------- the whole file (after the 4 magic bytes) ---------------- *)
Section Whole.
  Variable plist_ok : list N -> bool.

  Lemma header_v3_enc hdr60 pl rest : length hdr60 = 60%nat -> lenN pl < 2 ^ 64 -> plist_ok pl = true ->
    header_v3 plist_ok (hdr60 ++ enc 8 (lenN pl) ++ pl ++ zeros (pad8 (68 + lenN pl)) ++ rest) = Ok rest.
  Proof.
    intros L60 LP OK. unfold header_v3.
    replace (length (hdr60 ++ enc 8 (lenN pl) ++ pl ++ zeros (pad8 (68 + lenN pl)) ++ rest) <? 60)%nat with false
      by (symmetry; apply Nat.ltb_ge; rewrite app_length; lia).
    replace (skipn 60 (hdr60 ++ enc 8 (lenN pl) ++ pl ++ zeros (pad8 (68 + lenN pl)) ++ rest))
      with (enc 8 (lenN pl) ++ pl ++ zeros (pad8 (68 + lenN pl)) ++ rest)
      by (symmetry; rewrite <- L60; apply skipn_app_exact).
    rewrite prefixed_enc by exact LP. rewrite OK.
    replace (length (zeros (pad8 (68 + lenN pl)) ++ rest) <? pad8 (68 + lenN pl))%nat with false
      by (symmetry; apply Nat.ltb_ge; rewrite app_length; unfold zeros; rewrite repeat_length; lia).
    f_equal. replace (pad8 (68 + lenN pl)) with (length (zeros (pad8 (68 + lenN pl)))) at 1
      by (unfold zeros; apply repeat_length). apply skipn_app_exact.
  Qed.

  Definition enc_v3_body (hdr60 pl skip4 filler junk : list N) (threads : list tment) (trailing : list N)
             (c : chunk) (cs : list chunk) (last_padded : bool) (blocks : list (list N * list N)) : list N :=
    hdr60 ++ enc 8 (lenN pl) ++ pl ++ zeros (pad8 (68 + lenN pl)) ++ skip4
    ++ filler ++ STACKSHOT_END ++ junk ++ THREADMAP_TAG
    ++ enc 8 (lenN (flat_map enc_tm threads ++ trailing)) ++ (flat_map enc_tm threads ++ trailing)
    ++ enc_chunks c cs ++ enc_blocks last_padded blocks.

  Lemma enc_blocks_length lp bs : Forall block_ok bs -> bs <> [] -> (16 <= length (enc_blocks lp bs))%nat.
  Proof.
    intros F NE. destruct bs as [|b bs]; [congruence|]. inversion F as [|? ? [L8 _] _]; subst.
    destruct bs; cbn [enc_blocks]; unfold enc_block; rewrite !app_length, enc_length; lia.
  Qed.

  Theorem parse_v3_enc hdr60 pl skip4 filler junk threads trailing c cs lp blocks :
    length hdr60 = 60%nat -> lenN pl < 2 ^ 64 -> plist_ok pl = true -> length skip4 = 4%nat ->
    first_at_end STACKSHOT_END filler -> first_at_end THREADMAP_TAG junk ->
    Forall tm_ok threads -> (forall x r, tm_entry trailing <> Ok (x, r)) ->
    lenN (flat_map enc_tm threads ++ trailing) < 2 ^ 64 ->
    chunk_ok c -> Forall chunk_ok cs ->
    Forall block_ok blocks -> leqb (firstn 8 (enc_blocks lp blocks)) MORE_EVENTS = false ->
    parse_v3 plist_ok (enc_v3_body hdr60 pl skip4 filler junk threads trailing c cs lp blocks)
    = mkPout (Some threads) (map decode (concat (map c_recs (c :: cs)))) (Some blocks) None.
  Proof.
    intros L60 LP OK L4 F1 F2 FT NT LT Hc Hcs FB NM.
    set (tail := enc_blocks lp blocks) in *.
    set (file := enc_v3_body hdr60 pl skip4 filler junk threads trailing c cs lp blocks).
    unfold parse_v3. fold file. unfold file at 1. unfold enc_v3_body. fold tail.
    rewrite header_v3_enc by auto.
    replace (skipn 4 (skip4 ++ filler ++ STACKSHOT_END ++ junk ++ THREADMAP_TAG ++
                      enc 8 (lenN (flat_map enc_tm threads ++ trailing)) ++ (flat_map enc_tm threads ++ trailing) ++
                      enc_chunks c cs ++ tail))
      with (filler ++ STACKSHOT_END ++ junk ++ THREADMAP_TAG ++
            enc 8 (lenN (flat_map enc_tm threads ++ trailing)) ++ (flat_map enc_tm threads ++ trailing) ++
            enc_chunks c cs ++ tail) by (symmetry; rewrite <- L4; apply skipn_app_exact).
    rewrite seek_until_first by (auto; discriminate).
    rewrite seek_until_first by (auto; discriminate).
    rewrite prefixed_enc by exact LT.
    rewrite tm_greedy_enc; auto.
    2:{ rewrite app_length, flat_enc_tm_length by auto. lia. }
    rewrite chunks3_enc; auto.
    2:{ pose proof (chunk_ok c) as _. clear. induction cs as [|c' cs IH] in c |- *; cbn [enc_chunks length].
        - rewrite app_length. unfold enc_chunk. rewrite !app_length. cbn [EVENTS_TAG tag8 length]. lia.
        - rewrite !app_length in *. specialize (IH c'). rewrite app_length in IH. cbn [MORE_EVENTS tag8 length]. lia. }
    (* the seek(-8, 1) lands at the start of the tagged blocks *)
    assert (R6 : blocks3 (S (length (skipn (length file - length (skipn 8 tail) - 8) file)))
                         (skipn (length file - length (skipn 8 tail) - 8) file) = blocks).
    { destruct blocks as [|b0 bs0].
      - subst tail. cbn [enc_blocks skipn length].
        assert (LF : (8 <= length file)%nat).
        { unfold file, enc_v3_body. rewrite app_length. lia. }
        set (r6 := skipn (length file - 0 - 8) file).
        assert (L6 : length r6 = 8%nat) by (unfold r6; rewrite skipn_length; lia).
        rewrite L6. cbn [blocks3]. rewrite L6.
        replace (8 <? 8)%nat with false by reflexivity.
        replace (skipn 8 r6) with (@nil N) by (symmetry; apply skipn_all2; rewrite L6; apply le_n).
        reflexivity.
      - assert (LT16 : (16 <= length tail)%nat) by (apply enc_blocks_length; auto; discriminate).
        assert (FS : exists A, file = A ++ tail /\ length A = (length file - length (skipn 8 tail) - 8)%nat).
        { unfold file, enc_v3_body. fold tail.
          exists (hdr60 ++ enc 8 (lenN pl) ++ pl ++ zeros (pad8 (68 + lenN pl)) ++ skip4 ++ filler ++ STACKSHOT_END ++ junk
                  ++ THREADMAP_TAG ++ enc 8 (lenN (flat_map enc_tm threads ++ trailing))
                  ++ (flat_map enc_tm threads ++ trailing) ++ enc_chunks c cs).
          split; [rewrite <- !app_assoc; reflexivity|]. rewrite skipn_length.
          repeat rewrite app_length. lia. }
        destruct FS as (A & EF & LA). rewrite <- LA. rewrite EF at 1 2. rewrite skipn_app_exact.
        apply blocks3_enc; auto. unfold tail.
        clear -FB.
        assert (G : forall bs, Forall block_ok bs -> (length bs <= length (enc_blocks lp bs))%nat).
        { induction bs as [|b bs IH]; intros F; [cbn; lia|]. inversion F as [|? ? [L8 _] F']; subst.
          destruct bs as [|b2 bs].
          - cbn [enc_blocks length]. unfold enc_block. rewrite !app_length. lia.
          - replace (enc_blocks lp (b :: b2 :: bs)) with (enc_block true b ++ enc_blocks lp (b2 :: bs)) by reflexivity.
            rewrite app_length. specialize (IH F'). unfold enc_block. rewrite !app_length. cbn [length] in *. lia. }
        specialize (G (b0 :: bs0) FB). lia. }
    rewrite R6. reflexivity.
  Qed.
End Whole.

(* DecoderDeps.v — what a token list READS (static), and the theorem that rendering depends on nothing else.
   One induction serves: C09 (parameter k reads START word k only; the call part reads nothing of the END record),
   C10 (the result part reads the END record only), C17 (twins differ by the no_cancel flag only), C18 (host tables),
   C05 (text is a function of the window). *)
From Coq Require Import String ZArith NArith List Bool Lia.
From Kd Require Import theories.Base theories.Printers theories.DecoderDSL.
Import ListNotations.
Open Scope N_scope.

Inductive res := RFirst (i : nat) | RLast (i : nat) | RTidF | RTidL | RData | RPaths | RGstr | RNoCancel | RHost.

Definition res_eqb (a b : res) : bool :=
  match a, b with
  | RFirst i, RFirst j => Nat.eqb i j | RLast i, RLast j => Nat.eqb i j
  | RTidF, RTidF | RTidL, RTidL | RData, RData | RPaths, RPaths | RGstr, RGstr | RNoCancel, RNoCancel | RHost, RHost => true
  | _, _ => false
  end.
Lemma res_eqb_eq a b : res_eqb a b = true <-> a = b.
Proof.
  destruct a, b; cbn; try (split; [discriminate|congruence]); try (split; auto; fail);
    rewrite Nat.eqb_eq; split; congruence.
Qed.
Definition mem_res (r : res) (l : list res) : bool := existsb (res_eqb r) l.
Definition incl_res (a b : list res) : bool := forallb (fun r => mem_res r b) a.

Lemma mem_res_In r l : mem_res r l = true <-> In r l.
Proof.
  unfold mem_res. rewrite existsb_exists. split.
  - intros (x & Hx & E). apply res_eqb_eq in E. now subst.
  - intros H. exists r. split; auto. now apply res_eqb_eq.
Qed.
Lemma incl_res_incl a b : incl_res a b = true <-> incl a b.
Proof.
  unfold incl_res. rewrite forallb_forall. split; intros H x Hx; specialize (H x Hx); now apply mem_res_In.
Qed.

(* ---------------- static reads ---------------- *)
Fixpoint uses_src (s : src) : list res :=
  match s with
  | W EFirst i => [RFirst i] | W ELast i => [RLast i]
  | SAnd s _ | SShr s _ => uses_src s
  | SConst _ => []
  | STid EFirst => [RTidF] | STid ELast => [RTidL]
  end.

Definition is_host_enum (e : string) : bool := String.prefix "host:" e.

Fixpoint uses_l (l : lsrc) : list res :=
  match l with
  | LAnyBit _ s | LAnyBitOrIfZero _ _ s | LAnyBitOrIfEmpty _ _ s | LOpenFlags _ _ _ s | LStatFlags _ s => uses_src s
  | LIfMember _ _ t a b => uses_l t ++ uses_l a ++ uses_l b
  | LNil => []
  end.
Fixpoint uses_c (c : cond) : list res :=
  match c with
  | CTrue | CFalse => []
  | CNoCancel => [RNoCancel]
  | CNonZero s | CEq s _ => uses_src s
  | CResultNonEmpty _ => [RLast 0%nat]
  | CListNonEmpty l | CMember _ _ l => uses_l l
  | CEqHost s _ => RHost :: uses_src s
  | CPathsMore _ | CPathNonEmpty _ => [RPaths]
  | CErrnoKnown s => RHost :: uses_src s
  | CNot c => uses_c c
  | CAnd a b => uses_c a ++ uses_c b
  end.

Fixpoint uses_tok (t : tok) : list res :=
  match t with
  | Lit _ => []
  | TDec s | THex s | TSDec _ s | TSHex _ s | TBool s | TBoolLower s | TChr s | TDictGetHex _ s => uses_src s
  | TEnumName e s | TSEnumName e _ s | TEnumNameOrDec e s => (if is_host_enum e then [RHost] else []) ++ uses_src s
  | TNames l _ => uses_l l
  | TPath _ | TVnodeId _ => [RPaths]
  | TGStr s => RGstr :: uses_src s
  | TErrnoName s => RHost :: uses_src s
  | TResult _ _ => [RLast 0%nat; RLast 1%nat; RHost]
  | TUuid _ => [RData]
  | TIf c a b =>
    uses_c c ++ (fix go (l : list tok) : list res := match l with [] => [] | x :: r => uses_tok x ++ go r end) a
             ++ (fix go (l : list tok) : list res := match l with [] => [] | x :: r => uses_tok x ++ go r end) b
  end.
Definition uses_toks (l : list tok) : list res := flat_map uses_tok l.

Lemma uses_if c a b : uses_tok (TIf c a b) = uses_c c ++ uses_toks a ++ uses_toks b.
Proof.
  cbn [uses_tok].
  assert (G : forall l, (fix go (l : list tok) : list res := match l with [] => [] | x :: r => uses_tok x ++ go r end) l
                        = uses_toks l).
  { induction l as [|x r IH]; cbn [uses_toks flat_map]; auto; try (now rewrite IH). }
  now rewrite !G.
Qed.

(* ---------------- agreement of two contexts on a set of resources ---------------- *)
Definition same_res (H H' : host) (X X' : rctx) (r : res) : Prop :=
  match r with
  | RFirst i => nth i (x_first X) 0 = nth i (x_first X') 0
  | RLast i => nth i (x_last X) 0 = nth i (x_last X') 0
  | RTidF => x_tid_first X = x_tid_first X'
  | RTidL => x_tid_last X = x_tid_last X'
  | RData => x_data_first X = x_data_first X'
  | RPaths => x_paths X = x_paths X'
  | RGstr => forall k, x_gstr X k = x_gstr X' k
  | RNoCancel => x_nocancel X = x_nocancel X'
  | RHost => (forall n, h_errno H n = h_errno H' n) /\ (forall e v, h_enum H e v = h_enum H' e v) /\
             (forall c, h_const H c = h_const H' c)
  end.
Definition agree (rs : list res) (H H' : host) (X X' : rctx) : Prop := forall r, In r rs -> same_res H H' X X' r.

Lemma agree_incl a b H H' X X' : incl a b -> agree b H H' X X' -> agree a H H' X X'.
Proof. intros I A r Hr. apply A, I, Hr. Qed.
Lemma agree_app_l a b H H' X X' : agree (a ++ b) H H' X X' -> agree a H H' X X'.
Proof. apply agree_incl. apply incl_appl, incl_refl. Qed.
Lemma agree_app_r a b H H' X X' : agree (a ++ b) H H' X X' -> agree b H H' X X'.
Proof. apply agree_incl. apply incl_appr, incl_refl. Qed.

(* ---------------- an induction principle for the nested token type ---------------- *)
Definition is_if (t : tok) : bool := match t with TIf _ _ _ => true | _ => false end.

Lemma tok_ind2 (P : tok -> Prop) :
  (forall t, is_if t = false -> P t) ->
  (forall c a b, Forall P a -> Forall P b -> P (TIf c a b)) ->
  forall t, P t.
Proof.
  intros Hb Hi. fix IH 1. intros t.
  destruct t; try (apply Hb; reflexivity).
  apply Hi.
  - revert a. fix IHa 1. intros [|x r]; constructor; [apply IH|apply IHa].
  - revert b. fix IHb 1. intros [|x r]; constructor; [apply IH|apply IHb].
Qed.

Section Agree.
  Variable enums : enum_tbl.
  Variables H H' : host.
  Variables X X' : rctx.

  Lemma sval_agree s : agree (uses_src s) H H' X X' -> sval X s = sval X' s.
  Proof.
    induction s as [e i|s IH m|s IH k|n|e]; cbn [uses_src sval]; intros A; auto.
    - destruct e; unfold wd; apply (A _ (or_introl eq_refl)).
    - now rewrite IH.
    - now rewrite IH.
    - destruct e; apply (A _ (or_introl eq_refl)).
  Qed.

  Lemma path_of_agree p : agree [RPaths] H H' X X' -> path_of X p = path_of X' p.
  Proof. intros A. unfold path_of, paths. now rewrite (A RPaths (or_introl eq_refl)). Qed.

  Lemma l_agree l : agree (uses_l l) H H' X X' -> lnames enums X l = lnames enums X' l.
  Proof.
    induction l as [e s|e d s|e d s|acc d rest s|mask s|e m t IHt a IHa b IHb|]; cbn [uses_l lnames]; intros A; auto;
      try (now rewrite (sval_agree s)).
    rewrite IHt by (eapply agree_app_l; eauto).
    rewrite IHa by (eapply agree_app_l, agree_app_r; eauto).
    rewrite IHb by (eapply agree_app_r, agree_app_r; eauto). reflexivity.
  Qed.

  Lemma c_agree c : agree (uses_c c) H H' X X' -> evalc enums H X c = evalc enums H' X' c.
  Proof.
    induction c as [| | |s|name|l|e m l|s n|s h|k|p|s|c IH|a IHa b IHb]; cbn [uses_c evalc]; intros A; auto.
    - apply (A _ (or_introl eq_refl)).
    - now rewrite (sval_agree s).
    - unfold result_nonempty, wd. now rewrite (A _ (or_introl eq_refl)).
    - now rewrite (l_agree l).
    - now rewrite (l_agree l).
    - now rewrite (sval_agree s).
    - rewrite (sval_agree s) by (intros r Hr; apply A; right; auto).
      destruct (A RHost (or_introl eq_refl)) as (_ & _ & Hc). now rewrite Hc.
    - unfold paths. now rewrite (A RPaths (or_introl eq_refl)).
    - now rewrite (path_of_agree p).
    - rewrite (sval_agree s) by (intros r Hr; apply A; right; auto).
      destruct (A RHost (or_introl eq_refl)) as (He & _ & _). now rewrite He.
    - now rewrite IH.
    - rewrite IHa by (eapply agree_app_l; eauto). rewrite IHb by (eapply agree_app_r; eauto). reflexivity.
  Qed.

  Lemma enum_name_agree e v : agree (if is_host_enum e then [RHost] else []) H H' X X' ->
    enum_name enums H e v = enum_name enums H' e v.
  Proof.
    unfold enum_name, is_host, is_host_enum. destruct (String.prefix "host:" e); auto.
    intros A. destruct (A RHost (or_introl eq_refl)) as (_ & He & _). apply He.
  Qed.

  Lemma render_result_agree name f : agree [RLast 0%nat; RLast 1%nat; RHost] H H' X X' ->
    render_result H X name f = render_result H' X' name f.
  Proof.
    intros A. unfold render_result, wd. cbv zeta.
    assert (E0 : nth 0 (x_last X) 0 = nth 0 (x_last X') 0) by (apply (A (RLast 0%nat)); left; auto).
    assert (E1 : nth 1 (x_last X) 0 = nth 1 (x_last X') 0) by (apply (A (RLast 1%nat)); right; left; auto).
    destruct (A RHost) as (He & _ & _); [right; right; left; auto|].
    rewrite E0, E1, He. reflexivity.
  Qed.

  (* rendering reads nothing but what `uses` lists *)
  Theorem render_tok_agree : forall t, agree (uses_tok t) H H' X X' -> render_tok enums H X t = render_tok enums H' X' t.
  Proof.
    apply (tok_ind2 (fun t => agree (uses_tok t) H H' X X' -> render_tok enums H X t = render_tok enums H' X' t)).
    - intros t NI A. destruct t; try discriminate; cbn [uses_tok render_tok] in *;
        try (rewrite (sval_agree s) by exact A; reflexivity); auto.
      + rewrite (sval_agree s) by (eapply agree_app_r; eauto).
        rewrite (enum_name_agree e) by (eapply agree_app_l; eauto). reflexivity.
      + rewrite (sval_agree s) by (eapply agree_app_r; eauto).
        rewrite (enum_name_agree e) by (eapply agree_app_l; eauto). reflexivity.
      + rewrite (sval_agree s) by (eapply agree_app_r; eauto).
        rewrite (enum_name_agree e) by (eapply agree_app_l; eauto). reflexivity.
      + now rewrite (l_agree l).
      + now rewrite (path_of_agree p).
      + now rewrite (path_of_agree p).
      + rewrite (sval_agree s) by (intros r Hr; apply A; right; auto).
        now rewrite (A RGstr (or_introl eq_refl)).
      + rewrite (sval_agree s) by (intros r Hr; apply A; right; auto).
        destruct (A RHost (or_introl eq_refl)) as (He & _ & _). now rewrite He.
      + now rewrite render_result_agree.
      + now rewrite (A RData (or_introl eq_refl)).
    - intros c a b Fa Fb A. rewrite uses_if in A. rewrite !render_if.
      rewrite (c_agree c) by (eapply agree_app_l; eauto).
      assert (G : forall l, Forall (fun t => agree (uses_tok t) H H' X X' ->
                                           render_tok enums H X t = render_tok enums H' X' t) l ->
                            agree (uses_toks l) H H' X X' -> render_toks enums H X l = render_toks enums H' X' l).
      { induction 1 as [|x r Hx _ IH]; intros Al; cbn [render_toks]; auto.
        cbn [uses_toks flat_map] in Al. rewrite Hx by (eapply agree_app_l; eauto).
        rewrite IH by (eapply agree_app_r; eauto). reflexivity. }
      destruct (evalc enums H' X' c).
      + apply G; auto. eapply agree_app_l, agree_app_r; eauto.
      + apply G; auto. eapply agree_app_r, agree_app_r; eauto.
  Qed.

  Theorem render_toks_agree l : agree (uses_toks l) H H' X X' -> render_toks enums H X l = render_toks enums H' X' l.
  Proof.
    induction l as [|x r IH]; intros A; cbn [render_toks]; auto.
    cbn [uses_toks flat_map] in A. rewrite render_tok_agree by (eapply agree_app_l; eauto).
    rewrite IH by (eapply agree_app_r; eauto). reflexivity.
  Qed.
End Agree.

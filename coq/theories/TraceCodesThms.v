(* TraceCodesThms.v — canonical id renderings parse back; a supplied table decides routing and decodability. *)
From Coq Require Import NArith List Bool Lia.
From Kd Require Import theories.Base theories.Printers theories.TraceCodes theories.Pairing theories.PairingProofs
  theories.PairingThms.
Import ListNotations.
Open Scope N_scope.

Lemma hexdig_hex_digit d : d < 16 -> hexdig (hex_digit d) = Some d.
Proof.
  intros H. unfold hex_digit, hexdig.
  destruct (d <? 10) eqn:E.
  - apply N.ltb_lt in E.
    replace ((48 <=? 48 + d) && (48 + d <=? 57)) with true
      by (symmetry; apply andb_true_iff; split; apply N.leb_le; lia).
    f_equal. lia.
  - apply N.ltb_ge in E.
    replace ((48 <=? 87 + d) && (87 + d <=? 57)) with false
      by (symmetry; apply andb_false_iff; right; apply N.leb_gt; lia).
    replace ((97 <=? 87 + d) && (87 + d <=? 102)) with true
      by (symmetry; apply andb_true_iff; split; apply N.leb_le; lia).
    f_equal. lia.
Qed.

Lemma hexnum_fold l : forall acc,
  Forall (fun c => exists d, d < 16 /\ c = hex_digit d) l ->
  hexnum acc l = Some (fold_left (fun a c => a * 16 + hex_undigit c) l acc).
Proof.
  induction l as [|c l IH]; intros acc H; cbn; auto.
  inversion H as [|? ? (d & Hd & ->) Hl]; subst.
  rewrite hexdig_hex_digit, hex_undigit_digit by auto. apply IH, Hl.
Qed.

Theorem hexnum_hexdigits n : hexnum 0 (hexdigits n) = Some n.
Proof.
  unfold hexdigits. rewrite hexnum_fold by (apply digits_all; lia). f_equal.
  apply (value_digits 16 hex_digit hex_undigit); [lia|]. intros; now apply hex_undigit_digit.
Qed.

Lemma hexdigit_not_x l : Forall (fun c => exists d, d < 16 /\ c = hex_digit d) l ->
  Forall (fun c => (c =? 120) || (c =? 88) = false) l.
Proof.
  intros H. eapply Forall_impl; [|exact H]. cbn. intros c (d & Hd & ->).
  unfold hex_digit. destruct (d <? 10) eqn:E; [apply N.ltb_lt in E|apply N.ltb_ge in E];
    apply orb_false_iff; split; apply N.eqb_neq; lia.
Qed.

(* id written bare, with 0x, with 0X: all read back as the id *)
Theorem parse_hex_bare n : parse_hex (hexdigits n) = Some n.
Proof.
  pose proof (hexnum_hexdigits n) as H. unfold parse_hex.
  pose proof (digits_all 16 hex_digit ltac:(lia) n) as A. fold (hexdigits n) in A.
  destruct (hexdigits n) as [|a [|x [|d r]]] eqn:E; auto.
  - exfalso. eapply (digits_nonempty 16 hex_digit n). exact E.
  - apply hexdigit_not_x in A. inversion A as [|? ? _ A']; subst. inversion A' as [|? ? Hx _]; subst.
    rewrite Hx, andb_false_r. exact H.
Qed.

Theorem parse_hex_0x n x : (x =? 120) || (x =? 88) = true -> parse_hex (48 :: x :: hexdigits n) = Some n.
Proof.
  intros X. unfold parse_hex.
  destruct (hexdigits n) as [|d r] eqn:E.
  - exfalso. eapply (digits_nonempty 16 hex_digit n). exact E.
  - rewrite X. cbn [N.eqb andb]. rewrite <- E. apply hexnum_hexdigits.
Qed.

(* ---------------- a supplied table is honoured ---------------- *)
Definition table := list (N * list N).
Definition mem_name (n : list N) (l : list (list N)) : bool := existsb (leqb n) l.

Section Tbl.
  Variable trace_names : list (list N).     (* keys of trace_handlers *)
  Variable handler_names : list (list N).   (* keys of the merged handlers dict *)
  Variable t : table.

  Definition dom_of (c : N) : bool :=
    match lookup_last c t with Some n => mem_name n trace_names | None => false end.
  Definition dec_of (c : N) : bool :=
    match lookup_last c t with Some n => mem_name n handler_names | None => false end.

  Lemma undecodable_silent dom dec hr e : dec (p_code e) = false -> spec_out dom dec hr e = None.
  Proof.
    intros D. unfold spec_out. destruct (p_q e); auto.
    - destruct (is_open hr (kof e)); auto. cbn. now rewrite D.
    - destruct (window dom hr (kof e)) as [w|] eqn:W; auto.
      destruct (window_head dom hr (kof e) w W) as (s & r & -> & K & _).
      cbn [app deliver]. injection K as _ K. now rewrite K, D.
    - cbn. now rewrite D.
  Qed.

  (* an id absent from the table is never decoded into a trace, whatever the history *)
  Theorem absent_never_decoded hr e : lookup_last (p_code e) t = None -> spec_out dom_of dec_of hr e = None.
  Proof. intros L. apply undecodable_silent. unfold dec_of. now rewrite L. Qed.
End Tbl.

(* routing and decodability of an event depend only on the NAME the table gives its id *)
Theorem renumbered_same tn hn t1 t2 c1 c2 :
  lookup_last c1 t1 = lookup_last c2 t2 ->
  dom_of tn t1 c1 = dom_of tn t2 c2 /\ dec_of hn t1 c1 = dec_of hn t2 c2.
Proof. unfold dom_of, dec_of. intros ->. split; reflexivity. Qed.

(* OsLogProofs.v — generic theorems about from_raw over an ARBITRARY chain / field list (instantiated on the
   generated tables in props/C16.v by boolean side conditions), and the trace-identifier bit layout. *)
From Coq Require Import String NArith ZArith List Bool Lia.
From Kd Require Import theories.Base theories.OsLogBase theories.OsLog.
Import ListNotations.
Open Scope N_scope.

Lemma dlookup_dset_same k v d : dlookup k (dset k v d) = Some v.
Proof.
  induction d as [|[k' v'] r IH]; cbn; [now rewrite String.eqb_refl|].
  destruct (String.eqb k' k) eqn:E; cbn; rewrite E; auto.
Qed.
Lemma dlookup_dset_other k k' v d : k' <> k -> dlookup k (dset k' v d) = dlookup k d.
Proof.
  intros N. induction d as [|[k2 v2] r IH]; cbn.
  - destruct (String.eqb k' k) eqn:E; auto. apply String.eqb_eq in E. contradiction.
  - destruct (String.eqb k2 k') eqn:E; cbn.
    + apply String.eqb_eq in E. subst k2. destruct (String.eqb k' k) eqn:E2; auto.
      apply String.eqb_eq in E2. contradiction.
    + destruct (String.eqb k2 k); auto.
Qed.
Lemma dhas_dset k k' v d : dhas k (dset k' v d) = String.eqb k' k || dhas k d.
Proof.
  unfold dhas. destruct (String.eqb k' k) eqn:E.
  - apply String.eqb_eq in E. subst. now rewrite dlookup_dset_same.
  - apply String.eqb_neq in E. rewrite dlookup_dset_other by auto. reflexivity.
Qed.

Section G.
  Variable strings : list (N * list N).
  Variable log_types namespaces pc_styles : list N.
  Variable type_enums flag_enums : list (N * (bool * list N)).
  Notation conv_ok := (apply_conv strings log_types namespaces pc_styles type_enums flag_enums).
  Notation run_m := (run_mandatory strings log_types namespaces pc_styles type_enums flag_enums).
  Notation run_o := (run_optional strings log_types namespaces pc_styles type_enums flag_enums).

  Definition kfield (e : string * string * conv) : string := snd (fst e).
  Definition kkey (e : string * string * conv) : string := fst (fst e).

  (* "in range": the value converts *)
  Definition convertible (c : conv) (v : pv) : Prop := exists x, conv_ok c v = OOk x.

  Definition mand_wf (ch : chain) (ev : dict) : Prop :=
    Forall (fun e => exists v, dlookup (kkey e) ev = Some v /\ convertible (snd e) v) ch.
  Definition opt_wf (ch : chain) (ev : dict) : Prop :=
    Forall (fun e => forall v, dlookup (kkey e) ev = Some v -> convertible (snd e) v) ch.

  Lemma run_m_ok ch ev : mand_wf ch ev -> forall acc, exists r, run_m ch ev acc = OOk r /\
    (forall f, dhas f r = existsb (fun e => String.eqb (kfield e) f) ch || dhas f acc).
  Proof.
    induction 1 as [|[[k f] c] ch (v & Hv & (x & Hx)) _ IH]; intros acc.
    - exists acc. split; auto.
    - cbn [run_mandatory]. unfold dget. cbn [kkey fst] in Hv. rewrite Hv. cbn [obind]. cbn [snd] in Hx. rewrite Hx. cbn [obind].
      destruct (IH (dset f x acc)) as (r & Hr & Hh). exists r. split; auto.
      intros g. rewrite Hh, dhas_dset. cbn [existsb kfield fst snd].
      destruct (String.eqb f g), (existsb _ ch); reflexivity.
  Qed.

  Lemma run_o_ok ch ev : opt_wf ch ev -> forall acc, exists r, run_o ch ev acc = OOk r /\
    (forall f, dhas f r = true -> existsb (fun e => String.eqb (kfield e) f) ch = true \/ dhas f acc = true) /\
    (forall f, dhas f acc = true -> dhas f r = true).
  Proof.
    induction 1 as [|[[k f] c] ch Hc _ IH]; intros acc.
    - exists acc. split; auto.
    - cbn [run_optional]. cbn [kkey fst snd] in Hc. destruct (dlookup k ev) as [v|] eqn:L.
      + destruct (Hc v eq_refl) as [x Hx]. rewrite Hx. cbn [obind].
        destruct (IH (dset f x acc)) as (r & Hr & H1 & H2). exists r. split; auto. split.
        * intros g Hg. cbn [existsb kfield fst snd]. destruct (H1 g Hg) as [H|H]; [left; rewrite H; apply orb_true_r|].
          rewrite dhas_dset in H. destruct (String.eqb f g); [left; reflexivity|right; exact H].
        * intros g Hg. apply H2. rewrite dhas_dset, Hg. apply orb_true_r.
      + destruct (IH acc) as (r & Hr & H1 & H2). exists r. split; auto. split; auto.
        intros g Hg. destruct (H1 g Hg) as [H|H]; [left|right; auto]. cbn [existsb]. rewrite H. apply orb_true_r.
  Qed.

  Definition declared (fields : list (string * option pv)) (f : string) : bool :=
    existsb (fun x => String.eqb (fst x) f) fields.

  Lemma construct_ok fields parsed :
    (forall f, dhas f parsed = true -> declared fields f = true) ->
    (forall x, In x fields -> snd x = None -> dhas (fst x) parsed = true) ->
    exists o, construct fields parsed = OOk o.
  Proof.
    intros H1 H2. unfold construct.
    assert (F : forallb (fun kv => existsb (fun f => String.eqb (fst f) (fst kv)) fields) parsed = true).
    { apply forallb_forall. intros [k v] Hk. cbn [fst]. apply (H1 k). unfold dhas.
      clear -Hk. induction parsed as [|[k' v'] r IH]; [destruct Hk|]. cbn.
      destruct (String.eqb k' k) eqn:E; auto. destruct Hk as [Hk|Hk]; [injection Hk as -> ->; now rewrite String.eqb_refl in E|auto]. }
    rewrite F. clear F H1.
    induction fields as [|[n d] fs IH]; [eexists; reflexivity|].
    cbn [omap fst snd]. destruct (dlookup n parsed) as [v|] eqn:L.
    - cbn [obind]. destruct IH as [o Ho]; [intros; apply H2; auto; right; auto|]. rewrite Ho. cbn. eauto.
    - destruct d as [d|].
      + cbn [obind]. destruct IH as [o Ho]; [intros; apply H2; auto; right; auto|]. rewrite Ho. cbn. eauto.
      + exfalso. specialize (H2 (n, None) (or_introl eq_refl) eq_refl). unfold dhas in H2. cbn in H2. now rewrite L in H2.
  Qed.

  (* TOTALITY: the two side conditions are boolean facts about the tables (discharged by vm_compute on the
     generated ones); the conclusion holds for EVERY record with the mandatory keys and ANY subset of the optional
     keys, in range *)
  Theorem from_raw_total fields mand opt ev :
    forallb (fun e => declared fields (kfield e)) (mand ++ opt) = true ->
    forallb (fun x => match snd x with Some _ => true | None => existsb (fun e => String.eqb (kfield e) (fst x)) mand end)
            fields = true ->
    mand_wf mand ev -> opt_wf opt ev ->
    exists o, from_raw strings log_types namespaces pc_styles type_enums flag_enums fields mand opt ev = OOk o.
  Proof.
    intros S1 S2 Wm Wo. unfold from_raw.
    destruct (run_m_ok mand ev Wm []) as (a & -> & Ha). cbn [obind].
    destruct (run_o_ok opt ev Wo a) as (b & -> & Hb1 & Hb2). cbn [obind].
    rewrite forallb_app in S1. apply andb_true_iff in S1. destruct S1 as [Sm So].
    apply construct_ok.
    - intros f Hf. destruct (Hb1 f Hf) as [H|H].
      + apply existsb_exists in H. destruct H as (e & He & Ee). apply String.eqb_eq in Ee. subst f.
        rewrite forallb_forall in So. now apply So.
      + rewrite Ha in H. cbn in H. rewrite orb_false_r in H.
        apply existsb_exists in H. destruct H as (e & He & Ee). apply String.eqb_eq in Ee. subst f.
        rewrite forallb_forall in Sm. now apply Sm.
    - intros x Hx Hd. apply Hb2. rewrite Ha. rewrite forallb_forall in S2. specialize (S2 x Hx). rewrite Hd in S2.
      rewrite S2. reflexivity.
  Qed.

  (* FIELDS: what each field of the object holds *)
  Fixpoint entry_for (f : string) (ch : chain) : option (string * conv) :=
    match ch with [] => None | (k, f', c) :: r => if String.eqb f' f then Some (k, c) else entry_for f r end.

  Lemma run_o_lookup ch ev : NoDup (map kfield ch) -> forall acc r, run_o ch ev acc = OOk r ->
    forall q, dlookup q r =
      match entry_for q ch with
      | Some (k, c) => match dlookup k ev with
                       | Some v => match conv_ok c v with OOk x => Some x | OErr _ => None end
                       | None => dlookup q acc end
      | None => dlookup q acc
      end.
  Proof.
    induction ch as [|[[k g] c] ch IH]; intros ND acc r H q; cbn [run_optional entry_for] in *.
    - injection H as <-. reflexivity.
    - cbn [map kfield fst snd] in ND. apply NoDup_cons_iff in ND. destruct ND as [Hn ND'].
      assert (NF : forall g', String.eqb g g' = true -> entry_for g' ch = None).
      { intros g' E. apply String.eqb_eq in E. subst g'. clear -Hn. induction ch as [|[[k2 g2] c2] ch IH]; auto.
        cbn [entry_for]. destruct (String.eqb g2 g) eqn:E; [apply String.eqb_eq in E; subst; exfalso; apply Hn; left; auto|].
        apply IH. intros X. apply Hn. right; auto. }
      destruct (dlookup k ev) as [v|] eqn:L.
      + destruct (conv_ok c v) as [x|e] eqn:C; [|discriminate]. cbn [obind] in H.
        rewrite (IH ND' _ _ H q). destruct (String.eqb g q) eqn:E.
        * rewrite (NF q E). apply String.eqb_eq in E. subst. rewrite L, C. apply dlookup_dset_same.
        * apply String.eqb_neq in E. destruct (entry_for q ch) as [[k2 c2]|]; [destruct (dlookup k2 ev)|];
            auto; now rewrite dlookup_dset_other.
      + rewrite (IH ND' _ _ H q). destruct (String.eqb g q) eqn:E; auto. rewrite (NF q E), L. reflexivity.
  Qed.

  Lemma run_m_lookup ch ev : NoDup (map kfield ch) -> forall acc r, run_m ch ev acc = OOk r ->
    forall q, dlookup q r =
      match entry_for q ch with
      | Some (k, c) => match dlookup k ev with
                       | Some v => match conv_ok c v with OOk x => Some x | OErr _ => None end
                       | None => None end
      | None => dlookup q acc
      end.
  Proof.
    induction ch as [|[[k g] c] ch IH]; intros ND acc r H q; cbn [run_mandatory entry_for] in *.
    - injection H as <-. reflexivity.
    - cbn [map kfield fst snd] in ND. apply NoDup_cons_iff in ND. destruct ND as [Hn ND'].
      assert (NF : forall g', String.eqb g g' = true -> entry_for g' ch = None).
      { intros g' E. apply String.eqb_eq in E. subst g'. clear -Hn. induction ch as [|[[k2 g2] c2] ch IH]; auto.
        cbn [entry_for]. destruct (String.eqb g2 g) eqn:E; [apply String.eqb_eq in E; subst; exfalso; apply Hn; left; auto|].
        apply IH. intros X. apply Hn. right; auto. }
      unfold dget in H. destruct (dlookup k ev) as [v|] eqn:L; [|discriminate]. cbn [obind] in H.
      destruct (conv_ok c v) as [x|e] eqn:C; [|discriminate]. cbn [obind] in H.
      rewrite (IH ND' _ _ H q). destruct (String.eqb g q) eqn:E.
      + rewrite (NF q E). apply String.eqb_eq in E. subst. rewrite L, C. apply dlookup_dset_same.
      + apply String.eqb_neq in E. destruct (entry_for q ch) as [[k2 c2]|]; auto. now rewrite dlookup_dset_other.
  Qed.

  Lemma construct_lookup fields parsed o : NoDup (map fst fields) -> construct fields parsed = OOk o ->
    forall n d, In (n, d) fields ->
    dlookup n o = match dlookup n parsed with Some v => Some v | None => d end.
  Proof.
    unfold construct. destruct (forallb _ parsed); [|discriminate].
    revert o. induction fields as [|[m dm] fs IH]; intros o ND H n d I; [destruct I|].
    cbn [omap fst snd] in H. cbn [map fst] in ND. inversion ND as [|? ? Hn ND']; subst.
    destruct (match dlookup m parsed with Some v => OOk (m, v) | None => match dm with Some d0 => OOk (m, d0) | None => OErr OTypeError end end)
      as [p|] eqn:P; [|discriminate]. cbn [obind] in H.
    destruct (omap _ fs) as [ys|] eqn:Y; [|discriminate]. cbn [obind] in H. injection H as <-.
    destruct I as [I|I].
    - injection I as -> ->. cbn [dlookup].
      destruct (dlookup n parsed) as [v|]; [injection P as <-; cbn; now rewrite String.eqb_refl|].
      destruct d as [d|]; [injection P as <-; cbn; now rewrite String.eqb_refl|discriminate].
    - assert (m <> n). { intros ->. apply Hn. apply (in_map fst) in I. exact I. }
      assert (fst p = m). { destruct (dlookup m parsed); [injection P as <-; auto|destruct dm; [injection P as <-; auto|discriminate]]. }
      destruct p as [pk pv0]. cbn [fst] in H0. subst pk. cbn [dlookup].
      replace (String.eqb m n) with false by (symmetry; now apply String.eqb_neq).
      apply (IH ys ND' eq_refl n d I).
  Qed.
  Lemma NoDup_app_l {A} (a b : list A) : NoDup (a ++ b) -> NoDup a.
  Proof. induction a as [|x a IH]; cbn; intros H; [constructor|]. inversion H; subst. constructor; auto.
    intros I. apply H2. apply in_or_app. left; auto. Qed.
  Lemma NoDup_app_r {A} (a b : list A) : NoDup (a ++ b) -> NoDup b.
  Proof. induction a as [|x a IH]; cbn; intros H; auto. inversion H; auto. Qed.

  Lemma entry_for_none_iff f ch : entry_for f ch = None <-> ~ In f (map kfield ch).
  Proof.
    induction ch as [|[[k g] c] ch IH]; cbn [entry_for map kfield fst snd]; [tauto|].
    destruct (String.eqb g f) eqn:E.
    - apply String.eqb_eq in E. subst. split; [discriminate|]. intros H. exfalso. apply H. left; auto.
    - apply String.eqb_neq in E. rewrite IH. cbn. tauto.
  Qed.

  (* what every declared field of the decoded object holds *)
  Theorem from_raw_fields fields mand opt ev o :
    NoDup (map kfield (mand ++ opt)) -> NoDup (map fst fields) ->
    from_raw strings log_types namespaces pc_styles type_enums flag_enums fields mand opt ev = OOk o ->
    forall n d, In (n, d) fields ->
    dlookup n o =
      match entry_for n opt with
      | Some (k, c) =>                                     (* optional key *)
        match dlookup k ev with
        | Some v => match conv_ok c v with OOk x => Some x | OErr _ => d end    (* present: its converted value *)
        | None => d                                                               (* absent: the declared default *)
        end
      | None =>
        match entry_for n mand with
        | Some (k, c) => match dlookup k ev with
                         | Some v => match conv_ok c v with OOk x => Some x | OErr _ => d end
                         | None => d end
        | None => d
        end
      end.
  Proof.
    intros ND NF H n d I. unfold from_raw in H.
    rewrite map_app in ND. pose proof (NoDup_app_r _ _ ND) as NDo. pose proof (NoDup_app_l _ _ ND) as NDm.
    destruct (run_m mand ev []) as [a|] eqn:A; [|discriminate]. cbn [obind] in H.
    destruct (run_o opt ev a) as [b|] eqn:B; [|discriminate]. cbn [obind] in H.
    rewrite (construct_lookup fields b o NF H n d I).
    rewrite (run_o_lookup opt ev NDo a b B n), (run_m_lookup mand ev NDm [] a A n).
    destruct (entry_for n opt) as [[k c]|] eqn:Eo.
    - assert (Em : entry_for n mand = None).
      { apply entry_for_none_iff. intros Hin.
        assert (Hio : In n (map kfield opt)).
        { destruct (in_dec string_dec n (map kfield opt)); auto. apply entry_for_none_iff in n0. congruence. }
        clear -ND Hin Hio. induction (map kfield mand) as [|x l IH]; [destruct Hin|].
        cbn in ND. inversion ND; subst. destruct Hin as [->|Hin]; auto.
        apply H1. apply in_or_app. right; auto. }
      rewrite Em. destruct (dlookup k ev) as [v|]; [destruct (conv_ok c v); reflexivity|]. cbn. reflexivity.
    - destruct (entry_for n mand) as [[k c]|]; [destruct (dlookup k ev) as [v|]; [destruct (conv_ok c v)|]|]; reflexivity.
  Qed.
End G.

(* ---------------- the trace-identifier word ---------------- *)
Ltac Zify.zify_post_hook ::= Z.to_euclidean_division_equations.
Definition pack_tid (ns ty lo up pc aid fl code : N) : N :=
  ns + 2 ^ 8 * ty + 2 ^ 16 * (32 * lo + 16 * up + 2 * pc + aid) + 2 ^ 24 * fl + 2 ^ 32 * code.

Lemma unpack_pack ns ty lo up pc aid fl code :
  ns < 256 -> ty < 256 -> lo < 2 -> up < 2 -> pc < 8 -> aid < 2 -> fl < 256 -> code < 2 ^ 32 ->
  let w := pack_tid ns ty lo up pc aid fl code in
  let tf := (w / 2 ^ 16) mod 256 in
  w < 2 ^ 64 /\ w mod 256 = ns /\ (w / 2 ^ 8) mod 256 = ty /\ (tf / 32) mod 2 = lo /\ (tf / 16) mod 2 = up /\
  (tf / 2) mod 8 = pc /\ tf mod 2 = aid /\ (w / 2 ^ 24) mod 256 = fl /\ (w / 2 ^ 32) mod 2 ^ 32 = code.
Proof.
  intros H1 H2 H3 H4 H5 H6 H7 H8. cbv zeta. unfold pack_tid.
  assert (TF : ((ns + 2 ^ 8 * ty + 2 ^ 16 * (32 * lo + 16 * up + 2 * pc + aid) + 2 ^ 24 * fl + 2 ^ 32 * code) / 2 ^ 16) mod 256
               = 32 * lo + 16 * up + 2 * pc + aid).
  { change (2 ^ 8) with 256. change (2 ^ 16) with 65536. change (2 ^ 24) with 16777216. change (2 ^ 32) with 4294967296.
    lia. }
  rewrite TF.
  change (2 ^ 8) with 256. change (2 ^ 16) with 65536. change (2 ^ 24) with 16777216. change (2 ^ 32) with 4294967296.
  change (2 ^ 64) with 18446744073709551616.
  repeat split; lia.
Qed.

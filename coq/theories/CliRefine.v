(* CliRefine.v — what tools/translate/tr_cli.py reads off __main__.py (gen/GenCli.v): the counting loop of print_with_count is the
   model Cli.pwc; every command prints the listing, takes the options and assigns them to the parser settings that the
   command-line correspondence (tools/props/cli_common.py: every command against the API's lines for the settings its options
   name) is written for; the option defaults are the ones that correspondence assumes.  (C06, C12, C13, C14) *)
From Coq Require Import String ZArith List Bool Lia.
From Kd Require Import theories.Cli gen.GenCli.
Import ListNotations.
Open Scope Z_scope.

Section P.
  Context {A : Type}.
  (* i = init; for obj in generator: if i == count: break; print(obj); i += step *)
  Fixpoint pwc_p (step count i : Z) (l : list A) : list A :=
    match l with
    | [] => []
    | x :: r => if Z.eqb i count then [] else x :: pwc_p step count (i + step) r
    end.

  Lemma pwc_p_1 count l : forall i, pwc_p 1 count i l = pwc count i l.
  Proof. induction l as [|x r IH]; intros i; cbn [pwc_p pwc]; [reflexivity|]. now rewrite IH. Qed.

  Theorem pwc_code_refines count l : pwc_p gen_pwc_step count gen_pwc_init l = pwc count 0 l.
  Proof. unfold gen_pwc_step, gen_pwc_init. apply pwc_p_1. Qed.
End P.

Local Open Scope string_scope.

(* the contract of the command line: command -> (listing, parser setting := option) *)
Definition cli_contract : list (string * (string * list (string * string))) :=
  [("callstacks", ("formatted_callstacks", [("filter_process", "process"); ("filter_tid", "tid"); ("show_tid", "show_tid")]));
   ("images", ("json:images", []));
   ("kevents", ("formatted_kevents", [("filter_class", "class_filters"); ("filter_subclass", "subclass_filters"); ("filter_tid", "tid");
                                      ("show_tid", "show_tid")]));
   ("kexts", ("json:kernel_extensions", []));
   ("logs", ("formatted_logs", [("filter_process", "process"); ("filter_tid", "tid"); ("show_tid", "show_tid")]));
   ("processes", ("json:processes", []));
   ("traces", ("formatted_traces", [("color", "color"); ("filter_class", "class_filters"); ("filter_process", "process");
                                    ("filter_subclass", "subclass_filters"); ("filter_tid", "tid"); ("show_tid", "show_tid")]))].

(* list(x) of a tuple of ints is the same sequence *)
Definition unlist (s : string) : string :=
  if String.prefix "list:" s then String.substring 5 (String.length s - 5) s else s.
Definition norm_cmd (c : string * (string * list string * list (string * string))) : string * (string * list (string * string)) :=
  match c with (n, (m, _, sets)) => (n, (m, map (fun p => (fst p, unlist (snd p))) sets)) end.

Theorem commands_refine : map norm_cmd gen_commands = cli_contract.
Proof. reflexivity. Qed.

(* option defaults and types the correspondence relies on: no limit, no filter, thread column off, colour on; class / subclass
   filters repeatable and read by int(text, 0) *)
Definition option_contract : list (string * (string * string * bool)) :=
  [("class_filter", ("BASED_INT", "", true)); ("count", ("click.INT", "-1", false)); ("dump_input", ("click.File('rb')", "", false));
   ("inline:--color/--no-color", ("", "True", false)); ("process_filter", ("", "None", false));
   ("show_tid", ("", "False", false)); ("subclass_filter", ("BASED_INT", "", true)); ("tid_filter", ("click.INT", "None", false))].
Theorem options_refine :
  map (fun o => match o with (n, (_, t, d, m)) => (n, (t, d, m)) end) gen_options = option_contract.
Proof. reflexivity. Qed.

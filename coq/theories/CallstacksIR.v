(* CallstacksIR.v — the statements of pykdebugparser/callstacks_parser.py as a small instruction set over the TWO parallel
   lists the code keeps (dyld_addresses, dyld_uuids), with Python's list.insert, negative indexing and IndexError / NameError
   written out; tools/translate/tr_callstacks.py emits the program the source contains (gen/GenCallstacks.v) and
   CallstacksRefine.v proves that this program computes the one-list model of Callstacks.v (C15). *)
From Coq Require Import NArith ZArith List Bool Lia.
From Kd Require Import theories.Base theories.Callstacks.
Import ListNotations.
Open Scope N_scope.

Section IR.
  Variable U : Type.

  Record cst := { addrs : list N; uuids : list U }.

  (* ---- insert_image(address, uuid) ---- *)
  Inductive istmt :=
  | IReturnIfPresent      (* if address in self.dyld_addresses: return *)
  | IBisect               (* index_ = bisect(self.dyld_addresses, address) *)
  | IInsertAddr           (* self.dyld_addresses.insert(index_, address) *)
  | IInsertUuid.          (* self.dyld_uuids.insert(index_, uuid) *)

  (* list.insert(i, x) for i >= 0: before position i, at the end when i >= len *)
  Definition py_insert {A} (i : nat) (x : A) (l : list A) : list A := firstn i l ++ x :: skipn i l.

  (* None = the statement list reads index_ before assigning it (NameError) *)
  Fixpoint iexec (p : list istmt) (a : N) (u : U) (idx : option nat) (s : cst) : option cst :=
    match p with
    | [] => Some s
    | IReturnIfPresent :: r => if existsb (N.eqb a) (addrs s) then Some s else iexec r a u idx s
    | IBisect :: r => iexec r a u (Some (bisect (addrs s) a)) s
    | IInsertAddr :: r =>
        match idx with
        | Some i => iexec r a u idx {| addrs := py_insert i a (addrs s); uuids := uuids s |}
        | None => None
        end
    | IInsertUuid :: r =>
        match idx with
        | Some i => iexec r a u idx {| addrs := addrs s; uuids := py_insert i u (uuids s) |}
        | None => None
        end
    end.

  (* ---- the attribution of one frame ----
       index_ = bisect(self.dyld_addresses, frame) + off
       if index_ > thr   (or >= thr):   Frame(frame, self.dyld_uuids[index_], frame - self.dyld_addresses[index_])
       else:                             Frame(frame, None, None)                                               *)
  Record attr_code := { a_off : Z; a_ge : bool; a_thr : Z }.

  (* l[i] of Python: negative i counts from the end; None = IndexError *)
  Definition py_nth {A} (l : list A) (i : Z) : option A :=
    let n := Z.of_nat (length l) in
    if (i <? 0)%Z then (if (0 <=? n + i)%Z then nth_error l (Z.to_nat (n + i)) else None)
    else nth_error l (Z.to_nat i).

  Definition frameZ := (N * option (U * Z))%type.

  Definition attr_exec (c : attr_code) (s : cst) (x : N) : option frameZ :=
    let i := (Z.of_nat (bisect (addrs s) x) + a_off c)%Z in
    if (if a_ge c then (a_thr c <=? i)%Z else (a_thr c <? i)%Z)
    then match py_nth (uuids s) i, py_nth (addrs s) i with
         | Some u, Some a => Some (x, Some (u, (Z.of_N x - Z.of_N a)%Z))
         | _, _ => None
         end
    else Some (x, None).

  Fixpoint attr_all (c : attr_code) (s : cst) (xs : list N) : option (list frameZ) :=
    match xs with
    | [] => Some []
    | x :: r => match attr_exec c s x, attr_all c s r with
                | Some f, Some fs => Some (f :: fs)
                | _, _ => None
                end
    end.

  (* ---- feed_generator: the if / elif chain over the kind of the trace ---- *)
  Inductive fbranch :=
  | BPerfFrames      (* isinstance(trace, PerfEvent) and trace.cs_frames is not None: attribute every frame, yield *)
  | BMapA            (* isinstance(trace, DyldUuidMapA): insert_image(trace.load_addr, trace.uuid) *)
  | BLaunch.         (* isinstance(trace, DyldLaunchExecutable): insert_image for every image of uuid_map_a, in order *)

  Definition callstackZ := (N * N * list frameZ)%type.

  Fixpoint insert_images (ins : list istmt) (imgs : list (N * U)) (s : cst) : option cst :=
    match imgs with
    | [] => Some s
    | (a, u) :: r => match iexec ins a u None s with Some s' => insert_images ins r s' | None => None end
    end.

  (* what the first matching branch does with one trace: new lists and, possibly, a yielded callstack *)
  Fixpoint branch_step (br : list fbranch) (ins : list istmt) (ac : attr_code) (s : cst) (tr : trace U)
    : option (cst * option callstackZ) :=
    match br with
    | [] => Some (s, None)
    | BPerfFrames :: r =>
        match tr with
        | TPerf _ ts tid (Some fr) =>
            match attr_all ac s fr with Some fs => Some (s, Some (ts, tid, fs)) | None => None end
        | _ => branch_step r ins ac s tr
        end
    | BMapA :: r =>
        match tr with
        | TMapA _ a u => match iexec ins a u None s with Some s' => Some (s', None) | None => None end
        | _ => branch_step r ins ac s tr
        end
    | BLaunch :: r =>
        match tr with
        | TLaunch _ imgs => match insert_images ins imgs s with Some s' => Some (s', None) | None => None end
        | _ => branch_step r ins ac s tr
        end
    end.

  Fixpoint fexec (br : list fbranch) (ins : list istmt) (ac : attr_code) (s : cst) (trs : list (trace U))
    : option (list callstackZ) :=
    match trs with
    | [] => Some []
    | tr :: r =>
        match branch_step br ins ac s tr with
        | Some (s', out) =>
            match fexec br ins ac s' r with
            | Some cs => Some (match out with Some c => c :: cs | None => cs end)
            | None => None
            end
        | None => None
        end
    end.
End IR.

Arguments addrs {U}. Arguments uuids {U}.
Arguments iexec {U}. Arguments attr_exec {U}. Arguments attr_all {U}. Arguments insert_images {U}.
Arguments branch_step {U}. Arguments fexec {U}. Arguments py_insert {A}. Arguments py_nth {A}.

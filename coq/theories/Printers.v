(* Printers.v — Python's str(int), hex(int) and ctypes' c_int64/c_int32 views, as ASCII byte lists.
   Injectivity lemmas make "the parameter shown is argument k and no other" non-vacuous. *)
From Coq Require Import ZArith NArith Arith List Bool Lia.
From Kd Require Import theories.Base.
Import ListNotations.
Open Scope N_scope.

Definition str := list N.   (* a Python str / bytes, as code units < 256 (ASCII for everything printed here) *)

Section Radix.
  Variable base : N.
  Variable digit : N -> N.            (* digit value -> ASCII code *)
  Variable undigit : N -> N.
  Hypothesis base_ge2 : 2 <= base.
  Hypothesis undigit_digit : forall d, d < base -> undigit (digit d) = d.

  Fixpoint digits_aux (fuel : nat) (n : N) (acc : list N) : list N :=
    match fuel with
    | O => acc
    | S f => let acc' := digit (n mod base) :: acc in
             if N.eqb (n / base) 0 then acc' else digits_aux f (n / base) acc'
    end.
  Definition digits (n : N) : list N := digits_aux (S (N.to_nat (N.size n))) n [].

  Definition value (l : list N) : N := fold_left (fun a d => a * base + undigit d) l 0.

  Lemma digits_aux_app fuel : forall n acc, digits_aux fuel n acc = digits_aux fuel n [] ++ acc.
  Proof.
    induction fuel as [|f IH]; intros n acc; cbn [digits_aux]; auto.
    destruct (N.eqb (n / base) 0); auto.
    rewrite IH, (IH _ [digit (n mod base)]), <- app_assoc. reflexivity.
  Qed.

  Lemma value_snoc l d : value (l ++ [d]) = value l * base + undigit d.
  Proof. unfold value. rewrite fold_left_app. reflexivity. Qed.

  Lemma base_nz : base <> 0. Proof. lia. Qed.

  Lemma value_digits_aux fuel : forall n, n < 2 ^ N.of_nat fuel -> value (digits_aux fuel n []) = n.
  Proof.
    pose proof base_nz as NZ.
    induction fuel as [|f IH]; intros n Hn.
    - cbn in Hn. assert (n = 0) by lia. subst. reflexivity.
    - cbn [digits_aux]. rewrite Nat2N.inj_succ, N.pow_succ_r' in Hn.
      assert (Hm : n mod base < base) by (apply N.mod_lt; auto).
      destruct (N.eqb (n / base) 0) eqn:E.
      + apply N.eqb_eq in E. unfold value. cbn [fold_left]. rewrite undigit_digit by auto.
        rewrite (N.div_mod n base NZ) at 2. rewrite E. lia.
      + rewrite digits_aux_app, value_snoc, undigit_digit by auto.
        rewrite IH.
        * rewrite (N.div_mod n base NZ) at 3. lia.
        * apply N.div_lt_upper_bound; auto. nia.
  Qed.

  Lemma size_bound n : n < 2 ^ N.of_nat (S (N.to_nat (N.size n))).
  Proof.
    rewrite Nat2N.inj_succ, N2Nat.id, N.pow_succ_r'.
    destruct n as [|p]; [cbn; lia|].
    pose proof (N.size_gt (N.pos p)). lia.
  Qed.

  Theorem value_digits n : value (digits n) = n.
  Proof. apply value_digits_aux, size_bound. Qed.

  Theorem digits_inj a b : digits a = digits b -> a = b.
  Proof. intros H. rewrite <- (value_digits a), <- (value_digits b), H. reflexivity. Qed.

  Lemma digits_aux_all fuel : forall n acc,
    Forall (fun c => exists d, d < base /\ c = digit d) acc ->
    Forall (fun c => exists d, d < base /\ c = digit d) (digits_aux fuel n acc).
  Proof.
    pose proof base_nz as NZ.
    induction fuel as [|f IH]; intros n acc H; cbn [digits_aux]; auto.
    assert (F : Forall (fun c => exists d, d < base /\ c = digit d) (digit (n mod base) :: acc)).
    { constructor; auto. exists (n mod base). split; auto. apply N.mod_lt; auto. }
    destruct (N.eqb (n / base) 0); auto.
  Qed.

  Lemma digits_all n : Forall (fun c => exists d, d < base /\ c = digit d) (digits n).
  Proof. apply digits_aux_all. constructor. Qed.

  Lemma digits_nonempty n : digits n <> [].
  Proof.
    unfold digits. cbn [digits_aux]. destruct (N.eqb (n / base) 0); [discriminate|].
    rewrite digits_aux_app. intros H. apply app_eq_nil in H. destruct H; discriminate.
  Qed.
End Radix.

(* ---- decimal ---- *)
Definition dec_digit (d : N) : N := 48 + d.
Definition dec_undigit (c : N) : N := c - 48.
Definition dec (n : N) : str := digits 10 dec_digit n.

Theorem dec_inj a b : dec a = dec b -> a = b.
Proof.
  apply (digits_inj 10 dec_digit dec_undigit); [lia|].
  intros d _. unfold dec_digit, dec_undigit. lia.
Qed.

(* ---- hexadecimal, Python's hex(): "0x" + lowercase digits ---- *)
Definition hex_digit (d : N) : N := if d <? 10 then 48 + d else 87 + d.       (* 'a' = 97 *)
Definition hex_undigit (c : N) : N := if c <? 58 then c - 48 else c - 87.
Definition hexdigits (n : N) : str := digits 16 hex_digit n.
Definition hex (n : N) : str := [48; 120] ++ hexdigits n.                      (* "0x" *)

Lemma hex_undigit_digit d : d < 16 -> hex_undigit (hex_digit d) = d.
Proof.
  intros H. unfold hex_digit, hex_undigit.
  destruct (d <? 10) eqn:E.
  - apply N.ltb_lt in E. replace (48 + d <? 58) with true by (symmetry; apply N.ltb_lt; lia). lia.
  - apply N.ltb_ge in E. replace (87 + d <? 58) with false by (symmetry; apply N.ltb_ge; lia). lia.
Qed.

Theorem hex_inj a b : hex a = hex b -> a = b.
Proof.
  unfold hex. intros H. apply app_inv_head in H.
  apply (digits_inj 16 hex_digit hex_undigit) in H; auto; [lia|]. intros d Hd. now apply hex_undigit_digit.
Qed.

(* ---- signed views: ctypes.c_int64(x).value, c_int32(x).value ---- *)
Definition to_signed (bits : N) (x : N) : Z :=
  let m := x mod 2 ^ bits in
  if m <? 2 ^ (bits - 1) then Z.of_N m else (Z.of_N m - Z.of_N (2 ^ bits))%Z.

Definition decZ (z : Z) : str :=
  match z with
  | Zneg p => 45 :: dec (Npos p)                 (* '-' *)
  | _ => dec (Z.to_N z)
  end.

Lemma dec_aux_ge fuel : forall n acc, Forall (fun c => 48 <= c) acc ->
  Forall (fun c => 48 <= c) (digits_aux 10 dec_digit fuel n acc).
Proof.
  induction fuel as [|f IH]; intros n acc H; cbn [digits_aux]; auto.
  assert (F : Forall (fun c => 48 <= c) (dec_digit (n mod 10) :: acc)).
  { constructor; auto. unfold dec_digit. apply N.le_add_r. }
  destruct (N.eqb (n / 10) 0); auto.
Qed.

Lemma dec_no_minus n : hd 0 (dec n) <> 45.
Proof.
  pose proof (dec_aux_ge (S (N.to_nat (N.size n))) n [] (Forall_nil _)) as F.
  pose proof (digits_nonempty 10 dec_digit n) as NE.
  unfold dec. unfold digits in *. destruct (digits_aux 10 dec_digit (S (N.to_nat (N.size n))) n []) as [|c r].
  - congruence.
  - inversion F; subst. cbn [hd]. lia.
Qed.

Theorem decZ_inj a b : decZ a = decZ b -> a = b.
Proof.
  assert (K : forall n l, dec n <> 45 :: l).
  { intros n l H. pose proof (dec_no_minus n) as X. rewrite H in X. cbn in X. congruence. }
  destruct a as [|p|p], b as [|q|q]; cbn [decZ]; intros H; try reflexivity;
    try (apply dec_inj in H; lia);
    try (exfalso; eapply K; eauto; fail);
    try (exfalso; symmetry in H; eapply K; eauto; fail).
  injection H as H. apply dec_inj in H. lia.
Qed.

(* on 64-bit words the signed view is injective *)
Lemma to_signed_inj bits a b : 0 < bits -> a < 2 ^ bits -> b < 2 ^ bits ->
  to_signed bits a = to_signed bits b -> a = b.
Proof.
  intros Hb Ha Hb'. unfold to_signed. rewrite !N.mod_small by auto.
  assert (2 ^ bits = 2 * 2 ^ (bits - 1)).
  { rewrite <- N.pow_succ_r'. f_equal. lia. }
  destruct (a <? 2 ^ (bits - 1)) eqn:A, (b <? 2 ^ (bits - 1)) eqn:B;
    try apply N.ltb_lt in A; try apply N.ltb_ge in A; try apply N.ltb_lt in B; try apply N.ltb_ge in B; lia.
Qed.

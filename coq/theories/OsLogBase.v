(* OsLogBase.v — plist values and the conversion kinds of OsLogEvent.from_raw_log_event (shared with gen/GenOsLog.v). *)
From Coq Require Import String NArith List.
Import ListNotations.

Inductive pv :=
| PInt (n : N) | PStr (s : list N) | PBytes (b : list N) | PBool (b : bool) | PNone
| PList (l : list pv) | PDict (d : list (string * pv)).

Inductive conv := CId | CStr | CLogType | CTraceId | CTz | CLossCount | CBacktrace | CDecomposed | CUnixDate.

(* ChunksPairingWindow.v — through the pairing specification, after ANY history: whatever records (of any thread, code and
   qualifier, other than a START / END of the key itself) lie between the START and the END of a split text, the window
   delivered at the END holds, as its records of the text's own event id, exactly the START, the text's records in between and
   the END, in order; every other member is a same-thread record that occurred in between.  With ChunksWindow.v this closes
   "arbitrary unrelated same-thread records in between" end to end.  (C08) *)
From Coq Require Import NArith List Bool Lia.
From Kd Require Import theories.Pairing.
Import ListNotations.
Open Scope N_scope.

Section CPW.
  Variable dom : N -> bool.
  Variable dec : N -> bool.
  Variables (t c : N).
  Hypothesis decodable : dec c = true.

  Definition K : key := (t, c).
  Definition ownb (e : pev) : bool := keyb K (kof e).
  Definition quiet (x : pev) : bool := negb (isS K x) && negb (isE K x).

  Lemma own_sideT x : ownb x = true -> sideT dom K x = true.
  Proof.
    unfold ownb, keyb, kof, sideT, K. cbn [fst snd]. intros H. apply andb_true_iff in H. destruct H as [H1 H2].
    apply N.eqb_eq in H1, H2. rewrite <- H1, <- H2, N.eqb_refl. cbn. now destruct (dom c).
  Qed.

  Lemma own_quiet_not_stray r x : ownb x = true -> quiet x = true -> strayb r x = false.
  Proof.
    unfold quiet, isE, strayb. intros O Q. fold (ownb x) in Q. rewrite O in Q. cbn [andb] in Q.
    apply andb_true_iff in Q. destruct Q as [_ Q]. destruct (p_q x); try reflexivity. discriminate.
  Qed.

  Lemma window_own hr s items :
    isS K s = true -> forallb quiet items = true ->
    exists w, window dom (rev items ++ s :: hr) K = Some w /\ filter ownb w = s :: filter ownb items
              /\ (forall e, In e w -> e = s \/ (In e items /\ p_tid e = t)) /\ (exists r, w = s :: r).
  Proof.
    intros S0. induction items as [|x items IH] using rev_ind; intros Q.
    - exists [s]. cbn [rev app window]. rewrite S0. split; [reflexivity|]. split; [|split].
      + cbn [filter]. unfold isS in S0. apply andb_true_iff in S0. destruct S0 as [S0 _]. unfold ownb. now rewrite S0.
      + intros e [<-|[]]. now left.
      + now exists [].
    - rewrite forallb_app in Q. apply andb_true_iff in Q. destruct Q as [Q Qx]. cbn [forallb] in Qx. rewrite andb_true_r in Qx.
      destruct (IH Q) as (w & Hw & Hf & Hm & (r0 & Hr)). rewrite rev_app_distr. cbn [rev app window].
      pose proof Qx as Qx'. unfold quiet in Qx'. apply andb_true_iff in Qx'. destruct Qx' as [NS NE].
      apply negb_true_iff in NS, NE. rewrite NS, NE, Hw.
      destruct (ownb x) eqn:O.
      + rewrite (own_sideT x O), (own_quiet_not_stray _ x O Qx). cbn [andb negb].
        exists (w ++ [x]). split; [reflexivity|]. split; [|split; [|exists (r0 ++ [x]); now rewrite Hr]].
        * rewrite !filter_app, Hf. cbn [filter]. rewrite O. reflexivity.
        * intros e He. apply in_app_or in He. destruct He as [He|[<-|[]]].
          -- destruct (Hm e He) as [->|[Hi Ht]]; [now left|]. right. split; [apply in_or_app; now left|exact Ht].
          -- right. split; [apply in_or_app; right; now left|].
             unfold ownb, keyb, kof, K in O. cbn [fst snd] in O. apply andb_true_iff in O. destruct O as [O _].
             apply N.eqb_eq in O. now symmetry.
      + destruct (sideT dom K x && negb (strayb (rev items ++ s :: hr) x)) eqn:I.
        * exists (w ++ [x]). split; [reflexivity|]. split; [|split; [|exists (r0 ++ [x]); now rewrite Hr]].
          -- rewrite !filter_app, Hf. cbn [filter]. rewrite O. now rewrite !app_nil_r.
          -- intros e He. apply in_app_or in He. destruct He as [He|[<-|[]]].
             ++ destruct (Hm e He) as [->|[Hi Ht]]; [now left|]. right. split; [apply in_or_app; now left|exact Ht].
             ++ right. split; [apply in_or_app; right; now left|].
                apply andb_true_iff in I. destruct I as [I _]. unfold sideT, K in I. cbn [fst] in I.
                apply andb_true_iff in I. destruct I as [I _]. apply N.eqb_eq in I. now symmetry.
        * exists w. split; [reflexivity|]. split; [|split; [|now exists r0]].
          -- rewrite filter_app, Hf. cbn [filter]. rewrite O. now rewrite app_nil_r.
          -- intros e He. destruct (Hm e He) as [->|[Hi Ht]]; [now left|]. right. split; [apply in_or_app; now left|exact Ht].
  Qed.

  (* the END record delivers that window, closed by the END itself *)
  Theorem delivered_window_own hr s items e :
    isS K s = true -> forallb quiet items = true -> isE K e = true ->
    exists r, spec_out dom dec (rev items ++ s :: hr) e = Some ((s :: r) ++ [e])
              /\ filter ownb ((s :: r) ++ [e]) = s :: filter ownb items ++ [e]
              /\ (forall x, In x (s :: r) -> x = s \/ (In x items /\ p_tid x = t)).
  Proof.
    intros S0 Q E0. destruct (window_own hr s items S0 Q) as (w & Hw & Hf & Hm & (r0 & Hr)).
    exists r0. rewrite <- Hr. unfold isE in E0. apply andb_true_iff in E0. destruct E0 as [Ek Eq].
    assert (KE : kof e = K).
    { unfold keyb in Ek. apply andb_true_iff in Ek. destruct Ek as [A B]. apply N.eqb_eq in A, B.
      unfold kof, K in *. cbn [fst snd] in *. now rewrite <- A, <- B. }
    assert (Cs : p_code s = c).
    { unfold isS in S0. apply andb_true_iff in S0. destruct S0 as [A _]. unfold keyb, kof, K in A. cbn [fst snd] in A.
      apply andb_true_iff in A. destruct A as [_ B]. apply N.eqb_eq in B. now symmetry. }
    split.
    - unfold spec_out. destruct (p_q e); try discriminate. rewrite KE, Hw. rewrite Hr at 1. cbn [app deliver]. rewrite Cs, decodable. now rewrite Hr.
    - split; [|exact Hm]. rewrite filter_app, Hf. cbn [filter]. unfold ownb at 2. rewrite KE.
      unfold keyb. rewrite !N.eqb_refl. cbn [andb app]. reflexivity.
  Qed.
End CPW.

(* FiltersRefine.v — the helper classes, post-filters, stage order and class constants of PyKdebugParser.traces(),
   regenerated from the source on every run (gen/GenFilters.v by tools/translate/tr_filters.py), are those of the hand
   model FiltersTraces.v on which the C13 theorems are proved. *)
From Coq Require Import String NArith List Bool.
From Kd Require Import theories.Base theories.Printers theories.Filters theories.FiltersTraces gen.GenFilters.
Import ListNotations.
Open Scope N_scope.

Definition gen_has_bsd (cfg : fcfg) : bool :=
  memN gen_DBG_BSD (c_class cfg) || existsb (fun sc => N.eqb (N.shiftr sc 8) gen_DBG_BSD) (c_sub cfg).

(* when the source adds helper class h = (class, needs a BSD request) *)
Definition helper_on (cfg : fcfg) (h : N * bool) : bool :=
  has_filters cfg && (negb (snd h) || gen_has_bsd cfg) && negb (memN (fst h) (c_class cfg)).

Theorem gen_bsd_constant : gen_DBG_BSD = DBG_BSD.
Proof. reflexivity. Qed.

Theorem gen_helpers_model cfg : helper_classes cfg = map fst (filter (helper_on cfg) gen_helpers).
Proof.
  unfold helper_classes, gen_helpers, helper_on, add_trace_class, add_fs_class, add_perf_class, gen_has_bsd, has_bsd.
  cbn [filter map fst snd negb orb].
  change gen_DBG_BSD with DBG_BSD. change 7 with DBG_TRACE. change 3 with DBG_FSYSTEM. change 37 with DBG_PERF.
  destruct (has_filters cfg); cbn [andb]; [|reflexivity].
  destruct (memN DBG_TRACE (c_class cfg)), (memN DBG_FSYSTEM (c_class cfg)), (memN DBG_PERF (c_class cfg)),
           (memN DBG_BSD (c_class cfg) || existsb (fun sc => N.shiftr sc 8 =? DBG_BSD) (c_sub cfg)); reflexivity.
Qed.

Theorem gen_post_filters_model cfg code :
  post_keep cfg code
  = forallb (fun h => negb (helper_on cfg h) || negb (N.eqb (cls code) (fst h)) || allowed cfg code) gen_post_filters.
Proof.
  unfold post_keep, gen_post_filters, helper_on, add_trace_class, add_fs_class, add_perf_class, gen_has_bsd, has_bsd.
  cbn [forallb fst snd negb orb].
  change gen_DBG_BSD with DBG_BSD. change 7 with DBG_TRACE. change 3 with DBG_FSYSTEM. change 37 with DBG_PERF.
  rewrite andb_true_r.
  destruct (has_filters cfg); cbn [andb negb orb]; [|reflexivity].
  destruct (memN DBG_TRACE (c_class cfg)), (memN DBG_FSYSTEM (c_class cfg)), (memN DBG_PERF (c_class cfg)),
           (memN DBG_BSD (c_class cfg) || existsb (fun sc => N.shiftr sc 8 =? DBG_BSD) (c_sub cfg)),
           (cls code =? DBG_TRACE), (cls code =? DBG_FSYSTEM), (cls code =? DBG_PERF), (allowed cfg code); reflexivity.
Qed.

(* the stages applied to the paired traces, in the order of the pipeline model (thread, process, helper post-filters) *)
Theorem gen_stage_order :
  gen_stages = ["pair"; "tid"; "process"; "post"; "post"; "post"; "return"]%string.
Proof. reflexivity. Qed.

Example filter_shapes : gen_filter_shapes_ok = true. Proof. reflexivity. Qed.

(* DecoderWindow.v — from a delivered window to the context a decoder reads: events[0].values, events[-1].values and
   the paths reassembled (C08 model) from the window's lookup records; every other record of the window - interrupts,
   nested complete calls, whatever their number, order or timestamps - is not read.  Ties C08, C09 and C10 together. *)
From Coq Require Import String NArith List Bool Lia.
From Kd Require Import theories.Base theories.Printers theories.Chunks theories.DecoderDSL.
Import ListNotations.
Open Scope N_scope.

Record wev := mkW { w_code : N; w_q : N; w_words : list N; w_tid : N }.
Definition w_data (e : wev) : list N := flat_map (enc 8) (w_words e).
Definition dflt : wev := mkW 0 0 [] 0.

Section Win.
  Variable lk : N -> bool.                 (* event ids the code table names VFS_LOOKUP *)
  Variable gstr : N -> option str.         (* parser.global_strings *)
  Variable nocancel : bool.

  (* parse_vnodes(events) *)
  Definition window_paths (w : list wev) : list (N * str) :=
    vnode_generator (map (fun e => mkC (w_q e) (w_data e)) (filter (fun e => lk (w_code e)) w)).

  Definition ctx_of_window (w : list wev) : rctx :=
    mkCtx (w_words (hd dflt w)) (w_words (last w dflt)) (w_tid (hd dflt w)) (w_tid (last w dflt))
          (w_data (hd dflt w)) (window_paths w) gstr nocancel.

  Lemma last_app_single {A} (l : list A) x d : last (l ++ [x]) d = x.
  Proof. induction l as [|a l IH]; cbn; auto. destruct (l ++ [x]) eqn:E; [destruct l; discriminate|]. exact IH. Qed.

  (* the records between the first and the last that are not lookups are not read *)
  Lemma filter_idem {A} (p : A -> bool) l : filter p (filter p l) = filter p l.
  Proof. induction l as [|x l IH]; cbn; auto. destruct (p x) eqn:E; cbn; rewrite ?E, IH; auto. Qed.

  Theorem ctx_ignores_other_records s mid e :
    ctx_of_window (s :: mid ++ [e]) = ctx_of_window (s :: filter (fun x => lk (w_code x)) mid ++ [e]).
  Proof.
    unfold ctx_of_window, window_paths. cbn [hd].
    change (s :: mid ++ [e]) with ((s :: mid) ++ [e]).
    change (s :: filter (fun x => lk (w_code x)) mid ++ [e]) with ((s :: filter (fun x => lk (w_code x)) mid) ++ [e]).
    rewrite !last_app_single.
    assert (F : filter (fun e0 => lk (w_code e0)) ((s :: mid) ++ [e])
                = filter (fun e0 => lk (w_code e0)) ((s :: filter (fun x => lk (w_code x)) mid) ++ [e])).
    { rewrite !filter_app. f_equal. cbn [filter]. rewrite filter_idem. reflexivity. }
    rewrite F. reflexivity.
  Qed.

  (* ... so neither is the rendering: whatever lies between START and END besides the lookups *)
  Corollary rendering_ignores_other_records enums h row s mid e :
    render_row enums h (ctx_of_window (s :: mid ++ [e])) row
    = render_row enums h (ctx_of_window (s :: filter (fun x => lk (w_code x)) mid ++ [e])) row.
  Proof. now rewrite ctx_ignores_other_records. Qed.

  (* a window without lookup records between its ends has no paths besides those of its end records *)
  Corollary ctx_no_lookups s mid e : forallb (fun x => negb (lk (w_code x))) mid = true ->
    ctx_of_window (s :: mid ++ [e]) = ctx_of_window [s; e].
  Proof.
    intros H. rewrite ctx_ignores_other_records.
    replace (filter (fun x => lk (w_code x)) mid) with (@nil wev); [reflexivity|].
    induction mid as [|x m IH]; cbn in *; auto. apply andb_true_iff in H. destruct H as [Hx Hm].
    apply negb_true_iff in Hx. rewrite Hx. now apply IH.
  Qed.
End Win.

(* CompositeCases.v — executable correspondence for the window decoders (C20) and the callstack
   pipeline (C15).  Both sides are compared through a canonical flat encoding (list N). *)
From Coq Require Import NArith List Bool.
From Kd Require Import theories.Base theories.Harness theories.Composite theories.Callstacks.
Import ListNotations.
Open Scope N_scope.

Definition lenN {A} (l : list A) : N := N.of_nat (length l).

Definition lookupN (tbl : list (N * N)) (c : N) : N :=
  match find (fun p => N.eqb (fst p) c) tbl with Some p => snd p | None => 0 end.

Definition K_EVENT := 1.
Definition K_LAUNCH := 7.
Definition K_VMFAULT := 8.

(* masks = (declared SamplerAction bits, declared KperfTiState bits, declared CallstackFlag bits) *)
Definition enc_perf (m : N * N * N) (p : perf) : list N :=
  match p with
  | (flags, act, th, cs) =>
    [1; N.land flags (fst (fst m)); act]
    ++ match th with None => [0] | Some (pid, tid, dq, rm) => [1; pid; tid; dq; N.land rm (snd (fst m))] end
    ++ match cs with None => [0] | Some (hf, fr) => [1; N.land hf (snd m); lenN fr] ++ fr end
  end.

Definition enc_imgs (l : list img) : list N := flat_map (fun i => [fst i; fst (snd i); snd (snd i)]) l.

Definition enc_vm (v : option vmfault) : list N :=
  match v with
  | None => [4; 0]
  | Some (addr, k, res, ft, pp) =>
    [4; 1; addr; (if k then 1 else 0); res]
    ++ match ft with None => [0] | Some f => [1; f] end
    ++ match pp with None => [0] | Some (pid, prot) => [1; pid; prot] end
  end.

Section Run.
  Variable kinds : list (N * N).
  Variable real_dec : list N.
  Variable ft_vals : list N.
  Variable masks : N * N * N.
  Definition kind (c : N) : N := lookupN kinds c.
  Definition rdec (c : N) : bool := existsb (N.eqb c) real_dec.
  Definition ftok (v : N) : bool := existsb (N.eqb v) ft_vals.

  Definition dummy := mkWev 0 [] 0 0.

  Definition decode_enc (w : list wev) : list N :=
    let k := kind (w_code (hd dummy w)) in
    if N.eqb k K_EVENT then enc_perf masks (handle_event kind w)
    else if N.eqb k K_LAUNCH then (let r := handle_launch kind w in [2; fst r; lenN (snd r)] ++ enc_imgs (snd r))
    else if N.eqb k K_MAP_A then (let i := image_of (hd dummy w) in [3; fst i; fst (snd i); snd (snd i)])
    else if N.eqb k K_VMFAULT then enc_vm (handle_vmfault rdec ftok w)
    else [0].

  Definition to_trace (w : list wev) : trace (N * N) :=
    let h := hd dummy w in
    let k := kind (w_code h) in
    if N.eqb k K_EVENT then TPerf _ (w_ts h) (w_tid h) (option_map snd (snd (handle_event kind w)))
    else if N.eqb k K_LAUNCH then TLaunch _ (snd (handle_launch kind w))
    else if N.eqb k K_MAP_A then (let i := image_of h in TMapA _ (fst i) (snd i))
    else TOther _.

  Definition enc_frame (f : N * option (N * N * N)) : list N :=
    match f with
    | (a, None) => [a; 0]
    | (a, Some (u, off)) => [a; 1; fst u; snd u; off]
    end.
  Definition enc_cs (c : callstack (N * N)) : list N :=
    match c with (ts, tid, frs) => [ts; tid; lenN frs] ++ flat_map enc_frame frs end.

  Definition run_enc (ws : list (list wev)) : list (list N) * list (list N) :=
    (map decode_enc ws, map enc_cs (feed _ [] (map to_trace ws))).
End Run.

(* (kinds, real-decodable codes, fault-type values, masks, windows as [(code, vals, ts, tid)], observed decodes,
    observed callstacks) *)
Definition ccase := (list (N * N) * list N * list N * (N * N * N) * list (list (N * list N * N * N))
                     * list (list N) * list (list N))%type.

Definition ccheck (c : ccase) : bool :=
  match c with
  | (kinds, rd, ft, masks, ws, od, oc) =>
    let ws' := map (map (fun e => match e with (c, v, ts, tid) => mkWev c v ts tid end)) ws in
    let r := run_enc kinds rd ft masks ws' in
    list_eqb leqb (fst r) od && list_eqb leqb (snd r) oc
  end.

(* Cli.v — model of pykdebugparser/__main__.py print_with_count: the loop prints objects until the running index
   equals the requested count (Python ints; the default count -1 is never reached: "endless").  (C06) *)
From Coq Require Import ZArith List Lia.
Import ListNotations.
Open Scope Z_scope.

Section Pwc.
  Context {A : Type}.
  Fixpoint pwc (count i : Z) (l : list A) : list A :=
    match l with
    | [] => []
    | x :: r => if Z.eqb i count then [] else x :: pwc count (i + 1) r
    end.

  Lemma pwc_all count i l : count < i -> pwc count i l = l.
  Proof.
    revert i; induction l as [|x r IH]; intros i H; cbn [pwc]; auto.
    destruct (Z.eqb_spec i count) as [E|_]; [lia|]. f_equal. apply IH. lia.
  Qed.

  Lemma pwc_firstn count i l : i <= count -> pwc count i l = firstn (Z.to_nat (count - i)) l.
  Proof.
    revert i; induction l as [|x r IH]; intros i H; cbn [pwc].
    - now rewrite firstn_nil.
    - destruct (Z.eqb_spec i count) as [E|NE].
      + subst. now rewrite Z.sub_diag.
      + replace (Z.to_nat (count - i)) with (S (Z.to_nat (count - (i + 1)))) by lia.
        cbn [firstn]. f_equal. apply IH. lia.
  Qed.

  (* what the command prints: everything for a negative count (the default), else the first `count` objects *)
  Theorem pwc_spec count l : pwc count 0 l = if count <? 0 then l else firstn (Z.to_nat count) l.
  Proof.
    destruct (Z.ltb_spec count 0) as [H|H].
    - apply pwc_all. exact H.
    - rewrite pwc_firstn by exact H. now rewrite Z.sub_0_r.
  Qed.

  (* limiting the count never changes the objects that are printed: the output is a prefix of the unlimited output *)
  Theorem pwc_prefix count l : exists rest, l = pwc count 0 l ++ rest.
  Proof.
    rewrite pwc_spec. destruct (count <? 0).
    - exists []. now rewrite app_nil_r.
    - exists (skipn (Z.to_nat count) l). now rewrite firstn_skipn.
  Qed.

  (* ... and it only ever consumes a prefix of its input: printing is incremental *)
  Theorem pwc_app count a b : exists k, pwc count 0 (a ++ b) = pwc count 0 a ++ firstn k b.
  Proof.
    rewrite !pwc_spec. destruct (count <? 0).
    - exists (length b). now rewrite firstn_all.
    - exists (Z.to_nat count - length a)%nat. apply firstn_app.
  Qed.
End Pwc.

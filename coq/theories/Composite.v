(* Composite.v — decoders that read the records NESTED in their window:
     perf.handle_event (sampler), dyld.handle_timing_launch_executable, mach.handle_mach_vmfault
   as functions of the window.  Records are told apart by the NAME the code table gives their event id
   (`kind`, a function of the code), except the page-fault decoder which uses the hard-coded id range. *)
From Coq Require Import NArith List Bool Lia Permutation.
From Kd Require Import theories.Base.
Import ListNotations.
Open Scope N_scope.

Record wev := mkWev { w_code : N; w_vals : list N; w_ts : N; w_tid : N }.
Definition wval (e : wev) (i : nat) : N := nth i (w_vals e) 0.

(* kinds of nested records (by table name) *)
Definition K_THD_DATA := 2.
Definition K_STK_UHDR := 3.
Definition K_STK_UDATA := 4.
Definition K_MAP_A := 5.
Definition K_SHARED_CACHE_A := 6.

Fixpoint takeN {A} (n : N) (l : list A) : list A :=
  match l with [] => [] | x :: r => if N.eqb n 0 then [] else x :: takeN (n - 1) r end.

Lemma takeN_firstn {A} (l : list A) : forall n, takeN n l = firstn (N.to_nat n) l.
Proof.
  induction l as [|x r IH]; intros n; cbn [takeN]; [now rewrite firstn_nil|].
  destruct (N.eqb n 0) eqn:E.
  - apply N.eqb_eq in E. subst. reflexivity.
  - apply N.eqb_neq in E. replace (N.to_nat n) with (S (N.to_nat (n - 1))) by lia. cbn [firstn]. now rewrite IH.
Qed.

Section Comp.
  Variable kind : N -> N.              (* code -> kind of nested record (0 = none of the above) *)
  Definition of_kind (k : N) (e : wev) : bool := N.eqb (kind (w_code e)) k.

  (* ---------------- perf.handle_event ---------------- *)
  Definition SAMPLER_TH_INFO := 1.
  Definition SAMPLER_USTACK := 8.
  Definition has_flag (w m : N) : bool := negb (N.eqb (N.land m w) 0).

  (* (sample_what word, actionid, th_info = (pid, tid, dq_addr, runmode word), cs = (header flags word, frames)) *)
  Definition perf := (N * N * option (N * N * N * N) * option (N * list N))%type.

  Definition thd_data (e : wev) : N * N * N * N := (wval e 0, wval e 1, wval e 2, N.land (wval e 3) 0xffff).

  Definition handle_event (w : list wev) : perf :=
    let h := hd (mkWev 0 [] 0 0) w in
    let flags := wval h 0 in
    let th := if has_flag flags SAMPLER_TH_INFO
              then match filter (of_kind K_THD_DATA) w with e :: _ => Some (thd_data e) | [] => None end
              else None in
    let cs := if has_flag flags SAMPLER_USTACK
              then match filter (of_kind K_STK_UHDR) w with
                   | hdr :: _ => Some (wval hdr 0,
                                       takeN (wval hdr 1) (flat_map w_vals (filter (of_kind K_STK_UDATA) w)))
                   | [] => None end
              else None in
    (flags, wval h 1, th, cs).

  (* threads_pids[tid] = pid write made by the nested thread-data decoder *)
  Definition handle_event_write (w : list wev) : option (N * N) :=
    match handle_event w with (_, _, Some (pid, tid, _, _), _) => Some (tid, pid) | _ => None end.

  Theorem perf_th_info w :
    snd (fst (handle_event w)) <> None <->
    has_flag (wval (hd (mkWev 0 [] 0 0) w) 0) SAMPLER_TH_INFO = true /\ exists e, In e w /\ of_kind K_THD_DATA e = true.
  Proof.
    unfold handle_event. cbn [fst snd].
    destruct (has_flag _ SAMPLER_TH_INFO); [|split; [congruence|intros [? _]; discriminate]].
    destruct (filter (of_kind K_THD_DATA) w) as [|e r] eqn:F.
    - split; [congruence|]. intros [_ (e & He & Hk)].
      assert (In e (filter (of_kind K_THD_DATA) w)) by (apply filter_In; auto). rewrite F in H. destruct H.
    - split; [|discriminate]. intros _. split; auto. exists e.
      assert (In e (filter (of_kind K_THD_DATA) w)) by (rewrite F; left; auto). apply filter_In in H. exact H.
  Qed.

  Theorem perf_cs w :
    snd (handle_event w) <> None <->
    has_flag (wval (hd (mkWev 0 [] 0 0) w) 0) SAMPLER_USTACK = true /\ exists e, In e w /\ of_kind K_STK_UHDR e = true.
  Proof.
    unfold handle_event. cbn [fst snd].
    destruct (has_flag _ SAMPLER_USTACK); [|split; [congruence|intros [? _]; discriminate]].
    destruct (filter (of_kind K_STK_UHDR) w) as [|e r] eqn:F.
    - split; [congruence|]. intros [_ (e & He & Hk)].
      assert (In e (filter (of_kind K_STK_UHDR) w)) by (apply filter_In; auto). rewrite F in H. destruct H.
    - split; [|discriminate]. intros _. split; auto. exists e.
      assert (In e (filter (of_kind K_STK_UHDR) w)) by (rewrite F; left; auto). apply filter_In in H. exact H.
  Qed.

  (* the frames are the first N words of the stack-data records, in stream order; N from the FIRST header *)
  Theorem perf_frames w hdrflags frames :
    snd (handle_event w) = Some (hdrflags, frames) ->
    exists hdr rest, filter (of_kind K_STK_UHDR) w = hdr :: rest /\ hdrflags = wval hdr 0 /\
      frames = firstn (N.to_nat (wval hdr 1)) (flat_map w_vals (filter (of_kind K_STK_UDATA) w)).
  Proof.
    unfold handle_event. cbn [snd].
    destruct (has_flag _ SAMPLER_USTACK); [|discriminate].
    destruct (filter (of_kind K_STK_UHDR) w) as [|hdr rest]; [discriminate|].
    intros [= <- <-]. exists hdr, rest. rewrite takeN_firstn. auto.
  Qed.

  (* ---------------- dyld.handle_timing_launch_executable ---------------- *)
  (* an image record: (load_addr = word 2, uuid = words 0,1) *)
  Definition img := (N * (N * N))%type.
  Definition image_of (e : wev) : img := (wval e 2, (wval e 0, wval e 1)).

  (* sorted(key=load_addr): stable; modelled by insertion after the last element with key <= *)
  Fixpoint ins (x : img) (l : list img) : list img :=
    match l with
    | [] => [x]
    | y :: r => if fst x <? fst y then x :: y :: r else y :: ins x r
    end.
  Definition sort_imgs (l : list img) : list img := fold_left (fun acc x => ins x acc) l [].

  Definition launch_images (w : list wev) : list img :=
    sort_imgs (map image_of (filter (of_kind K_MAP_A) w) ++ map image_of (filter (of_kind K_SHARED_CACHE_A) w)).
  Definition handle_launch (w : list wev) : N * list img := (wval (hd (mkWev 0 [] 0 0) w) 1, launch_images w).

  Fixpoint sorted_le (l : list img) : Prop :=
    match l with [] => True | x :: r => Forall (fun y => fst x <= fst y) r /\ sorted_le r end.

  Lemma ins_perm x l : Permutation (x :: l) (ins x l).
  Proof.
    induction l as [|y r IH]; cbn; auto. destruct (fst x <? fst y); auto.
    eapply perm_trans; [apply perm_swap|]. constructor. exact IH.
  Qed.

  Lemma ins_sorted x l : sorted_le l -> sorted_le (ins x l).
  Proof.
    induction l as [|y r IH]; cbn; auto. intros [F S].
    destruct (fst x <? fst y) eqn:E.
    - apply N.ltb_lt in E. cbn. split; [|split; auto].
      constructor; [lia|]. eapply Forall_impl; [|exact F]. cbn. intros; lia.
    - apply N.ltb_ge in E. cbn. split; auto.
      assert (P : Permutation (x :: r) (ins x r)) by apply ins_perm.
      apply Forall_forall. intros z Hz. eapply Permutation_in in Hz; [|apply Permutation_sym; exact P].
      destruct Hz as [<-|Hz]; auto. rewrite Forall_forall in F. auto.
  Qed.

  Lemma sort_acc_perm l : forall acc, Permutation (acc ++ l) (fold_left (fun a x => ins x a) l acc).
  Proof.
    induction l as [|x r IH]; intros acc; cbn; [rewrite app_nil_r; auto|].
    eapply perm_trans; [|apply IH].
    eapply perm_trans; [apply Permutation_sym, Permutation_middle|].
    change (x :: acc ++ r) with ((x :: acc) ++ r). apply Permutation_app_tail. apply ins_perm.
  Qed.

  Lemma sort_acc_sorted l : forall acc, sorted_le acc -> sorted_le (fold_left (fun a x => ins x a) l acc).
  Proof. induction l as [|x r IH]; intros acc S; cbn; auto. apply IH, ins_sorted, S. Qed.

  Theorem launch_perm w :
    Permutation (map image_of (filter (of_kind K_MAP_A) w) ++ map image_of (filter (of_kind K_SHARED_CACHE_A) w))
                (launch_images w).
  Proof. unfold launch_images, sort_imgs. apply (sort_acc_perm _ []). Qed.

  Theorem launch_sorted w : sorted_le (launch_images w).
  Proof. unfold launch_images, sort_imgs. apply sort_acc_sorted. exact I. Qed.

  (* stability: records with equal load address keep their relative order *)
  Lemma ins_filter_eq a x l : sorted_le l ->
    filter (fun y => N.eqb (fst y) a) (ins x l) =
    filter (fun y => N.eqb (fst y) a) l ++ (if N.eqb (fst x) a then [x] else []).
  Proof.
    induction l as [|y r IH]; cbn [ins filter]; intros S.
    - destruct (N.eqb (fst x) a); reflexivity.
    - destruct S as [F S]. destruct (fst x <? fst y) eqn:E.
      + apply N.ltb_lt in E. cbn [filter].
        destruct (N.eqb (fst x) a) eqn:X.
        * apply N.eqb_eq in X.
          assert (Fy : N.eqb (fst y) a = false) by (apply N.eqb_neq; lia). rewrite Fy.
          assert (Fr : filter (fun y0 => N.eqb (fst y0) a) r = []).
          { clear -F E X. induction r as [|z r IH]; cbn; auto.
            apply Forall_cons_iff in F. destruct F as [Hz F].
            assert (N.eqb (fst z) a = false) by (apply N.eqb_neq; lia). rewrite H. auto. }
          rewrite Fr. reflexivity.
        * rewrite app_nil_r. reflexivity.
      + cbn [filter]. rewrite IH by auto. destruct (N.eqb (fst y) a); reflexivity.
  Qed.

  Theorem launch_stable w a :
    filter (fun y => N.eqb (fst y) a) (launch_images w) =
    filter (fun y => N.eqb (fst y) a)
      (map image_of (filter (of_kind K_MAP_A) w) ++ map image_of (filter (of_kind K_SHARED_CACHE_A) w)).
  Proof.
    unfold launch_images, sort_imgs.
    set (l := map image_of _ ++ map image_of _). clearbody l.
    assert (G : forall acc, sorted_le acc ->
      filter (fun y => N.eqb (fst y) a) (fold_left (fun a0 x => ins x a0) l acc) =
      filter (fun y => N.eqb (fst y) a) acc ++ filter (fun y => N.eqb (fst y) a) l).
    { induction l as [|x r IH]; intros acc S; cbn [fold_left filter]; [now rewrite app_nil_r|].
      rewrite IH by now apply ins_sorted. rewrite ins_filter_eq by auto.
      rewrite <- app_assoc. destruct (N.eqb (fst x) a); reflexivity. }
    apply (G [] I).
  Qed.

  (* ---------------- mach.handle_mach_vmfault ---------------- *)
  Variable real_decodable : N -> bool.    (* the nested record's code has a name with a registered decoder *)
  Variable fault_type_ok : N -> bool.     (* DbgVmFaultType(x) succeeds *)

  Definition in_real_range (e : wev) : bool := (0x1320008 <=? w_code e) && (w_code e <=? 0x1320014).

  Definition middle {A} (l : list A) : list A := removelast (tl l).      (* events[1:-1] *)

  (* (addr, is_kernel, result, fault type, (pid, protection byte)); None = the decoder raises (a fault-type
     word outside the enum: excluded by "individually well-formed") *)
  Definition vmfault := (N * bool * N * option N * option (N * N))%type.

  Definition handle_vmfault (w : list wev) : option vmfault :=
    let h := hd (mkWev 0 [] 0 0) w in
    let l := last w (mkWev 0 [] 0 0) in
    let result := wval l 2 in
    if N.eqb result 0 then
      if fault_type_ok (wval l 3) then
        match filter in_real_range (middle w) with
        | r :: _ =>
          if real_decodable (w_code r) then
            if fault_type_ok (N.land (wval r 1) 0xff)
            then Some (wval h 1, negb (N.eqb (wval h 2) 0), result, Some (wval l 3),
                       Some (wval r 3, N.land (N.shiftr (wval r 1) 8) 0xff))
            else None
          else Some (wval h 1, negb (N.eqb (wval h 2) 0), result, Some (wval l 3), None)
        | [] => Some (wval h 1, negb (N.eqb (wval h 2) 0), result, Some (wval l 3), None)
        end
      else None
    else Some (wval h 1, negb (N.eqb (wval h 2) 0), result, None, None).

  Theorem vmfault_result w v : handle_vmfault w = Some v ->
    snd (fst (fst v)) = wval (last w (mkWev 0 [] 0 0)) 2 /\
    (snd (fst v) = if N.eqb (wval (last w (mkWev 0 [] 0 0)) 2) 0 then Some (wval (last w (mkWev 0 [] 0 0)) 3) else None).
  Proof.
    unfold handle_vmfault. destruct (N.eqb (wval (last w _) 2) 0) eqn:R.
    - destruct (fault_type_ok (wval (last w _) 3)); [|discriminate].
      destruct (filter in_real_range (middle w)) as [|r ?].
      + intros [= <-]. cbn. auto.
      + destruct (real_decodable (w_code r)); [destruct (fault_type_ok _); [|discriminate]|]; intros [= <-]; cbn; auto.
    - intros [= <-]. cbn. auto.
  Qed.

  Theorem vmfault_pidprot w v : handle_vmfault w = Some v ->
    snd v = match filter in_real_range (middle w) with
            | r :: _ => if N.eqb (wval (last w (mkWev 0 [] 0 0)) 2) 0 && real_decodable (w_code r)
                        then Some (wval r 3, N.land (N.shiftr (wval r 1) 8) 0xff) else None
            | [] => None
            end.
  Proof.
    unfold handle_vmfault. destruct (N.eqb (wval (last w _) 2) 0) eqn:R; cbn [andb].
    - destruct (fault_type_ok (wval (last w _) 3)); [|discriminate].
      destruct (filter in_real_range (middle w)) as [|r ?].
      + intros [= <-]. reflexivity.
      + destruct (real_decodable (w_code r)); [destruct (fault_type_ok _); [|discriminate]|]; intros [= <-]; reflexivity.
    - intros [= <-]. cbn. destruct (filter in_real_range (middle w)); reflexivity.
  Qed.
End Comp.

(* FlagCases.v — executable correspondence for the list serializers and the enum iteration rule (C11). *)
From Coq Require Import String ZArith NArith List Bool.
From Kd Require Import theories.Base theories.Harness theories.DecoderDSL gen.GenEnums.
Import ListNotations.
Open Scope N_scope.

(* (serializer over word 0, [(word, observed names)]) *)
Definition lcase := (lsrc * list (N * list string))%type.
Definition names_eqb (a b : list string) : bool := list_eqb String.eqb a b.
Definition lcheck (c : lcase) : bool :=
  forallb (fun wo => names_eqb (lnames gen_enums (mkCtx [fst wo] [] 0 0 [] [] (fun _ => None) false) (fst c)) (snd wo)) (snd c).
(* iteration order of an enum class *)
Definition icheck (c : string * list string) : bool := names_eqb (map fst (iter_members gen_enums (fst c))) (snd c).

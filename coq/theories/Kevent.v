(* Kevent.v — the event record (mirror of the Kevent namedtuple) and helper views. *)
From Coq Require Import String ZArith NArith Arith List Bool Lia.
From Kd Require Import theories.Base theories.PyStruct.
Import ListNotations.
Open Scope N_scope.

(* field order = the namedtuple's field order; the translator checks the source still
   declares exactly ['timestamp','data','values','tid','debugid','eventid','func_qualifier'] *)
Record kevent := mkKevent {
  k_timestamp : N;
  k_data : list N;
  k_values : list N;
  k_tid : N;
  k_debugid : N;
  k_eventid : N;
  k_qual : N
}.

Definition kevent_fields : list string :=
  ["timestamp"; "data"; "values"; "tid"; "debugid"; "eventid"; "func_qualifier"]%string.

Definition kevent_eqb (a b : kevent) : bool :=
  N.eqb (k_timestamp a) (k_timestamp b) && leqb (k_data a) (k_data b) &&
  leqb (k_values a) (k_values b) && N.eqb (k_tid a) (k_tid b) &&
  N.eqb (k_debugid a) (k_debugid b) && N.eqb (k_eventid a) (k_eventid b) &&
  N.eqb (k_qual a) (k_qual b).

Lemma kevent_eqb_eq a b : kevent_eqb a b = true <-> a = b.
Proof.
  unfold kevent_eqb. rewrite !andb_true_iff, !N.eqb_eq, !leqb_eq.
  destruct a, b; cbn. split.
  - intros [[[[[[-> ->] ->] ->] ->] ->] ->]. reflexivity.
  - intros [= -> -> -> -> -> -> ->]. repeat split.
Qed.

(* value at index i of a word list, 0 when absent (Python would raise IndexError; every use
   in the models is on the 4-element values tuple with i < 4) *)
Definition word (l : list N) (i : nat) : N := nth i l 0.
Definition kval (e : kevent) (i : nat) : N := word (k_values e) i.

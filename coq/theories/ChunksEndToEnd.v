(* ChunksEndToEnd.v — pairing and reassembly together: after ANY history, with ANY records between (anything but a START / END
   of the string's own key), if the records of the string's own key between START and END carry, in order, the kernel's chunks
   of a text, then the END record delivers a window on which the decoder reads exactly that text.  (C08) *)
From Coq Require Import NArith List Bool Lia.
From Kd Require Import theories.Base theories.Pairing theories.Chunks theories.ChunksWindow theories.ChunksPairingWindow.
Import ListNotations.
Open Scope N_scope.

Section E2E.
  Variable dom : N -> bool.
  Variable dec : N -> bool.
  Variables (t c : N).
  Hypothesis decodable : dec c = true.
  Variable data : pev -> crec.                 (* what the reassemblers read of a record: qualifier bits and payload *)

  Definition to_w (e : pev) : wrec := (p_code e, data e).

  Lemma own_code_on_thread (l : list pev) :
    Forall (fun x => p_tid x = t) l -> own c (map to_w l) = map data (filter (ownb t c) l).
  Proof.
    unfold own. induction 1 as [|x l Hx _ IH]; [reflexivity|].
    cbn [map filter]. unfold to_w at 1. cbn [fst].
    assert (E : N.eqb (p_code x) c = ownb t c x).
    { unfold ownb, keyb, kof, K. cbn [fst snd]. rewrite Hx, N.eqb_refl, (N.eqb_sym c). reflexivity. }
    rewrite E. destruct (ownb t c x); cbn [map snd]; now rewrite IH.
  Qed.

  Theorem string_end_to_end hr s items e dbg sid text :
    isS (K t c) s = true -> forallb (quiet t c) items = true -> isE (K t c) e = true ->
    dbg < 2 ^ 64 -> sid < 2 ^ 64 -> clean text ->
    map data (s :: filter (ownb t c) items ++ [e]) = enc_gstring dbg sid text ->
    exists W, spec_out dom dec (rev items ++ s :: hr) e = Some W /\ gstring_w (map to_w W) = (dbg, sid, text).
  Proof.
    intros S0 Q E0 Hd Hs Hc Enc.
    destruct (delivered_window_own dom dec t c decodable hr s items e S0 Q E0) as (r & Hsp & Hf & Hm).
    exists ((s :: r) ++ [e]). split; [exact Hsp|].
    assert (Ts : p_tid s = t /\ p_code s = c).
    { unfold isS in S0. apply andb_true_iff in S0. destruct S0 as [A _]. unfold keyb, kof, K in A. cbn [fst snd] in A.
      apply andb_true_iff in A. destruct A as [A B]. apply N.eqb_eq in A, B. now split. }
    assert (Te : p_tid e = t).
    { unfold isE in E0. apply andb_true_iff in E0. destruct E0 as [A _]. unfold keyb, kof, K in A. cbn [fst snd] in A.
      apply andb_true_iff in A. destruct A as [A _]. apply N.eqb_eq in A. now symmetry. }
    assert (All : Forall (fun x => p_tid x = t) ((s :: r) ++ [e])).
    { apply Forall_app. split.
      - apply Forall_forall. intros x Hx. destruct (Hm x Hx) as [->|[_ Ht]]; [apply Ts|exact Ht].
      - constructor; [exact Te|constructor]. }
    assert (G : gstring_w (map to_w ((s :: r) ++ [e])) = global_string (own (p_code s) (map to_w ((s :: r) ++ [e])))) by reflexivity.
    rewrite G. destruct Ts as [_ Cs]. rewrite Cs.
    rewrite (own_code_on_thread _ All), Hf, Enc. now apply gstring_roundtrip.
  Qed.
End E2E.

(* ContainerCases.v — executable correspondence for KdBufParser.parse (C02, C03, C06): the model is run on every
   requested truncation of a file and compared with what the implementation reported for that truncation. *)
From Coq Require Import NArith Arith List Bool.
From Kd Require Import theories.Base theories.Harness theories.Kevent theories.Container theories.KeventCases.
Import ListNotations.
Open Scope N_scope.

Definition MODP : N := 2305843009213693951.       (* 2^61 - 1 *)
Definition mix (acc x : N) : N := (acc * 1000003 + x + 1) mod MODP.
Definition mixl (acc : N) (l : list N) : N := fold_left mix l acc.

Definition sum_event (acc : N) (e : kevent) : N :=
  mixl (mixl acc [k_timestamp e; k_tid e; k_debugid e; k_eventid e; k_qual e]) (k_values e ++ k_data e).
Definition sum_tm (acc : N) (t : tment) : N :=
  match t with (tid, pid, name) => mixl (mixl acc [tid; pid; N.of_nat (length name)]) name end.
Definition sum_block (acc : N) (b : list N * list N) : N :=
  mixl (mixl (mixl acc (fst b)) [N.of_nat (length (snd b))]) (snd b).

Definition err_code (e : option cerr) : N :=
  match e with
  | None => 0 | Some EKey => 1 | Some EStream => 2 | Some EString => 3 | Some EStruct => 4
  | Some EEOF => 5 | Some EPlist => 6 | Some EFuel => 7
  end.

(* (#events, checksum, error code, threadmap: 0 | 1 count checksum, blocks: 0 | 1 count checksum) *)
Definition summary (o : pout) : list N :=
  [N.of_nat (length (o_events o)); fold_left sum_event (o_events o) 0; err_code (o_err o)]
  ++ match o_threadmap o with None => [0] | Some l => [1; N.of_nat (length l); fold_left sum_tm l 0] end
  ++ match o_blocks o with None => [0] | Some l => [1; N.of_nat (length l); fold_left sum_block l 0] end.

(* (file as 64-bit LE words ++ tail bytes, payloads plistlib accepts, [(truncation length, observed summary)]) *)
Definition dcase := (list N * list N * list (list N) * list (N * list N))%type.

Definition dcheck (c : dcase) : bool :=
  match c with
  | (ws, tl, okpl, obs) =>
    let file := bytes_of_words ws ++ tl in
    let pok b := existsb (leqb b) okpl in
    forallb (fun ko => leqb (summary (parse pok (firstn (N.to_nat (fst ko)) file))) (snd ko)) obs
  end.

(* which truncation lengths disagree (for reporting) *)
Definition dbad (c : dcase) : list N :=
  match c with
  | (ws, tl, okpl, obs) =>
    let file := bytes_of_words ws ++ tl in
    let pok b := existsb (leqb b) okpl in
    map fst (filter (fun ko => negb (leqb (summary (parse pok (firstn (N.to_nat (fst ko)) file))) (snd ko))) obs)
  end.

(* PairingCases.v — executable correspondence check for the pairing machine and the name learner
   (C04, C05).  A case carries the code classification the harness derived from the source tables,
   the event stream, and what the implementation did. *)
From Coq Require Import NArith List Bool.
From Kd Require Import theories.Base theories.Harness theories.Pairing theories.PairingProj theories.Learn.
Import ListNotations.
Open Scope N_scope.

(* code -> (routed to on_going_traces, has decoder, learner kind 0..4) *)
Definition pclasses := list (N * (bool * bool * N)).
Fixpoint pclass (cl : pclasses) (c : N) : bool * bool * N :=
  match cl with [] => (false, false, 0) | (c', v) :: r => if N.eqb c c' then v else pclass r c end.

(* (tid, code, qualifier, 4 argument words) *)
Definition pin := (N * N * N * list N)%type.

Fixpoint mk_pevs (i : N) (l : list pin) : list pev :=
  match l with
  | [] => []
  | (t, c, q, _) :: r => mkPev t c (qual_of_N q) i :: mk_pevs (i + 1) r
  end.

Definition words_of (l : list pin) (uid : N) : list N :=
  match nth_error l (N.to_nat uid) with Some (_, _, _, ws) => ws | None => [] end.

Definition kind_of_N (n : N) : lkind :=
  match n with 1 => LDataNew | 2 => LDataExec | 3 => LStrNew | 4 => LStrExec | _ => LOther end.

Definition nonzero (b : N) : bool := negb (N.eqb b 0).

(* observed: per event the delivered window as stream indices (None = no trace), and the ordered log of
   pids_names writes made by the trace-string decoders as (emitting tid, pid, name bytes) *)
Definition pcase := (pclasses * list pin * list (option (list N)) * list (N * (N * list N)))%type.

Definition pair_eqb (a b : N * (N * list N)) : bool :=
  N.eqb (fst a) (fst b) && N.eqb (fst (snd a)) (fst (snd b)) && leqb (snd (snd a)) (snd (snd b)).

Definition pmodel (cl : pclasses) (ins : list pin) :=
  let dom c := fst (fst (pclass cl c)) in
  let dec c := snd (fst (pclass cl c)) in
  let h := mk_pevs 0 ins in
  let kind e := kind_of_N (snd (pclass cl (p_code e))) in
  let pid e := match kind e with
               | LDataNew => nth 1 (words_of ins (p_uid e)) 0
               | LDataExec => nth 0 (words_of ins (p_uid e)) 0
               | _ => 0 end in
  let name e := filter nonzero (flat_map (enc 8) (words_of ins (p_uid e))) in
  (map (option_map (map p_uid)) (run_opt dom dec pst0 h),
   learned dom dec kind pid name h).

Definition pcheck (c : pcase) : bool :=
  match c with
  | (cl, ins, ow, ol) =>
    let m := pmodel cl ins in
    list_eqb (opt_eqb leqb) (fst m) ow && list_eqb pair_eqb (snd m) ol
  end.

(* PairingFilter.v — the pairing machine commutes with any event filter that is a function of the event CODE
   (class filters, subclass filters, helper classes): the traces of the filtered stream are exactly the traces of the
   unfiltered stream whose code passes the filter, in the same order, and each delivered window is the unfiltered
   window restricted to the events that pass.  (C13) *)
From Coq Require Import NArith List Bool Lia.
From Kd Require Import theories.Pairing theories.PairingProofs.
Import ListNotations.
Open Scope N_scope.

Section PF.
  Variable dom : N -> bool.
  Variable dec : N -> bool.
  Variable allow : N -> bool.                      (* on the event code *)
  Definition P (e : pev) : bool := allow (p_code e).

  Lemma P_key k e : keyb k (kof e) = true -> P e = allow (snd k).
  Proof. intros H. apply keyb_eq in H. subst k. reflexivity. Qed.

  Lemma is_open_filterP hr k : allow (snd k) = true -> is_open (filter P hr) k = is_open hr k.
  Proof.
    intros A. induction hr as [|e r IH]; cbn [filter is_open]; auto.
    destruct (P e) eqn:Pe; cbn [is_open]; rewrite IH; auto.
    (* a dropped event is not of key k *)
    assert (K : keyb k (kof e) = false).
    { destruct (keyb k (kof e)) eqn:K; auto. rewrite (P_key k e K), A in Pe. discriminate. }
    unfold isS, isE. rewrite K. reflexivity.
  Qed.

  Lemma strayb_filterP hr e : P e = true -> strayb (filter P hr) e = strayb hr e.
  Proof. intros Pe. unfold strayb. destruct (p_q e); auto. now rewrite is_open_filterP. Qed.

  Theorem window_filterP hr k : allow (snd k) = true ->
    window dom (filter P hr) k = option_map (filter P) (window dom hr k).
  Proof.
    intros A. induction hr as [|e r IH]; cbn [filter Pairing.window option_map]; auto.
    destruct (P e) eqn:Pe.
    - cbn [Pairing.window]. destruct (isS k e) eqn:S.
      + cbn [option_map filter]. now rewrite Pe.
      + destruct (isE k e); [reflexivity|]. rewrite IH. destruct (window dom r k) as [w|]; cbn [option_map]; auto.
        rewrite strayb_filterP by exact Pe. f_equal.
        destruct (sideT dom k e && negb (strayb r e)); auto.
        rewrite filter_app. cbn [filter]. now rewrite Pe.
    - assert (K : keyb k (kof e) = false).
      { destruct (keyb k (kof e)) eqn:K; auto. rewrite (P_key k e K), A in Pe. discriminate. }
      unfold isS, isE. rewrite K. cbn [andb]. rewrite IH. destruct (window dom r k) as [w|]; cbn [option_map]; auto.
      f_equal. destruct (sideT dom k e && negb (strayb r e)); auto.
      rewrite filter_app. cbn [filter]. rewrite Pe. now rewrite app_nil_r.
  Qed.

  (* deliver looks at the head only, and the head of a window passes the filter when its key does *)
  Lemma deliver_filterP w : (exists s r, w = s :: r /\ P s = true) ->
    deliver dec (filter P w) = option_map (filter P) (deliver dec w).
  Proof.
    intros (s & r & -> & Ps). cbn [filter]. rewrite Ps. cbn [deliver]. destruct (dec (p_code s)); cbn [option_map filter]; auto.
    now rewrite Ps.
  Qed.

  Lemma spec_out_filterP hr e : P e = true ->
    spec_out dom dec (filter P hr) e = option_map (filter P) (spec_out dom dec hr e).
  Proof.
    intros Pe. unfold spec_out. assert (A : allow (snd (kof e)) = true) by exact Pe.
    destruct (p_q e).
    - rewrite is_open_filterP by exact A. destruct (is_open hr (kof e)); auto.
      rewrite <- (deliver_filterP [e]) by (exists e, []; auto). cbn [filter]. now rewrite Pe.
    - reflexivity.
    - rewrite window_filterP by exact A. destruct (window dom hr (kof e)) as [w|] eqn:W; cbn [option_map]; auto.
      rewrite <- deliver_filterP.
      + rewrite filter_app. cbn [filter]. now rewrite Pe.
      + apply window_char in W. destruct W as (b & s & a & _ & Hs & _ & ->).
        exists s, (collect dom (s :: rev b) (kof e) a ++ [e]). split; auto.
        unfold isS in Hs. apply andb_true_iff in Hs. destruct Hs as [Hk _]. rewrite (P_key _ _ Hk). exact A.
    - rewrite <- (deliver_filterP [e]) by (exists e, []; auto). cbn [filter]. now rewrite Pe.
  Qed.

  Definition pairs (hr h : list pev) : list (pev * option (list pev)) := combine h (spec_run dom dec hr h).
  Definition Pp (p : pev * option (list pev)) : bool := P (fst p).
  Definition restrict (p : pev * option (list pev)) : pev * option (list pev) := (fst p, option_map (filter P) (snd p)).

  (* the filtered run = the unfiltered run, restricted to the triggers that pass, each window restricted *)
  Theorem filtered_run h : forall hr,
    pairs (filter P hr) (filter P h) = map restrict (filter Pp (pairs hr h)).
  Proof.
    unfold pairs. induction h as [|e r IH]; intros hr; cbn [filter spec_run combine map]; auto.
    unfold Pp at 1. cbn [fst]. destruct (P e) eqn:Pe.
    - cbn [spec_run combine map filter]. unfold restrict at 1. cbn [fst snd]. rewrite spec_out_filterP by exact Pe.
      f_equal. specialize (IH (e :: hr)). cbn [filter] in IH. rewrite Pe in IH. exact IH.
    - specialize (IH (e :: hr)). cbn [filter] in IH. rewrite Pe in IH. exact IH.
  Qed.
End PF.

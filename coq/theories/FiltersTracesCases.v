(* FiltersTracesCases.v — executable correspondence for PyKdebugParser.traces() with filters (C13). *)
From Coq Require Import NArith List Bool.
From Kd Require Import theories.Base theories.Harness theories.Filters theories.Pairing theories.PairingFilter
  theories.PairingCases theories.FiltersTraces.
Import ListNotations.
Open Scope N_scope.

(* (code classification, (filter_tid, classes, subclasses), events, observed traces as (trigger-less) head index and
   last index of ktraces) *)
Definition ftcase := (pclasses * (option N * list N * list N) * list pin * list (N * N))%type.

Definition ftcheck (c : ftcase) : bool :=
  match c with
  | (cl, (ft, cs, ss), ins, obs) =>
    let dom c := fst (fst (pclass cl c)) in
    let dec c := snd (fst (pclass cl c)) in
    let cfg := mkCfg ft None cs ss in
    let out := traces_model dom dec cfg (mk_pevs 0 ins) in
    let summ := flat_map (fun p => match snd p with
                                   | Some (h :: r) => [(p_uid h, p_uid (last r h))]
                                   | _ => [] end) out in
    list_eqb (fun a b => N.eqb (fst a) (fst b) && N.eqb (snd a) (snd b)) summ obs
  end.

(* FormatLog.v — model of PyKdebugParser._format_log (log lines), of termcolor's colouring (SGR escape sequences
   around a text) and of "the text of a line" = the line with its SGR sequences removed.  (C14) *)
From Coq Require Import String NArith List Bool Lia.
From Kd Require Import theories.Base theories.Printers theories.Container theories.DecoderDSL theories.Format.
Import ListNotations.
Open Scope N_scope.

(* ---------------- termcolor.colored when colouring is on: ESC [ code m  text  ESC [ 0 m ---------------- *)
Definition sgr (code : str) : str := [27; 91] ++ code ++ [109].
Definition colored (code s : str) : str := sgr code ++ s ++ sgr (s2b "0").
Definition paint (color : bool) (code s : str) : str := if color then colored code s else s.
Definition GREEN := s2b "32". Definition MAGENTA := s2b "35". Definition WHITE := s2b "97".

(* _format_log: timestamp (text of unix_date, 27 wide), thread id, process column (only for records that name a
   process), message *)
Definition log_line (c : fcfg) (color : bool) (tb : tables) (tstext : str) (tid : N) (has_process : bool) (msg : str) : str :=
  col (show_timestamp c) (paint color GREEN (ljust 27 tstext))
  ++ col (show_tid c) (rjust 11 (dec tid) ++ s2b " ")
  ++ col (show_process c && has_process) (s2b " " ++ paint color MAGENTA (ljust 27 (format_process tb tid)) ++ s2b " ")
  ++ paint color WHITE msg.

(* ---------------- the text of a line: SGR sequences  ESC [ [0-9;]* m  removed (leftmost, like re.sub) ------------- *)
Definition is_param (b : N) : bool := ((48 <=? b) && (b <=? 57)) || (b =? 59).
Inductive sst := Nrm | Esc1 | Par (buf : str).
Definition flush (s : sst) : str := match s with Nrm => [] | Esc1 => [27] | Par buf => 27 :: 91 :: buf end.
Fixpoint strip (s : sst) (l : str) : str :=
  match l with
  | [] => flush s
  | b :: r =>
    match s with
    | Nrm => if b =? 27 then strip Esc1 r else b :: strip Nrm r
    | Esc1 => if b =? 91 then strip (Par []) r
              else 27 :: (if b =? 27 then strip Esc1 r else b :: strip Nrm r)
    | Par buf => if is_param b then strip (Par (buf ++ [b])) r
                 else if b =? 109 then strip Nrm r
                 else 27 :: 91 :: buf ++ (if b =? 27 then strip Esc1 r else b :: strip Nrm r)
    end
  end.
Definition strip_ansi (l : str) : str := strip Nrm l.

Definition noesc (s : str) : bool := forallb (fun b => negb (b =? 27)) s.

Lemma strip_plain s r : noesc s = true -> strip Nrm (s ++ r) = s ++ strip Nrm r.
Proof.
  induction s as [|b s IH]; cbn [app noesc forallb strip]; auto.
  intros H. apply andb_true_iff in H. destruct H as [Hb Hs]. apply negb_true_iff in Hb. rewrite Hb.
  f_equal. apply IH. exact Hs.
Qed.

Lemma strip_params code : forall buf r, forallb is_param code = true ->
  strip (Par buf) (code ++ 109 :: r) = strip Nrm r.
Proof.
  induction code as [|b code IH]; intros buf r H; cbn [app strip].
  - reflexivity.
  - cbn [forallb] in H. apply andb_true_iff in H. destruct H as [Hb Hc]. rewrite Hb. apply IH. exact Hc.
Qed.

Lemma strip_sgr code r : forallb is_param code = true -> strip Nrm (sgr code ++ r) = strip Nrm r.
Proof.
  intros H. unfold sgr. cbn [app strip]. change (27 =? 27) with true. cbn iota. change (91 =? 91) with true. cbn iota.
  rewrite <- app_assoc. cbn [app]. apply strip_params. exact H.
Qed.

Lemma strip_colored code s r : forallb is_param code = true -> noesc s = true ->
  strip Nrm (colored code s ++ r) = s ++ strip Nrm r.
Proof.
  intros Hc Hs. unfold colored. rewrite <- !app_assoc. rewrite strip_sgr by exact Hc.
  rewrite strip_plain by exact Hs. rewrite strip_sgr by reflexivity. reflexivity.
Qed.

Lemma strip_paint color code s r : forallb is_param code = true -> noesc s = true ->
  strip Nrm (paint color code s ++ r) = s ++ strip Nrm r.
Proof. intros Hc Hs. destruct color; cbn [paint]; [now apply strip_colored | now apply strip_plain]. Qed.

Lemma noesc_app a b : noesc (a ++ b) = noesc a && noesc b.
Proof. unfold noesc. apply forallb_app. Qed.
Lemma noesc_spaces n : noesc (spaces n) = true.
Proof. unfold spaces. induction n; cbn; auto. Qed.
Lemma noesc_ljust w s : noesc s = true -> noesc (ljust w s) = true.
Proof. intros H. unfold ljust. now rewrite noesc_app, H, noesc_spaces. Qed.
Lemma noesc_rjust w s : noesc s = true -> noesc (rjust w s) = true.
Proof. intros H. unfold rjust. now rewrite noesc_app, H, noesc_spaces. Qed.
Lemma noesc_dec n : noesc (dec n) = true.
Proof.
  unfold noesc. apply forallb_forall. intros c Hc.
  pose proof (digits_all 10 dec_digit ltac:(lia) n) as A. rewrite Forall_forall in A.
  destruct (A c Hc) as (d & Hd & ->). unfold dec_digit. apply negb_true_iff. apply N.eqb_neq. lia.
Qed.

(* colouring never changes the text of a log line: with its SGR sequences removed, the coloured line IS the plain
   line (for texts that do not themselves contain the escape byte) - for every switch setting *)
Lemma strip_self s : noesc s = true -> strip Nrm s = s.
Proof. intros Hs. rewrite <- (app_nil_r s) at 1. rewrite strip_plain by exact Hs. cbn. apply app_nil_r. Qed.

Lemma strip_msg msg : noesc msg = true -> strip Nrm (paint true WHITE msg) = msg.
Proof. intros H. rewrite <- (app_nil_r (paint true WHITE msg)), strip_paint by auto. cbn. apply app_nil_r. Qed.

Lemma strip_tail (p : bool) proc msg : noesc proc = true -> noesc msg = true ->
  strip Nrm (col p (s2b " " ++ paint true MAGENTA (ljust 27 proc) ++ s2b " ") ++ paint true WHITE msg)
  = col p (s2b " " ++ ljust 27 proc ++ s2b " ") ++ msg.
Proof.
  intros Hp Hm. destruct p; cbn [col app].
  - rewrite <- !app_assoc. rewrite (strip_plain (s2b " ")) by reflexivity. f_equal.
    rewrite strip_paint by (auto using noesc_ljust). f_equal.
    rewrite (strip_plain (s2b " ")) by reflexivity. f_equal. now apply strip_msg.
  - now apply strip_msg.
Qed.

Theorem log_colour_text c tb tstext tid hp msg :
  noesc tstext = true -> noesc (format_process tb tid) = true -> noesc msg = true ->
  strip_ansi (log_line c true tb tstext tid hp msg) = log_line c false tb tstext tid hp msg.
Proof.
  intros Ht Hp Hm. unfold strip_ansi, log_line. cbn [paint].
  assert (Htid : noesc (rjust 11 (dec tid) ++ s2b " ") = true) by (rewrite noesc_app, noesc_rjust; auto using noesc_dec).
  destruct (show_timestamp c); cbn [col app].
  - fold (paint true GREEN (ljust 27 tstext)). rewrite strip_paint by (auto using noesc_ljust). f_equal.
    destruct (show_tid c); cbn [col app].
    + rewrite strip_plain by exact Htid. f_equal. now apply strip_tail.
    + now apply strip_tail.
  - destruct (show_tid c); cbn [col app].
    + rewrite strip_plain by exact Htid. f_equal. now apply strip_tail.
    + now apply strip_tail.
Qed.

(* the plain line carries no SGR sequence: its text is itself *)
Theorem log_plain_text c tb tstext tid hp msg :
  noesc tstext = true -> noesc (format_process tb tid) = true -> noesc msg = true ->
  strip_ansi (log_line c false tb tstext tid hp msg) = log_line c false tb tstext tid hp msg.
Proof.
  intros Ht Hp Hm. unfold strip_ansi.
  assert (N : noesc (log_line c false tb tstext tid hp msg) = true).
  { pose proof (noesc_dec tid) as Hd. unfold log_line, paint. rewrite !noesc_app.
    destruct (show_timestamp c), (show_tid c), (show_process c && hp); cbn [col];
      rewrite ?noesc_app, ?noesc_ljust, ?noesc_rjust, ?noesc_dec, ?Hm by auto; reflexivity. }
  rewrite <- (app_nil_r (log_line _ _ _ _ _ _ _)) at 1. rewrite strip_plain by exact N. cbn. apply app_nil_r.
Qed.

(* columns compose: the coloured / plain log line is the concatenation of its enabled columns, each column's text
   independent of the switches *)
Theorem log_line_columns c color tb tstext tid hp msg :
  log_line c color tb tstext tid hp msg =
    col (show_timestamp c) (paint color GREEN (ljust 27 tstext))
    ++ col (show_tid c) (rjust 11 (dec tid) ++ s2b " ")
    ++ col (show_process c) (col hp (s2b " " ++ paint color MAGENTA (ljust 27 (format_process tb tid)) ++ s2b " "))
    ++ paint color WHITE msg.
Proof. unfold log_line. destruct (show_process c), hp; reflexivity. Qed.

(* the scanner really implements "remove every  ESC [ [0-9;]* m": unmatched escape bytes are kept *)
Example strip_examples :
  strip_ansi (s2b "a" ++ [27] ++ s2b "[1;32mb" ++ [27] ++ s2b "[0m") = s2b "ab" /\
  strip_ansi ([27] ++ s2b "[12x" ++ [27; 27] ++ s2b "[m" ++ [27] ++ s2b "[3") = [27] ++ s2b "[12x" ++ [27; 27] ++ s2b "[3".
Proof. split; vm_compute; reflexivity. Qed.

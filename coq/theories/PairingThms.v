(* PairingThms.v — the reader-facing consequences of the pairing invariant (C04). *)
From Coq Require Import NArith List Bool Lia.
From Kd Require Import theories.Pairing theories.PairingProofs.
Import ListNotations.
Open Scope N_scope.

Section T.
  Variable dom : N -> bool.
  Variable dec : N -> bool.

  Lemma window_head hr k w : window dom hr k = Some w ->
    exists s r, w = s :: r /\ kof s = k /\ p_q s = QS.
  Proof.
    intros W. apply window_char in W. destruct W as (b & s & a & _ & Hs & _ & ->).
    exists s, (collect dom (s :: rev b) k a). split; auto.
    unfold isS in Hs. apply andb_true_iff in Hs. destruct Hs as [K Q].
    apply keyb_eq in K. split; auto. destruct (p_q s); try discriminate; auto.
  Qed.

  (* state after ANY history: each table holds exactly the windows of its domain's open keys *)
  Theorem state_is_windows h : Inv dom (rev h) (fst (run dom dec pst0 h)).
  Proof.
    pose proof (run_inv dom dec h [] pst0 (Inv_init dom)) as H. now rewrite app_nil_r in H.
  Qed.

  Theorem outputs_are_spec h : run_opt dom dec pst0 h = spec_run dom dec [] h.
  Proof. apply run_opt_spec, Inv_init. Qed.

  Theorem end_trace hr st e w :
    Inv dom hr st -> p_q e = QE -> window dom hr (kof e) = Some w ->
    snd (feed dom dec st e) = if dec (p_code e) then Some (w ++ [e]) else None.
  Proof.
    intros I Q W. rewrite (feed_out dom dec hr st e I). unfold spec_out. rewrite Q, W.
    destruct (window_head hr (kof e) w W) as (s & r & -> & K & _).
    cbn [app deliver]. injection K as _ K. rewrite K. reflexivity.
  Qed.

  Theorem end_stray hr st e :
    Inv dom hr st -> p_q e = QE -> window dom hr (kof e) = None -> feed dom dec st e = (st, None).
  Proof.
    intros I Q W. apply (stray_end_noop dom dec hr); auto. now apply window_none_closed in W.
  Qed.

  Theorem start_no_trace hr st e : Inv dom hr st -> p_q e = QS -> snd (feed dom dec st e) = None.
  Proof. intros I Q. rewrite (feed_out dom dec hr st e I). unfold spec_out. now rewrite Q. Qed.

  Theorem all_trace hr st e :
    Inv dom hr st -> p_q e = QA -> snd (feed dom dec st e) = if dec (p_code e) then Some [e] else None.
  Proof. intros I Q. rewrite (feed_out dom dec hr st e I). unfold spec_out. now rewrite Q. Qed.

  Theorem none_trace hr st e :
    Inv dom hr st -> p_q e = QN ->
    snd (feed dom dec st e) =
      if is_open hr (kof e) then None                 (* continuation fragment of its own open window *)
      else if dec (p_code e) then Some [e] else None.
  Proof. intros I Q. rewrite (feed_out dom dec hr st e I). unfold spec_out. now rewrite Q. Qed.

  (* every member of a window: in the history, same thread, same pairing domain *)
  Theorem window_members hr k w x : window dom hr k = Some w -> In x w ->
    In x hr /\ p_tid x = fst k /\ dom (p_code x) = dom (snd k).
  Proof.
    intros W I. apply window_char in W. destruct W as (b & s & a & H & Hs & _ & ->).
    assert (Hin : forall y, In y (s :: a) -> In y hr).
    { intros y Hy. apply in_rev. rewrite H. apply in_or_app. right. exact Hy. }
    destruct I as [<-|I].
    - split; [apply Hin; left; auto|].
      unfold isS in Hs. apply andb_true_iff in Hs. destruct Hs as [K _]. apply keyb_eq in K. subst k. auto.
    - apply collect_In in I. destruct I as (I & T & D). split; [apply Hin; right; auto|]. auto.
  Qed.

  (* no record twice (records are told apart by position: NoDup of the history) *)
  Theorem window_nodup hr k w : NoDup hr -> window dom hr k = Some w -> NoDup w.
  Proof.
    intros N W. apply window_char in W. destruct W as (b & s & a & H & _ & _ & ->).
    apply NoDup_rev in N. rewrite H in N.
    assert (N2 : NoDup (s :: a)).
    { clear -N. induction b as [|y b IH]; cbn in N; auto. inversion N; auto. }
    inversion N2 as [|? ? Hs Na]; subst.
    pose proof (collect_subseq dom (s :: rev b) k a) as S.
    constructor.
    - intros I. apply Hs. eapply subseq_In; eauto.
    - eapply subseq_NoDup; eauto.
  Qed.

  Theorem end_trace_nodup hr k w e : NoDup (e :: hr) -> window dom hr k = Some w -> NoDup (w ++ [e]).
  Proof.
    intros N W. inversion N as [|? ? He Nh]; subst.
    pose proof (window_nodup hr k w Nh W) as Nw.
    assert (Hn : ~ In e w).
    { intros Hx. apply He. eapply window_members in W; eauto. tauto. }
    clear -Nw Hn. induction w as [|y w IH]; cbn [app].
    - constructor; [intros []|constructor].
    - inversion Nw as [|? ? Hy Nw']; subst. constructor.
      + rewrite in_app_iff. intros [I|[<-|[]]]; auto. apply Hn. left; auto.
      + apply IH; auto. intros I. apply Hn. right; auto.
  Qed.
End T.

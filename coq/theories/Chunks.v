(* Chunks.v — paths, global strings and thread names split over several records (C08).
   Spec side: the kernel's encoders (kdebug_lookup_gen_events, kernel_debug_string_internal,
   kernel_debug_string_simple).  Model side: TracesParser.vnode_generator / parse_vnode(s),
   handle_trace_string_global, handle_trace_string_threadname.  Round trip for texts of ANY length. *)
From Coq Require Import NArith Arith List Bool Lia.
From Kd Require Import theories.Base.
Import ListNotations.
Open Scope N_scope.

(* a record as the reassemblers see it: qualifier bits and the 32 data bytes *)
Record crec := mkC { c_q : N; c_data : list N }.
Definition has_start (r : crec) : bool := N.testbit (c_q r) 0.
Definition has_end (r : crec) : bool := N.testbit (c_q r) 1.

Definition nonul (b : N) : bool := negb (N.eqb b 0).
Definition strip_nul (l : list N) : list N := filter nonul l.

(* ---------------- model: vnode_generator ---------------- *)
Fixpoint vnode_gen (path : list N) (vid : N) (evs : list crec) : list (N * list N) :=
  match evs with
  | [] => []
  | e :: r =>
    let vid' := if has_start e then le (firstn 8 (c_data e)) else vid in
    let path' := path ++ (if has_start e then skipn 8 (c_data e) else c_data e) in
    if has_end e then (vid', strip_nul path') :: vnode_gen [] 0 r else vnode_gen path' vid' r
  end.
Definition vnode_generator (evs : list crec) := vnode_gen [] 0 evs.

(* handle_trace_string_global: (debugid, str_id, text); consumes records up to the first END-qualified one *)
Fixpoint gstring_go (dbg sid : N) (s : list N) (evs : list crec) : N * N * list N :=
  match evs with
  | [] => (dbg, sid, strip_nul s)
  | e :: r =>
    let dbg' := if has_start e then le (slice (c_data e) 0 8) else dbg in
    let sid' := if has_start e then le (slice (c_data e) 8 8) else sid in
    let s' := s ++ (if has_start e then skipn 16 (c_data e) else c_data e) in
    if has_end e then (dbg', sid', strip_nul s') else gstring_go dbg' sid' s' r
  end.
Definition global_string (evs : list crec) := gstring_go 0 0 [] evs.

(* handle_trace_string_threadname: b''.join(e.data for e in events) without NULs *)
Definition thread_name (evs : list crec) : list N := strip_nul (flat_map c_data evs).

(* ---------------- spec: the kernel's encoders ---------------- *)
Definition padn (n : nat) (l : list N) : list N := l ++ zeros (n - length l).

(* split into 32-byte pieces, the last one zero padded *)
Fixpoint pieces (fuel : nat) (l : list N) : list (list N) :=
  match fuel with
  | O => []
  | S f => match l with [] => [] | _ => padn 32 (firstn 32 l) :: pieces f (skipn 32 l) end
  end.

(* first record START, last END, the ones in between unqualified; a single record START|END *)
Definition frame (d1 : list N) (rest : list (list N)) : list crec :=
  match rest with
  | [] => [mkC 3 d1]
  | _ => mkC 1 d1 :: map (mkC 0) (removelast rest) ++ [mkC 2 (last rest [])]
  end.

Definition enc_lookup (vid : N) (text : list N) : list crec :=
  frame (enc 8 vid ++ padn 24 (firstn 24 text)) (pieces (length text) (skipn 24 text)).
Definition enc_gstring (dbg sid : N) (text : list N) : list crec :=
  frame (enc 8 dbg ++ enc 8 sid ++ padn 16 (firstn 16 text)) (pieces (length text) (skipn 16 text)).
Definition enc_name (text : list N) : list crec :=
  frame (padn 32 (firstn 32 text)) (pieces (length text) (skipn 32 text)).

(* ---------------- lemmas ---------------- *)
Definition clean (l : list N) : Prop := forallb nonul l = true.

Lemma strip_app a b : strip_nul (a ++ b) = strip_nul a ++ strip_nul b.
Proof. apply filter_app. Qed.
Lemma strip_zeros n : strip_nul (zeros n) = [].
Proof. unfold zeros. induction n; cbn; auto. Qed.
Lemma strip_clean l : clean l -> strip_nul l = l.
Proof.
  unfold clean, strip_nul. induction l as [|b l IH]; cbn; auto. intros H. apply andb_true_iff in H. destruct H as [Hb H].
  rewrite Hb. f_equal. auto.
Qed.
Lemma strip_padn n l : clean l -> strip_nul (padn n l) = l.
Proof. intros C. unfold padn. rewrite strip_app, strip_zeros, app_nil_r. now apply strip_clean. Qed.
Lemma clean_firstn n l : clean l -> clean (firstn n l).
Proof.
  unfold clean. revert n; induction l as [|b l IH]; intros [|n]; cbn; auto. intros H. apply andb_true_iff in H.
  destruct H as [-> H]. cbn. auto.
Qed.
Lemma clean_skipn n l : clean l -> clean (skipn n l).
Proof.
  unfold clean. revert n; induction l as [|b l IH]; intros [|n]; cbn; auto. intros H. apply andb_true_iff in H.
  destruct H as [_ H]. auto.
Qed.

Lemma strip_pieces fuel : forall l, clean l -> (length l <= fuel)%nat -> strip_nul (concat (pieces fuel l)) = l.
Proof.
  induction fuel as [|f IH]; intros l C L.
  - destruct l; [reflexivity|cbn in L; lia].
  - cbn [pieces]. destruct l as [|b l'] eqn:E; [reflexivity|]. rewrite <- E in *.
    cbn [concat]. rewrite strip_app, strip_padn by now apply clean_firstn.
    rewrite IH; [apply firstn_skipn|now apply clean_skipn|]. rewrite skipn_length. subst l. cbn [length] in *. lia.
Qed.

Lemma removelast_last {A} (l : list A) d : l <> [] -> removelast l ++ [last l d] = l.
Proof. intros H. symmetry. now apply app_removelast_last. Qed.

Lemma concat_removelast (l : list (list N)) : l <> [] -> concat (removelast l) ++ last l [] = concat l.
Proof.
  intros H. rewrite <- (removelast_last l [] H) at 3. rewrite concat_app. cbn [concat]. now rewrite app_nil_r.
Qed.

Lemma vnode_mids mids : forall path vid dl,
  vnode_gen path vid (map (mkC 0) mids ++ [mkC 2 dl]) = [(vid, strip_nul (path ++ concat mids ++ dl))].
Proof.
  induction mids as [|m r IH]; intros path vid dl; cbn [map app vnode_gen concat].
  - reflexivity.
  - change (has_start (mkC 0 m)) with false. change (has_end (mkC 0 m)) with false. cbv iota.
    rewrite IH, <- !app_assoc. reflexivity.
Qed.

Lemma le_enc8 v : v < 2 ^ 64 -> le (enc 8 v) = v.
Proof. intros H. apply le_enc. exact H. Qed.

(* ---------------- round trips ---------------- *)
Theorem lookup_roundtrip vid text : vid < 2 ^ 64 -> clean text ->
  vnode_generator (enc_lookup vid text) = [(vid, text)].
Proof.
  intros Hv C. unfold vnode_generator, enc_lookup, frame.
  set (d1 := enc 8 vid ++ padn 24 (firstn 24 text)).
  assert (F8 : firstn 8 d1 = enc 8 vid).
  { unfold d1. rewrite <- (enc_length 8 vid) at 1. apply firstn_app_exact. }
  assert (S8 : skipn 8 d1 = padn 24 (firstn 24 text)).
  { unfold d1. rewrite <- (enc_length 8 vid) at 1. apply skipn_app_exact. }
  destruct (pieces (length text) (skipn 24 text)) as [|p ps] eqn:P.
  - cbn [vnode_gen]. change (has_start (mkC 3 d1)) with true. change (has_end (mkC 3 d1)) with true. cbv iota.
    cbn [c_data app]. rewrite F8, S8, le_enc8, strip_padn by (auto; now apply clean_firstn).
    assert (E : skipn 24 text = []).
    { destruct (skipn 24 text) as [|b r] eqn:K; auto. exfalso.
      destruct (length text) eqn:L; [destruct text; [discriminate|cbn in L; lia]|]. cbn in P. discriminate. }
    rewrite <- (firstn_skipn 24 text) at 2. rewrite E, app_nil_r. reflexivity.
  - cbn [vnode_gen]. change (has_start (mkC 1 d1)) with true. change (has_end (mkC 1 d1)) with false. cbv iota.
    cbn [c_data app]. rewrite F8, S8, le_enc8 by auto.
    rewrite vnode_mids. rewrite concat_removelast by discriminate. rewrite <- P.
    rewrite strip_app, strip_padn by now apply clean_firstn.
    rewrite strip_pieces; [|now apply clean_skipn|rewrite skipn_length; lia].
    now rewrite firstn_skipn.
Qed.

Lemma gstring_mids mids : forall dbg sid s dl,
  gstring_go dbg sid s (map (mkC 0) mids ++ [mkC 2 dl]) = (dbg, sid, strip_nul (s ++ concat mids ++ dl)).
Proof.
  induction mids as [|m r IH]; intros dbg sid s dl; cbn [map app gstring_go concat].
  - reflexivity.
  - change (has_start (mkC 0 m)) with false. change (has_end (mkC 0 m)) with false. cbv iota.
    rewrite IH, <- !app_assoc. reflexivity.
Qed.

Theorem gstring_roundtrip dbg sid text : dbg < 2 ^ 64 -> sid < 2 ^ 64 -> clean text ->
  global_string (enc_gstring dbg sid text) = (dbg, sid, text).
Proof.
  intros Hd Hs C. unfold global_string, enc_gstring, frame.
  set (d1 := enc 8 dbg ++ enc 8 sid ++ padn 16 (firstn 16 text)).
  assert (A0 : slice d1 0 8 = enc 8 dbg).
  { unfold d1, slice. cbn [skipn]. rewrite <- (enc_length 8 dbg) at 1. apply firstn_app_exact. }
  assert (A8 : slice d1 8 8 = enc 8 sid).
  { assert (K : skipn 8 d1 = enc 8 sid ++ padn 16 (firstn 16 text))
      by (unfold d1; rewrite <- (enc_length 8 dbg) at 1; apply skipn_app_exact).
    unfold slice. rewrite K. rewrite <- (enc_length 8 sid) at 1. apply firstn_app_exact. }
  assert (S16 : skipn 16 d1 = padn 16 (firstn 16 text)).
  { unfold d1. rewrite app_assoc.
    replace 16%nat with (length (enc 8 dbg ++ enc 8 sid)) at 1 by (rewrite app_length, !enc_length; reflexivity).
    apply skipn_app_exact. }
  destruct (pieces (length text) (skipn 16 text)) as [|p ps] eqn:P.
  - cbn [gstring_go]. change (has_start (mkC 3 d1)) with true. change (has_end (mkC 3 d1)) with true. cbv iota.
    cbn [c_data app]. rewrite A0, A8, S16, !le_enc8, strip_padn by (auto; now apply clean_firstn).
    assert (E : skipn 16 text = []).
    { destruct (skipn 16 text) as [|b r] eqn:K; auto. exfalso.
      destruct (length text) eqn:L; [destruct text; [discriminate|cbn in L; lia]|]. cbn in P. discriminate. }
    rewrite <- (firstn_skipn 16 text) at 2. rewrite E, app_nil_r. reflexivity.
  - cbn [gstring_go]. change (has_start (mkC 1 d1)) with true. change (has_end (mkC 1 d1)) with false. cbv iota.
    cbn [c_data app]. rewrite A0, A8, S16, !le_enc8 by auto.
    rewrite gstring_mids. rewrite concat_removelast by discriminate. rewrite <- P.
    rewrite strip_app, strip_padn by now apply clean_firstn.
    rewrite strip_pieces; [|now apply clean_skipn|rewrite skipn_length; lia].
    now rewrite firstn_skipn.
Qed.

Theorem name_roundtrip text : clean text -> thread_name (enc_name text) = text.
Proof.
  intros C. unfold thread_name, enc_name, frame.
  destruct (pieces (length text) (skipn 32 text)) as [|p ps] eqn:P.
  - cbn [flat_map c_data]. rewrite app_nil_r, strip_padn by now apply clean_firstn.
    assert (E : skipn 32 text = []).
    { destruct (skipn 32 text) as [|b r] eqn:K; auto. exfalso.
      destruct (length text) eqn:L; [destruct text; [discriminate|cbn in L; lia]|]. cbn in P. discriminate. }
    rewrite <- (firstn_skipn 32 text) at 2. rewrite E, app_nil_r. reflexivity.
  - cbn [flat_map c_data]. rewrite flat_map_app. cbn [flat_map c_data]. rewrite app_nil_r.
    assert (M : forall l, flat_map c_data (map (mkC 0) l) = concat l).
    { induction l as [|x r IH]; cbn; auto. now rewrite IH. }
    rewrite M, !strip_app, strip_padn by now apply clean_firstn.
    rewrite <- strip_app. rewrite concat_removelast by discriminate. rewrite <- P.
    rewrite strip_pieces; [|now apply clean_skipn|rewrite skipn_length; lia].
    now rewrite firstn_skipn.
Qed.

(* the records of one path: how many, and their qualifiers *)
Theorem lookup_record_count vid text :
  length (enc_lookup vid text) = S (length (pieces (length text) (skipn 24 text))).
Proof.
  unfold enc_lookup, frame. destruct (pieces _ _) as [|p ps] eqn:P; [reflexivity|].
  cbn [length]. rewrite app_length, map_length. cbn [length].
  assert (L : length (removelast (p :: ps)) = length ps).
  { clear. revert p; induction ps as [|q r IH]; intros p; [reflexivity|]. cbn [removelast length] in *. now rewrite IH. }
  rewrite L. lia.
Qed.

(* Flags.v — what the list serializers of the token language show, for EVERY word (C11). *)
From Coq Require Import String ZArith NArith List Bool Lia.
From Kd Require Import theories.Base theories.Bits theories.Printers theories.DecoderDSL.
Import ListNotations.
Open Scope N_scope.

Section F.
  Variable enums : enum_tbl.
  Notation iterm := (iter_members enums).
  Notation anyb := (anybit enums).

  (* [m for m in E if m.value & w]: exactly the iterated members that share a set bit with w, in iteration
     (= declaration) order, each at most as often as it is iterated *)
  Theorem anybit_spec e w : anyb e w = map fst (filter (fun m => hasbit (snd m) w) (iterm e)).
  Proof. reflexivity. Qed.

  Theorem anybit_sound e w n : In n (anyb e w) ->
    exists v, In (n, v) (iterm e) /\ Z.land v (Z.of_N w) <> 0%Z.
  Proof.
    unfold anybit. rewrite in_map_iff. intros ([n' v] & <- & Hf). apply filter_In in Hf. destruct Hf as [Hi Hb].
    exists v. split; auto. unfold hasbit in Hb. apply negb_true_iff in Hb. now apply Z.eqb_neq in Hb.
  Qed.

  Theorem anybit_complete e w n v : In (n, v) (iterm e) -> Z.land v (Z.of_N w) <> 0%Z -> In n (anyb e w).
  Proof.
    intros Hi Hb. unfold anybit. apply in_map_iff. exists (n, v). split; auto. apply filter_In. split; auto.
    unfold hasbit. apply negb_true_iff. now apply Z.eqb_neq.
  Qed.

  (* a single-bit member is shown iff its bit is set *)
  Theorem anybit_single_bit e w n k : In (n, (2 ^ Z.of_nat k)%Z) (iterm e) ->
    Z.testbit (Z.of_N w) (Z.of_nat k) = true -> In n (anyb e w).
  Proof.
    intros Hi Hb. eapply anybit_complete; eauto. intros Z0.
    assert (T : Z.testbit (Z.land (2 ^ Z.of_nat k) (Z.of_N w)) (Z.of_nat k) = true).
    { rewrite Z.land_spec, Z.pow2_bits_true by lia. exact Hb. }
    rewrite Z0 in T. now rewrite Z.bits_0 in T.
  Qed.

  (* no name twice when the enum's names are distinct; order = declaration order *)
  Lemma dedup_sub seen ms x : In x (dedup_vals seen ms) -> In x ms.
  Proof.
    revert seen; induction ms as [|[n v] r IH]; intros seen; cbn [dedup_vals]; [tauto|].
    destruct (existsb (Z.eqb v) seen); [right; eauto|]. intros [<-|H]; [left; auto|right; eauto].
  Qed.
  Lemma dedup_nodup_names seen ms : NoDup (map fst ms) -> NoDup (map fst (dedup_vals seen ms)).
  Proof.
    revert seen; induction ms as [|[n v] r IH]; intros seen N; cbn [dedup_vals map]; [constructor|].
    cbn [map fst] in N. inversion N as [|? ? Hn N']; subst.
    destruct (existsb (Z.eqb v) seen); [now apply IH|].
    cbn [map fst]. constructor; [|now apply IH].
    intros I. apply Hn. apply in_map_iff in I. destruct I as (x & <- & Hx). apply dedup_sub in Hx. now apply in_map.
  Qed.
  Lemma nodup_map_filter {A B} (f : A -> B) (p : A -> bool) l : NoDup (map f l) -> NoDup (map f (filter p l)).
  Proof.
    induction l as [|x l IH]; cbn; auto. intros N. inversion N as [|? ? Hn N']; subst.
    destruct (p x); cbn; auto. constructor; auto. intros I. apply Hn.
    apply in_map_iff in I. destruct I as (y & <- & Hy). apply filter_In in Hy. apply in_map. tauto.
  Qed.

  Theorem anybit_nodup e w : NoDup (map fst (members enums e)) -> NoDup (anyb e w).
  Proof.
    intros N. unfold anybit, iter_members, members in *.
    destruct (enum_entry enums e) as [[k ms]|]; [|constructor].
    apply nodup_map_filter. destruct (is_flag_kind k); [apply nodup_map_filter|]; now apply dedup_nodup_names.
  Qed.

  (* ---------------- packed fields ---------------- *)
  Variable X : rctx.
  (* file mode: a member that overlaps the S_IFMT mask is a file TYPE (multi-bit field): shown iff the field equals
     its value; every other member is a permission BIT: shown iff set *)
  Theorem stat_shown mask s n v : In (n, v) (members enums "StatFlags") ->
    (if hasbit v mask then Z.eqb (Z.of_N (N.land (sval X s) mask)) v else hasbit v (sval X s)) = true ->
    In (canon enums "StatFlags" n) (lnames enums X (LStatFlags mask s)).
  Proof.
    intros Hi Hc. cbn [lnames]. apply in_map_iff. exists (n, v). split; auto. apply filter_In. split; auto.
  Qed.
  Theorem stat_shown_only mask s x : In x (lnames enums X (LStatFlags mask s)) ->
    exists n v, In (n, v) (members enums "StatFlags") /\ x = canon enums "StatFlags" n /\
      (if hasbit v mask then Z.of_N (N.land (sval X s) mask) = v else Z.land v (Z.of_N (sval X s)) <> 0%Z).
  Proof.
    cbn [lnames]. rewrite in_map_iff. intros ([n v] & <- & Hf). apply filter_In in Hf. destruct Hf as [Hi Hc].
    exists n, v. split; auto. split; auto. cbn [snd] in Hc. destruct (hasbit v mask).
    - now apply Z.eqb_eq.
    - unfold hasbit in Hc. apply negb_true_iff in Hc. now apply Z.eqb_neq.
  Qed.
  (* hence at most one file type is shown: the one whose value is the field's value *)
  Corollary stat_one_type mask s n1 v1 n2 v2 :
    In (n1, v1) (members enums "StatFlags") -> In (n2, v2) (members enums "StatFlags") ->
    hasbit v1 mask = true -> hasbit v2 mask = true ->
    Z.eqb (Z.of_N (N.land (sval X s) mask)) v1 = true -> Z.eqb (Z.of_N (N.land (sval X s) mask)) v2 = true -> v1 = v2.
  Proof. intros _ _ _ _ E1 E2. apply Z.eqb_eq in E1, E2. congruence. Qed.

  (* open flags: exactly one access-mode name (the first of `acc` whose bit is set, else the default), then the
     other flags whose bit is set, in the order of `rest` *)
  Theorem open_flags_shape acc d rest s :
    lnames enums X (LOpenFlags acc d rest s) =
      (match filter (fun m => hasbit (member_val enums "BscOpenFlags" m) (sval X s)) acc with
       | m :: _ => [canon enums "BscOpenFlags" m] | [] => [canon enums "BscOpenFlags" d] end)
      ++ map (canon enums "BscOpenFlags") (filter (fun m => hasbit (member_val enums "BscOpenFlags" m) (sval X s)) rest).
  Proof. reflexivity. Qed.

  (* ---------------- ioctl request words: exact inverse of Darwin's _IOC packing ---------------- *)
  (* _IOC(inout, group, num, len) = inout | ((len & IOCPARM_MASK) << 16) | (group << 8) | num; the fields are
     disjoint, so the word is their sum *)
  Definition IOC (dir g n len : N) : N := dir + len * 2 ^ 16 + g * 2 ^ 8 + n.

  Lemma land_high w k : w < 2 ^ 32 -> k <= 32 ->
    N.land w (N.ldiff (N.ones 32) (N.ones k)) = N.shiftl (N.shiftr w k) k.
  Proof.
    intros Hw Hk. rewrite <- N.ldiff_ones_r. apply N.bits_inj; intro i. rewrite N.land_spec, !N.ldiff_spec.
    destruct (N.ltb_spec i 32).
    - rewrite (N.ones_spec_low 32) by lia. now rewrite andb_true_l.
    - rewrite (Bits.bits_above 32 w Hw i) by lia. reflexivity.
  Qed.
End F.

Ltac Zify.zify_post_hook ::= Z.to_euclidean_division_equations.

Theorem ioc_inverse dir g n len :
  (dir = 0x20000000 \/ dir = 0x40000000 \/ dir = 0x80000000 \/ dir = 0xc0000000) ->
  g < 256 -> n < 256 -> len < 2 ^ 13 ->
  let w := IOC dir g n len in
  N.land w 0xe0000000 = dir /\ N.land (N.shiftr w 8) 255 = g /\ N.land w 255 = n /\
  N.land (N.shiftr w 16) 8191 = len /\ w < 2 ^ 32.
Proof.
  intros Hd Hg Hn Hl. cbv zeta. unfold IOC.
  change (2 ^ 16) with 65536. change (2 ^ 8) with 256. change (2 ^ 13) with 8192 in Hl.
  set (w := dir + len * 65536 + g * 256 + n).
  assert (W : w < 2 ^ 32) by (unfold w; change (2 ^ 32) with 4294967296; lia).
  change 0xe0000000 with (N.ldiff (N.ones 32) (N.ones 29)).
  rewrite (land_high w 29 W) by lia.
  change 255 with (N.ones 8). change 8191 with (N.ones 13).
  rewrite !N.land_ones, !N.shiftr_div_pow2, N.shiftl_mul_pow2.
  change (2 ^ 29) with 536870912. change (2 ^ 8) with 256. change (2 ^ 16) with 65536. change (2 ^ 13) with 8192.
  change (2 ^ 32) with 4294967296 in *.
  unfold w in *. repeat split; try lia.
Qed.

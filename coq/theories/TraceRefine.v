(* TraceRefine.v — the table-writing statements tools/translate/tr_trace.py reads off trace.py / perf.py (gen/GenTrace.v) are
   the step of the hand model Format.apply_window, for every state and record; the decoders the translator found NOT to write
   the tables are the ones the model gives no writer kind.  (C14, C05, C13) *)
From Coq Require Import String NArith List Bool.
From Kd Require Import theories.Base theories.Printers theories.Container theories.DecoderDSL theories.Format theories.TraceIR gen.GenTrace.
Import ListNotations.
Open Scope N_scope.

Definition writer_ok (p : string * list wstmt) : Prop :=
  tk_of_name (fst p) <> 0 /\ forall st h, wexec st h (snd p) = model_step (tk_of_name (fst p)) st h.

Theorem writers_refine : Forall writer_ok gen_writers.
Proof.
  unfold gen_writers. repeat constructor; cbn [fst snd]; try discriminate;
    intros st h; unfold wexec, model_step, apply_window; cbn; try reflexivity;
    destruct st as [[tp pn] slots]; reflexivity.
Qed.

(* every writer kind of the model (other than the sampler composite, modelled by hand) has its statements in the source *)
Theorem writers_complete :
  map (fun p => tk_of_name (fst p)) gen_writers = [TK_DATA_NEW; TK_DATA_EXEC; TK_STR_NEW; TK_STR_EXEC; TK_TERM_PID; TK_THD_DATA].
Proof. reflexivity. Qed.

Theorem nonwriters_have_no_kind : forallb (fun n => N.eqb (tk_of_name n) 0) gen_nonwriters = true.
Proof. reflexivity. Qed.

(* the step does not depend on the rest of the window (these decoders read events[0] only), nor on the kinds of other ids *)
Theorem writer_reads_head_only (kind : N -> N) st h w :
  kind (e_eid h) <> TK_PERF_EVENT -> apply_window kind st (h :: w) = model_step (kind (e_eid h)) st h.
Proof.
  intros NP. unfold model_step, apply_window. destruct (N.eqb (kind (e_eid h)) TK_PERF_EVENT) eqn:E; [apply N.eqb_eq in E; contradiction|].
  reflexivity.
Qed.

(* together: decoding a window whose head is named n in the code table performs exactly the statements the source has for n *)
Corollary code_writes_are_model_writes (kind : N -> N) n prog st h w :
  In (n, prog) gen_writers -> kind (e_eid h) = tk_of_name n ->
  apply_window kind st (h :: w) = wexec st h prog.
Proof.
  intros I K. pose proof writers_refine as R. rewrite Forall_forall in R. destruct (R _ I) as [NZ EQ]. cbn [fst snd] in *.
  rewrite writer_reads_head_only.
  - rewrite K. symmetry. apply EQ.
  - rewrite K. clear -I. unfold gen_writers in I. cbn in I.
    repeat (destruct I as [I|I]; [injection I as <- _; discriminate|]). contradiction.
Qed.

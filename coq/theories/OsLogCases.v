(* OsLogCases.v — executable correspondence for OsLogEvent.from_raw_log_event (C16). *)
From Coq Require Import String NArith List Bool.
From Kd Require Import theories.Base theories.Harness theories.OsLogBase theories.OsLog gen.GenOsLog.
Import ListNotations.
Open Scope N_scope.

Fixpoint pv_eqb (a b : pv) : bool :=
  match a, b with
  | PInt x, PInt y => N.eqb x y
  | PStr x, PStr y => leqb x y
  | PBytes x, PBytes y => leqb x y
  | PBool x, PBool y => Bool.eqb x y
  | PNone, PNone => true
  | PList x, PList y =>
    (fix go (x y : list pv) : bool :=
       match x, y with
       | [], [] => true
       | a :: x', b :: y' => pv_eqb a b && go x' y'
       | _, _ => false
       end) x y
  | PDict x, PDict y =>
    (fix go (x y : list (string * pv)) : bool :=
       match x, y with
       | [], [] => true
       | (k1, a) :: x', (k2, b) :: y' => String.eqb k1 k2 && pv_eqb a b && go x' y'
       | _, _ => false
       end) x y
  | _, _ => false
  end.

Definition gen_from_raw (strings : list (N * list N)) (ev : dict) : ores dict :=
  from_raw strings gen_log_types gen_namespaces gen_pc_styles gen_type_enums gen_flag_enums
           gen_fields gen_mandatory gen_optional ev.

(* (log_strings, raw event, observed): observed = inl 1 KeyError | inl 2 ValueError | inl 3 TypeError | inr object *)
Definition ocase := (list (N * list N) * list (string * pv) * (N + list (string * pv)))%type.

Definition ocheck (c : ocase) : bool :=
  match c with
  | (strings, ev, obs) =>
    match gen_from_raw strings ev, obs with
    | OErr OKeyError, inl 1 => true
    | OErr OValueError, inl 2 => true
    | OErr OTypeError, inl 3 => true
    | OOk o, inr o' => pv_eqb (PDict o) (PDict o')
    | _, _ => false
    end
  end.

(* C17 — every registered decoder is reachable; X and X_nocancel decode alike.
   Tables regenerated on every run: the seven handlers dicts (gen/GenHandlers.v), the bundled code table
   (gen/GenCodes.v), the decoder rows (gen/GenDecoders.v). *)
From Coq Require Import String ZArith NArith List Bool.
From Kd Require Import theories.Base theories.Printers theories.DecoderDSL theories.DecoderDeps theories.DecoderProps
  gen.GenEnums gen.GenDecoders gen.GenHandlers gen.GenCodes.
Import ListNotations.
Open Scope N_scope.

Definition hkey (r : string * string * string * bool * string) : string := snd (fst (fst (fst r))).
Definition hfun (r : string * string * string * bool * string) : string := snd (fst (fst r)).
Definition hnc (r : string * string * string * bool * string) : bool := snd (fst r).

(* 1. reachable: every registered name occurs in the bundled code table under an id whose qualifier bits are clear *)
Theorem c17_reachable :
  forallb (fun r => existsb (fun ce => String.eqb (snd ce) (hkey r) && N.eqb (fst ce mod 4) 0) code_entries) handler_rows = true.
Proof. vm_compute. reflexivity. Qed.

(* 2. no two families claim the same name (so the merged dict does not depend on the update order) *)
Fixpoint nodupb (l : list string) : bool :=
  match l with [] => true | x :: r => negb (existsb (String.eqb x) r) && nodupb r end.
Theorem c17_disjoint : nodupb (map hkey handler_rows) = true.
Proof. vm_compute. reflexivity. Qed.

(* every registered decoder is either a generated row or one of the hand-modelled ones, and vice versa *)
Theorem c17_all_rows_accounted :
  forallb (fun r => existsb (fun d => String.eqb (d_key d) (hkey r)) gen_rows || existsb (String.eqb (hkey r)) gen_hand_modelled)
          handler_rows = true.
Proof. vm_compute. reflexivity. Qed.

(* 3. twins: whenever X_nocancel is registered, X is registered too, by the SAME handler function, the twin with
      no_cancel=True bound and the base without; their rows have identical tokens *)
Definition base_of (k : string) : string := strip_suffix 9 k.
Theorem c17_twins_registered :
  forallb (fun r => negb (ends_with "_nocancel" (hkey r)) ||
                    (hnc r && existsb (fun b => String.eqb (hkey b) (base_of (hkey r)) && String.eqb (hfun b) (hfun r) && negb (hnc b))
                                      handler_rows)) handler_rows = true /\
  forallb (fun r => negb (hnc r) || ends_with "_nocancel" (hkey r)) handler_rows = true.
Proof. vm_compute. split; reflexivity. Qed.

Definition toks_of (k : string) : option (list tok) := option_map d_toks (find (fun r => String.eqb (d_key r) k) gen_rows).
Theorem c17_twin_tokens :
  map (fun kc => toks_of (fst kc)) (filter (fun kc => ends_with "_nocancel" (fst kc)) gen_calls)
  = map (fun kc => toks_of (base_of (fst kc))) (filter (fun kc => ends_with "_nocancel" (fst kc)) gen_calls).
Proof. vm_compute. reflexivity. Qed.

Theorem c17_sweep_twin_shape :
  forallb (fun kc => negb (ends_with "_nocancel" (fst kc)) || twin_shape (snd kc)) gen_calls = true.
Proof. vm_compute. reflexivity. Qed.

(* ... hence, for ALL START/END tuples, lookups and hosts, the two renderings are identical except for the
   "_nocancel" inserted after the call name *)
Theorem c17_twin_rendering : forall key name params tail base H X,
  In (key, (name, params, tail)) gen_calls -> ends_with "_nocancel" key = true ->
  name = (base ++ [TIf CNoCancel [Lit "_nocancel"] []])%list ->
  let rest := ([Lit "("] ++ intersperse [Lit ", "] params ++ [Lit ")"] ++ tail)%list in
  render_toks gen_enums H (with_nocancel X false) (assemble (name, params, tail))
    = rapp (render_toks gen_enums H (with_nocancel X false) base) (render_toks gen_enums H (with_nocancel X false) rest) /\
  render_toks gen_enums H (with_nocancel X true) (assemble (name, params, tail))
    = rapp (rapp (render_toks gen_enums H (with_nocancel X false) base) (ROk (s2b "_nocancel")))
           (render_toks gen_enums H (with_nocancel X false) rest).
Proof.
  intros key name params tail base H X Hin He Hn.
  apply twin_rendering; auto.
  pose proof c17_sweep_twin_shape as S. rewrite forallb_forall in S. specialize (S _ Hin). cbn [fst snd] in S.
  rewrite He in S. exact S.
Qed.

Example c17_nontrivial :
  let H := mkHost (fun _ => None) (fun _ _ => None) (fun _ => 0) in
  let X := mkCtx [3; 0x1000; 16; 0] [0; 5; 0; 0] 7 7 [] [] (fun _ => None) false in
  let row k := match find (fun r => String.eqb (d_key r) k) gen_rows with Some r => r | None => mkRow "" "" "" false [] end in
  render_row gen_enums H X (row "BSC_read") = ROk (s2b "read(3, 0x1000, 16), count: 5") /\
  render_row gen_enums H X (row "BSC_read_nocancel") = ROk (s2b "read_nocancel(3, 0x1000, 16), count: 5").
Proof. vm_compute. split; reflexivity. Qed.

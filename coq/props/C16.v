(* C16 — log records decode for every combination of optional fields.
   Model: theories/OsLog.v gives the semantics; the key->field chain, the dataclass fields with defaults, the enums
   and the namespace->enum maps are GENERATED from os_log_event.py on every run (gen/GenOsLog.v).
   Tie: translator + string/field-exact correspondence of tools/props/C16.py. *)
From Coq Require Import String NArith List Bool Lia.
From Kd Require Import theories.Base theories.OsLogBase theories.OsLog theories.OsLogProofs gen.GenOsLog theories.OsLogCases.
Import ListNotations.
Open Scope N_scope.

Notation gconv s := (apply_conv s gen_log_types gen_namespaces gen_pc_styles gen_type_enums gen_flag_enums).

(* 1. TOTAL: every record that has the mandatory keys and ANY subset of the optional keys (all 2^31 subsets - by
      induction over the chain, not enumeration), each present value in range, decodes.  The two table conditions
      (every produced field is declared; every field without default is produced by the mandatory part) are
      re-evaluated on the regenerated tables: declaring no `transition_activity_identifier` breaks this proof. *)
Theorem c16_total : forall strings ev,
  mand_wf strings gen_log_types gen_namespaces gen_pc_styles gen_type_enums gen_flag_enums gen_mandatory ev ->
  opt_wf strings gen_log_types gen_namespaces gen_pc_styles gen_type_enums gen_flag_enums gen_optional ev ->
  exists o, gen_from_raw strings ev = OOk o.
Proof.
  intros strings ev Wm Wo. unfold gen_from_raw. apply from_raw_total; auto; vm_compute; reflexivity.
Qed.

(* 2. FIELDS: a present key's field holds its converted value, an absent optional key's field its declared
      default; mandatory fields as given *)
Theorem c16_fields : forall strings ev o, gen_from_raw strings ev = OOk o ->
  forall n d, In (n, d) gen_fields ->
  dlookup n o =
    match entry_for n gen_optional with
    | Some (k, c) =>
      match dlookup k ev with
      | Some v => match gconv strings c v with OOk x => Some x | OErr _ => d end
      | None => d
      end
    | None =>
      match entry_for n gen_mandatory with
      | Some (k, c) => match dlookup k ev with
                       | Some v => match gconv strings c v with OOk x => Some x | OErr _ => d end
                       | None => d end
      | None => d
      end
    end.
Proof.
  intros strings ev o H. unfold gen_from_raw in H. eapply from_raw_fields; eauto.
  - vm_compute. repeat (constructor; [intros HH; cbn in HH; repeat (destruct HH as [HH|HH]; [discriminate|]); exact HH|]). constructor.
  - vm_compute. repeat (constructor; [intros HH; cbn in HH; repeat (destruct HH as [HH|HH]; [discriminate|]); exact HH|]). constructor.
Qed.

(* strings go through the string index; message segments in order (omap = Python's list comprehension) *)
Theorem c16_string_index : forall strings i s, assocN i strings = Some s ->
  gconv strings CStr (PInt i) = OOk (PStr s).
Proof. intros strings i s H. cbn. now rewrite H. Qed.

(* 3. the timestamp: sec*10^6 + usec microseconds after the epoch (UTC) *)
Theorem c16_time : forall strings sec usec,
  gconv strings CUnixDate (PDict [("sec"%string, PInt sec); ("usec"%string, PInt usec)]) = OOk (PInt (sec * 1000000 + usec)).
Proof. reflexivity. Qed.

(* 4. the trace-identifier word is the exact inverse of its bit packing, for every namespace/type/flag value the
      format defines (enum membership side conditions are the generated tables) *)
Theorem c16_traceid : forall strings ns ty lo up pc aid fl code,
  ns < 256 -> ty < 256 -> lo < 2 -> up < 2 -> pc < 8 -> aid < 2 -> fl < 256 -> code < 2 ^ 32 ->
  memN ns gen_namespaces = true ->
  (match assocN ns gen_type_enums with Some e => fst e || memN ty (snd e) | None => true end) = true ->
  gconv strings CTraceId (PInt (pack_tid ns ty lo up pc aid fl code)) =
  OOk (PDict [("namespace"%string, PInt ns); ("type_"%string, PInt ty);
              ("has_large_offset"%string, PBool (N.eqb lo 1)); ("has_unique_pid"%string, PBool (N.eqb up 1));
              ("pc_style"%string, PInt pc); ("has_current_aid"%string, PBool (N.eqb aid 1));
              ("flags"%string, match assocN ns gen_flag_enums with Some _ => PInt fl | None => PNone end);
              ("code"%string, PInt code)]).
Proof.
  intros strings ns ty lo up pc aid fl code H1 H2 H3 H4 H5 H6 H7 H8 Hns Hty.
  destruct (unpack_pack ns ty lo up pc aid fl code H1 H2 H3 H4 H5 H6 H7 H8) as (W & E1 & E2 & E3 & E4 & E5 & E6 & E7 & E8).
  cbv zeta in *. cbn [apply_conv]. unfold parse_tid.
  replace (2 ^ 64 <=? pack_tid ns ty lo up pc aid fl code) with false by (symmetry; now apply N.leb_gt).
  rewrite E1, E2, E3, E4, E5, E6, E7, E8, Hns.
  assert (Pc : memN pc gen_pc_styles = true).
  { unfold memN, gen_pc_styles. apply existsb_exists. exists pc. split; [|apply N.eqb_refl].
    assert (pc = 0 \/ pc = 1 \/ pc = 2 \/ pc = 3 \/ pc = 4 \/ pc = 5 \/ pc = 6 \/ pc = 7) by lia.
    cbn. intuition. }
  rewrite Pc.
  assert (Ty : (match assocN ns gen_type_enums with Some e => enum_conv e ty | None => OOk (PInt ty) end) = OOk (PInt ty)).
  { destruct (assocN ns gen_type_enums) as [[fl0 ms]|]; auto. unfold enum_conv. cbn [fst snd] in *.
    destruct fl0; auto. cbn in Hty. now rewrite Hty. }
  rewrite Ty. cbn [obind].
  assert (Fl : (match assocN ns gen_flag_enums with Some e => enum_conv e fl | None => OOk PNone end)
               = OOk (match assocN ns gen_flag_enums with Some _ => PInt fl | None => PNone end)).
  { assert (A : forall e, In e (map snd gen_flag_enums) -> fst e = true) by (vm_compute; intuition; subst; reflexivity).
    destruct (assocN ns gen_flag_enums) as [e|] eqn:G; auto. unfold enum_conv.
    rewrite (A e); auto. clear -G. revert G. generalize gen_flag_enums. induction l as [|[k v] l IH]; cbn; [discriminate|].
    destruct (N.eqb k ns); [intros [= ->]; left; auto|intros H; right; auto]. }
  rewrite Fl. reflexivity.
Qed.

(* non-vacuity: the word of tests/test_os_log_event.py (namespace log, type info, pc_style main_exe, flags has_subsystem, code 0x1686d58) *)
Example c16_nontrivial :
  gconv [] CTraceId (PInt 101451216374071556) =
  OOk (PDict [("namespace"%string, PInt 4); ("type_"%string, PInt 1); ("has_large_offset"%string, PBool false);
              ("has_unique_pid"%string, PBool false); ("pc_style"%string, PInt 1); ("has_current_aid"%string, PBool false);
              ("flags"%string, PInt 2); ("code"%string, PInt 23620952)]).
Proof. vm_compute. reflexivity. Qed.

(* C09 — syscall arguments are rendered from the matching START argument, in order.
   The rows are GENERATED from trace_handlers/*.py on every run (gen/GenDecoders.v: the symbolic execution of each
   handler and of the __str__ of the dataclass it returns); DecoderDSL.render is their semantics, validated
   string-exactly against str(trace) for every row by tools/props/C09.py. *)
From Coq Require Import String ZArith NArith List Bool.
From Kd Require Import theories.Base theories.Printers theories.DecoderDSL theories.DecoderDeps theories.DecoderProps theories.DecoderWindow
  gen.GenEnums gen.GenDecoders.
Import ListNotations.
Open Scope N_scope.

(* every BSD syscall / Mach trap row IS the assembly name(p0, p1, ...)tail of its call structure *)
Theorem c09_call_structure :
  map (fun kc => option_map d_toks (find (fun r => String.eqb (d_key r) (fst kc)) gen_rows)) gen_calls
  = map (fun kc => Some (assemble (snd kc))) gen_calls.
Proof. vm_compute. reflexivity. Qed.

(* sweep over the regenerated table: in every one of the syscall/trap renderings, a numeric parameter at position k
   reads START word k and nothing else *)
Theorem c09_sweep_positional : forallb (fun kc => positional (snd kc)) gen_calls = true.
Proof. vm_compute. reflexivity. Qed.

(* lifted to ALL argument tuples, END records, lookups, parser tables and hosts *)
Theorem c09_position : forall key c k t s,
  In (key, c) gen_calls -> nth_error (snd (fst c)) k = Some [t] -> numeric_src t = Some s ->
  forall H H' X X', nth k (x_first X) 0 = nth k (x_first X') 0 ->
  render_tok gen_enums H X t = render_tok gen_enums H' X' t.
Proof.
  intros key c k t s Hin. apply positional_param_depends_on_word_k.
  pose proof c09_sweep_positional as S. rewrite forallb_forall in S. apply (S _ Hin).
Qed.

(* the value shown is the word itself, in decimal / hexadecimal / signed decimal - renderings that are injective,
   so "argument k and never another" is not vacuous *)
Theorem c09_shown_value : forall H X k,
  render_tok gen_enums H X (TDec (W EFirst k)) = ROk (dec (nth k (x_first X) 0)) /\
  render_tok gen_enums H X (THex (W EFirst k)) = ROk (hex (nth k (x_first X) 0)) /\
  (forall bits, render_tok gen_enums H X (TSDec bits (W EFirst k)) = ROk (decZ (to_signed bits (nth k (x_first X) 0)))).
Proof. intros. apply shown_value. Qed.
Theorem c09_injective : (forall a b, dec a = dec b -> a = b) /\ (forall a b, hex a = hex b -> a = b) /\
  (forall a b, decZ a = decZ b -> a = b) /\
  (forall a b, a < 2 ^ 64 -> b < 2 ^ 64 -> to_signed 64 a = to_signed 64 b -> a = b).
Proof.
  repeat split; [exact dec_inj|exact hex_inj|exact decZ_inj|].
  intros a b Ha Hb. apply to_signed_inj; auto. reflexivity.
Qed.

(* FAITHFUL: every numeric parameter shows the WHOLE START word k (decimal, hexadecimal or 64-bit signed), so the word
   can be read back from the text - except the typed narrowings listed here on the specification side
   (semaphore_timedwait_trap's `unsigned int sec`, shown modulo 2^32) *)
Definition typed_narrowings : list (string * list (nat * tok)) :=
  [("MSC_semaphore_timedwait_trap"%string, [(1%nat, TDec (SAnd (W EFirst 1) 4294967295))])].
Theorem c09_sweep_faithful :
  filter (fun x => negb (match snd x with [] => true | _ => false end)) (map (fun kc => (fst kc, lossy_params (snd kc))) gen_calls)
  = typed_narrowings.
Proof. vm_compute. reflexivity. Qed.
Theorem c09_faithful_injective : forall H X X' k t,
  faithful_tok k t = true -> nth k (x_first X) 0 < 2 ^ 64 -> nth k (x_first X') 0 < 2 ^ 64 ->
  render_tok gen_enums H X t = render_tok gen_enums H X' t -> nth k (x_first X) 0 = nth k (x_first X') 0.
Proof. intros. eapply faithful_injective; eauto. Qed.

(* the call part is a function of the START record and the nested lookups only: nothing of the END record *)
Theorem c09_sweep_call_free_of_end : forallb (fun kc => call_free_of_end (snd kc)) gen_calls = true.
Proof. vm_compute. reflexivity. Qed.
Theorem c09_call_part : forall key c H X X', In (key, c) gen_calls -> same_start X X' ->
  render_toks gen_enums H X (call_part c) = render_toks gen_enums H X' (call_part c).
Proof.
  intros key c H X X' Hin. apply call_part_ignores_end.
  pose proof c09_sweep_call_free_of_end as S. rewrite forallb_forall in S. apply (S _ Hin).
Qed.

(* whatever lies between START and END besides the lookups is not read: the call part comes from the FIRST record of the
   window (and the lookups), never from another event's words *)
Theorem c09_call_from_START_record : forall lk gstr nocancel enums h row s mid e,
  render_row enums h (ctx_of_window lk gstr nocancel (s :: mid ++ [e])) row
  = render_row enums h (ctx_of_window lk gstr nocancel (s :: filter (fun x => lk (w_code x)) mid ++ [e])) row.
Proof. intros. apply rendering_ignores_other_records. Qed.

Example c09_nontrivial :
  let X := mkCtx [3; 0x1000; 16; 99] [0; 16; 0; 0] 7 7 [] [] (fun _ => None) false in
  render_row gen_enums (mkHost (fun _ => None) (fun _ _ => None) (fun _ => 0)) X
             (match find (fun r => String.eqb (d_key r) "BSC_pread") gen_rows with Some r => r | None => mkRow "" "" "" false [] end)
  = ROk (s2b "pread(3, 0x1000, 16, 0x63), count: 16").
Proof. vm_compute. reflexivity. Qed.

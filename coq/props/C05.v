(* C05 — per-thread results are invariant under interleaving of threads.
   Model: theories/Pairing.v + theories/Learn.v; tie: correspondence of tools/props/C05.py. *)
From Coq Require Import NArith List Bool.
From Kd Require Import theories.Pairing theories.PairingProofs theories.PairingProj theories.Learn.
Import ListNotations.
Open Scope N_scope.

(* 1. what is reported for thread t (trigger, delivered window), in order, is what the machine reports
      when fed t's own records only *)
Theorem c05_projection : forall dom dec t (h : list pev),
  filter (onTp t) (run_pairs dom dec h) = run_pairs dom dec (filter (onT t) h).
Proof. exact run_pairs_proj. Qed.

(* 2. any two interleavings of the same per-thread programs agree thread by thread *)
Theorem c05_interleaving : forall dom dec h1 h2,
  (forall t, filter (onT t) h1 = filter (onT t) h2) ->
  forall t, filter (onTp t) (run_pairs dom dec h1) = filter (onTp t) (run_pairs dom dec h2).
Proof. exact interleaving_invariance. Qed.

(* 3. a delivered window holds records of the trigger's thread only (so "the traces of thread t" is
      well defined and their text, a function of the window for decoders that read no table written by
      other threads, is interleaving-invariant too) *)
Theorem c05_window_one_thread : forall dom dec hr e w x,
  spec_out dom dec hr e = Some w -> In x w -> p_tid x = p_tid e.
Proof. exact spec_out_tids. Qed.

(* 4. names learned from a thread's own new-thread/exec record pairs depend only on that thread *)
Theorem c05_names : forall dom dec kind_of pid_of name_of t (h : list pev),
  filter (tagT (N * list N) t) (learned dom dec kind_of pid_of name_of h)
  = learned dom dec kind_of pid_of name_of (filter (onT t) h).
Proof. exact learned_proj. Qed.
Theorem c05_names_interleaving : forall dom dec kind_of pid_of name_of h1 h2,
  (forall t, filter (onT t) h1 = filter (onT t) h2) ->
  forall t, filter (tagT (N * list N) t) (learned dom dec kind_of pid_of name_of h1)
          = filter (tagT (N * list N) t) (learned dom dec kind_of pid_of name_of h2).
Proof. exact learned_interleaving. Qed.

(* non-vacuity: A:DATA(pid 11) B:DATA(pid 22) A:STRING "a" B:STRING "b" - each name goes to its own pid *)
Example c05_nontrivial :
  let dom c := true in let dec c := true in
  let kind e := match p_code e with 1 => LDataNew | 3 => LStrNew | _ => LOther end in
  let pid e := p_uid e * 11 in let name e := [p_uid e] in
  let h := [mkPev 100 1 QN 1; mkPev 200 1 QN 2; mkPev 100 3 QN 3; mkPev 200 3 QN 4] in
  learned dom dec kind pid name h = [(100, (11, [3])); (200, (22, [4]))].
Proof. vm_compute. reflexivity. Qed.

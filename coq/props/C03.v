(* C03 — a version-3 dump yields all chunked events, then logs, plus metadata sections.
   Model: theories/Container.v (parse_v3: header, the two tag scans, thread-map chunk, chunk loop with MORE_EVENTS,
   seek(-8,1), tagged blocks) and theories/V3Meta.v (interpretation of the blocks, log phase over the C16 model).
   Tie: two-stage correspondence of tools/props/C03.py (container stage by checksummed summaries, interpretation stage
   value-exact), on dumps from a grammar.  plistlib.loads is a parameter. *)
From Coq Require Import String NArith Arith List Bool.
From Kd Require Import theories.Base theories.Kevent gen.GenKevent theories.Container theories.ContainerV2
  theories.ContainerV3 theories.ContainerV3RT theories.OsLogBase theories.OsLog theories.V3Meta gen.GenContainer theories.ContainerRefine.
Import ListNotations.
Open Scope N_scope.

(* 1. the tag scan stops right after the FIRST occurrence of the marker *)
Theorem c03_seek_first : forall pat pre rest, pat <> [] -> first_at_end pat pre ->
  seek_until pat (pre ++ pat ++ rest) = Ok rest.
Proof. exact seek_until_first. Qed.

(* 2. the whole dump: for EVERY chunking (any number of chunks, empty chunks included, any bytes between a
      MORE_EVENTS tag and the next events tag that do not contain that tag early), every thread map (with any
      trailing bytes that are not an entry), every stackshot filler / junk that does not contain its marker early,
      and every list of tagged blocks (the last one padded or not):
      the events are the decodings of ALL records of ALL chunks in file order, the thread map is the file's,
      the blocks are exactly the (tag, payload) pairs, and parsing ends normally *)
Theorem c03_whole_dump : forall plist_ok hdr60 pl skip4 filler junk threads trailing c cs lp blocks,
  length hdr60 = 60%nat -> lenN pl < 2 ^ 64 -> plist_ok pl = true -> length skip4 = 4%nat ->
  first_at_end STACKSHOT_END filler -> first_at_end THREADMAP_TAG junk ->
  Forall tm_ok threads -> (forall x r, tm_entry trailing <> Ok (x, r)) ->
  lenN (flat_map enc_tm threads ++ trailing) < 2 ^ 64 ->
  chunk_ok c -> Forall chunk_ok cs ->
  Forall block_ok blocks -> leqb (firstn 8 (enc_blocks lp blocks)) MORE_EVENTS = false ->
  parse_v3 plist_ok (enc_v3_body hdr60 pl skip4 filler junk threads trailing c cs lp blocks)
  = mkPout (Some threads) (map decode (concat (map c_recs (c :: cs)))) (Some blocks) None.
Proof. exact parse_v3_enc. Qed.

(* 3. in particular the reported events do not depend on how the records are split across chunks *)
Theorem c03_chunking_independent : forall plist_ok h p s f j t tr c1 cs1 c2 cs2 lp b,
  concat (map c_recs (c1 :: cs1)) = concat (map c_recs (c2 :: cs2)) ->
  length h = 60%nat -> lenN p < 2 ^ 64 -> plist_ok p = true -> length s = 4%nat ->
  first_at_end STACKSHOT_END f -> first_at_end THREADMAP_TAG j ->
  Forall tm_ok t -> (forall x r, tm_entry tr <> Ok (x, r)) -> lenN (flat_map enc_tm t ++ tr) < 2 ^ 64 ->
  chunk_ok c1 -> Forall chunk_ok cs1 -> chunk_ok c2 -> Forall chunk_ok cs2 ->
  Forall block_ok b -> leqb (firstn 8 (enc_blocks lp b)) MORE_EVENTS = false ->
  o_events (parse_v3 plist_ok (enc_v3_body h p s f j t tr c1 cs1 lp b))
  = o_events (parse_v3 plist_ok (enc_v3_body h p s f j t tr c2 cs2 lp b)).
Proof.
  intros. rewrite !parse_v3_enc by assumption. cbn [o_events]. congruence.
Qed.

(* 4. metadata: list-valued sections are the concatenation over their blocks in file order ... *)
Theorem c03_list_sections : forall loads bs s', minterp loads ms0 bs = OOk s' ->
  ms_kexts s' = flat_map (kext_of loads) bs /\ ms_codes s' = flat_map codes_of bs /\
  ms_logev s' = flat_map (logev_of loads) bs.
Proof. intros loads bs s' H. apply minterp_lists in H. exact H. Qed.

(* ... single-valued ones the payload of the last such block *)
Theorem c03_single_sections : forall loads bs s', minterp loads ms0 bs = OOk s' ->
  ms_processes s' = last_loaded loads TAG_PROCESSES bs (PDict []) /\
  ms_images s' = last_loaded loads TAG_IMAGES bs (PDict []).
Proof. intros loads bs s' H. apply minterp_single in H. exact H. Qed.

Example c03_nontrivial :
  let rec n := n :: repeat 0 63 in
  let c1 := mkChunk [] (zeros 8) [rec 1; rec 2] in
  let c2 := mkChunk [9; 0; 0x1e] (zeros 8) [] in
  let c3 := mkChunk [] (zeros 8) [rec 3] in
  let body := enc_v3_body (zeros 60) [1; 2; 3] (zeros 4) [115; 116] [0; 0x1d] [(7, 1, [97])] [1; 2; 3] c1 [c2; c3] false
                          [(TAG_TRACE_CODES, [48; 120])] in
  let o := parse_v3 (fun _ => true) body in
  map k_timestamp (o_events o) = [1; 2; 3] /\ o_threadmap o = Some [(7, 1, [97])] /\
  o_blocks o = Some [(TAG_TRACE_CODES, [48; 120])] /\ o_err o = None.
Proof. vm_compute. repeat split; reflexivity. Qed.

(* the markers and tags of the model are those of the code (regenerated from kd_buf_parser.py on every run) *)
Theorem c03_code_constants :
  gen_TRACEV3_STACKSHOT_END = STACKSHOT_END /\ gen_TRACEV3_THREADMAP_TAG = THREADMAP_TAG /\
  gen_TRACEV3_EVENTS_TAG = EVENTS_TAG /\ gen_TRACEV3_MORE_EVENTS = MORE_EVENTS /\
  gen_TRACEV3_DYLD_MODULES = TAG_DYLD_MODULES /\ gen_TRACEV3_TRACE_CODES = TAG_TRACE_CODES /\
  gen_TRACEV3_PROCESSES = TAG_PROCESSES /\ gen_TRACEV3_LOG_EVENTS = TAG_LOG_EVENTS /\
  gen_TRACEV3_LOG_STRINGS = TAG_LOG_STRINGS /\ gen_TRACEV3_KERNEL_EXTENSIONS = TAG_KERNEL_EXTENSIONS /\
  gen_TRACEV3_IMAGES = TAG_IMAGES.
Proof. exact constants_refine. Qed.

(* C07 — missing or unexpected context never aborts the trace stream.
   Generated rows (gen/GenDecoders.v) + DecoderSafe.v for the 454 table-like decoders; the hand models
   (Pairing.v, Learn.v, Composite.v) for the machine and the composite / trace-class decoders. *)
From Coq Require Import String ZArith NArith List Bool.
From Kd Require Import theories.Base theories.Printers theories.DecoderDSL theories.DecoderDeps theories.DecoderSafe
  theories.Pairing theories.PairingProofs theories.Learn theories.Composite gen.GenEnums gen.GenDecoders.
Import ListNotations.
Open Scope N_scope.

(* sweep over the regenerated rows: every indexed lookup is guarded by a length test, every errno-name lookup by a
   membership test *)
Theorem c07_sweep_safe : forallb (fun r => safe_toks facts0 (d_toks r)) gen_rows = true.
Proof. vm_compute. reflexivity. Qed.

(* hence: for EVERY decoder row, EVERY window context - no lookup at all, fewer lookups than the call has paths,
   string ids never announced, any table contents, any host - and every START/END words whose enum-typed fields are
   members of their enum, rendering succeeds *)
Theorem c07_row_total : forall r H X, In r gen_rows ->
  let X' := mkCtx (x_first X) (x_last X) (x_tid_first X) (x_tid_last X) (x_data_first X) (x_paths X) (x_gstr X) (d_nocancel r) in
  in_domain_toks gen_enums H X' (d_toks r) = true ->
  exists s, render_row gen_enums H X r = ROk s.
Proof.
  intros r H X Hin X' D. unfold render_row. fold X'. apply safe_render_toks; auto.
  pose proof c07_sweep_safe as S. rewrite forallb_forall in S. now apply S.
Qed.

(* a missing lookup shows as an empty field: the unguarded sources default to the empty path *)
Theorem c07_missing_lookup_is_empty : forall H X,
  x_paths X = [] ->
  render_tok gen_enums H X (TPath PFirst) = ROk [] /\ render_tok gen_enums H X (TPath PSecond) = ROk [] /\
  render_tok gen_enums H X (TIf (CPathsMore 0) [TPath (PNth 0)] []) = ROk [].
Proof. intros H X E. cbn. unfold path_of, paths. rewrite E. repeat split; reflexivity. Qed.

(* a string id never announced shows as the empty string *)
Theorem c07_unknown_string_is_empty : forall H X s, x_gstr X (sval X s) = None ->
  render_tok gen_enums H X (TGStr s) = ROk [].
Proof. intros H X s E. cbn. now rewrite E. Qed.

(* the pairing machine and the name learner are total functions of ANY history (repeated, nested, unmatched,
   interleaved records): their models are structurally recursive Gallina functions; a name string without its
   data record learns nothing instead of failing *)
Theorem c07_string_without_data : forall i, l_kind i = LStrNew \/ l_kind i = LStrExec ->
  lstep (None, None) i = ((None, None), []).
Proof. intros i [E|E]; unfold lstep; rewrite E; reflexivity. Qed.

(* the page-fault decoder omits pid / protection when the first nested real-fault record is of an undecoded kind, or
   when there is none: it fails only on a fault-type word outside its enum *)
Theorem c07_vmfault_total : forall rd ftok w,
  ftok (wval (last w (mkWev 0 [] 0 0)) 3) = true ->
  (forall r, In r w -> ftok (N.land (wval r 1) 0xff) = true) ->
  handle_vmfault rd ftok w <> None.
Proof.
  intros rd ftok w Hl Hr. unfold handle_vmfault.
  destruct (N.eqb _ 0); [|discriminate]. rewrite Hl.
  destruct (filter in_real_range (middle w)) as [|r rs] eqn:F; [discriminate|].
  destruct (rd (w_code r)); [|discriminate].
  assert (In r w).
  { assert (I : In r (filter in_real_range (middle w))) by (rewrite F; left; auto).
    apply filter_In in I. destruct I as [I _]. unfold middle in I.
    assert (G : forall (l : list wev) x, In x (removelast l) -> In x l).
    { induction l as [|a l IH]; cbn; auto. destruct l; [intros x []|]. intros x [<-|Hx]; auto. }
    apply G in I. destruct w; [destruct I|]. right; exact I. }
  rewrite (Hr r H). discriminate.
Qed.

Example c07_nontrivial :
  let H := mkHost (fun _ => None) (fun _ _ => None) (fun _ => 0) in
  let row k := match List.find (fun r => String.eqb (d_key r) k) gen_rows with Some r => r | None => mkRow "" "" "" false [] end in
  (* renameat with NO lookup in the window, and with exactly ONE *)
  render_row gen_enums H (mkCtx [3; 0; 4; 0] [2; 0; 0; 0] 7 7 [] [] (fun _ => None) false) (row "BSC_renameat")
    = ROk (s2b "renameat(3, """", 4, """"), errno: 2") /\
  render_row gen_enums H (mkCtx [3; 0; 4; 0] [0; 0; 0; 0] 7 7 [] [(9, s2b "/a")] (fun _ => None) false) (row "BSC_renameat")
    = ROk (s2b "renameat(3, ""/a"", 4, """")").
Proof. vm_compute. split; reflexivity. Qed.

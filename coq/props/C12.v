(* C12 — event filters select exactly the matching subsequence.
   Model: theories/Filters.v (hand model of PyKdebugParser.kevents / os_log_events / _is_eventid_allowed),
   tied to the code by the correspondence of tools/props/C12.py (real v2/v3 dumps through the real API). *)
From Coq Require Import NArith List Bool.
From Kd Require Import theories.Base theories.Printers theories.Filters theories.CliInt.
Import ListNotations.
Open Scope N_scope.

(* 1. the event listing is `filter` of the unfiltered listing by the stated predicate: order and
      multiplicity preserved, for every stream and every configuration (any tid option, any lists) *)
Theorem c12_events : forall cfg items, kevents cfg [] items = map Ev (filter (sat cfg) (evs items)).
Proof. exact kevents_spec. Qed.

(* `sat` spelled out: thread id equal to the requested one and, when class or subclass filters are given,
   top byte in the class list or top 16 bits in the subclass list *)
Theorem c12_sat_meaning : forall cfg e,
  sat cfg e = true <->
  (match c_tid cfg with None => True | Some t => f_tid e = t end) /\
  ((c_class cfg = [] /\ c_sub cfg = []) \/ In (f_eid e / 2 ^ 24) (c_class cfg) \/ In (f_eid e / 2 ^ 16) (c_sub cfg)).
Proof.
  intros cfg e. unfold sat, memN, tid_ok.
  rewrite andb_true_iff, !orb_true_iff, andb_true_iff, !negb_true_iff, !existsb_exists.
  assert (NE : forall l : list N, nonempty l = false <-> l = []) by (intros [|]; cbn; split; congruence).
  rewrite !NE.
  assert (M : forall x l, (exists y, In y l /\ N.eqb x y = true) <-> In x l).
  { intros x l; split; [intros (y & I & E); apply N.eqb_eq in E; subst; auto|intros I; exists x; split; auto; apply N.eqb_refl]. }
  rewrite !M. destruct (c_tid cfg); [rewrite N.eqb_eq|]; tauto.
Qed.

(* 2. separation *)
Theorem c12_no_logs_in_events : forall cfg helper items, forallb is_ev (kevents cfg helper items) = true.
Proof. exact kevents_no_logs. Qed.
Theorem c12_no_events_in_logs : forall cfg items, forallb is_log (os_log_events cfg items) = true.
Proof. exact os_log_events_no_events. Qed.

(* 3. the log listing honours the thread and process filters in the same exact-subsequence sense *)
Theorem c12_logs : forall cfg items, os_log_events cfg items = map Lg (filter (lsat cfg) (logs items)).
Proof. exact os_log_events_spec. Qed.

(* 4. the configurations the command line can name: its class / subclass filter options read their text as Python's
      int(text, 0) (model: CliInt.based_int) - every non-empty digit string after a base prefix, and every decimal
      string with a non-zero first digit, is accepted and denotes its positional value *)
Theorem c12_option_hex : forall l, l <> [] -> digit_str 16 l -> forall x, x = 120 \/ x = 88 ->
  magnitude (48 :: x :: l) = Some (valb 16 l 0).
Proof. exact magnitude_hex. Qed.
Theorem c12_option_oct : forall l, l <> [] -> digit_str 8 l -> forall x, x = 111 \/ x = 79 ->
  magnitude (48 :: x :: l) = Some (valb 8 l 0).
Proof. exact magnitude_oct. Qed.
Theorem c12_option_bin : forall l, l <> [] -> digit_str 2 l -> forall x, x = 98 \/ x = 66 ->
  magnitude (48 :: x :: l) = Some (valb 2 l 0).
Proof. exact magnitude_bin. Qed.
Theorem c12_option_dec : forall c l d, digit_val c = Some d -> 0 < d < 10 -> digit_str 10 l ->
  magnitude (c :: l) = Some (valb 10 l d).
Proof. exact magnitude_dec. Qed.

Example c12_nontrivial :
  let cfg := mkCfg (Some 7) None [4] [0x0301] in
  let items := [Ev (mkFev 7 0x040c000c 0); Lg (mkFlog 7 1 [] 1); Ev (mkFev 8 0x040c000c 2);
                Ev (mkFev 7 0x03010090 3); Ev (mkFev 7 0x01400000 4); Ev (mkFev 7 0x040c000c 5)] in
  map f_uid (filter (sat cfg) (evs items)) = [0; 3; 5].
Proof. vm_compute. reflexivity. Qed.

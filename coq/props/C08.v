(* C08 — paths and strings split over several records are reassembled exactly, once.
   Model: theories/Chunks.v (the kernel's encoders on the spec side; vnode_generator, handle_trace_string_global,
   handle_trace_string_threadname on the model side), ChunksPairing.v (through the pairing machine), the regenerated
   rows for the path arguments of the syscalls.  Tie: correspondence of tools/props/C08.py. *)
From Coq Require Import String ZArith NArith List Bool.
From Kd Require Import theories.Base theories.Printers theories.Chunks theories.ChunksWindow theories.Pairing theories.ChunksPairing theories.ChunksPairingWindow theories.ChunksEndToEnd
  theories.DecoderDSL theories.DecoderDeps theories.DecoderProps gen.GenEnums gen.GenDecoders.
Import ListNotations.
Open Scope N_scope.
Close Scope string_scope.

(* 1. round trips, for texts of ANY length (the kernel's limit of 184 bytes is not needed) *)
Theorem c08_lookup_roundtrip : forall vid text, vid < 2 ^ 64 -> clean text ->
  vnode_generator (enc_lookup vid text) = [(vid, text)].
Proof. exact lookup_roundtrip. Qed.
Theorem c08_string_roundtrip : forall dbg sid text, dbg < 2 ^ 64 -> sid < 2 ^ 64 -> clean text ->
  global_string (enc_gstring dbg sid text) = (dbg, sid, text).
Proof. exact gstring_roundtrip. Qed.
Theorem c08_threadname_roundtrip : forall text, clean text -> thread_name (enc_name text) = text.
Proof. exact name_roundtrip. Qed.

(* 1b. ... with ARBITRARY unrelated same-thread records between the chunks: the decoder receives the whole window (C04 puts every
       record of the thread and pairing domain there); whatever records of other event ids are merged, in whatever way, between the
       chunks after the START chunk, the string / name / path is the one the kernel split (the decoders read the records of their own
       id only - for lookups: the records the table names VFS_LOOKUP) *)
Theorem c08_string_with_unrelated : forall c dbg sid text first rest foreign w,
  dbg < 2 ^ 64 -> sid < 2 ^ 64 -> clean text -> enc_gstring dbg sid text = first :: rest ->
  merge (tag c rest) foreign w -> Forall (fun r => fst r <> c) foreign ->
  gstring_w ((c, first) :: w) = (dbg, sid, text).
Proof. exact gstring_with_unrelated. Qed.
Theorem c08_threadname_with_unrelated : forall c text first rest foreign w,
  clean text -> enc_name text = first :: rest ->
  merge (tag c rest) foreign w -> Forall (fun r => fst r <> c) foreign ->
  name_w ((c, first) :: w) = text.
Proof. exact name_with_unrelated. Qed.
Theorem c08_lookup_with_unrelated : forall (lk : N -> bool) c vid text foreign w,
  lk c = true -> vid < 2 ^ 64 -> clean text ->
  merge (tag c (enc_lookup vid text)) foreign w -> Forall (fun r => lk (fst r) = false) foreign ->
  vnodes_w lk w = [(vid, text)].
Proof. exact lookup_with_unrelated. Qed.

(* 2. exactly once: through the pairing machine, after ANY history, the records of a split text produce no trace
      until the END record, which delivers the whole run; a text that fits one record is delivered alone *)
Theorem c08_once : forall dom dec t c, dec c = true -> forall hr s us e,
  p_tid s = t -> p_code s = c -> p_q s = QS -> p_tid e = t -> p_code e = c -> p_q e = QE ->
  spec_run dom dec hr (s :: map (mid t c) us ++ [e]) =
    None :: map (fun _ => None) us ++ [Some (s :: map (mid t c) us ++ [e])].
Proof. intros dom dec t c D hr s us e. now apply split_delivered_once. Qed.
Theorem c08_once_single : forall dom dec c, dec c = true -> forall hr a,
  p_code a = c -> p_q a = QA -> spec_run dom dec hr [a] = [Some [a]].
Proof. intros dom dec c D hr a. now apply (single_delivered_once dom dec c D). Qed.

(* 2b. ... and with ARBITRARY records in between (any thread, code, qualifier - anything but a START / END of the text's own key):
       after ANY history the END record delivers a window that begins with the START, whose records of the text's own key are
       exactly START, the text's own records in between, END, in stream order, and whose other members are same-thread records
       that occurred in between - the window 1b speaks about *)
Theorem c08_window_with_unrelated : forall dom dec t c, dec c = true -> forall hr s items e,
  isS (ChunksPairingWindow.K t c) s = true -> forallb (ChunksPairingWindow.quiet t c) items = true -> isE (ChunksPairingWindow.K t c) e = true ->
  exists r, spec_out dom dec (rev items ++ s :: hr) e = Some ((s :: r) ++ [e])
            /\ filter (ChunksPairingWindow.ownb t c) ((s :: r) ++ [e]) = s :: filter (ChunksPairingWindow.ownb t c) items ++ [e]
            /\ (forall x, In x (s :: r) -> x = s \/ (In x items /\ p_tid x = t)).
Proof. intros dom dec t c D hr s items e. now apply delivered_window_own. Qed.

(* 2c. pairing and reassembly together: if the records of the string's own key between START and END carry, in order, the
       kernel's chunks of a text, then - after any history and with anything else in between - the END record delivers a window
       on which the decoder reads exactly (debug id, string id, text) *)
Theorem c08_string_end_to_end : forall dom dec t c, dec c = true -> forall (data : pev -> crec) hr s items e dbg sid text,
  isS (ChunksPairingWindow.K t c) s = true -> forallb (ChunksPairingWindow.quiet t c) items = true -> isE (ChunksPairingWindow.K t c) e = true ->
  dbg < 2 ^ 64 -> sid < 2 ^ 64 -> clean text ->
  map data (s :: filter (ChunksPairingWindow.ownb t c) items ++ [e]) = enc_gstring dbg sid text ->
  exists W, spec_out dom dec (rev items ++ s :: hr) e = Some W /\ gstring_w (map (to_w data) W) = (dbg, sid, text).
Proof. intros dom dec t c D data hr s items e dbg sid text. now apply string_end_to_end. Qed.

(* 3. every path-taking syscall shows the looked-up paths in lookup order: in every syscall row the path sources
      appear in non-decreasing lookup index (posix_spawn, which picks lookup 3 or lookup 0, is stated separately) *)
Definition prank (p : psrc) : nat := match p with PFirst => 0 | PSecond => 1 | PNth k => k | PLast => 1000 end.
Fixpoint pranks (t : tok) : list nat :=
  match t with
  | TPath p => [prank p]
  | TIf _ a b => (fix go (l : list tok) : list nat := match l with [] => [] | x :: r => pranks x ++ go r end) a
                 ++ (fix go (l : list tok) : list nat := match l with [] => [] | x :: r => pranks x ++ go r end) b
  | _ => []
  end.
Fixpoint nondecreasing (l : list nat) : bool :=
  match l with a :: ((b :: _) as r) => Nat.leb a b && nondecreasing r | _ => true end.
Theorem c08_sweep_paths_in_order :
  forallb (fun kc => String.eqb (fst kc) "BSC_posix_spawn" || nondecreasing (flat_map pranks (call_part (snd kc)))) gen_calls = true.
Proof. vm_compute. reflexivity. Qed.
(* what a path source shows *)
Theorem c08_path_shown : forall H X k v t, nth_error (x_paths X) k = Some (v, t) ->
  render_tok gen_enums H X (TPath (PNth k)) = ROk t.
Proof. intros H X k v t E. cbn. unfold path_of, paths. now rewrite E. Qed.
Theorem c08_first_path_shown : forall H X v t r, x_paths X = (v, t) :: r ->
  render_tok gen_enums H X (TPath PFirst) = ROk t.
Proof. intros H X v t r E. cbn. unfold path_of, paths. now rewrite E. Qed.
Theorem c08_posix_spawn_path :
  nth 1 (snd (fst call_BSC_posix_spawn)) [] =
  [Lit """"; TIf (CPathsMore 5) [TPath (PNth 3)] [TIf (CPathsMore 0) [TPath (PNth 0)] []]; Lit """"].
Proof. reflexivity. Qed.

Example c08_nontrivial :
  let text := map (fun i => 65 + N.of_nat i mod 26) (seq 0 90) in
  length (enc_lookup 77 text) = 4%nat /\ map c_q (enc_lookup 77 text) = [1; 0; 0; 2] /\
  vnode_generator (enc_lookup 77 text) = [(77, text)].
Proof. vm_compute. repeat split; reflexivity. Qed.

(* C15 — callstacks take the sampled frames and attribute each to the right image.
   Model: theories/Callstacks.v (CallstacksParser) + theories/Composite.v (sampler decoder); tie: the
   correspondence of tools/props/C15.py through the real decoders and the real CallstacksParser. *)
From Coq Require Import NArith List Bool Permutation.
From Coq Require Import ZArith.
From Kd Require Import theories.Base theories.Composite theories.Callstacks gen.GenComposite
  theories.CallstacksIR gen.GenCallstacks theories.CallstacksRefine.
Import ListNotations.
Open Scope N_scope.

(* 1. after ANY sequence of announcements the table is strictly sorted by address *)
Theorem c15_sorted : forall U (anns : list (N * U)), ssorted (map fst (insert_all U [] anns)).
Proof. intros. apply insert_all_sorted. exact I. Qed.

(* 2. an address announced twice keeps its first identity; nothing else is in the table *)
Theorem c15_first_wins : forall U (anns : list (N * U)) a,
  assoc U a (insert_all U [] anns) = assoc U a anns.
Proof. intros. rewrite insert_all_assoc by exact I. reflexivity. Qed.

(* 3. the table is independent of the order in which distinct images were announced *)
Theorem c15_order_independent : forall U (anns1 anns2 : list (N * U)),
  Permutation anns1 anns2 -> NoDup (map fst anns1) -> insert_all U [] anns1 = insert_all U [] anns2.
Proof. exact order_independent. Qed.

(* 4. attribution: the greatest load address not above the frame; offset = frame - address >= 0; or none *)
Theorem c15_attribution : forall U (anns : list (N * U)) x a u off,
  attribute U (insert_all U [] anns) x = Some (a, u, off) ->
  In (a, u) (insert_all U [] anns) /\ a <= x /\ off = x - a /\
  (forall q, In q (insert_all U [] anns) -> fst q <= x -> fst q <= a).
Proof. intros U anns x a u off. apply attribute_some, insert_all_sorted. exact I. Qed.
Theorem c15_attribution_none : forall U (anns : list (N * U)) x,
  attribute U (insert_all U [] anns) x = None -> forall q, In q (insert_all U [] anns) -> x < fst q.
Proof. intros U anns x. apply attribute_none, insert_all_sorted. exact I. Qed.

(* 5. one callstack per user-stack sample, stamped with the sample's first record, using exactly the
      images announced EARLIER in the stream *)
Theorem c15_feed : forall U pre ts tid fr post,
  feed U [] (pre ++ TPerf U ts tid (Some fr) :: post) =
  feed U [] pre ++ (ts, tid, map (frame_of U (insert_all U [] (flat_map (anns_of U) pre))) fr)
            :: feed U (insert_all U [] (flat_map (anns_of U) pre)) post.
Proof. intros. apply feed_split. Qed.

(* 6. frames = the first N words (N from the first stack header) of the stack-data records, in stream order;
      a sample without the USTACK flag or without a header yields no frames *)
Theorem c15_frames : forall kind w hdrflags frames,
  snd (handle_event kind w) = Some (hdrflags, frames) ->
  exists hdr rest, filter (of_kind kind K_STK_UHDR) w = hdr :: rest /\ hdrflags = wval hdr 0 /\
    frames = firstn (N.to_nat (wval hdr 1)) (flat_map w_vals (filter (of_kind kind K_STK_UDATA) w)).
Proof. exact perf_frames. Qed.
Theorem c15_frames_iff : forall kind w,
  snd (handle_event kind w) <> None <->
  has_flag (wval (hd (mkWev 0 [] 0 0) w) 0) SAMPLER_USTACK = true /\ exists e, In e w /\ of_kind kind K_STK_UHDR e = true.
Proof. exact perf_cs. Qed.

(* 7. the code refines the model: the statements of callstacks_parser.py as tools/translate/tr_callstacks.py reads them off the
      current source (insert_image statement by statement, the index / guard / indexing of the frame attribution, the if / elif
      chain of feed_generator), run on the TWO parallel lists the code keeps - with list.insert, Python's negative indexing and
      IndexError / NameError written out - yield, for every stream of decoded traces and every sorted table, exactly the model's
      callstacks (offsets as Python ints), and never raise *)
Theorem c15_code_refines_model : forall U trs (t : table U), ssorted (map fst t) ->
  fexec gen_branches gen_insert gen_attr (unz U t) trs = Some (map (convc U) (feed U t trs)).
Proof. intros U trs t. apply feed_refines. Qed.
Theorem c15_code_lists_parallel : forall U (t : table U) a u, ssorted (map fst t) ->
  exists t', iexec gen_insert a u None (unz U t) = Some (unz U t') /\ ssorted (map fst t')
             /\ length (addrs (unz U t')) = length (uuids (unz U t')).
Proof. intros U t a u. apply lists_in_step. Qed.
Example c15_code_nontrivial :
  fexec gen_branches gen_insert gen_attr (unz N [])
    [TMapA N 0x2000 2; TLaunch N [(0x1000, 1); (0x2000, 9)]; TPerf N 5 7 (Some [0xfff; 0x1000; 0x2001]); TPerf N 6 7 None]
  = Some [(5, 7, [(0xfff, None); (0x1000, Some (1, 0%Z)); (0x2001, Some (2, 1%Z))])].
Proof. vm_compute. reflexivity. Qed.

(* the flag constants of the model are the ones in the source now *)
Example c15_constants : gen_SAMPLER_USTACK = SAMPLER_USTACK /\ gen_SAMPLER_TH_INFO = SAMPLER_TH_INFO.
Proof. split; reflexivity. Qed.

Example c15_nontrivial :
  let t := insert_all N [] [(0x2000, 2); (0x1000, 1); (0x2000, 9); (0x1800, 3)] in
  t = [(0x1000, 1); (0x1800, 3); (0x2000, 2)] /\
  map (attribute N t) [0xfff; 0x1000; 0x17ff; 0x1800; 0x2001] =
  [None; Some (0x1000, 1, 0); Some (0x1000, 1, 0x7ff); Some (0x1800, 3, 0); Some (0x2000, 2, 1)].
Proof. vm_compute. split; reflexivity. Qed.

(* C01 — every 64-byte kd_buf record decodes exactly and totally.
   `from_kd_buf` is the function GENERATED from pykdebugparser/kevent.py on this run
   (gen/GenKevent.v); the statements below quantify over ALL records (lists of bytes). *)
From Coq Require Import String ZArith NArith Arith List Bool Lia.
From Kd Require Import theories.Base theories.Bits theories.PyStruct theories.Kevent gen.GenKevent
  theories.KeventProofs.
Import ListNotations.
Open Scope N_scope.

(* 1. total on 64 bytes; struct.error (None) on any other length *)
Theorem c01_total : forall r, bytes_ok r ->
  (length r = 64%nat -> exists e, from_kd_buf r = Some e) /\
  (length r <> 64%nat -> from_kd_buf r = None).
Proof. exact c01_total_lemma. Qed.

(* 2. each field is exactly the record's little-endian field *)
Theorem c01_fields : forall r e, bytes_ok r -> from_kd_buf r = Some e ->
  k_timestamp e = le (slice r 0 8) /\
  k_data e = slice r 8 32 /\
  k_tid e = le (slice r 40 8) /\
  k_debugid e = le (slice r 48 4) /\
  k_values e = [le (slice r 8 8); le (slice r 16 8); le (slice r 24 8); le (slice r 32 8)].
Proof. exact c01_fields_lemma. Qed.

(* 3. the id / qualifier split of the 32-bit debug id *)
Theorem c01_split : forall r e, bytes_ok r -> from_kd_buf r = Some e ->
  k_eventid e = N.ldiff (k_debugid e) 3 /\
  k_qual e = k_debugid e mod 4 /\
  k_qual e < 4 /\
  N.lor (k_eventid e) (k_qual e) = k_debugid e /\
  N.land (k_eventid e) (k_qual e) = 0.
Proof. exact c01_split_lemma. Qed.

(* 4. the first 52 bytes can be rebuilt from the event *)
Theorem c01_rebuild : forall r e, bytes_ok r -> from_kd_buf r = Some e ->
  enc 8 (k_timestamp e) ++ k_data e ++ enc 8 (k_tid e) ++ enc 4 (N.lor (k_eventid e) (k_qual e))
  = firstn 52 r.
Proof. exact c01_rebuild_lemma. Qed.

(* 5. no output field depends on a byte outside its own field *)
Theorem c01_noninterference : forall r r' e e', bytes_ok r -> bytes_ok r' ->
  from_kd_buf r = Some e -> from_kd_buf r' = Some e' ->
  (slice r 0 8 = slice r' 0 8 -> k_timestamp e = k_timestamp e') /\
  (slice r 8 32 = slice r' 8 32 -> k_data e = k_data e' /\ k_values e = k_values e') /\
  (forall i, (i < 4)%nat -> slice r (8 + 8 * i) 8 = slice r' (8 + 8 * i) 8 ->
             nth i (k_values e) 0 = nth i (k_values e') 0) /\
  (slice r 40 8 = slice r' 40 8 -> k_tid e = k_tid e') /\
  (slice r 48 4 = slice r' 48 4 ->
     k_debugid e = k_debugid e' /\ k_eventid e = k_eventid e' /\ k_qual e = k_qual e').
Proof. exact c01_noninterference_lemma. Qed.

(* hypotheses are satisfiable by a non-trivial record (the second vector of tests/test_kevent.py) *)
Example c01_nontrivial :
  let r := [0x8b;0xf3;0x8f;0x31;0x13;0xeb;0x03;0x00] ++ repeat 0x41 32
           ++ [0xde;0x4a;0x88;0;0;0;0;0] ++ [0x91;0x00;0x01;0x03] ++ [1;0;0;0] ++ repeat 0 8 in
  bytes_ok r /\ length r = 64%nat /\
  exists e, from_kd_buf r = Some e /\ k_eventid e = 0x3010090 /\ k_qual e = 1 /\ k_tid e = 0x884ade.
Proof.
  cbv zeta. split; [apply bytes_okb_ok; vm_compute; reflexivity|]. split; [reflexivity|].
  eexists. split; [vm_compute; reflexivity|]. vm_compute. repeat split.
Qed.

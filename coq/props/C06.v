(* C06 — truncated dumps: parsing terminates and reports a prefix of the full result.
   Model: theories/Container.v; tie: correspondence of tools/props/C06.py on EVERY truncation offset of generated
   version-2 and version-3 dumps (through a counting reader with a read budget and a watchdog). *)
From Coq Require Import ZArith NArith Arith List Bool.
From Kd Require Import theories.Base theories.Kevent gen.GenKevent theories.Container theories.ContainerV2
  theories.ContainerV3 theories.Pairing theories.PairingProofs theories.Cli
  gen.GenCli theories.CliRefine.
Import ListNotations.
Open Scope N_scope.

(* 1. for every dump (any bytes at all, well-formed or not), every cut offset k, and every behaviour of the
      plist decoder: the events reported for the truncated dump are a prefix of those of the complete dump *)
Theorem c06_prefix_events : forall plist_ok data k,
  prefix (o_events (parse plist_ok (firstn k data))) (o_events (parse plist_ok data)).
Proof. exact parse_truncation. Qed.

(* 2. nothing is fabricated from a partial record: every event of a version-2 body is the decoding of a
      complete 64-byte record of the dump (a short final read is struct.error, C01) *)
Theorem c06_whole_records_only : forall f x e, In e (fst (recs2 f x)) ->
  exists i, from_kd_buf (slice x (64 * i) 64) = Some e /\ (64 * i + 64 <= length x)%nat.
Proof. exact recs2_only_whole. Qed.

(* 3. bounded reading: every data-dependent loop of the model runs on fuel |remaining input| + 1 and never
      exhausts it - each iteration consumes input, so the number of reads is linear in the length *)
Theorem c06_no_fuel_exhaustion : forall plist_ok data, o_err (parse plist_ok data) <> Some EFuel.
Proof. exact parse_no_fuel. Qed.

(* 4. the rest of the pipeline is incremental: what was reported for a prefix of the event stream is never
      changed or withdrawn (pairing machine; filters are `filter`, formatting is `map`) *)
Theorem c06_pairing_incremental : forall dom dec st a b,
  run_opt dom dec st (a ++ b) = run_opt dom dec st a ++ run_opt dom dec (fst (run dom dec st a)) b.
Proof.
  intros dom dec st a. revert st. induction a as [|e a IH]; intros st b; [reflexivity|].
  cbn [app run_opt run]. destruct (feed dom dec st e) as [st1 o].
  rewrite IH. destruct (run dom dec st1 a). reflexivity.
Qed.
Theorem c06_filter_incremental : forall A (f : A -> bool) a b, filter f (a ++ b) = filter f a ++ filter f b.
Proof. intros. apply filter_app. Qed.
Theorem c06_limit : forall A B (g : A -> B) (l : list A) c, firstn c (map g l) = map g (firstn c l).
Proof. intros. apply firstn_map. Qed.

(* 4. the command line's --count (print_with_count: print until the running index equals the count; Python ints, the
      default -1 is never reached): the output is the first `count` lines, a prefix of the unlimited output, so limiting
      the count never changes the lines that are printed; and printing consumes only a prefix of the generator *)
Theorem c06_count : forall A (count : Z) (l : list A),
  pwc count 0 l = if (count <? 0)%Z then l else firstn (Z.to_nat count) l.
Proof. intros. apply pwc_spec. Qed.
Theorem c06_count_prefix : forall A (count : Z) (l : list A), exists rest, l = pwc count 0 l ++ rest.
Proof. intros. apply pwc_prefix. Qed.
Theorem c06_count_incremental : forall A (count : Z) (a b : list A), exists k, pwc count 0 (a ++ b) = pwc count 0 a ++ firstn k b.
Proof. intros. apply pwc_app. Qed.

Example c06_nontrivial :
  let body := enc_v2_body (zeros 12) (zeros 256) 1 1 [] 3 [repeat 5 64; repeat 6 64] in
  map (fun k => length (o_events (parse (fun _ => true) (firstn k ([0; 2; 170; 85] ++ body)))))
      [0; 3; 200; 291; 354; 355; 418; 419]%nat = [0; 0; 0; 0; 0; 1; 1; 2]%nat.
Proof. vm_compute. reflexivity. Qed.

(* the command line is the code's: the counting loop of print_with_count as tools/translate/tr_cli.py reads it off __main__.py
   (initial index, step, test before print) is the model's pwc - so c06_count above speaks about the code's loop -, every
   command prints the listing and assigns its options to the parser settings the command-line correspondence is written for,
   and the options have the defaults it assumes (no limit, no filter, colour on) *)
Theorem c06_code_print_with_count : forall (A : Type) count (l : list A),
  pwc_p gen_pwc_step count gen_pwc_init l = Cli.pwc count 0%Z l.
Proof. intros A count l. apply pwc_code_refines. Qed.
Theorem c06_code_cli_commands : map norm_cmd gen_commands = cli_contract.
Proof. exact commands_refine. Qed.
Theorem c06_code_cli_options :
  map (fun o => match o with (n, (_, t, d, m)) => (n, (t, d, m)) end) gen_options = option_contract.
Proof. exact options_refine. Qed.

(* C19 — code-table text maps every 'hex-id name' line; a supplied table is honoured.
   Model: theories/TraceCodes.v (from_trace_codes_text with splitlines/split/int(_,16) written out),
   theories/TraceCodesThms.v; tie: correspondence of tools/props/C19.py (generated and malformed texts;
   custom tables through TracesParser) and the exhaustive separator-set check against the interpreter. *)
From Coq Require Import NArith List Bool.
From Kd Require Import theories.Base theories.Printers theories.TraceCodes theories.TraceCodesThms theories.Pairing
  theories.TraceCodesIR gen.GenTraceCodes theories.TraceCodesRefine.
Import ListNotations.
Open Scope N_scope.

(* 1. every text made of well-formed lines (any id token accepted by the syntax, any inline whitespace as
      separator, any whitespace-free name, any trailing text without a line break, any line terminator
      incl. CRLF) parses to exactly the pairs (value of id, name), in order - any number of lines *)
Theorem c19_parse : forall es, forallb entry_ok es = true -> from_text (render es) = POk (map pair_of es).
Proof. exact from_text_render. Qed.

(* 2. the mapping built from the pairs: last occurrence wins, and nothing else is in it *)
Theorem c19_last_wins : forall k a b,
  lookup_last k (a ++ b) = match lookup_last k b with Some v => Some v | None => lookup_last k a end.
Proof. exact lookup_last_app. Qed.
Theorem c19_nothing_else : forall k l, lookup_last k l = None <-> ~ In k (map fst l).
Proof. exact lookup_last_none. Qed.
Theorem c19_only_pairs : forall k v l, lookup_last k l = Some v -> In (k, v) l.
Proof. exact lookup_last_In. Qed.

(* 3. the id as written - bare, 0x, 0X, lower case (upper case: correspondence) - denotes its value *)
Theorem c19_id_bare : forall n, parse_hex (hexdigits n) = Some n.
Proof. exact parse_hex_bare. Qed.
Theorem c19_id_prefixed : forall n x, (x =? 120) || (x =? 88) = true -> parse_hex (48 :: x :: hexdigits n) = Some n.
Proof. exact parse_hex_0x. Qed.

(* 4. an id absent from the supplied table is never decoded into a trace, for any history *)
Theorem c19_absent : forall tn hn t hr e,
  lookup_last (p_code e) t = None -> spec_out (dom_of tn t) (dec_of hn t) hr e = None.
Proof. exact absent_never_decoded. Qed.

(* 5. routing and decodability depend only on the name the supplied table gives the id *)
Theorem c19_renumber : forall tn hn t1 t2 c1 c2,
  lookup_last c1 t1 = lookup_last c2 t2 ->
  dom_of tn t1 c1 = dom_of tn t2 c2 /\ dec_of hn t1 c1 = dec_of hn t2 c2.
Proof. exact renumbered_same. Qed.

(* "0x40c0548\tBSC_stat64\r\n40C054c   BSC_sys_fstat64  # comment\n0X40c0548 again" *)
Example c19_nontrivial :
  let t := [48;120;52;48;99;48;53;52;56; 9; 66;83;67;95;115; 13;10;
            52;48;67;48;53;52;99; 32;32;32; 66;83;67; 32;32;35;32;99; 10;
            48;88;52;48;99;48;53;52;56; 32; 97;103] in
  from_text t = POk [(0x40c0548, [66;83;67;95;115]); (0x40c054c, [66;83;67]); (0x40c0548, [97;103])] /\
  lookup_last 0x40c0548 [(0x40c0548, [66;83;67;95;115]); (0x40c054c, [66;83;67]); (0x40c0548, [97;103])] = Some [97;103].
Proof. vm_compute. split; reflexivity. Qed.

(* the code refines the model: the dict comprehension of from_trace_codes_text with the token positions and the base that
   tools/translate/tr_codes.py reads off the current source (key expression evaluated before the value expression) is the
   model's from_text, for every text *)
Theorem c19_code_refines_model : forall t, from_text_p gen_codes t = from_text t.
Proof. exact codes_code_refines. Qed.

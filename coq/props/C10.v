(* C10 — syscall results: errors take precedence and come only from the END record.
   Rows generated from the source on every run; see props/C09.v. *)
From Coq Require Import String ZArith NArith List Bool.
From Kd Require Import theories.Base theories.Printers theories.DecoderDSL theories.DecoderDeps theories.DecoderProps theories.DecoderWindow
  gen.GenEnums gen.GenDecoders.
Import ListNotations.
Open Scope N_scope.

(* the syscalls the property exempts (cannot fail / do not return) *)
Open Scope string_scope.
Definition exempt : list string :=
  ["BSC_getpid"; "BSC_getuid"; "BSC_geteuid"; "BSC_getppid"; "BSC_getegid"; "BSC_getgid"; "BSC_getpgrp"; "BSC_umask";
   "BSC_sync"; "BSC_sys_getdtablesize"; "BSC_getlogin"; "BSC_execve"; "BSC_vfork"; "BSC_bsdthread_create";
   "BSC_abort_with_payload"].
Definition PIPE := "BSC_pipe".
Close Scope string_scope.
Definition is_bsd (k : string) : bool := String.prefix "BSC_" k.
Definition mem_str (k : string) (l : list string) : bool := existsb (String.eqb k) l.

(* sweep: every decoded BSD syscall other than the exempt ones (and pipe, which has its own result code, below)
   ends in one of the two result shapes; and the exempt ones are exactly the rows that do not *)
Theorem c10_sweep :
  forallb (fun kc => negb (is_bsd (fst kc)) || mem_str (fst kc) (PIPE :: exempt) || result_ok (snd kc)) gen_calls = true /\
  forallb (fun kc => negb (mem_str (fst kc) exempt) || negb (result_ok (snd kc))) gen_calls = true /\
  forallb (fun k => existsb (fun kc => String.eqb (fst kc) k) gen_calls) (PIPE :: exempt) = true.
Proof. vm_compute. repeat split; reflexivity. Qed.

(* the text of the result part, for ALL START and END tuples:
   error word non-zero -> ", errno: NAME(code)" | ", errno: code" with exactly that code and no success value;
   error word zero     -> no errno; the success value shown, if any, is the rendering of the END record's return word *)
Theorem c10_result_text : forall key c H X,
  In (key, c) gen_calls -> is_bsd key = true -> mem_str key (PIPE :: exempt) = false ->
  let e0 := nth 0 (x_last X) 0 in let e1 := nth 1 (x_last X) 0 in
  (exists n f, snd c = [TIf (CResultNonEmpty n) [Lit ", "; TResult n f] []] /\
     render_toks gen_enums H X (snd c) =
       ROk (if N.eqb e0 0 then (if String.eqb n "" then [] else s2b ", " ++ s2b n ++ s2b ": " ++ fmt_res f e1)
            else s2b ", " ++ errno_text H e0)) \/
  (exists n f rest, snd c = Lit ", " :: TResult n f :: rest /\ n <> ""%string /\
     forallb (fun r => negb (is_end_res r) && negb (res_eqb r RHost)) (uses_toks rest) = true /\
     render_toks gen_enums H X (snd c) =
       rapp (ROk (s2b ", " ++ (if N.eqb e0 0 then s2b n ++ s2b ": " ++ fmt_res f e1 else errno_text H e0)))
            (render_toks gen_enums H X rest)).
Proof.
  intros key c H X Hin Hb Hex. cbv zeta.
  destruct c10_sweep as (S & _ & _). rewrite forallb_forall in S. specialize (S _ Hin). cbn [fst snd] in S.
  rewrite Hb, Hex in S. cbn in S. unfold result_ok in S.
  destruct (result_shape (snd c)) as [n f rest|n f|] eqn:E; [| |discriminate].
  - right. apply result_shape_always in E. destruct E as (-> & NE & F). exists n, f, rest.
    repeat split; auto. now apply result_text_always.
  - left. apply result_shape_ifnonempty in E. exists n, f. split; auto. rewrite E. apply result_text_ifnonempty.
Qed.

(* separation: the call part does not read the END record (c09_call_part), and the result part reads nothing but the
   END record and the host's errno names *)
Theorem c10_result_reads_end_only : forall key c,
  In (key, c) gen_calls -> is_bsd key = true -> mem_str key (PIPE :: exempt) = false ->
  forallb (fun r => match r with RLast _ | RHost | RPaths => true | _ => false end) (uses_toks (snd c)) = true.
Proof.
  assert (S : forallb (fun kc => negb (is_bsd (fst kc)) || mem_str (fst kc) (PIPE :: exempt) ||
                                 forallb (fun r => match r with RLast _ | RHost | RPaths => true | _ => false end)
                                         (uses_toks (snd (snd kc)))) gen_calls = true) by (vm_compute; reflexivity).
  intros key c Hin Hb Hex. rewrite forallb_forall in S. specialize (S _ Hin). cbn [fst snd] in S.
  rewrite Hb, Hex in S. exact S.
Qed.

(* pipe builds its result itself: same discipline *)
Theorem c10_pipe : forall H X,
  let e0 := nth 0 (x_last X) 0 in
  render_toks gen_enums H X (snd call_BSC_pipe) =
    ROk (s2b ", " ++ (if N.eqb e0 0
                      then s2b "read_fd: " ++ dec (nth 1 (x_last X) 0) ++ s2b ", write_fd: " ++ dec (nth 2 (x_last X) 0)
                      else errno_text H e0)).
Proof.
  intros H X. cbv zeta. unfold call_BSC_pipe. cbn [snd].
  rewrite !render_toks_cons. cbn [render_toks]. rewrite render_if. cbn [evalc sval render_tok]. unfold wd. cbn [x_last].
  destruct (N.eqb (nth 0 (x_last X) 0) 0) eqn:Z; cbn [negb].
  - rewrite !render_toks_cons. cbn [render_toks render_tok sval rapp]. unfold wd. rewrite !app_nil_r. reflexivity.
  - rewrite !render_toks_cons. cbn [render_toks]. rewrite render_if. cbn [evalc sval]. unfold wd, errno_text.
    destruct (h_errno H (nth 0 (x_last X) 0)) eqn:E; rewrite !render_toks_cons; cbn [render_toks render_tok sval rapp];
      unfold wd; rewrite ?E; cbn [rapp]; rewrite ?app_nil_r; reflexivity.
Qed.

(* whatever lies between START and END (interrupts, nested complete calls - any number, in any order; the model has no
   timestamps at all): the decoder's context, hence the result part, is that of the bare window with only the lookup records
   kept - the result comes from the END record, which is the LAST record of the window *)
Theorem c10_result_from_END_record : forall lk gstr nocancel enums h row s mid e,
  render_row enums h (ctx_of_window lk gstr nocancel (s :: mid ++ [e])) row
  = render_row enums h (ctx_of_window lk gstr nocancel (s :: filter (fun x => lk (w_code x)) mid ++ [e])) row.
Proof. intros. apply rendering_ignores_other_records. Qed.

Example c10_nontrivial :
  let H := mkHost (fun n => if N.eqb n 2 then Some "ENOENT"%string else None) (fun _ _ => None) (fun _ => 0) in
  let r := match find (fun r => String.eqb (d_key r) "BSC_read") gen_rows with Some r => r | None => mkRow "" "" "" false [] end in
  render_row gen_enums H (mkCtx [3; 0x1000; 16; 0] [2; 77; 0; 0] 7 7 [] [] (fun _ => None) false) r
    = ROk (s2b "read(3, 0x1000, 16), errno: ENOENT(2)") /\
  render_row gen_enums H (mkCtx [3; 0x1000; 16; 0] [0; 77; 0; 0] 7 7 [] [] (fun _ => None) false) r
    = ROk (s2b "read(3, 0x1000, 16), count: 77").
Proof. vm_compute. split; reflexivity. Qed.

(* C02 — a version-2 dump yields exactly its records, in order, and its thread map.
   Model: theories/Container.v (hand model of KdBufParser.parse_v2 and the construct layouts it uses);
   tie: correspondence of tools/props/C02.py / C06.py on generated and malformed dumps. *)
From Coq Require Import NArith Arith List Bool Lia.
From Kd Require Import theories.Base theories.Kevent theories.Utf8 gen.GenKevent theories.Container theories.ContainerV2
  gen.GenContainer theories.ContainerRefine.
Import ListNotations.
Open Scope N_scope.

(* 1. header + thread map of n entries + zero padding + m complete records: exactly m events, in file order,
      each the decoding of its own record, nothing else, no error - for any n, any padding, any m.
      Guard: the record stream does not begin with a zero byte (see c02_leading_zero_refuted). *)
Theorem c02_events : forall fill12 fill256 is64 freq threads pad recs,
  length fill12 = 12%nat -> length fill256 = 256%nat ->
  N.of_nat (length threads) < 2 ^ 32 -> Forall tm_ok threads ->
  Forall (fun r => length r = 64%nat) recs ->
  (concat recs = [] \/ hd 0 (concat recs) <> 0) ->
  parse_v2 (enc_v2_body fill12 fill256 is64 freq threads pad recs)
  = mkPout (Some threads) (map decode recs) None None.
Proof. exact parse_v2_enc. Qed.

(* `decode` is from_kd_buf (C01) on a 64-byte record *)
Theorem c02_decode_is_from_kd_buf : forall r, length r = 64%nat -> from_kd_buf r = Some (decode r).
Proof. exact from_kd_buf_decode. Qed.

(* 2. the tables after parsing are the file's thread map, a later entry for the same key winning,
      for EVERY previous content of the two dict objects (no residue of an earlier parse) *)
Theorem c02_tables : forall tm old tid pid,
  dget (fst (set_thread_map tm old)) tid = last_pid tm tid /\
  dget (snd (set_thread_map tm old)) pid = last_name tm pid.
Proof. exact set_thread_map_spec. Qed.
Theorem c02_no_residue : forall tm old1 old2, set_thread_map tm old1 = set_thread_map tm old2.
Proof. exact set_thread_map_no_residue. Qed.

(* 3. without the guard the statement is false of the faithful model (and of the code: finding F01) *)
Theorem c02_leading_zero_refuted :
  Forall (fun r => length r = 64%nat) [f01_rec1; f01_rec2] /\
  o_events (parse_v2 f01_body) <> map decode [f01_rec1; f01_rec2] /\
  o_err (parse_v2 f01_body) = Some EStruct.
Proof. exact leading_zero_refuted. Qed.

Example c02_nontrivial :
  let threads := [(7, 1, [97; 98]); (8, 2, [195; 169]); (7, 3, [])] in
  let r1 := repeat 5 64 in let r2 := 1 :: repeat 0 63 in
  Forall tm_ok threads /\
  parse_v2 (enc_v2_body (zeros 12) (zeros 256) 1 24000000 threads 65 [r1; r2])
  = mkPout (Some threads) [decode r1; decode r2] None None /\
  last_pid threads 7 = Some 3.
Proof.
  cbv zeta. split; [|split; [vm_compute; reflexivity|reflexivity]].
  repeat constructor; cbn; try lia; try reflexivity; unfold bytes_ok; repeat constructor; unfold is_byte; lia.
Qed.

(* the constants and layouts of the model are those of the code: the dispatch of KdBufParser.parse on the two magics, the byte
   layout of a thread-map entry (tid, pid, fixed-size name) and the fixed part of the version-2 header, as
   tools/translate/tr_container.py reads them off kd_buf_parser.py on every run (the functions seek_until, parse, set_thread_map,
   parse_v2, parse_v3 are compared with the texts the model was written from) *)
Theorem c02_code_dispatch : forall plist_ok data,
  parse_file_p plist_ok gen_RAW_VERSION2_BYTES gen_RAW_VERSION3_BYTES data = parse plist_ok data.
Proof. exact dispatch_refines. Qed.
Theorem c02_code_threadmap_entry : forall r,
  match gen_threadmap_sizes with [a; b; c] => tm_entry_p a b c r = tm_entry r | _ => False end.
Proof. exact threadmap_entry_refines. Qed.
Theorem c02_code_layouts :
  fold_right Nat.add 0%nat gen_v2_fixed_sizes = V2_FIXED /\ hd 0%nat gen_v2_fixed_sizes = 4%nat /\
  fold_right Nat.add 0%nat gen_v3_fixed_sizes = 60%nat /\ gen_magic_size = 4%nat /\
  fold_right Nat.add 0%nat gen_threadmap_sizes = 32%nat.
Proof. exact layouts_refine. Qed.

(* C04 — START/END pairing delivers exactly each operation's per-thread event window.
   Model: theories/Pairing.v (hand model of TracesParser.feed & co., tied to the code by the
   correspondence of tools/props/C04.py on every run).  All statements quantify over EVERY finite
   history, every routing predicate `dom` and every decodability predicate `dec`. *)
From Coq Require Import NArith List Bool.
From Kd Require Import theories.Pairing theories.PairingProofs theories.PairingThms theories.PairingIR gen.GenPairing
  theories.PairingRefine.
Import ListNotations.
Open Scope N_scope.

(* 1. after any history the two tables hold exactly the windows-so-far of the open keys *)
Theorem c04_invariant : forall dom dec (h : list pev), Inv dom (rev h) (fst (run dom dec pst0 h)).
Proof. exact state_is_windows. Qed.

(* 2. what is delivered, event by event, is what the specification says - and nothing else *)
Theorem c04_outputs : forall dom dec (h : list pev), run_opt dom dec pst0 h = spec_run dom dec [] h.
Proof. exact outputs_are_spec. Qed.

(* 3. the meaning of `window`: begins with the most recent START of the key that no later START/END of
      the key follows, then the same-thread same-domain non-stray records after it, in stream order *)
Theorem c04_window_meaning : forall dom hr k w,
  window dom hr k = Some w <->
  exists before s after,
    rev hr = before ++ s :: after /\ isS k s = true /\ Forall (quiet k) after /\
    w = s :: collect dom (s :: rev before) k after.
Proof. exact window_char. Qed.

(* 4. END with an open START: exactly that window plus the END, when the code has a decoder *)
Theorem c04_end : forall dom dec hr st e w,
  Inv dom hr st -> p_q e = QE -> window dom hr (kof e) = Some w ->
  snd (feed dom dec st e) = if dec (p_code e) then Some (w ++ [e]) else None.
Proof. exact end_trace. Qed.

(* 5. END without an open START: nothing is produced and nothing changes *)
Theorem c04_stray_end : forall dom dec hr st e,
  Inv dom hr st -> p_q e = QE -> window dom hr (kof e) = None -> feed dom dec st e = (st, None).
Proof. exact end_stray. Qed.

(* 6. members: same thread, same pairing domain, from the history; no record twice *)
Theorem c04_members : forall dom hr k w x, window dom hr k = Some w -> In x w ->
  In x hr /\ p_tid x = fst k /\ dom (p_code x) = dom (snd k).
Proof. exact window_members. Qed.
Theorem c04_nodup : forall dom hr k w e, NoDup (e :: hr) -> window dom hr k = Some w -> NoDup (w ++ [e]).
Proof. exact end_trace_nodup. Qed.
(* completeness: a same-thread same-domain record in the interval that is not a stray END is in the window *)
Theorem c04_complete : forall dom hr k a x b,
  sideT dom k x = true -> strayb (rev a ++ hr) x = false -> In x (collect dom hr k (a ++ x :: b)).
Proof. exact collect_complete. Qed.

(* 7. singles and STARTs *)
Theorem c04_all : forall dom dec hr st e, Inv dom hr st -> p_q e = QA ->
  snd (feed dom dec st e) = if dec (p_code e) then Some [e] else None.
Proof. exact all_trace. Qed.
Theorem c04_none : forall dom dec hr st e, Inv dom hr st -> p_q e = QN ->
  snd (feed dom dec st e) = if is_open hr (kof e) then None else if dec (p_code e) then Some [e] else None.
Proof. exact none_trace. Qed.
Theorem c04_start : forall dom dec hr st e, Inv dom hr st -> p_q e = QS -> snd (feed dom dec st e) = None.
Proof. exact start_no_trace. Qed.

(* non-vacuity: nested + crossing pairs, a stray END, two threads, two domains (code 7 is trace-domain) *)
(* 0. the model IS the code: the statements of _feed_start_event / _feed_end_event / _feed_single_event and the qualifier
      dispatch table, regenerated from the source on every run (gen/GenPairing.v), compute exactly the table step of the
      model on which the theorems above are proved - for every table state and every event; no KeyError is possible *)
Theorem c04_code_refines_model : forall e I T, Cover (I, T) ->
  exists I', exec (action_of (p_q e)) (I, T) e = Done (I', fst (step1 e T)) (snd (step1 e T)) /\ Cover (I', fst (step1 e T)).
Proof. exact refines. Qed.

Example c04_nontrivial :
  let dom c := N.eqb c 7 in let dec c := negb (N.eqb c 9) in
  let E t c q i := mkPev t c q i in
  let h := [E 1 4 QS 0; E 1 5 QS 1; E 2 4 QS 2; E 1 7 QS 3; E 1 6 QE 4; E 1 4 QN 5;
            E 1 4 QE 6; E 1 7 QE 7; E 1 5 QE 8; E 2 4 QE 9] in
  map (option_map (map p_uid)) (run_opt dom dec pst0 h) =
  [None; None; None; None; None; None; Some [0; 1; 5; 6]; Some [3; 7]; Some [1; 5; 6; 8]; Some [2; 9]].
Proof. vm_compute. reflexivity. Qed.

(* C20 — composite traces reflect exactly the records nested in their window.
   Model: theories/Composite.v; tie: correspondence of tools/props/C20.py through the real decoders,
   and the recognisers' constants re-read from the source (gen/GenComposite.v). *)
From Coq Require Import NArith List Bool Permutation.
From Kd Require Import theories.Base theories.Composite gen.GenComposite.
Import ListNotations.
Open Scope N_scope.

(* page fault: result and fault type from the END (last) record *)
Theorem c20_vmfault_result : forall rd fo w v, handle_vmfault rd fo w = Some v ->
  snd (fst (fst v)) = wval (last w (mkWev 0 [] 0 0)) 2 /\
  (snd (fst v) = if N.eqb (wval (last w (mkWev 0 [] 0 0)) 2) 0 then Some (wval (last w (mkWev 0 [] 0 0)) 3) else None).
Proof. exact vmfault_result. Qed.

(* pid and protection from the FIRST nested real-fault-address record when its kind is decoded;
   omitted when the window has none (or the kind is not decoded, or the fault did not succeed) *)
Theorem c20_vmfault_pidprot : forall rd fo w v, handle_vmfault rd fo w = Some v ->
  snd v = match filter in_real_range (middle w) with
          | r :: _ => if N.eqb (wval (last w (mkWev 0 [] 0 0)) 2) 0 && rd (w_code r)
                      then Some (wval r 3, N.land (N.shiftr (wval r 1) 8) 0xff) else None
          | [] => None
          end.
Proof. exact vmfault_pidprot. Qed.

(* launch: every nested image-map and shared-cache-map record, sorted by load address, stably *)
Theorem c20_launch_perm : forall kind w,
  Permutation (map image_of (filter (of_kind kind K_MAP_A) w) ++ map image_of (filter (of_kind kind K_SHARED_CACHE_A) w))
              (launch_images kind w).
Proof. exact launch_perm. Qed.
Theorem c20_launch_sorted : forall kind w, sorted_le (launch_images kind w).
Proof. exact launch_sorted. Qed.
Theorem c20_launch_stable : forall kind w a,
  filter (fun y => N.eqb (fst y) a) (launch_images kind w) =
  filter (fun y => N.eqb (fst y) a)
    (map image_of (filter (of_kind kind K_MAP_A) w) ++ map image_of (filter (of_kind kind K_SHARED_CACHE_A) w)).
Proof. exact launch_stable. Qed.

(* sampler: thread info / user stack exactly when the flag requests it and the record is in the window *)
Theorem c20_perf_th_info : forall kind w,
  snd (fst (handle_event kind w)) <> None <->
  has_flag (wval (hd (mkWev 0 [] 0 0) w) 0) SAMPLER_TH_INFO = true /\ exists e, In e w /\ of_kind kind K_THD_DATA e = true.
Proof. exact perf_th_info. Qed.
Theorem c20_perf_cs : forall kind w,
  snd (handle_event kind w) <> None <->
  has_flag (wval (hd (mkWev 0 [] 0 0) w) 0) SAMPLER_USTACK = true /\ exists e, In e w /\ of_kind kind K_STK_UHDR e = true.
Proof. exact perf_cs. Qed.

Example c20_constants :
  gen_vm_range_lo = 0x1320008 /\ gen_vm_range_hi = 0x1320014 /\
  gen_SAMPLER_USTACK = SAMPLER_USTACK /\ gen_SAMPLER_TH_INFO = SAMPLER_TH_INFO /\
  gen_fault_types = [1; 2; 3; 4; 5; 6; 7; 8; 9; 10; 11].
Proof. repeat split; reflexivity. Qed.

Example c20_nontrivial :
  let kind c := match c with 10 => 5 | 11 => 6 | _ => 0 end in
  let w := [mkWev 1 [0; 77; 0; 0] 0 0; mkWev 10 [1; 2; 0x3000; 0] 0 0; mkWev 11 [3; 4; 0x1000; 0] 0 0;
            mkWev 10 [5; 6; 0x1000; 0] 0 0; mkWev 1 [0; 0; 0; 0] 0 0] in
  launch_images kind w = [(0x1000, (5, 6)); (0x1000, (3, 4)); (0x3000, (1, 2))].
Proof. vm_compute. reflexivity. Qed.

(* C13 — trace filters commute with decoding and leave no residue in the parser.
   Model: theories/FiltersTraces.v (PyKdebugParser.traces: helper classes, event selection, post-filters) over the
   pairing machine; tie: correspondence of tools/props/C13.py through the public API with sequences of requests on one
   parser object. *)
From Coq Require Import String NArith List Bool.
From Kd Require Import theories.Base theories.Printers theories.Filters theories.Pairing theories.PairingProofs
  theories.PairingProj theories.PairingFilter theories.FiltersTraces theories.FiltersRefine gen.GenFilters theories.FiltersPipeline theories.Container
  theories.DecoderDSL theories.DecoderDeps theories.Format theories.FiltersPipelineTables gen.GenEnums gen.GenDecoders
  gen.GenCodes.
Import ListNotations.
Open Scope N_scope.
Close Scope string_scope.

(* 0. the model IS the code: the helper classes traces() adds, their conditions, the post-filters and the order of the filter
      stages are regenerated from the source on every run (gen/GenFilters.v) and are those of the model *)
Theorem c13_code_helpers : forall cfg, helper_classes cfg = map fst (filter (helper_on cfg) gen_helpers).
Proof. exact gen_helpers_model. Qed.
Theorem c13_code_post_filters : forall cfg code,
  post_keep cfg code
  = forallb (fun h => negb (helper_on cfg h) || negb (N.eqb (cls code) (fst h)) || allowed cfg code) gen_post_filters.
Proof. exact gen_post_filters_model. Qed.
Theorem c13_code_stage_order : gen_stages = ["pair"; "tid"; "process"; "post"; "post"; "post"; "return"]%string.
Proof. exact gen_stage_order. Qed.

(* 1. the helper classes are consumed but never reported unless requested themselves: among the events fed to the
      machine exactly the requested codes survive the post-filters - for every configuration and every code *)
Theorem c13_helpers_not_reported : forall cfg code, fed cfg code && post_keep cfg code = requested cfg code.
Proof. exact fed_post_requested. Qed.

(* 2. the pairing machine commutes with ANY filter on the event code: the traces of the filtered stream are the traces
      of the unfiltered stream whose code passes, in the same order, each window restricted to the events that pass *)
Theorem c13_machine_commutes : forall dom dec allow hr h,
  pairs dom dec (filter (P allow) hr) (filter (P allow) h)
  = map (restrict allow) (filter (Pp allow) (pairs dom dec hr h)).
Proof. intros. apply filtered_run. Qed.

(* 3. hence class and BSD-subclass filters commute with decoding, for every stream and configuration *)
Theorem c13_commute_class : forall dom dec cfg h,
  traces_model dom dec cfg h =
  map (restrict (fed cfg)) (filter (fun p => requested cfg (p_code (fst p))) (traces_model dom dec (cfg_tid_only cfg) h)).
Proof. exact traces_commute_class. Qed.

(* ... and the thread filter, by the per-thread projection (C05) *)
Theorem c13_commute_tid : forall dom dec t h,
  filter (onTp t) (run_pairs dom dec h) = run_pairs dom dec (filter (onT t) h).
Proof. exact traces_commute_tid. Qed.

(* 4. identical text: a decoder reads nothing outside what is fed with its own class - the only rows that read the
      lookups nested in their window are BSD syscalls (and the lookup decoder itself), for which the file-system class
      is fed; the string table is written by the trace class, which is always fed *)
Definition reads_paths (r : drow) : bool := mem_res RPaths (uses_toks (d_toks r)).
Theorem c13_closed :
  forallb (fun r => negb (reads_paths r) || String.eqb (d_family r) "bsd" || String.eqb (d_family r) "fsystem") gen_rows = true.
Proof. vm_compute. reflexivity. Qed.
Theorem c13_bsd_feeds_lookups : forall cfg,
  has_filters cfg = true -> has_bsd cfg = true -> forall code, cls code = DBG_FSYSTEM -> fed cfg code = true.
Proof.
  intros cfg HF HB code C. unfold fed. rewrite HF. unfold helper_classes, add_fs_class. rewrite HF, HB. cbn [andb].
  destruct (memN DBG_FSYSTEM (c_class cfg)) eqn:M.
  - unfold allowed. change (N.shiftr code 24) with (cls code). rewrite C, M. cbn. apply orb_true_r.
  - cbn [negb]. unfold memN in *. rewrite existsb_app. rewrite C. cbn. rewrite !orb_true_r. reflexivity.
Qed.
Theorem c13_trace_class_always_fed : forall cfg code, cls code = DBG_TRACE -> fed cfg code = true.
Proof.
  intros cfg code C. unfold fed. destruct (has_filters cfg) eqn:HF; auto.
  unfold helper_classes, add_trace_class. rewrite HF. cbn [andb].
  destruct (memN DBG_TRACE (c_class cfg)) eqn:M.
  - unfold allowed. change (N.shiftr code 24) with (cls code). rewrite C, M. cbn. apply orb_true_r.
  - cbn [negb app]. unfold memN. rewrite C. cbn. reflexivity.
Qed.

(* 4b. ALL filters at once - thread, process, class, BSD subclass: the request yields exactly the traces of the run
      with NO filter that satisfy every one of them, the process being judged with the tables the unfiltered run has at
      that trace (thread map as superseded by the new-thread / exec / terminate-pid / sampler records read so far, of
      whatever thread), in the same order, each window restricted to the fed records, and each with the SAME tables
      (hence the same process column and the same text for decoders that read the tables).
      Hypothesis: the decoders that write the tables belong to the trace and sampler classes (checked on the bundled
      code table below, and on the source by the harness). *)
Theorem c13_all_filters : forall dom dec kind payload,
  (forall c, kind c <> 0 -> cls c = DBG_TRACE \/ cls c = DBG_PERF) ->
  forall cfg s0 h,
  pipeline dom dec tstate (cstep kind payload) cproc_ok cfg s0 h =
  map (restrictS tstate (fed cfg))
      (filter (fun x => requested cfg (p_code (fst (fst x))) && keepT tstate cfg x && keepP tstate cproc_ok cfg x)
              (reference dom dec tstate (cstep kind payload) s0 h)).
Proof. intros. now apply traces_filters_commute. Qed.

(* 4c. identical text: the text of a trace is a function of the tables before its decoding and of its window; given the
      read-set closure (for a requested trace, the records that are not fed are not read - c13_closed with
      c13_bsd_feeds_lookups and the always-fed trace / sampler classes), the texts of the filtered request are the texts
      of the selected traces of the unfiltered run *)
Theorem c13_identical_text : forall dom dec kind payload (T : Type) (text : tstate -> list pev -> T),
  (forall c, kind c <> 0 -> cls c = DBG_TRACE \/ cls c = DBG_PERF) ->
  forall cfg s0 h,
  (forall s e w, headed (e, w) -> requested cfg (p_code e) = true -> text s (filter (P (fed cfg)) w) = text s w) ->
  map (text_of tstate T text) (pipeline dom dec tstate (cstep kind payload) cproc_ok cfg s0 h)
  = map (text_of tstate T text)
        (filter (fun x => requested cfg (p_code (fst (fst x))) && keepT tstate cfg x && keepP tstate cproc_ok cfg x)
                (reference dom dec tstate (cstep kind payload) s0 h)).
Proof.
  intros dom dec kind payload T text HK cfg s0 h HT.
  apply (pipeline_texts dom dec tstate (cstep kind payload) cproc_ok (cwriter kind)).
  - apply cstep_nonwriter.
  - apply cstep_restrict.
  - intros c Hc. now apply (writers_fed kind HK).
  - exact HT.
Qed.

Definition table_writers : list string :=
  ["TRACE_DATA_NEWTHREAD"; "TRACE_DATA_EXEC"; "TRACE_STRING_NEWTHREAD"; "TRACE_STRING_EXEC";
   "TRACE_DATA_THREAD_TERMINATE_PID"; "PERF_THD_Data"; "PERF_Event"]%string.
Theorem c13_writer_classes :
  forallb (fun p => negb (existsb (String.eqb (snd p)) table_writers)
                    || N.eqb (cls (fst p)) DBG_TRACE || N.eqb (cls (fst p)) DBG_PERF) code_entries = true.
Proof. vm_compute. reflexivity. Qed.

Example c13_all_filters_nontrivial :
  (* thread 8's process (55) is declared only by a sampler record of thread 7; request: class BSD + process "55" + tid 8 *)
  let dom c := false in let dec c := true in
  let kind c := if N.eqb c 0x25010000 then TK_THD_DATA else 0 in
  let words u := match u with 0 => [55; 8; 0; 1] | _ => [0; 0; 0; 0] end in
  let cfg := mkCfg (Some 8) (Some (s2b "55")) [4] [] in
  let h := [mkPev 7 0x25010000 QN 0; mkPev 8 0x040c000c QS 1; mkPev 8 0x040c000c QE 2; mkPev 7 0x040c000c QA 3] in
  map (fun x => p_uid (fst (fst x))) (pipeline dom dec tstate (cstep kind words) cproc_ok cfg (mkTs ([], []) []) h) = [2].
Proof. vm_compute. reflexivity. Qed.

(* 5. no residue: the request is a function of the caller's configuration and the dump; it does not read what an
      earlier request left in the object (tables are re-declared by the dump, image lists are cleared), and it returns
      the configuration unchanged - validated against the implementation by sequences of requests on one object *)
Record pobj := mkObj { ob_cfg : Filters.fcfg; ob_tables : list (N * N); ob_images : list N }.
Definition traces_call dom dec (o : pobj) (declared : list (N * N)) (h : list pev) :=
  (traces_model dom dec (ob_cfg o) h, mkObj (ob_cfg o) declared (ob_images o)).
Theorem c13_idempotent : forall dom dec o tm h,
  fst (traces_call dom dec (snd (traces_call dom dec o tm h)) tm h) = fst (traces_call dom dec o tm h) /\
  ob_cfg (snd (traces_call dom dec o tm h)) = ob_cfg o.
Proof. intros. split; reflexivity. Qed.

Example c13_nontrivial :
  let dom c := N.eqb (cls c) 7 in let dec c := true in
  let cfg := mkCfg None None [4] [] in
  let h := [mkPev 1 0x040c000c QS 0; mkPev 1 0x01300008 QS 1; mkPev 1 0x03010090 QA 2; mkPev 1 0x07010004 QN 3;
            mkPev 1 0x01300008 QE 4; mkPev 1 0x040c000c QE 5] in
  map (fun p => (p_uid (fst p), option_map (map p_uid) (snd p))) (traces_model dom dec cfg h)
  = [(5, Some [0; 2; 5])] /\
  map (fun p => p_uid (fst p)) (traces_model dom dec (cfg_tid_only cfg) h) = [2; 3; 4; 5].
Proof. vm_compute. split; reflexivity. Qed.

(* C14 — lines name the process the dump declares for the thread; columns compose.
   Model: theories/Format.v (hand model of _format_kevent, _format_trace, _format_callstack, _format_process and of the
   table writes of the trace-class / sampler decoders along the stream); tie: end-to-end correspondence of
   tools/props/C14.py (dump -> events -> pairing -> tables -> lines, for all 64 switch settings). *)
From Coq Require Import String NArith List Bool.
From Kd Require Import theories.Base theories.Printers theories.Container theories.DecoderDSL theories.Format theories.FormatLog
  theories.FormatIR gen.GenFormat theories.FormatRefine theories.TraceIR gen.GenTrace theories.TraceRefine.
Import ListNotations.
Open Scope N_scope.

(* 1. every line is the concatenation, in a fixed order, of its enabled columns; a column's text does not depend on the
      switches, so switching one off removes exactly that column - for all 2^6 settings (the switches are arbitrary
      booleans here) and every event / trace / callstack *)
Theorem c14_event_line : forall c codes tb e,
  let C i := nth i (kevent_columns codes tb e) [] in
  kevent_line c codes tb e =
    col (show_timestamp c) (C 0%nat) ++ col (show_name c) (C 1%nat) ++ col (show_func_qual c) (C 2%nat)
    ++ col (show_tid c) (C 3%nat) ++ col (show_process c) (C 4%nat) ++ col (show_args c) (C 5%nat).
Proof. exact kevent_line_columns. Qed.
Theorem c14_trace_line : forall c tb ts tid body,
  let C i := nth i (trace_columns tb ts tid body) [] in
  trace_line c tb ts tid body =
    col (show_timestamp c) (C 0%nat) ++ col (show_tid c) (C 1%nat) ++ col (show_process c) (C 2%nat) ++ body.
Proof. exact trace_line_columns. Qed.
Theorem c14_callstack_line : forall c tb ts tid fs,
  callstack_line c tb ts tid fs =
    col (show_timestamp c) (dec ts ++ s2b " ") ++ col (show_tid c) (rjust 11 (dec tid) ++ s2b " ")
    ++ col (show_process c) (ljust 34 (format_process tb tid)) ++ frame_lines 0 fs.
Proof. exact callstack_line_columns. Qed.
Theorem c14_padding_never_truncates : forall w s, firstn (length s) (ljust w s) = s.
Proof. exact ljust_keeps. Qed.

(* 2. the process column: the process the dump declares for the emitting thread at that point of the stream ... *)
Theorem c14_process_column : forall kind c st w body r, show_process c = true ->
  exists pre post, hd [] (trace_lines kind c st ((w, body) :: r)) =
    pre ++ ljust 34 (format_process (ts_tables (apply_window kind st w)) (e_tid (hd (mkFe 0 0 0 0 []) w))) ++ post.
Proof. exact trace_line_process. Qed.
(* ... a line is built from the tables as they are right after its own trace was decoded, never from later records *)
Theorem c14_lines_incremental : forall kind c st a b,
  trace_lines kind c st (a ++ b)
  = trace_lines kind c st a ++ trace_lines kind c (fold_left (fun s wb => apply_window kind s (fst wb)) a st) b.
Proof. exact trace_lines_app. Qed.
(* ... and a thread the dump never declared is reported as unknown, never attributed to a process *)
Theorem c14_undeclared_unknown : forall tb tid, dget (fst tb) tid = None ->
  format_process tb tid = s2b "Error: tid " ++ dec tid.
Proof. exact undeclared_is_unknown. Qed.
Theorem c14_declared : forall tb tid pid, dget (fst tb) tid = Some pid ->
  format_process tb tid = (match dget (snd tb) pid with Some n => n | None => [] end) ++ s2b "(" ++ dec pid ++ s2b ")".
Proof. exact declared_names_its_process. Qed.

(* 3. log lines (formatted_logs): the same composition - timestamp, thread id, process (for records that name one),
      message - for every switch setting, coloured or not *)
Theorem c14_log_line : forall c color tb tstext tid hp msg,
  log_line c color tb tstext tid hp msg =
    col (show_timestamp c) (paint color GREEN (ljust 27 tstext))
    ++ col (show_tid c) (rjust 11 (dec tid) ++ s2b " ")
    ++ col (show_process c) (col hp (s2b " " ++ paint color MAGENTA (ljust 27 (format_process tb tid)) ++ s2b " "))
    ++ paint color WHITE msg.
Proof. exact log_line_columns. Qed.
(* 4. colouring never changes the text: the coloured log line with its SGR sequences (ESC [ params m) removed IS the
      plain line, and the plain line contains none (guard: the date text, the process column and the message do not
      themselves contain the escape byte) *)
Theorem c14_colour_keeps_text : forall c tb tstext tid hp msg,
  noesc tstext = true -> noesc (format_process tb tid) = true -> noesc msg = true ->
  strip_ansi (log_line c true tb tstext tid hp msg) = log_line c false tb tstext tid hp msg /\
  strip_ansi (log_line c false tb tstext tid hp msg) = log_line c false tb tstext tid hp msg.
Proof. intros. split; [now apply log_colour_text | now apply log_plain_text]. Qed.
Example c14_colour_nontrivial :
  let tb := set_thread_map [(7, 1, s2b "launchd")] ([], []) in
  let l := log_line (mkF true false false false true false) true tb (s2b "2020-01-01 00:00:00.000000") 7 true (s2b "hi") in
  l <> strip_ansi l /\ strip_ansi l = s2b "2020-01-01 00:00:00.000000  launchd(1)                  hi".
Proof. split; [vm_compute; discriminate | vm_compute; reflexivity]. Qed.

Example c14_nontrivial :
  let kind e := match e with 10 => TK_DATA_NEW | 11 => TK_STR_NEW | _ => 0 end in
  let tb0 := set_thread_map [(7, 1, s2b "launchd")] ([], []) in
  let w1 := [mkFe 1 7 10 0 [8; 55; 0; 0]] in                 (* thread 7 declares new thread 8 of pid 55 *)
  let w2 := [mkFe 2 7 11 0 [0x697261666153; 0; 0; 0]] in     (* ... named "Safari" *)
  let w3 := [mkFe 3 8 99 1 [0; 0; 0; 0]] in
  trace_lines kind (mkF false false false false true false) (mkTs tb0 []) [(w1, s2b "a"); (w2, s2b "b"); (w3, s2b "c")]
  = [ljust 34 (s2b "launchd(1)") ++ s2b "a"; ljust 34 (s2b "launchd(1)") ++ s2b "b"; ljust 34 (s2b "Safari(55)") ++ s2b "c"].
Proof. vm_compute. reflexivity. Qed.

(* the code refines the model: the columns of every line builder as tools/translate/tr_format.py reads them off the f-strings
   of the current source (switch, content, alignment and width of the format spec, literal text after the field; the widths,
   separators and colour names of the log line; the two shapes of the process column; the frame-line format) render to
   exactly the lines of the model above, for every setting of the switches and every event / trace / callstack / log record *)
Theorem c14_code_event_line : forall c codes tb e, render_cols c codes tb e gen_kevent_cols = kevent_line c codes tb e.
Proof. exact kevent_code_refines. Qed.
Theorem c14_code_trace_line : forall c tb ts tid body,
  render_cols c (fun _ => None) tb (mkFe ts tid 0 0 []) gen_trace_cols ++ body = trace_line c tb ts tid body.
Proof. exact trace_code_refines. Qed.
Theorem c14_code_callstack_line : forall c tb ts tid fs,
  render_cols c (fun _ => None) tb (mkFe ts tid 0 0 []) gen_callstack_cols ++ render_frames gen_frame 0 fs
  = callstack_line c tb ts tid fs.
Proof. exact callstack_code_refines. Qed.
Theorem c14_code_log_line : forall c color tb tstext tid hp msg,
  render_log gen_log c color tb tstext tid hp msg = log_line c color tb tstext tid hp msg.
Proof. exact log_code_refines. Qed.
Theorem c14_code_process_column : forall tb tid, render_process gen_process tb tid = format_process tb tid.
Proof. exact process_code_refines. Qed.

(* the table writes of the model are the statements of the code: for every decoder that writes threads_pids / pids_names (the
   kernel-trace data / string decoders of trace.py and the sampler's thread-data decoder), the statements
   tools/translate/tr_trace.py reads off the current source - dataclass fields resolved to the START words they are built from -
   performed on any state for any window whose head the code table names so, give exactly the model's apply_window; the
   model has no writer kind the source lacks, and the decoders the translator found not to write have no kind *)
Theorem c14_code_table_writes : forall (kind : N -> N) n prog st h w,
  In (n, prog) gen_writers -> kind (e_eid h) = tk_of_name n -> apply_window kind st (h :: w) = wexec st h prog.
Proof. exact code_writes_are_model_writes. Qed.
Theorem c14_code_writers_complete :
  map (fun p => tk_of_name (fst p)) gen_writers = [TK_DATA_NEW; TK_DATA_EXEC; TK_STR_NEW; TK_STR_EXEC; TK_TERM_PID; TK_THD_DATA]
  /\ forallb (fun n => N.eqb (tk_of_name n) 0) gen_nonwriters = true.
Proof. split; [exact writers_complete | exact nonwriters_have_no_kind]. Qed.

(* C11 — flag words and packed fields decode to exactly the names of the bits set.
   The enum tables and the serializers are regenerated from the source (gen/GenEnums.v, the lsrc terms inside
   gen/GenDecoders.v); their semantics is DecoderDSL.lnames; reference values are theories/Darwin.v. *)
From Coq Require Import String ZArith NArith List Bool.
From Kd Require Import theories.Base theories.Printers theories.DecoderDSL theories.DecoderDeps theories.DecoderProps
  theories.Flags theories.Darwin gen.GenEnums gen.GenDecoders.
Import ListNotations.
Open Scope N_scope.

(* 1. the names carry Darwin's numeric values (families whose header values are listed in Darwin.v) *)
Definition same_members (a b : list (string * Z)) : bool :=
  forallb (fun x => existsb (fun y => String.eqb (fst x) (fst y) && Z.eqb (snd x) (snd y)) b) a &&
  forallb (fun x => existsb (fun y => String.eqb (fst x) (fst y) && Z.eqb (snd x) (snd y)) a) b.
Theorem c11_values : forallb (fun f => same_members (members gen_enums (fst f)) (snd f)) darwin_ref = true.
Proof. vm_compute. reflexivity. Qed.

(* 2. bit-set words, for EVERY word: every name shown shares a set bit with the word ... *)
Theorem c11_sound : forall e w n, In n (anybit gen_enums e w) ->
  exists v, In (n, v) (iter_members gen_enums e) /\ Z.land v (Z.of_N w) <> 0%Z.
Proof. exact (anybit_sound gen_enums). Qed.
(* ... every declared (iterated) member sharing a set bit is shown; in particular every single-bit member whose
   bit is set ... *)
Theorem c11_complete : forall e w n v, In (n, v) (iter_members gen_enums e) -> Z.land v (Z.of_N w) <> 0%Z ->
  In n (anybit gen_enums e w).
Proof. exact (anybit_complete gen_enums). Qed.
Theorem c11_single_bit : forall e w n k, In (n, (2 ^ Z.of_nat k)%Z) (iter_members gen_enums e) ->
  Z.testbit (Z.of_N w) (Z.of_nat k) = true -> In n (anybit gen_enums e w).
Proof. exact (anybit_single_bit gen_enums). Qed.
(* ... once, in declaration order *)
Theorem c11_order_once : forall e w,
  anybit gen_enums e w = map fst (filter (fun m => hasbit (snd m) w) (iter_members gen_enums e)) /\
  (NoDup (map fst (members gen_enums e)) -> NoDup (anybit gen_enums e w)).
Proof. intros e w. split; [reflexivity|apply anybit_nodup]. Qed.
(* no enum of the decoder modules declares a name twice; every enum whose members are iterated is made of
   zero / single-bit values, so "declared bit" and "iterated member" coincide *)
Fixpoint nodupb (l : list string) : bool :=
  match l with [] => true | x :: r => negb (existsb (String.eqb x) r) && nodupb r end.
Theorem c11_names_distinct : forallb (fun e => nodupb (map fst (snd e))) gen_enums = true.
Proof. vm_compute. reflexivity. Qed.
Definition bit_families : list string :=
  ["BscAccessFlags"; "SocketMsgFlags"; "BscChangeableFlags"; "FlockOperation"; "AsynchronousSystemTrapsReason"; "ThreadState";
   "VmProtection"; "RtldFlag"; "SamplerAction"; "KperfTiState"; "CallstackFlag"]%string.
Theorem c11_bit_families_single_bit :
  forallb (fun e => forallb (fun m => Z.eqb (snd m) 0 || is_pow2 (snd m)) (members gen_enums e)
                    && negb (match members gen_enums e with [] => true | _ => false end)) bit_families = true.
Proof. vm_compute. reflexivity. Qed.

(* 3. packed fields: the file type is a multi-bit field - exactly the member whose value IS the field is shown;
      the access mode of open flags is exactly one name *)
Theorem c11_stat_shown : forall X mask s n v, In (n, v) (members gen_enums "StatFlags") ->
  (if hasbit v mask then Z.eqb (Z.of_N (N.land (sval X s) mask)) v else hasbit v (sval X s)) = true ->
  In (canon gen_enums "StatFlags" n) (lnames gen_enums X (LStatFlags mask s)).
Proof. intros. eapply stat_shown; eauto. Qed.
Theorem c11_stat_shown_only : forall X mask s x, In x (lnames gen_enums X (LStatFlags mask s)) ->
  exists n v, In (n, v) (members gen_enums "StatFlags") /\ x = canon gen_enums "StatFlags" n /\
    (if hasbit v mask then Z.of_N (N.land (sval X s) mask) = v else Z.land v (Z.of_N (sval X s)) <> 0%Z).
Proof. intros. eapply stat_shown_only; eauto. Qed.
Theorem c11_open_flags_shape : forall X acc d rest s,
  lnames gen_enums X (LOpenFlags acc d rest s) =
    ((match filter (fun m => hasbit (member_val gen_enums "BscOpenFlags" m) (sval X s)) acc with
     | m :: _ => [canon gen_enums "BscOpenFlags" m] | [] => [canon gen_enums "BscOpenFlags" d] end)
    ++ map (canon gen_enums "BscOpenFlags") (filter (fun m => hasbit (member_val gen_enums "BscOpenFlags" m) (sval X s)) rest))%list.
Proof. reflexivity. Qed.
(* the serializer as it is in the source now: access modes RDWR, WRONLY (else RDONLY), and EVERY other declared
   open flag except the O_ACCMODE mask is in the emitted list *)
Definition open_flags_terms : list lsrc :=
  flat_map (fun r => flat_map (fun t => match t with TNames (LOpenFlags a d r s) _ => [LOpenFlags a d r (SConst 0)] | _ => [] end) (d_toks r))
           gen_rows.
Theorem c11_open_flags_complete :
  forallb (fun l => match l with
                    | LOpenFlags acc d rest _ =>
                      forallb (fun m => existsb (String.eqb (fst m)) (acc ++ d :: rest)%list || String.eqb (fst m) "O_ACCMODE")
                              (members gen_enums "BscOpenFlags")
                    | _ => false end) open_flags_terms = true /\ open_flags_terms <> [].
Proof. vm_compute. split; [reflexivity|discriminate]. Qed.
(* the file-type mask is S_IFMT *)
Theorem c11_stat_mask :
  forallb (fun r => forallb (fun t => match t with TNames (LStatFlags m _) _ => N.eqb m 61440 | _ => true end) (d_toks r)) gen_rows = true.
Proof. vm_compute. reflexivity. Qed.

(* 4. ioctl: direction, group, number and length are the exact inverse of Darwin's _IOC packing ... *)
Theorem c11_ioctl_inverse : forall dir g n len,
  (dir = IOC_VOID \/ dir = IOC_OUT \/ dir = IOC_IN \/ dir = IOC_INOUT) -> g < 256 -> n < 256 -> len < 2 ^ 13 ->
  let w := IOC dir g n len in
  N.land w IOC_DIRMASK = dir /\ N.land (N.shiftr w 8) 255 = g /\ N.land w 255 = n /\
  N.land (N.shiftr w 16) IOCPARM_MASK = len /\ w < 2 ^ 32.
Proof. exact ioc_inverse. Qed.
(* ... and these ARE the four expressions the ioctl row shows (regenerated from BscIoctl.__str__) *)
Theorem c11_ioctl_row :
  nth 1 (snd (fst call_BSC_ioctl)) [] =
  [THex (W EFirst 1); Lit " /* _IOC(";
   TDictGetHex [(IOC_VOID, "IOC_VOID"); (IOC_OUT, "IOC_OUT"); (IOC_IN, "IOC_IN"); (IOC_INOUT, "IOC_IN | IOC_OUT");
                (IOC_DIRMASK, "IOC_DIRMASK")]%string (SAnd (W EFirst 1) IOC_DIRMASK);
   Lit ", '"; TChr (SAnd (SShr (W EFirst 1) 8) 255); Lit "', "; TDec (SAnd (W EFirst 1) 255); Lit ", ";
   TDec (SAnd (SShr (W EFirst 1) 16) IOCPARM_MASK); Lit ") */"].
Proof. reflexivity. Qed.
(* total on all request words: the row cannot raise *)
Theorem c11_ioctl_total : forall H X, exists t,
  render_toks gen_enums H X (nth 1 (snd (fst call_BSC_ioctl)) []) = ROk t.
Proof.
  intros H X. rewrite c11_ioctl_row. cbn [render_toks render_tok].
  destruct (find _ _); eexists; reflexivity.
Qed.

Example c11_nontrivial :
  let X w := mkCtx [0; w; 0; 0] [0; 0; 0; 0] 0 0 [] [] (fun _ => None) false in
  lnames gen_enums (X 0x601) (LOpenFlags ["O_RDWR"; "O_WRONLY"] "O_RDONLY"
     ["O_CREAT"; "O_APPEND"; "O_TRUNC"; "O_EXCL"; "O_NONBLOCK"; "O_SHLOCK"; "O_EXLOCK"; "O_ASYNC"; "O_NOFOLLOW"; "O_SYMLINK";
      "O_EVTONLY"; "O_CLOEXEC"] (W EFirst 1)) = ["O_WRONLY"; "O_CREAT"; "O_TRUNC"]%string /\
  lnames gen_enums (X 24996) (LStatFlags 61440 (W EFirst 1))
    = ["S_IROTH"; "S_IRGRP"; "S_IWUSR"; "S_IRUSR"; "S_IFBLK"]%string.
Proof. vm_compute. split; reflexivity. Qed.

(* C18 — output is a function of the dump, not of the host operating system.
   The host's errno / signal / socket tables are an explicit parameter `H` of the rendering model; which rows read it
   is computed from the regenerated rows. *)
From Coq Require Import String ZArith NArith List Bool.
From Kd Require Import theories.Base theories.Printers theories.DecoderDSL theories.DecoderDeps theories.DecoderProps
  gen.GenEnums gen.GenDecoders.
Import ListNotations.
Open Scope N_scope.

Definition reads_host (r : drow) : bool := mem_res RHost (uses_toks (d_toks r)).

(* 1. rows that do not read the host tables render identically on every host, for all words and contexts *)
Theorem c18_host_free_rows : forall r H1 H2 X, In r gen_rows -> reads_host r = false ->
  render_row gen_enums H1 X r = render_row gen_enums H2 X r.
Proof.
  intros r H1 H2 X _ F. unfold render_row. apply render_toks_agree.
  intros x Hx. destruct x; cbn; auto.
  exfalso. unfold reads_host in F. assert (mem_res RHost (uses_toks (d_toks r)) = true) by now apply mem_res_In. congruence.
Qed.

(* 2. and every row renders identically on two hosts whose tables agree (the host enters through `H` only) *)
Theorem c18_only_through_tables : forall r H1 H2 X,
  (forall n, h_errno H1 n = h_errno H2 n) -> (forall e v, h_enum H1 e v = h_enum H2 e v) ->
  (forall c, h_const H1 c = h_const H2 c) ->
  render_row gen_enums H1 X r = render_row gen_enums H2 X r.
Proof.
  intros r H1 H2 X E1 E2 E3. unfold render_row. apply render_toks_agree.
  intros x _. destruct x; cbn; auto.
Qed.

(* 3. the full statement - independence of the host for EVERY row - is FALSE of the faithful model (and of the
      code: finding F17): the rows that render a result, a signal, an address family, a socket type or a socket-option
      level read the host interpreter's tables *)
Definition H_linux : host :=
  mkHost (fun n => if N.eqb n 35 then Some "EDEADLK"%string else None) (fun _ _ => None) (fun _ => 1).
Definition H_darwin : host :=
  mkHost (fun n => if N.eqb n 35 then Some "EAGAIN"%string else None) (fun _ _ => None) (fun _ => 0xffff).
Theorem c18_refuted : exists r X, In r gen_rows /\ render_row gen_enums H_linux X r <> render_row gen_enums H_darwin X r.
Proof.
  destruct (find (fun r => String.eqb (d_key r) "BSC_read") gen_rows) as [r|] eqn:F; [|vm_compute in F; discriminate].
  exists r, (mkCtx [3; 0x1000; 16; 0] [35; 0; 0; 0] 7 7 [] [] (fun _ => None) false).
  split; [apply find_some in F; tauto|].
  vm_compute in F. injection F as <-. vm_compute. discriminate.
Qed.

(* how many rows read the host today (a change in this number is visible in the evidence) *)
Definition host_reading_rows : list string := map d_key (filter reads_host gen_rows).
Example c18_some_rows_are_host_free : exists r, In r gen_rows /\ reads_host r = false /\ d_key r = "MSC_mach_vm_allocate_trap"%string.
Proof.
  destruct (find (fun r => String.eqb (d_key r) "MSC_mach_vm_allocate_trap") gen_rows) as [r|] eqn:F; [|vm_compute in F; discriminate].
  exists r. split; [apply find_some in F; tauto|]. vm_compute in F. injection F as <-. split; reflexivity.
Qed.

"""C04 — START/END pairing delivers exactly each operation's per-thread event window."""
from .. import vlib
from ..translate import tr_handlers, tr_kevent, tr_pairing
from . import pairing_common as pc

TRANSLATORS = [tr_kevent.translate, tr_handlers.translate, tr_pairing.translate]
MODEL_TARGETS = ['theories/PairingCases.vo']
PROOF_TARGETS = ['props/C04.vo', 'theories/PairingRefine.vo']
PROP_FILE = 'props/C04.v'
ASSUMPTIONS = [
    'the nested dict state[tid][eventid] is modelled as an association list keyed (tid, eventid); dict iteration '
    'order and emptied inner dicts are unobservable (validated by the correspondence on every run)',
    'dom/dec (is the code routed to on_going_traces / has a decoder) are functions of the event id for a fixed '
    'code table; the harness derives them from the handlers dicts and trace.codes by the AST translators',
    'decoders are abstract in this model: the theorem is about WHICH window is handed to a decoder and when',
]


def gen(ctx, uni):
    rng = ctx.rng
    hs = []
    n = 260 if ctx.quick() else 4000
    maxlen = 60 if ctx.quick() else 400
    for k in range(n):
        L = rng.choice([3, 6, 10, 20, 40, maxlen])
        hs.append(pc.gen_history(rng, uni, L, rng.randint(1, 4), rng.randint(2, 6)))
    # directed: re-opened START, crossing pairs, stray END, NONE continuation inside own window, domain mix
    rd = uni.by_name['BSC_read'][0]
    op = uni.by_name['BSC_open'][0]
    lk = uni.by_name['VFS_LOOKUP'][0]
    ts = uni.by_name['TRACE_STRING_GLOBAL'][0]
    z = [0, 0, 0, 0]
    hs += [
        [[1, rd, 1, z], [1, rd, 1, z], [1, rd, 2, z]],
        [[1, rd, 1, z], [1, op, 1, z], [1, rd, 2, z], [1, op, 2, z]],
        [[1, rd, 2, z], [1, rd, 1, z], [1, op, 2, z], [1, rd, 2, z], [1, rd, 2, z]],
        [[1, rd, 1, z], [1, lk, 1, z], [1, lk, 0, z], [1, lk, 2, z], [1, rd, 2, z]],
        [[1, rd, 1, z], [1, ts, 1, [0, 5, 0x41, 0]], [2, rd, 1, z], [1, ts, 0, [0x42, 0, 0, 0]], [1, ts, 2, z],
         [2, rd, 2, z], [1, rd, 2, z]],
        [[1, lk, 0, z], [1, lk, 3, z], [1, rd, 3, z]],
    ]
    # records of the trace class that have no decoder (lost-events notices, unknown 0x07.. ids) are ordinary records: they
    # belong to the enclosing ordinary window of their thread and never to a trace-string window
    for und in [c for c in uni.undecoded if c >> 24 == 7][:3] + [0x07ff0004]:
        hs += [[[1, rd, 1, z], [1, und, 0, z], [1, und, 3, z], [1, rd, 2, z]],
               [[1, ts, 1, [0, 5, 0x41, 0]], [1, und, 0, z], [1, ts, 2, z], [1, rd, 1, z], [1, und, 1, z], [1, und, 2, z], [1, rd, 2, z]]]
    return hs


def single_record_histories(uni):
    """one NONE- / ALL-qualified record of every decoder that usually sees a START..END window (page fault, sampler, launch,
    the kernel trace records), with words on which the decoder has nothing to reject: exactly one trace, of that record alone"""
    out = []
    for name, ws in (('MACH_vmfault', [0, 0x1000, 5, 0]), ('MACH_vmfault', [0, 0x1000, 0, 1]), ('PERF_Event', [0, 0, 0, 0]),
                     ('DBG_DYLD_TIMING_LAUNCH_EXECUTABLE', [0, 0, 0, 0]), ('TRACE_STRING_GLOBAL', [0, 3, 0x41, 0]),
                     ('TRACE_STRING_THREADNAME', [0x41, 0, 0, 0]), ('TRACE_DATA_NEWTHREAD', [9, 1, 0, 0]), ('BSC_read', [3, 0, 8, 0])):
        if name not in uni.by_name:
            continue
        c = uni.by_name[name][0]
        for q in (0, 3):
            out.append([[1, c, q, ws]])
            out.append([[1, uni.by_name['BSC_open'][0], 1, [0, 0, 0, 0]], [1, c, q, ws], [1, uni.by_name['BSC_open'][0], 2, [0, 3, 0, 0]]])
    return out


def run(ctx, model_ok):
    uni = pc.Universe()
    hs = gen(ctx, uni)
    singles = single_record_histories(uni)
    sres1 = vlib.run_impl('run_pairing.py', {'histories': singles})['results']
    ctx.evaluations += len(singles)
    for h, r in zip(singles, sres1):
        exp = pc.spec_outputs(h, uni)
        if r['outs'] != exp or r['decoder_errors']:
            ctx.failing.append({'input': {'history': h}, 'expected': {'windows': exp, 'decoder_errors': {}},
                                'actual': {'windows': r['outs'], 'decoder_errors': r['decoder_errors']},
                                'why': 'a NONE- / ALL-qualified record of a decodable code does not produce exactly one trace of that '
                                       'record alone (the decoder raised on a one-record window, or the window is another one)'})
    res = vlib.run_impl('run_pairing.py', {'histories': hs, 'declared': True})['results']
    ctx.evaluations += len(hs)
    ctx.rule = ('random event histories over 1-4 thread ids x 2-6 codes drawn from {trace-domain, decodable, '
                'known-but-undecoded, unknown to the table} x the four qualifiers (START/END weighted), lengths 3..60 '
                '(quick) / 400 (thorough), plus directed histories (re-opened START, crossing pairs, stray END, NONE '
                'fragment inside its own window, domain mix), plus large histories (1100..70000 threads, windows of 1500..66000 records, 300 calls open at once; implementation against the outputs written down by construction); non-trivial = distinct history with a delivered END '
                'window of >= 3 records closed while >= 2 codes were open on that thread')
    cases = []
    for i, (h, r) in enumerate(zip(hs, res)):
        ctx.count('len<=10' if len(h) <= 10 else 'len<=40' if len(h) <= 40 else 'len>40')
        for e in h:
            ctx.count('qual=%d' % e[2])
        ctx.count('delivered', sum(1 for o in r['outs'] if o is not None))
        for k, v in r['decoder_errors'].items():
            ctx.count('decoder_raised_' + k, v)
        exp = pc.spec_outputs(h, uni)
        if pc.nontrivial(h, exp):
            ctx.nontrivial.add(repr(h))
        if r['outs'] != exp:
            j = next(k for k in range(len(h)) if r['outs'][k] != exp[k])
            ctx.failing.append({'input': {'history': h[:j + 1]}, 'expected': {'window_for_event': j, 'indices': exp[j]},
                                'actual': r['outs'][j],
                                'why': 'the window delivered for this event is not the one C04 demands'})
            cases.append(None)
            continue
        cases.append(pc.to_case(h, uni, r))
    # scale: sizes at which a bounded table, cache or queue would show; expectations written down by construction
    sc = pc.scale_histories(uni, ctx.quick())
    sres = vlib.run_impl('run_pairing.py', {'histories': [h for _, h, _ in sc], 'declared': True}, timeout=3000)['results']
    ctx.evaluations += len(sc)
    for (name, h, exp), r in zip(sc, sres):
        ctx.count('scale:' + name)
        if r['outs'] != exp:
            j = next(k for k in range(len(h)) if r['outs'][k] != exp[k])
            ctx.failing.append({'input': {'scale_history': name, 'records': len(h), 'first_wrong_event': j, 'event': h[j]},
                                'expected': {'window_for_event': j, 'indices': (exp[j] or [])[:6], 'length': len(exp[j] or [])},
                                'actual': {'indices': (r['outs'][j] or [])[:6], 'length': len(r['outs'][j] or []) if r['outs'][j] is not None else None},
                                'why': 'the window delivered for this event is not the one C04 demands (large history)'})
    ctx.samples = [{'history': hs[i], 'impl_windows': res[i]['outs']} for i in (len(hs) - 3, 0)]
    if model_ok:
        idx = [i for i, c in enumerate(cases) if c is not None]
        bad, errors = vlib.run_model_cases('C04', pc.HEADER, 'pcase', 'pcheck', [cases[i] for i in idx], per_file=40)
        ctx.traces_validated = len(idx) - len(bad)
        if errors:
            ctx.broken.append(('correspondence', f'case files failed to evaluate: {errors[0]}'))
        for b in bad[:10]:
            i = idx[b]
            ctx.broken.append(('correspondence', {'history': hs[i], 'impl': res[i]}))


def replay(payload):
    uni = pc.Universe()
    h = payload['input']['history']
    r = vlib.run_impl('run_pairing.py', {'histories': [h]})['results'][0]
    print('implementation windows:', r['outs'])
    print('property demands      :', pc.spec_outputs(h, uni))
    rc, out = vlib.eval_in_coq('C04', pc.HEADER, [f'pcheck {pc.to_case(h, uni, r)}'])
    print('model agrees with implementation:', out.strip())
    return 0

"""C13 — trace filters commute with decoding and leave no residue in the parser."""
from .. import vlib
from ..vlib import cN, clist
from ..translate import tr_decoders, tr_handlers, tr_filters, tr_pairing
from ..harness.streams import StreamGen
from . import pairing_common as pc

TRANSLATORS = [tr_handlers.translate, tr_decoders.translate, tr_filters.translate, tr_pairing.translate]
MODEL_TARGETS = ['theories/FiltersTracesCases.vo', 'theories/FiltersPipelineCases.vo']
PROOF_TARGETS = ['props/C13.vo', 'theories/FiltersRefine.vo', 'theories/PairingRefine.vo']
PROP_FILE = 'props/C13.v'
ASSUMPTIONS = [
    'traces() is modelled as: event selection (kevents with helper classes) -> pairing machine (C04 model) -> post-filters; '
    'decoders are abstract at this level (identical text is argued from what the regenerated rows read, c13_closed, and '
    'compared differentially)',
    'the whole request (selection, pairing, table writes of the trace-class / sampler decoders as modelled for C14, thread / '
    'process / helper post-filters) is theories/FiltersPipeline*.v; c13_all_filters assumes that the table-writing decoders '
    'belong to the trace and sampler classes: checked on the bundled code table (c13_writer_classes) and on the source '
    '(every handler that touches parser.threads_pids / pids_names is registered under one of the seven names of table_writers)',
    'the commutation claim for subclass filters is for BSD subclasses (as the property states): composite decoders of other '
    'classes read nested records of sibling subclasses',
]
HEADER2 = ('From Coq Require Import NArith List.\nFrom Kd Require Import theories.Base theories.Harness '
           'theories.FiltersPipelineCases.\nImport ListNotations.\nOpen Scope N_scope.')
KINDS = {'TRACE_DATA_NEWTHREAD': 1, 'TRACE_DATA_EXEC': 2, 'TRACE_STRING_NEWTHREAD': 3, 'TRACE_STRING_EXEC': 4,
         'TRACE_DATA_THREAD_TERMINATE_PID': 5, 'PERF_THD_Data': 6, 'PERF_Event': 7}
HEADER = ('From Coq Require Import NArith List.\nFrom Kd Require Import theories.Base theories.Harness '
          'theories.FiltersTracesCases.\nImport ListNotations.\nOpen Scope N_scope.')


def gen_cfg(rng, evs, threads):
    classes, subs = [], []
    r = rng.random()
    ev_sub = sorted({e[1] >> 16 for e in evs if e[1] >> 24 == 4}) or [0x040c]
    if r < 0.2:
        pass
    elif r < 0.45:
        classes = [4]
    elif r < 0.6:
        subs = [rng.choice(ev_sub)]
    elif r < 0.7:
        classes = [7]
    elif r < 0.8:
        classes = [3, 4]
    elif r < 0.9:
        subs = [rng.choice(ev_sub), 0x0701]
    else:
        classes = [rng.choice([4, 0x25, 1])]
        subs = [0x0301]
    tid = rng.choice([None, None, 11, 99999, 0] + [t for t, _, _ in threads[:1]] + sorted({e[0] for e in evs}))
    return {'filter_class': classes, 'filter_subclass': subs, 'filter_tid': tid}


def run(ctx, model_ok):
    rng = ctx.rng
    uni = pc.Universe()
    sg = StreamGen(uni)
    n = 60 if ctx.quick() else 800
    reqs, info = [], []
    for i in range(n):
        threads, evs = sg.gen(rng, n_ops=rng.choice([6, 12, 20]), rich=(i % 2 == 1), empty_map_ok=True)
        t0 = threads[0] if threads else (evs[0][0], 1, b'')
        cfg = gen_cfg(rng, evs, threads)
        directed = None
        if i % 5 == 2:
            # directed: the text of a thread-terminate trace names the pid of the terminated thread, which only a sampler
            # record of ANOTHER thread declared; the request filters on the terminating thread alone
            c = sg.c
            a_tid, b_tid, pid = 0x601, 0x602, rng.choice([56, 77])
            extra = [[a_tid, c['PERF_THD_Data'], 0, [pid, b_tid, 0x5000, 1]], [b_tid, c['TRACE_DATA_THREAD_TERMINATE'], 0, [b_tid, 0, 0, 0]],
                     [b_tid, c['BSC_getpid'], 1, [0, 0, 0, 0]], [b_tid, c['BSC_getpid'], 2, [0, pid, 0, 0]]]
            k = rng.randrange(len(evs) + 1)
            evs = evs[:k] + extra + evs[k:]
            cfg = {'filter_class': [], 'filter_subclass': [], 'filter_tid': b_tid}
        if i % 2 == 0:
            # a thread is reported terminated BEFORE its name is announced (and a kernel string is used before it is
            # announced): the first and every later request on one object render the early record without the later name
            c = sg.c
            x = 0x7a1
            from ..harness.streams import name_words
            evs = evs + [[x, c['TRACE_DATA_THREAD_TERMINATE'], 0, [x, 0, 0, 0]], [x, c['TRACE_STRING_THREADNAME'], 0, name_words('late-name')],
                         [x, c['TRACE_DATA_THREAD_TERMINATE'], 0, [x, 0, 0, 0]]]
        if i % 5 == 4:
            # directed: records emitted outside a thread context carry thread id 0; a request for thread 0 is a request like
            # any other
            c = sg.c
            extra = [[0, c['BSC_getpid'], 1, [0, 0, 0, 0]], [0, c['BSC_getpid'], 2, [0, 1, 0, 0]]]
            k = rng.randrange(len(evs) + 1)
            evs = evs[:k] + extra + evs[k:]
            cfg = {'filter_class': rng.choice([[], [4]]), 'filter_subclass': [], 'filter_tid': 0}
        if i % 5 == 3:
            # directed: a kernel string of three records with a record of another class of the same thread between them; the
            # request asks for the trace class only
            c = sg.c
            text = b'a-global-string-that-needs-three-records-to-be-announced-x'
            chunks = [(0).to_bytes(8, 'little') + (2).to_bytes(8, 'little') + text[:16]] + \
                     [text[k2:k2 + 32].ljust(32, b'\0') for k2 in range(16, len(text), 32)]
            extra = []
            for j2, ch in enumerate(chunks):
                q = (1 if j2 == 0 else 0) | (2 if j2 == len(chunks) - 1 else 0)
                extra.append([0x701, c['TRACE_STRING_GLOBAL'], q, [int.from_bytes(ch[8 * k3:8 * k3 + 8], 'little') for k3 in range(4)]])
                extra.append([0x701, c['BSC_getpid'], rng.choice([0, 3]), [1, 2, 3, 4]])
            k = rng.randrange(len(evs) + 1)
            evs = evs[:k] + extra + evs[k:]
            cfg = {'filter_class': [7], 'filter_subclass': [], 'filter_tid': None}
        if i % 5 in (0, 1):
            # directed: thread B's process is declared ONLY by a record of ANOTHER thread A (sampler thread data of the
            # sampler class, or a new-thread record of the trace class); B then makes syscalls; the request filters on B's
            # process together with a class filter and / or B's thread id
            c = sg.c
            a_tid, b_tid, pid = 0x501, 0x502, rng.choice([56, 77])
            decl = ([[a_tid, c['PERF_THD_Data'], 0, [pid, b_tid, 0x5000, 1]]] if i % 5 == 0 else
                    [[a_tid, c['TRACE_DATA_NEWTHREAD'], 0, [b_tid, pid, 0, 0]]])
            call = [[b_tid, c['BSC_read'], 1, [3, 0x1000, 16, 0]], [b_tid, c['BSC_read'], 2, [0, 16, 0, 0]]]
            k = rng.randrange(len(evs) + 1)
            if rng.random() < 0.5:
                # ... and B had already emitted a call before it was declared, in a dump whose thread map is empty: the repeated
                # request must not remember the declaration from the first one
                threads = []
                evs = evs[:k] + call + decl + call + evs[k:]
            else:
                evs = evs[:k] + decl + call + evs[k:]
            directed = str(pid)
            cfg = {'filter_class': rng.choice([[4], [], [4, 3]]), 'filter_subclass': rng.choice([[], [0x040c]]),
                   'filter_tid': rng.choice([None, b_tid])}
        f = sg.v2(threads, evs).hex()
        proc = directed or rng.choice([str(t0[1]), t0[2].decode() or 'Safari', 'Safari', 'xpcproxy', '55', '56', '7', 'launchd'])
        base = {'color': False}
        # request 0: NO filter at all, with the formatted lines (the reference run: its traces, and the process column of
        # each); request 1: class / subclass / tid filters, REPEATED on the same object mixed with callstacks / kevents
        # requests; request 2: process filter alone; request 3: class list given as a tuple; request 4: ALL filters at once
        reqs.append({'file': f, 'cfg': dict(base), 'calls': ['traces', 'formatted_traces']})
        reqs.append({'file': f, 'cfg': dict(base, **cfg), 'calls': ['traces', 'callstacks', 'traces', 'kevents', 'traces', 'formatted_traces']})
        reqs.append({'file': f, 'cfg': dict(base, filter_process=proc, show_tid=True), 'calls': ['traces', 'traces']})
        reqs.append({'file': f, 'cfg': {'color': False, 'filter_class_tuple': cfg['filter_class'],
                                        'filter_subclass': cfg['filter_subclass']}, 'calls': ['traces']})
        reqs.append({'file': f, 'cfg': dict(base, filter_process=proc, **cfg), 'calls': ['traces', 'traces']})
        # request 5: the object first serves OTHER settings, then the caller sets these ones
        other = gen_cfg(rng, evs, threads)
        reqs.append({'file': f, 'cfg': dict(base, filter_process=rng.choice([None, proc]), **other),
                     'calls': ['traces', {'set': dict(cfg, filter_process=None)}, 'traces']})
        info.append((threads, evs, cfg, proc))
    out = vlib.run_impl('run_api.py', {'cases': reqs}, timeout=3000)['results']
    ctx.evaluations = len(reqs)
    ctx.rule = ('semantic streams (syscalls with nested lookups, exec / new-thread name pairs, terminate-pid, sampler thread data) x '
                'filter configurations (none, [BSD], one BSD subclass, [TRACE], [FSYSTEM, BSD], BSD subclass + trace-string '
                'subclass, other class + lookup subclass; tid none/present/absent/undeclared-in-the-map; process by pid / name incl. pids declared only by new-thread or sampler records of OTHER threads; all filters combined) x request sequences '
                'traces, callstacks, traces, kevents, traces on ONE object, a request after the object served OTHER settings, and the class list given as a tuple; non-trivial = '
                'distinct (stream, configuration) whose filtered output is a non-empty proper subsequence of the unfiltered one')
    cases, pcases, pinfo = [], [], []
    for i, (threads, evs, cfg, proc) in enumerate(info):
        r0, r1, r2, r3, r4, r5 = out[6 * i:6 * i + 6]
        unf = r0[0]['items']
        flt = r1[0]['items']
        inp = {'threads': [[t, p, nm.decode()] for t, p, nm in threads], 'events': evs, 'cfg': cfg}
        if any(c['err'] for c in r0 + r1 + r2 + r3 + r4 + r5):
            ctx.failing.append({'input': inp, 'expected': 'no exception', 'actual': [c['err'] for c in r0 + r1 + r2 + r3 + r4 + r5],
                                'why': 'a request raised'})
            continue

        def wanted(it):
            eid = it[6]
            if cfg['filter_tid'] is not None and it[5] != cfg['filter_tid']:
                return False
            if not cfg['filter_class'] and not cfg['filter_subclass']:
                return True
            return (eid >> 24) in cfg['filter_class'] or (eid >> 16) in cfg['filter_subclass']

        def proc_matches(it, ln):
            col = ln[len(str(it[1])) + 1:][:34].rstrip()
            name, _, pid = col.rpartition('(')
            pid = pid.rstrip(')')
            if col.startswith('Error: tid'):
                name, pid = '', '-1'
            return proc == pid or proc == name
        exp = [it for it in unf if wanted(it)]
        exp_all = [it for it, ln in zip(unf, r0[1]['items']) if wanted(it) and proc_matches(it, ln)]
        key = lambda it: (it[1], it[0], it[4])          # head record, class, text
        non_bsd_sub = any(s >> 8 != 4 for s in cfg['filter_subclass'])
        if [key(it) for it in flt] != [key(it) for it in exp] and not (non_bsd_sub and [it[1] for it in flt] == [it[1] for it in exp]):
            ctx.failing.append({'input': inp, 'expected': [[it[1], it[4]] for it in exp], 'actual': [[it[1], it[4]] for it in flt],
                                'why': 'the filtered request does not yield exactly the traces of the unfiltered run that '
                                       'satisfy the filter, in order and with identical text'})
            continue
        if 0 < len(flt) < len(unf):
            ctx.nontrivial.add(repr((evs, cfg)))
        # the formatted lines (process column included) of the filtered request are the reference lines of the selected traces
        exp_lines = [ln for it, ln in zip(unf, r0[1]['items']) if wanted(it)]
        if not non_bsd_sub and r1[5]['items'] != exp_lines:
            j = next((k for k in range(min(len(exp_lines), len(r1[5]['items']))) if exp_lines[k] != r1[5]['items'][k]), 0)
            ctx.failing.append({'input': inp, 'expected': exp_lines[j:j + 2], 'actual': r1[5]['items'][j:j + 2],
                                'why': 'the lines of the filtered request (process column, text) are not the lines of the selected '
                                       'traces of the unfiltered run'})
        # no residue: same request repeated (after callstacks / kevents requests) gives the same output, settings untouched
        for c in (r1[2], r1[4]):
            if c['items'] != flt:
                ctx.failing.append({'input': inp, 'expected': [[it[1], it[4]] for it in flt],
                                    'actual': [[it[1], it[4]] for it in c['items']],
                                    'why': 'repeating the same request on the same parser object yields a different output'})
                break
        for c in r1:
            a = c['cfg_after']
            if (a['filter_class'], a['filter_subclass'], a['filter_tid']) != (cfg['filter_class'], cfg['filter_subclass'], cfg['filter_tid']):
                ctx.failing.append({'input': inp, 'expected': cfg, 'actual': a,
                                    'why': "the caller's filter settings were changed by a request"})
                break
        if r3[0]['cfg_after']['filter_class_type'] != 'tuple' or [key(it) for it in r3[0]['items']] != \
                [key(it) for it in out[6 * i + 1][0]['items'] if cfg['filter_tid'] is None] and cfg['filter_tid'] is None:
            ctx.failing.append({'input': inp, 'expected': 'a tuple of classes works like a list and stays a tuple',
                                'actual': r3[0]['cfg_after'], 'why': 'class filter given as a tuple is not honoured / was replaced'})
        # process filter = post-filter: the unfiltered listing (no tid filter) restricted by its own process column
        full = vlib_full.get(i)
        # model correspondence for the class / tid part
        classes = sorted({e[1] for e in evs})
        cl = clist([f'({cN(c)}, ({"true" if uni.classify(c)[0] else "false"}, {"true" if uni.classify(c)[1] else "false"}, 0))'
                    for c in classes])
        ins = clist([f'({cN(t)}, {cN(c)}, {q}, [])' for t, c, q, ws in evs])
        obs = clist([f'({cN(it[1] - 1)}, {cN(it[2] - 1)})' for it in flt])
        ft = 'None' if cfg['filter_tid'] is None else f'(Some {cN(cfg["filter_tid"])})'
        cases.append(f'({cl}, ({ft}, {clist([cN(x) for x in cfg["filter_class"]])}, {clist([cN(x) for x in cfg["filter_subclass"]])}), '
                     f'{ins}, {obs})')
        # model correspondence for the whole request (all filters, table evolution)
        kd = clist([f'({cN(c)}, {KINDS[uni.codes[c]]})' for c in classes if uni.codes.get(c) in KINDS])
        tmc = clist([f'({cN(t)}, {cN(p)}, {vlib.cbytes(nm)})' for t, p, nm in threads])
        insw = clist([f'({cN(t)}, {cN(c)}, {q}, {clist([cN(w) for w in ws])})' for t, c, q, ws in evs])
        for rr, fp in ((r4, proc), (r2, proc)):
            cfgp = cfg if rr is r4 else {'filter_tid': None, 'filter_class': [], 'filter_subclass': []}
            ftp = 'None' if cfgp['filter_tid'] is None else f'(Some {cN(cfgp["filter_tid"])})'
            obsp = clist([f'({cN(it[1] - 1)}, {cN(it[2] - 1)})' for it in rr[0]['items']])
            pcases.append(f'({cl}, {kd}, ({ftp}, Some {vlib.cstr_bytes(fp)}, {clist([cN(x) for x in cfgp["filter_class"]])}, '
                          f'{clist([cN(x) for x in cfgp["filter_subclass"]])}), {tmc}, {insw}, {obsp})')
            pinfo.append((inp, fp, cfgp))
        # process filter oracle: the traces of the unfiltered run whose process column matches
        keep = [it for it, ln in zip(unf, r0[1]['items']) if proc_matches(it, ln)]
        got = r2[0]['items']
        if [key(it) for it in got] != [key(it) for it in keep] or r2[1]['items'] != got:
            ctx.failing.append({'input': dict(inp, filter_process=proc), 'expected': [[it[1], it[4]] for it in keep],
                                'actual': [[it[1], it[4]] for it in got],
                                'why': 'the process filter does not select exactly the traces whose process column matches'})
        # no residue of earlier, different settings
        if r5[2]['items'] != flt:
            ctx.failing.append({'input': dict(inp, earlier_settings=other), 'expected': [[it[1], it[4]] for it in flt],
                                'actual': [[it[1], it[4]] for it in r5[2]['items']],
                                'why': 'a request answered after the object served OTHER settings differs from the same request '
                                       'on a fresh object'})
        # all filters at once: exactly the traces of the unfiltered run that satisfy every one of them
        got = r4[0]['items']
        if [key(it) for it in got] != [key(it) for it in exp_all] or r4[1]['items'] != got:
            if not (non_bsd_sub and [it[1] for it in got] == [it[1] for it in exp_all]):
                ctx.failing.append({'input': dict(inp, filter_process=proc), 'expected': [[it[1], it[4]] for it in exp_all],
                                    'actual': [[it[1], it[4]] for it in got],
                                    'why': 'thread + process + class filters together do not yield exactly the traces of the '
                                           'unfiltered run that satisfy all of them (process judged by the process column of the '
                                           'unfiltered listing)'})
        if exp_all and len(exp_all) < len(exp):
            ctx.nontrivial.add(repr((evs, cfg, proc)))
    # the command line: traces / callstacks with --tid, --process, -cf, -sf print the API's lines for those settings
    from . import cli_common
    cli_common.run(ctx, ['traces', 'callstacks', 'logs'], 120 if ctx.quick() else 900)
    # static tie of c13_all_filters' hypothesis to the source: which registered decoders touch the tables
    tw = table_touching_names()
    if tw is not None:
        outside = sorted((hex(c), n) for c, n in uni.codes.items() if n in tw and (c >> 24) not in (7, 37))
        if outside or not set(KINDS) - {'TRACE_DATA_EXEC'} <= set(tw):
            ctx.broken.append(('translation', {'what': 'decoders that read or write parser.threads_pids / pids_names must be of '
                                                       'the trace or sampler class (hypothesis of c13_all_filters)',
                                               'outside_those_classes': outside, 'found': sorted(tw)}))
    ctx.extra['table_touching_decoders'] = sorted(tw) if tw is not None else 'source not analysable'
    ctx.samples = [{'cfg': info[0][2], 'events': info[0][1][:6], 'unfiltered': [[it[1], it[4]] for it in out[0][0]['items']][:6],
                    'filtered': [[it[1], it[4]] for it in out[1][0]['items']][:6]}]
    if model_ok:
        bad, errors = vlib.run_model_cases('C13', HEADER, 'ftcase', 'ftcheck', cases, per_file=20)
        ctx.traces_validated = len(cases) - len(bad)
        if errors:
            ctx.broken.append(('correspondence', f'case files failed to evaluate: {errors[0]}'))
        for b in bad[:6]:
            ctx.broken.append(('correspondence', {'case': cases[b][:900]}))
        bad2, errors2 = vlib.run_model_cases('C13p', HEADER2, 'ppcase', 'ppcheck', pcases, per_file=20)
        ctx.traces_validated += len(pcases) - len(bad2)
        if errors2:
            ctx.broken.append(('correspondence', f'pipeline case files failed to evaluate: {errors2[0]}'))
        for b in bad2[:6]:
            ctx.broken.append(('correspondence', {'pipeline_case': {'input': pinfo[b][0], 'filter_process': pinfo[b][1], 'cfg': pinfo[b][2]}}))


def table_touching_names():
    """names under which the handlers that touch parser.threads_pids / parser.pids_names are registered (from the source)"""
    import ast
    import os
    try:
        names = set()
        d = '/repo/pykdebugparser/trace_handlers'
        for fn in sorted(os.listdir(d)):
            if not fn.endswith('.py'):
                continue
            tree = ast.parse(open(os.path.join(d, fn)).read())
            touching, calls = set(), {}
            for node in tree.body:
                if isinstance(node, ast.FunctionDef):
                    calls[node.name] = {n.id for n in ast.walk(node) if isinstance(n, ast.Name)}
                    for sub in ast.walk(node):
                        if isinstance(sub, ast.Attribute) and sub.attr in ('threads_pids', 'pids_names'):
                            touching.add(node.name)
            changed = True
            while changed:                                   # functions that call a toucher of the same module
                changed = False
                for f, cs in calls.items():
                    if f not in touching and cs & touching:
                        touching.add(f)
                        changed = True
            for node in tree.body:
                if isinstance(node, ast.Assign) and any(isinstance(t, ast.Name) and t.id == 'handlers' for t in node.targets) \
                        and isinstance(node.value, ast.Dict):
                    for k, v in zip(node.value.keys, node.value.values):
                        fns = {n.id for n in ast.walk(v) if isinstance(n, ast.Name)}
                        if fns & touching and isinstance(k, ast.Constant):
                            names.add(k.value)
        return names
    except Exception:
        return None


class _Dummy(dict):
    pass


vlib_full = _Dummy()


def replay(payload):
    print('expected:', payload.get('expected'))
    print('actual  :', payload.get('actual'))
    return 0

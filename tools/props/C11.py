"""C11 — flag words and packed fields decode to exactly the names of the bits set."""
import re
from .. import vlib
from ..vlib import cN, clist
from ..translate import tr_decoders, tr_handlers
from . import decoder_common as dc

TRANSLATORS = [tr_handlers.translate, tr_decoders.translate]
MODEL_TARGETS = ['theories/DecoderCases.vo', 'theories/FlagCases.vo']
PROOF_TARGETS = ['props/C11.vo']
PROP_FILE = 'props/C11.v'
ASSUMPTIONS = [
    'enum classes and list serializers are regenerated from the source; `for m in E` iterates in definition order without value '
    'aliases, Flag classes only their single-bit members (Python >= 3.11) - checked against the interpreter for every enum '
    'class on every run',
    'partial: Darwin reference values (theories/Darwin.v) are listed for 13 families (open flags, file modes, access modes, '
    'message flags, lock operations, file flags, VM protections, AST reasons, thread states, sampler actions, callstack flags, '
    'kperf thread-info states, dlopen modes); other enums are proved against the tool\'s own table only',
]
HEADER = ('From Coq Require Import String ZArith NArith List.\nFrom Kd Require Import theories.Base theories.Harness '
          'theories.DecoderDSL theories.FlagCases.\nImport ListNotations.\nOpen Scope N_scope.\nOpen Scope string_scope.')
SERIALIZERS = [('bsd', 'serialize_open_flags'), ('bsd', 'serialize_stat_flags'), ('bsd', 'serialize_access_flags'),
               ('mach', 'to_ast_reasons'), ('mach', 'to_thread_state'), ('mach', 'to_vm_prot'), ('dyld', 'to_rtld_flags'),
               ('perf', 'to_sampler_action'), ('perf', 'to_kperf_ti_state'), ('perf', 'to_callstack_flags')]


def words_for(rng, values, quick, extra=()):
    bits = sorted({v for v in values if v > 0})
    singles = sorted({1 << i for v in bits for i in range(v.bit_length()) if v >> i & 1})
    out = {0, 2 ** 64 - 1, 2 ** 32 - 1}
    out.update(singles)
    out.update(bits)
    n_sub = 200 if quick else 4096
    for _ in range(n_sub):
        w = 0
        for b in singles:
            if rng.random() < 0.35:
                w |= b
        out.add(w)
    for i in range(0, 64, 3):
        out.add(1 << i)                        # undeclared single bits
    out.update(extra)
    return sorted(out)


def coq_names(l):
    return clist([f'"{n}"' for n in l])


def run(ctx, model_ok):
    rng = ctx.rng
    R = dc.Rows()
    mods = {fam: tr_decoders.Module(fam) for fam in tr_decoders.FAMILIES}
    calls, metas = [], []
    for fam, fn in SERIALIZERS:
        mod = mods[fam]
        try:
            lsrc = tr_decoders.serializer_lsrc(mod, fn, '(W EFirst 0)')
        except Exception as e:
            ctx.broken.append(('translate', f'{fn}: {e}'))
            lsrc = None
        enames = re.findall(r'"([A-Za-z]+)"', lsrc or '')
        vals = [v for e in (enames or ['BscOpenFlags' if 'open' in fn else 'StatFlags']) if e in R.enums for _, v in R.enums[e][0]]
        extra = []
        if fn == 'serialize_stat_flags':
            extra = [(t << 12) | p for t in range(16) for p in (0, 0o644, 0o7777, 0o111)]
        if fn == 'serialize_open_flags':
            extra = list(range(0, 16)) + [0x40, 0x601, 0x1000000 | 2]
        ws = words_for(rng, vals, ctx.quick(), extra)
        calls.append([fam, fn, ws])
        metas.append((fam, fn, lsrc, ws, vals))
    anybit = []
    for e in ['SocketMsgFlags', 'BscChangeableFlags', 'FlockOperation']:
        vals = [v for _, v in R.enums[e][0]]
        anybit.append(['bsd', e, words_for(rng, vals, ctx.quick())])
    out = vlib.run_impl('run_flags.py', {'calls': calls, 'anybit': anybit})
    ctx.extra['python'] = out['python']
    ctx.evaluations = sum(len(c[2]) for c in calls) + sum(len(a[2]) for a in anybit) + len(out['iters'])
    ctx.rule = ('every list serializer (open flags, file modes, access modes, AST reasons, thread states, VM protections, dlopen '
                'modes, sampler actions, kperf states, callstack flags) and the in-line bit comprehensions (message flags, file '
                'flags, lock operations) x words: 0, all-ones, every declared value, every single declared bit, undeclared single '
                'bits, random subsets of the declared bits (200 quick / 4096 thorough), all 16 file-type nibbles x permission '
                'patterns, all 16 access-mode/low-flag patterns; plus the iteration order of EVERY enum class; non-trivial = '
                'distinct (serializer, word) with >= 2 names shown')
    cases = []
    # oracle: names shown <-> bits set (from the enum tables), multi-bit fields by value
    for (fam, fn, lsrc, ws, vals), res in zip(metas, out['results']):
        for w, names in zip(ws, res):
            if isinstance(names, dict):
                ctx.failing.append({'input': {'serializer': fn, 'word': w}, 'expected': 'a list of names', 'actual': names,
                                    'why': 'serializer raised'})
                continue
            if len(names) >= 2:
                ctx.nontrivial.add((fn, w))
            exp = oracle(fn, w, R)
            if fn == 'serialize_open_flags':          # the tool's own order of the non-mode flags is not prescribed
                exp = exp[:1] + sorted(exp[1:])
                got = names[:1] + sorted(names[1:])
            else:
                got = names
            if exp is not None and got != exp:
                ctx.failing.append({'input': {'serializer': fn, 'word': w}, 'expected': exp, 'actual': names,
                                    'why': 'names shown are not exactly the declared names of the bits / field values set'})
        if lsrc:
            obs = clist([f'({cN(w)}, {coq_names(n)})' for w, n in zip(ws, res) if not isinstance(n, dict)])
            cases.append(f'({lsrc}, {obs})')
    for (fam, e, ws), res in zip(anybit, out['anybit']):
        members = R.enums[e][0]
        for w, names in zip(ws, res):
            exp = [n for n, v in members if v & w]
            if names != exp:
                ctx.failing.append({'input': {'enum': e, 'word': w}, 'expected': exp, 'actual': names,
                                    'why': 'bit comprehension does not show exactly the declared names of the bits set'})
        obs = clist([f'({cN(w)}, {coq_names(n)})' for w, n in zip(ws, res)])
        cases.append(f'((LAnyBit "{e}" (W EFirst 0)), {obs})')
    icases = [f'("{name}", {coq_names(d["iter"])})' for name, d in sorted(out['iters'].items())]
    # generated enum tables == the interpreter's
    for name, d in out['iters'].items():
        if name not in R.enums or [list(m) for m in R.enums[name][0]] != d['members']:
            ctx.broken.append(('correspondence', {'enum': name, 'generated': R.enums.get(name), 'interpreter': d['members']}))
    # ioctl request words: Darwin's _IOC packing, all four directions, lengths on both sides of bit 12
    DIRS = {0x20000000: 'IOC_VOID', 0x40000000: 'IOC_OUT', 0x80000000: 'IOC_IN', 0xc0000000: 'IOC_IN | IOC_OUT'}
    iometas, ioexp = [], []
    nio = 120 if ctx.quick() else 3000
    for _ in range(nio):
        d = rng.choice(list(DIRS))
        g = rng.choice([ord('t'), ord('i'), ord('d'), 0x20, 0x7e, rng.randint(0x21, 0x7e)])
        n = rng.choice([0, 1, 36, 127, 255, rng.randint(0, 255)])
        ln = rng.choice([0, 1, 4, 255, 4095, 4096, 4097, 8191, rng.randint(0, 8191)])
        w = d | (ln << 16) | (g << 8) | n
        iometas.append(('BSC_ioctl', [rng.randint(0, 9), w, rng.getrandbits(32), 0], [0, 0, 0, 0], 7, [], []))
        ioexp.append(f"_IOC({DIRS[d]}, '{chr(g)}', {n}, {ln})")
    for w in [0, 0x60000000 | 5, 0xa0000000, 0xe0000000 | (8191 << 16), 2 ** 32 - 1, 2 ** 64 - 1, 1 << 28]:
        iometas.append(('BSC_ioctl', [1, w, 2, 0], [0, 0, 0, 0], 7, [], []))
        ioexp.append(None)
    ioout = dc.run_windows(R, iometas)
    ctx.evaluations += len(iometas)
    for m, e, r in zip(iometas, ioexp, ioout['results']):
        if 'text' not in r:
            ctx.failing.append({'input': {'ioctl_request': m[1][1]}, 'expected': 'a rendering (total on all request words)',
                                'actual': r, 'why': 'ioctl decoder raised'})
        elif e is not None and e not in bytes.fromhex(r['text']).decode('utf-8', 'replace'):
            ctx.failing.append({'input': {'ioctl_request': m[1][1]}, 'expected': e,
                                'actual': bytes.fromhex(r['text']).decode('utf-8', 'replace'),
                                'why': "direction, group, number, length shown are not the inverse of Darwin's _IOC packing"})
    if model_ok:
        dc.correspond(ctx, 'C11r', ioout['host'], iometas, ioout['results'])
    ctx.samples = [{'serializer': metas[0][1], 'word': metas[0][3][5], 'impl_names': out['results'][0][5]}]
    if model_ok:
        bad, errors = vlib.run_model_cases('C11', HEADER, 'lcase', 'lcheck', cases, per_file=1)
        bad2, errors2 = vlib.run_model_cases('C11i', HEADER, '(string * list string)', 'icheck', icases, per_file=100)
        ctx.traces_validated += ctx.evaluations - len(iometas) - len(bad) - len(bad2)
        for e in (errors + errors2)[:1]:
            ctx.broken.append(('correspondence', f'case files failed to evaluate: {e}'))
        for b in bad:
            ctx.broken.append(('correspondence', {'serializer_case': cases[b][:300]}))
        for b in bad2:
            ctx.broken.append(('correspondence', {'enum_iteration': icases[b][:300]}))


def oracle(fn, w, R):
    """independent statement of C11 per serializer, from the enum tables"""
    E = R.enums
    if fn == 'serialize_open_flags':
        m = dict(E['BscOpenFlags'][0])
        first = 'O_RDWR' if w & 2 else 'O_WRONLY' if w & 1 else 'O_RDONLY'
        rest = [n for n, v in E['BscOpenFlags'][0] if n not in ('O_RDONLY', 'O_WRONLY', 'O_RDWR', 'O_ACCMODE') and v & w]
        return [first] + rest
    if fn == 'serialize_stat_flags':
        out = []
        for n, v in E['StatFlags'][0]:
            if v & 0o170000:
                if w & 0o170000 == v:
                    out.append(n)
            elif v & w:
                out.append(n)
        return out
    if fn == 'serialize_access_flags':
        l = [n for n, v in E['BscAccessFlags'][0] if v & w]
        return l or ['F_OK']
    if fn in ('to_ast_reasons', 'to_vm_prot'):
        e = 'AsynchronousSystemTrapsReason' if 'ast' in fn else 'VmProtection'
        zero = [n for n, v in E[e][0] if v == 0][0]
        return [zero] if w == 0 else [n for n, v in E[e][0] if v & w]
    e = {'to_thread_state': 'ThreadState', 'to_rtld_flags': 'RtldFlag', 'to_sampler_action': 'SamplerAction',
         'to_kperf_ti_state': 'KperfTiState', 'to_callstack_flags': 'CallstackFlag'}[fn]
    return [n for n, v in E[e][0] if v & w]


def replay(payload):
    inp = payload['input']
    if 'ioctl_request' in inp:
        R = dc.Rows()
        out = dc.run_windows(R, [('BSC_ioctl', [1, inp['ioctl_request'], 2, 0], [0, 0, 0, 0], 7, [], [])])
        print('implementation:', bytes.fromhex(out['results'][0].get('text', '')).decode('utf-8', 'replace') or out['results'][0])
    if 'serializer' in inp:
        fam = dict((f, m) for m, f in SERIALIZERS)[inp['serializer']]
        out = vlib.run_impl('run_flags.py', {'calls': [[fam, inp['serializer'], [inp['word']]]]})
        print('implementation:', out['results'][0][0])
    print('expected:', payload.get('expected'))
    return 0

"""C06 — truncated dumps: parsing terminates and reports a prefix of the full result."""
from .. import vlib
from ..translate import tr_kevent, tr_container, tr_cli
from ..harness import dumps as D
from . import container_common as cc
from . import pairing_common as pc
from ..harness.streams import StreamGen
import struct

TRANSLATORS = [tr_kevent.translate, tr_container.translate, tr_cli.translate]
MODEL_TARGETS = ['theories/ContainerCases.vo']
PROOF_TARGETS = ['props/C06.vo']
PROP_FILE = 'props/C06.v'
ASSUMPTIONS = [
    'reader = io.BytesIO semantics (read(n) returns min(n, remaining)); construct combinators as in Container.v',
    'partial: wall-clock termination of CPython is observed (read budget 8*len+4096 and process timeout), the proof is about '
    'the fuel of the model loops (each iteration consumes input); the version-3 prefix claim is on events',
    'plistlib.loads is a parameter of the model (any behaviour); the harness tells the model which payloads it accepts',
]


def run(ctx, model_ok):
    rng = ctx.rng
    files = []
    nv2, nv3, nmal = (2, 4, 3) if ctx.quick() else (12, 30, 20)
    for _ in range(nv2):
        files.append(('v2', cc.gen_v2(rng)['data']))
    for _ in range(nv3):
        files.append(('v3', cc.gen_v3(rng, small=True)['data']))
    for _ in range(nmal):
        files.append(('malformed', cc.malform(rng, rng.choice(files)[1])))
    # directed: one events chunk that declares many more records than the (cut) dump holds
    big = D.build_v3([(1, 1, b'p')], [[cc.rand_record(rng, i) for i in range(2)]])
    i = big.index(D.TAG_EVENTS) + 8
    big = big[:i] + struct.pack('<Q', 64 * 6000) + big[i + 8:]
    files.append(('v3-declares-6000-records', big))
    # directed: the stackshot (opaque bytes before its end marker) itself holds an older thread-map section and an events
    # chunk, tags and all: nothing of it is a section of THIS dump, at whatever offset the dump is cut
    inner = D.build_v3([(9, 9, b'old')], [[cc.rand_record(rng, 77)]])
    inner = inner[inner.index(D.TAG_THREADMAP):]
    files.append(('v3-sections-inside-the-stackshot', D.build_v3([(1, 1, b'p')], [[cc.rand_record(rng, 1), cc.rand_record(rng, 2)]],
                                                               filler=b'junk' + inner + b'more')))
    cases = [{'file': f.hex(), 'ks': list(range(len(f) + 1)), 'brief': True, 'want_events': True} for _, f in files]
    res = vlib.run_impl('run_container.py', {'cases': cases}, timeout=3000)['results']
    ctx.evaluations = sum(len(f) + 1 for _, f in files)
    ctx.rule = ('EVERY truncation offset 0..len of generated version-2 dumps, version-3 dumps (chunked events, fillers with marker '
                'prefixes, thread maps with trailing bytes, tagged blocks) and damaged dumps, parsed through a counting reader with '
                'a read budget; plus the command line (traces / kevents / callstacks / logs with random options and --count in {0,1,2,3,7,1000,-1}, on whole and on cut dumps) against the API; non-trivial = distinct (file, offset) whose truncated parse reports >= 1 event and ends differently '
                'from the full parse')
    coq = []
    worst_ratio = 0.0
    for (kind, f), rs in zip(files, res):
        full = rs[len(f)]
        for k, r in enumerate(rs):
            ctx.count(f'{kind}:err={r["err"]}')
            ev = r['events']
            if ev != full['events'][:len(ev)]:
                ctx.failing.append({'input': {'file': f.hex(), 'cut': k}, 'expected': {'prefix_of': full['events']},
                                    'actual': ev, 'why': 'events of the truncated dump are not a prefix of those of the full dump'})
            if r['summary'][2] == 7:
                ctx.failing.append({'input': {'file': f.hex(), 'cut': k}, 'expected': 'parsing stops within the read budget',
                                    'actual': {'reads': r['reads']}, 'why': 'read budget 8*len+4096 exhausted (non-termination)'})
            if k:
                worst_ratio = max(worst_ratio, r['reads'][0] / k)
            if ev and (r['err'] != full['err'] or len(ev) != len(full['events'])):
                ctx.nontrivial.add((f, k))
        coq.append(cc.to_case(f, list(range(len(f) + 1)), [r['summary'] for r in rs]))
    ctx.extra['max_read_calls_per_byte'] = round(worst_ratio, 3)
    if worst_ratio > 4:
        ctx.failing.append({'input': 'see max_read_calls_per_byte', 'expected': '<= 4 read calls per input byte',
                            'actual': worst_ratio, 'why': 'reading is not linear in the length of the dump'})
    # pipeline: traces / lines of a truncated dump are a prefix; a count limit never changes the lines printed
    pres = []
    for kind, f in files[:nv2 + nv3]:
        ks = sorted(set(rng.sample(range(len(f) + 1), min(12, len(f))) + [len(f)]))
        cfg = {'color': False}
        reqs = [{'file': f[:k].hex(), 'cfg': cfg, 'calls': ['formatted_traces', 'formatted_kevents']} for k in ks]
        reqs.append({'file': f.hex(), 'cfg': cfg, 'calls': ['formatted_kevents'], 'limit': 2})
        out = vlib.run_impl('run_api.py', {'cases': reqs})['results']
        fullr = out[len(ks) - 1]
        ctx.evaluations += len(reqs)
        for k, calls in zip(ks, out[:len(ks)]):
            for c, fc in zip(calls, fullr):
                if c['items'] != fc['items'][:len(c['items'])]:
                    ctx.failing.append({'input': {'file': f.hex(), 'cut': k, 'call': c['call']},
                                        'expected': {'prefix_of': fc['items']}, 'actual': c['items'],
                                        'why': 'lines reported for the truncated dump are not a prefix of those of the full dump'})
        lim = out[-1][0]
        if lim['items'] != fullr[1]['items'][:2]:
            ctx.failing.append({'input': {'file': f.hex(), 'limit': 2}, 'expected': fullr[1]['items'][:2],
                                'actual': lim['items'], 'why': 'limiting the output count changed the lines printed'})
    # semantic streams (renames of pids mid-stream) x process filter: lines of a dump cut on a record boundary are a prefix
    sg = StreamGen(pc.Universe())
    for si in range(8 if ctx.quick() else 60):
        threads, evs = sg.gen(rng, n_ops=rng.choice([6, 14]), rich=(si % 2 == 1))
        f = sg.v2(threads, evs)
        base = len(f) - 64 * len(evs)
        proc = rng.choice([str(threads[0][1]), threads[0][2].decode() or 'Safari', 'Safari', 'xpcproxy'])
        cfgs = [{'color': False, 'filter_process': proc}, {'color': False, 'filter_tid': threads[0][0]},
                {'color': False, 'filter_class': [4], 'filter_process': proc}, {'color': True}]
        # nothing already reported is later changed: the trace objects handed out describe the same at the end of the request
        chk = vlib.run_impl('run_api.py', {'cases': [{'file': f.hex(), 'cfg': {'color': False}, 'calls': ['traces', 'callstacks']}]})['results'][0]
        ctx.evaluations += 1
        for c in chk:
            if c['err'] == 'ReportedObjectChangedLater':
                ctx.failing.append({'input': {'file': f.hex(), 'call': c['call']}, 'expected': c['changed']['when_reported'],
                                    'actual': c['changed']['at_the_end'],
                                    'why': 'a trace that was already reported was changed by later input'})
        for cfg in cfgs:
            ks = [base + 64 * j for j in range(len(evs) + 1)]
            reqs = [{'file': f[:k].hex(), 'cfg': cfg, 'calls': ['formatted_traces']} for k in ks]
            out = vlib.run_impl('run_api.py', {'cases': reqs})['results']
            ctx.evaluations += len(reqs)
            fullr = out[-1][0]
            for k, calls in zip(ks, out):
                c = calls[0]
                ctx.count('pipeline:' + ('+'.join(sorted(x for x in cfg if x != 'color'))))
                if c['items'] != fullr['items'][:len(c['items'])]:
                    ctx.failing.append({'input': {'file': f.hex(), 'cut': k, 'call': 'formatted_traces', 'cfg': cfg},
                                        'expected': {'prefix_of': fullr['items']}, 'actual': c['items'],
                                        'why': 'lines reported for the truncated dump are not a prefix of those of the full dump '
                                               '(something already reported was changed by later input)'})
                    break
    ctx.samples = [{'kind': files[0][0], 'len': len(files[0][1]), 'cut': 300,
                    'impl': res[0][min(300, len(files[0][1]))]}]
    # the command line: --count prints the first `count` lines of what the API yields (c06_count), on whole and on cut dumps
    from . import cli_common
    ncli = 80 if ctx.quick() else 600
    cli_common.run(ctx, ['traces', 'kevents', 'callstacks', 'logs'], ncli)
    cli_common.run(ctx, ['traces', 'kevents', 'callstacks', 'logs'], ncli, truncated=True)
    if model_ok:
        bad, errors = vlib.run_model_cases('C06', cc.HEADER, 'dcase', 'dcheck', coq, per_file=1)
        ctx.traces_validated = sum(len(f) + 1 for i, (_, f) in enumerate(files) if i not in bad)
        if errors:
            ctx.broken.append(('correspondence', f'case files failed to evaluate: {errors[0]}'))
        for b in bad[:5]:
            rc, out = vlib.eval_in_coq('C06', cc.HEADER, [f'dbad {coq[b]}'])
            ctx.broken.append(('correspondence', {'file': files[b][1].hex(), 'disagreeing_cut_offsets': ' '.join(out.split())[-400:]}))


def replay(payload):
    inp = payload['input']
    if isinstance(inp, dict) and 'cfg' in inp:
        f = bytes.fromhex(inp['file'])
        out = vlib.run_impl('run_api.py', {'cases': [{'file': f[:inp['cut']].hex(), 'cfg': inp['cfg'], 'calls': [inp['call']]},
                                                     {'file': f.hex(), 'cfg': inp['cfg'], 'calls': [inp['call']]}]})['results']
        print('cut dump :', out[0][0]['items'])
        print('full dump:', out[1][0]['items'])
    elif isinstance(inp, dict) and 'file' in inp:
        f = bytes.fromhex(inp['file'])
        k = inp.get('cut', len(f))
        r = vlib.run_impl('run_container.py', {'cases': [{'file': f.hex(), 'ks': [k, len(f)], 'brief': True, 'want_events': True}]})['results'][0]
        print(f'cut at {k}: events', r[0]['events'], 'err', r[0]['err'], 'reads', r[0]['reads'])
        print('full dump  : events', r[1]['events'], 'err', r[1]['err'])
    return 0

"""C09 — syscall arguments are rendered from the matching START argument, in order."""
import re
from .. import vlib
from ..translate import tr_decoders, tr_handlers
from . import decoder_common as dc

TRANSLATORS = [tr_handlers.translate, tr_decoders.translate]
MODEL_TARGETS = ['theories/DecoderCases.vo']
PROOF_TARGETS = ['props/C09.vo']
PROP_FILE = 'props/C09.v'
ASSUMPTIONS = [
    'rows are regenerated from trace_handlers/*.py by tr_decoders.py (symbolic execution of each handler and of the __str__ '
    'of the dataclass it returns; fail-closed); DecoderDSL.render gives them their meaning; both validated string-exactly '
    'against str(trace) for every translated row on every run',
    'composite decoders (PERF_Event, MACH_vmfault, launch, trace-string/data records) are hand models (C20, C05, C08)',
    'Python ints unbounded (N/Z); str(int), hex(int), ctypes.c_int64/32 as in Printers.v',
]


def numeric(p):
    if re.fullmatch(r'-?\d+', p):
        return int(p)
    if re.fullmatch(r'-?0x[0-9a-f]+', p):
        return int(p, 16)
    return None


def renderings(w):
    """the admitted forms of a START word: itself (decimal / hex) or its 64-bit signed reading"""
    return {w, w - (1 << 64) if w >= (1 << 63) else w}


# typed narrowings accepted on the specification side (mirrors props/C09.v typed_narrowings)
NARROW = {('MSC_semaphore_timedwait_trap', 1): lambda w: {w & 0xffffffff}}


def run(ctx, model_ok):
    R = dc.Rows()
    rng = ctx.rng
    keys = dc.call_keys(R)
    reps = 2 if ctx.quick() else 12
    metas = []
    groups = []
    for key in keys:
        for rep in range(reps):
            base = dc.in_domain_first(R, key, rng, base=[1001 + 7 * rep, 2002 + rep, 3003 + rep, 4004 + rep] if rep == 0 else None,
                                       flags_in_domain=True)
            last = [rng.choice([0, 0, 2, 13]), rng.choice(dc.SPECIAL), rng.getrandbits(8), rng.getrandbits(8)]
            paths = [(rng.randint(1, 99), rng.choice([b'/etc/passwd', b'/tmp/a b', b'x' * 40])) for _ in range(rng.choice([0, 1, 2]))] \
                if R.uses_paths(key) else []
            start = len(metas)
            metas.append((key, base, last, 7, paths, []))
            enumw = set(R.enum_words(key)) | set(R.host_enum_words(key)) | {i for _, i in R.flag_words(key)}
            for k in range(4):
                if k in enumw:
                    continue
                v = list(base)
                v[k] = rng.choice([x for x in ((base[k] + 1) % 2 ** 64, 0x7777 + k, 2 ** 63 + 5, 2 ** 64 - 1) if x != base[k]])
                metas.append((key, v, last, 7, paths, []))
            if rep == 0:
                # the 32-bit boundaries: a 64-bit START word in [2^31, 2^32) is that number, not a negative 32-bit one
                for k in range(4):
                    if k not in enumw:
                        for x in (2 ** 31, 2 ** 32 - 1 - k):
                            v = list(base)
                            v[k] = x
                            metas.append((key, v, last, 7, paths, []))
                # source-guided boundary values: the integer literals the handler compares its arguments with
                for cst in dc.handler_constants(R, key):
                    for k in range(4):
                        if k not in enumw and cst != base[k]:
                            v = list(base)
                            v[k] = cst
                            metas.append((key, v, last, 7, paths, []))
            # vary the END record only
            metas.append((key, base, [rng.choice([1, 5, 35, 999]), rng.getrandbits(40), 9, 9], 7, paths, []))
            groups.append((key, start, len(metas)))
    out = dc.run_windows(R, metas)
    res = out['results']
    ctx.evaluations = len(metas)
    ctx.rule = ('every syscall/trap row x marker START tuples (distinct per position; enum-typed words drawn from their enum, flag-typed words from the unions of their declared members), each '
                'START word varied alone (incl. 2^63+5 and 2^64-1) and the END record varied alone, with 0..2 nested lookups; plus, through the pairing machine, START(lost END) START END versus START END; '
                'non-trivial = distinct (row, tuple) whose rendering has >= 2 numeric parameters')
    for key, a, b in groups:
        base_r = res[a]
        if 'text' not in base_r:
            continue
        bt = bytes.fromhex(base_r['text']).decode('utf-8', 'replace')
        sp = dc.split_text_call(bt)
        if sp is None:
            ctx.failing.append({'input': {'key': key, 'first': metas[a][1], 'last': metas[a][2]}, 'expected': 'name(p0, ...) shape',
                                'actual': bt, 'why': 'rendering is not a call'})
            continue
        name, params, tail = sp
        if sum(1 for p in params if numeric(p) is not None) >= 2:
            ctx.nontrivial.add((key, tuple(metas[a][1])))
        first = metas[a][1]
        def check_params(ps, fw, text):
            for k, p in enumerate(ps):
                v = numeric(p)
                ok = NARROW.get((key, k), renderings)
                if v is not None and k < 4 and v not in ok(fw[k]):
                    ctx.failing.append({'input': {'key': key, 'first': fw, 'last': metas[a][2]},
                                        'expected': f'parameter {k} is START word {k} = {fw[k]} in decimal, signed or hex form',
                                        'actual': text, 'why': f'numeric parameter at position {k} is not START word {k}'})
                    return
        check_params(params, first, bt)
        for i in range(a + 1, b):
            r = res[i]
            if 'text' not in r:
                continue
            t = bytes.fromhex(r['text']).decode('utf-8', 'replace')
            sp2 = dc.split_text_call(t)
            if sp2 is None:
                continue
            if len(sp2[1]) == len(params):
                check_params(sp2[1], metas[i][1], t)
            changed_words = [j for j in range(4) if metas[i][1][j] != first[j]]
            end_changed = metas[i][2] != metas[a][2]
            if end_changed and (sp2[0], sp2[1]) != (name, params):
                ctx.failing.append({'input': {'key': key, 'first': first, 'last_a': metas[a][2], 'last_b': metas[i][2]},
                                    'expected': 'call part unchanged when only the END record changes', 'actual': [bt, t],
                                    'why': 'the call part depends on the END record'})
            if changed_words and len(sp2[1]) == len(params):
                j = changed_words[0]
                for k, (p0, p1) in enumerate(zip(params, sp2[1])):
                    if k != j and p0 != p1 and numeric(p0) is not None and numeric(p1) is not None:
                        ctx.failing.append({'input': {'key': key, 'first_a': first, 'first_b': metas[i][1], 'last': metas[a][2]},
                                            'expected': f'only parameter {j} may change when START word {j} changes',
                                            'actual': [bt, t], 'why': f'numeric parameter {k} changed with START word {j}'})
    # through the pairing machine: a START whose END was lost, then the same call again - the text must come from the START
    # that opened the reported call (the most recent one), never from the stale one
    from ..harness import dumps as D
    preqs, pinfo = [], []
    pkeys = keys if not ctx.quick() else rng.sample(keys, min(len(keys), 120))
    for key in pkeys:
        if R.host_enum_words(key):
            continue            # words converted through the host's own enums: in-domain values are host-specific (C18)
        a1 = dc.in_domain_first(R, key, rng, base=[5001, 5002, 5003, 5004], flags_in_domain=True)
        a2 = dc.in_domain_first(R, key, rng, base=[6001, 6002, 6003, 6004], flags_in_domain=True)
        last = [0, 7, 0, 0]
        code = R.code_of[key]
        stale = [D.record(1, a1, 7, code | 1), D.record(2, a2, 7, code | 1), D.record(3, last, 7, code | 2)]
        fresh = [D.record(2, a2, 7, code | 1), D.record(3, last, 7, code | 2)]
        for recs in (stale, fresh):
            preqs.append({'file': D.build_v2([(7, 1, b'p')], 0, recs).hex(), 'cfg': {'color': False}, 'calls': ['traces']})
        pinfo.append((key, a1, a2, last))
    pres = vlib.run_impl('run_api.py', {'cases': preqs}, timeout=3000)['results']
    ctx.evaluations += len(preqs)
    for j, (key, a1, a2, last) in enumerate(pinfo):
        st, fr = pres[2 * j][0], pres[2 * j + 1][0]
        ts = [it[4] for it in st['items']]
        tf = [it[4] for it in fr['items']]
        if st['err'] or fr['err'] or ts != tf:
            ctx.failing.append({'input': {'key': key, 'events': [['START', a1], ['START', a2], ['END', last]]},
                                'expected': tf, 'actual': st['err'] or ts,
                                'why': 'after a START whose END was lost, the next call is not rendered from its own START '
                                       '(numeric parameters come from another event)'})
    dc.scale_pipeline(ctx, R, [k for k in rng.sample(keys, 3) if not R.host_enum_words(k)] + ['BSC_read'], [1100, 4200] if ctx.quick() else [1100, 2100, 4200, 66000],
                      'with many records between START and END the call is not rendered from its own START record')
    dc.overlap_pipeline(ctx, R, [('BSC_read', 'BSC_write'), ('BSC_open', 'BSC_read'), ('BSC_sys_close', 'BSC_lseek'), ('BSC_write', 'BSC_getpid')],
                        'when two calls of a thread overlap, a call is not rendered from its own START record')
    ctx.samples = [{'key': metas[0][0], 'first': metas[0][1], 'last': metas[0][2],
                    'impl_text': bytes.fromhex(res[0].get('text', '')).decode('utf-8', 'replace')}]
    if model_ok:
        dc.correspond(ctx, 'C09', out['host'], metas, res)


def replay(payload):
    R = dc.Rows()
    inp = payload['input']
    first = inp.get('first') or inp.get('first_a')
    last = inp.get('last') or inp.get('last_a')
    out = dc.run_windows(R, [(inp['key'], first, last, 7, [], [])])
    print('implementation:', bytes.fromhex(out['results'][0].get('text', '')).decode('utf-8', 'replace') or out['results'][0])
    print('expected:', payload.get('expected'))
    return 0

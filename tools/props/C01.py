"""C01 — every 64-byte kd_buf record decodes exactly and totally."""
import struct
from .. import vlib
from ..vlib import cN, clist, cbytes
from ..translate import tr_kevent

TRANSLATORS = [tr_kevent.translate]
MODEL_TARGETS = ['theories/KeventCases.vo']
PROOF_TARGETS = ['props/C01.vo']
PROP_FILE = 'props/C01.v'
ASSUMPTIONS = [
    "struct.unpack semantics for '<' formats (PyStruct.v) is an oracle, validated here on every case",
    'Python ints are unbounded (N); bytes are naturals < 256',
]
HEADER = ('From Coq Require Import NArith List.\nFrom Kd Require Import theories.Base theories.Harness '
          'theories.KeventCases.\nImport ListNotations.\nOpen Scope N_scope.')


def source_constants():
    import ast
    import re
    out = set()
    try:
        for node in ast.walk(ast.parse(open('/repo/pykdebugparser/kevent.py').read())):
            if isinstance(node, ast.Constant) and isinstance(node.value, int) and not isinstance(node.value, bool):
                out |= {node.value, node.value + 1, max(node.value - 1, 0)}
    except Exception:  # noqa
        pass
    try:
        for line in open('/repo/pykdebugparser/trace.codes'):
            m = re.match(r'\s*(0[xX])?([0-9a-fA-F]+)\s', line)
            if m and int(m.group(2), 16) & 3:
                out.add(int(m.group(2), 16))
    except Exception:  # noqa
        pass
    return sorted(v for v in out if 0 <= v < 2 ** 64)


def gen_records(ctx):
    """structured + random 64-byte records and wrong-length buffers; returns [(kind, bytes)]"""
    rng = ctx.rng
    recs = []
    # walking ones over all 512 bit positions
    for bit in range(512):
        b = bytearray(64)
        b[bit // 8] |= 1 << (bit % 8)
        recs.append(('walk1', bytes(b)))
    # walking zeros (sampled in quick)
    bits = range(512) if not ctx.quick() else rng.sample(range(512), 96)
    for bit in bits:
        b = bytearray(b'\xff' * 64)
        b[bit // 8] &= ~(1 << (bit % 8)) & 0xff
        recs.append(('walk0', bytes(b)))
    # byte-position probes: distinct byte per position distinguishes field order and endianness
    recs.append(('probe', bytes(range(1, 65))))
    recs.append(('probe', bytes(range(191, 255))))
    recs.append(('probe', bytes(reversed(range(64, 128)))))
    # field extremes
    specials = [0, 1, 2, 3, 4, 0xff, 0x100, 0x7fffffff, 0x80000000, 0xffffffff, 0xfffffffc, 0xfffffffd,
                2 ** 63, 2 ** 64 - 1]
    # source-guided: every integer literal of kevent.py (masks, shifts, special-cased ids) and its neighbours, plus every
    # id of the bundled code table whose low bits are set, as values of every field
    specials += source_constants()
    n_field = 400 if ctx.quick() else 6000
    for v in specials:
        for fld in range(5):
            vals = [5, 6, 7, 8, 9]
            vals[fld] = v
            ts, tid, dbg, cpu, unused = vals
            recs.append(('fields', struct.pack('<Q32sQIIQ', ts & (2 ** 64 - 1), struct.pack('<QQQQ', 1, 2, 3, 4), tid & (2 ** 64 - 1),
                                               dbg & 0xffffffff, cpu & 0xffffffff, unused & (2 ** 64 - 1))))
    for _ in range(n_field):
        ts = rng.choice(specials + [rng.getrandbits(64)])
        tid = rng.choice(specials + [rng.getrandbits(64)])
        dbg = rng.choice(specials + [rng.getrandbits(32)]) & 0xffffffff
        cpu = rng.getrandbits(32)
        unused = rng.getrandbits(64)
        args = bytes(rng.getrandbits(8) for _ in range(32)) if rng.random() < 0.7 else \
            struct.pack('<QQQQ', *[rng.choice(specials) for _ in range(4)])
        recs.append(('fields', struct.pack('<Q32sQIIQ', ts, args, tid, dbg, cpu, unused)))
    # constant-byte regions: every byte value repeated over the argument region / the whole record (blank, tab, newline, NUL,
    # 0xff ... : bytes that text-oriented shortcuts treat specially)
    for b in range(256):
        recs.append(('const', bytes([b]) * 64))
        recs.append(('const', struct.pack('<Q', 5) + bytes([b]) * 32 + struct.pack('<QIIQ', 6, 0x040c000c, 1, 0)))
    # correlated fields: a byte of one field equal to another field (top byte of the timestamp = cpu id, tid = debug id ...),
    # all fields equal - shortcuts that compare fields with each other show only there
    for v in (1, 2, 7, 0x7f, 0x80, 0xfe, 0xff):
        recs.append(('correlated', struct.pack('<Q32sQIIQ', (v << 56) | 0x1234, struct.pack('<QQQQ', v, v, v, v), v, v << 2, v, v)))
        recs.append(('correlated', struct.pack('<Q32sQIIQ', (v << 56) | 5, bytes(32), 9, 0x040c000c, v, 0)))
        recs.append(('correlated', struct.pack('<Q32sQIIQ', v, struct.pack('<QQQQ', 1, 2, 3, 4), (v << 56) | 3, 0x040c000d, v << 24, v)))
    n_rand = 600 if ctx.quick() else 20000
    for _ in range(n_rand):
        recs.append(('random', bytes(rng.getrandbits(8) for _ in range(64))))
    if not ctx.quick():
        for _ in range(20000):
            b = bytearray(64)
            for bit in rng.sample(range(512), 2):
                b[bit // 8] |= 1 << (bit % 8)
            recs.append(('two-bit', bytes(b)))
    # wrong lengths 0..130 (except 64)
    for n in range(0, 131):
        if n != 64:
            recs.append(('badlen', bytes(rng.getrandbits(8) for _ in range(n))))
    return recs


def oracle(buf):
    """independent executable statement of C01 (slice arithmetic, no struct): expected observable."""
    if len(buf) != 64:
        return 'StructError'

    def le(b):
        v = 0
        for i, x in enumerate(b):
            v |= x << (8 * i)
        return v
    dbg = le(buf[48:52])
    return [le(buf[0:8]), buf[8:40].hex(), [le(buf[8 + 8 * i:16 + 8 * i]) for i in range(4)], le(buf[40:48]),
            dbg, dbg - (dbg % 4), dbg % 4]


def to_case(buf, res):
    nwords = len(buf) // 8
    words = [int.from_bytes(buf[8 * i:8 * i + 8], 'little') for i in range(nwords)]
    tail = buf[8 * nwords:]
    if 'ok' in res:
        ts, datahex, values, tid, dbg, eid, q = res['ok']
        data = bytes.fromhex(datahex)
        dwords = [int.from_bytes(data[8 * i:8 * i + 8], 'little') for i in range((len(data) + 7) // 8)]
        obs = (f'(Some ({cN(ts)}, {clist([cN(w) for w in dwords])}, {clist([cN(v) for v in values])}, '
               f'{cN(tid)}, {cN(dbg)}, {cN(eid)}, {cN(q)}))')
    else:
        obs = 'None'
    return f'({clist([cN(w) for w in words])}, {cbytes(tail)}, {obs})'


def run(ctx, model_ok):
    recs = gen_records(ctx)
    from ..harness import dumps as D
    hist = D.build_v2([(5, 1, b'p')], 0, [D.record(1, [1, 2, 3, 4], 5, 0x040c000c | 1), D.record(2, [5, 6, 7, 8], 9, 0x040c000c | 2)])
    res = vlib.run_impl('run_kevent.py', {'records': [b.hex() for _, b in recs], 'history': hist.hex()})['results']
    ctx.evaluations = len(recs)
    ctx.rule = ('records: walking-one over all 512 bit positions, walking-zero, byte-position probes, field extremes '
                '(0,1,2,3,4,2^31,2^32-1,0xfffffffc/d,2^63,2^64-1) x random other fields, uniform random records, '
                'buffers of every wrong length 0..130; non-trivial = distinct 64-byte record with a non-zero debugid '
                'field or any wrong-length buffer')
    cases = []
    for (kind, buf), r in zip(recs, res):
        ctx.count(kind)
        if len(buf) != 64 or buf[48:52] != b'\0\0\0\0':
            ctx.nontrivial.add(buf)
        exp = oracle(buf)
        got = r.get('ok', r.get('err'))
        if 'ok' in r and r.get('fields') != ['timestamp', 'data', 'values', 'tid', 'debugid', 'eventid',
                                              'func_qualifier']:
            ctx.failing.append({'input': buf.hex(), 'expected': 'Kevent fields in the documented order',
                                'actual': r.get('fields'), 'why': 'namedtuple fields changed'})
        if got != exp:
            ctx.failing.append({'input': buf.hex(), 'expected': exp, 'actual': got,
                                'why': 'decoded event differs from the little-endian fields of the record'})
        cases.append(to_case(buf, r))
    ctx.samples = [{'record_hex': recs[i][1].hex(), 'kind': recs[i][0], 'impl': res[i]} for i in (0, 700, len(recs) - 3)]
    if model_ok:
        bad, errors = vlib.run_model_cases('C01', HEADER, 'kcase', 'kcheck', cases, per_file=400)
        ctx.traces_validated = len(cases) - len(bad)
        if errors:
            ctx.broken.append(('correspondence', f'case files failed to evaluate: {errors[0]}'))
        for i in bad[:20]:
            ctx.broken.append(('correspondence', {'case_index': i, 'record_hex': recs[i][1].hex(), 'impl': res[i],
                                                  'model_case': cases[i][:400]}))


def replay(payload):
    buf = bytes.fromhex(payload['input'])
    res = vlib.run_impl('run_kevent.py', {'records': [buf.hex()]})['results'][0]
    print('implementation:', res)
    print('expected (oracle):', oracle(buf))
    rc, out = vlib.eval_in_coq('C01', HEADER, [f'kcheck {to_case(buf, res)}'])
    print('model agrees with implementation:', out.strip())

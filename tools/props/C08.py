"""C08 — paths and strings split over several records are reassembled exactly, once."""
from .. import vlib
from ..vlib import cN, clist
from ..translate import tr_pairing, tr_decoders, tr_handlers, tr_trace
from ..harness import dumps as D
from . import decoder_common as dc

TRANSLATORS = [tr_handlers.translate, tr_decoders.translate, tr_pairing.translate, tr_trace.translate]
MODEL_TARGETS = ['theories/ChunkCases.vo', 'theories/ChunkWindowCases.vo', 'theories/TraceRefine.vo', 'theories/DecoderCases.vo', 'theories/DecoderWindowCases.vo']
PROOF_TARGETS = ['props/C08.vo']
PROP_FILE = 'props/C08.v'
ASSUMPTIONS = [
    "spec side = the kernel's encoders as read from XNU (kdebug_lookup_gen_events: vnode id + 24 path bytes, then 32 per record; "
    'kernel_debug_string_internal: 16-byte header; kernel_debug_string_simple), transcribed in Chunks.v and, independently, in '
    'the harness',
    'texts are byte strings without NUL that are valid UTF-8 (decoding itself is a library oracle)',
    'syscall path arguments: the "second path = lookups whose records are not EQUAL to the first lookup\'s" idiom is modelled as '
    '"the second lookup" (records differ at least by timestamp)',
]
HEADER = ('From Coq Require Import NArith List.\nFrom Kd Require Import theories.Base theories.Harness '
          'theories.ChunkCases.\nImport ListNotations.\nOpen Scope N_scope.')

HEADERW = HEADER.replace('theories.ChunkCases', 'theories.ChunkWindowCases')


def words(b):
    return [int.from_bytes(b[8 * k:8 * k + 8], 'little') for k in range(4)]


def frame(first, rest_bytes):
    chunks = [first]
    while rest_bytes:
        c = rest_bytes[:32]
        chunks.append(c + b'\0' * (32 - len(c)))
        rest_bytes = rest_bytes[32:]
    out = []
    for i, c in enumerate(chunks):
        q = (1 if i == 0 else 0) | (2 if i == len(chunks) - 1 else 0)
        out.append([q, words(c)])
    return out


def enc(kind, a, b, text):
    if kind == 0:
        return frame(a.to_bytes(8, 'little') + text[:24] + b'\0' * (24 - len(text[:24])), text[24:])
    if kind == 1:
        return frame(a.to_bytes(8, 'little') + b.to_bytes(8, 'little') + text[:16] + b'\0' * (16 - len(text[:16])), text[16:])
    return frame(text[:32] + b'\0' * (32 - len(text[:32])), text[32:])


def rand_text(rng, n):
    out = b''
    while len(out) < n:
        # incl. text that is valid UTF-8 but not in a Unicode normal form (decomposed accents as HFS+ stores them, the
        # Angstrom and Ohm signs, a compatibility ideograph, a non-BMP character): the text is shown as the kernel wrote it
        ch = rng.choice(['a', 'b', '/', '.', 'Z', '0', ' ', 'é', '日', 'ß', 'e\u0301', '\u212b', '\u2126', '\uf900', '\U0001fae8']).encode()
        if len(out) + len(ch) <= n:
            out += ch
        else:
            out += b'x'
    return out


def run(ctx, model_ok):
    rng = ctx.rng
    R = dc.Rows()
    lengths = sorted(set(list(range(0, 201)) if not ctx.quick() else
                         [0, 1, 7, 8, 15, 16, 17, 23, 24, 25, 31, 32, 33, 47, 48, 49, 55, 56, 57, 63, 64, 65, 87, 88, 89, 119, 120, 121,
                          152, 183, 184, 185, 200]))
    cases, metas = [], []
    for n in lengths:
        for kind in (0, 1, 2):
            text = rand_text(rng, n)
            a = rng.choice([1, 77, 2 ** 40, 2 ** 64 - 1]) if kind != 2 else 0
            b = rng.randint(1, 999) if kind == 1 else 0
            evs = enc(kind, a, b, text)
            cases.append({'kind': kind, 'events': evs})
            metas.append((kind, a, b, text, evs))
            if len(evs) >= 2:
                # ... and with unrelated same-thread records of the same pairing domain between the chunks: same text, same ids,
                # and the trace still holds its whole window
                foreign = [[rng.randrange(3), rng.choice([0, 0, 3])] for _ in range(rng.choice([1, 1, 2]))]
                cases.append({'kind': kind, 'events': evs, 'foreign': foreign})
                metas.append((kind, a, b, text, evs, foreign))
    res = vlib.run_impl('run_chunks.py', {'cases': cases})['results']
    ctx.evaluations = len(cases)
    coq, coqw = [], []
    for meta, r in zip(metas, res):
        kind, a, b, text, evs = meta[:5]
        if len(meta) == 6:
            ctx.count('with unrelated records in between')
            if 'err' in r or bytes.fromhex(r['text']) != text or (kind != 2 and (r['a'], r['b']) != (a, b)) \
                    or (kind == 1 and text and r.get('gstr') != [[b, text.decode()]]):
                ctx.failing.append({'input': {'kind': ('lookup', 'global string', 'thread name')[kind], 'text': text.hex(),
                                              'id': [a, b], 'records': evs, 'unrelated_records_between_chunks': meta[5]},
                                    'expected': {'text': text.decode('utf-8', 'replace'), 'id': [a, b]}, 'actual': r,
                                    'why': 'with unrelated same-thread records between the chunks the reassembled text / id / string '
                                           'table is not the one the kernel split, or the trace does not hold its window'})
            elif 'window' in r:
                win = clist([f'({cN(c)}, ({q}, {clist([cN(x) for x in ws])}))' for c, q, ws in r['window']])
                coqw.append(f'({kind}, {cN(r["lookup_code"])}, {win}, ({cN(r["a"])}, {cN(r["b"])}, {vlib.cbytes(bytes.fromhex(r["text"]))}))')
            continue
        ctx.count(('lookup', 'string', 'threadname')[kind] + ':records=%d' % min(len(evs), 4))
        if len(evs) >= 3:
            ctx.nontrivial.add((kind, text))
        if 'err' in r or bytes.fromhex(r['text']) != text or (kind != 2 and (r['a'], r['b']) != (a, b)):
            ctx.failing.append({'input': {'kind': ('lookup', 'global string', 'thread name')[kind], 'text': text.hex(),
                                          'id': [a, b], 'records': evs},
                                'expected': {'text': text.decode('utf-8', 'replace'), 'id': [a, b]}, 'actual': r,
                                'why': 'the reassembled text / id is not the one the kernel split'})
            continue
        if kind == 1 and text and r.get('gstr') != [[b, text.decode()]]:
            ctx.failing.append({'input': {'kind': 'global string', 'text': text.hex(), 'id': [a, b], 'records': evs},
                                'expected': {'global_strings': [[b, text.decode()]]}, 'actual': r.get('gstr'),
                                'why': 'the string table holds something else than the announced string'})
        coq.append(f'({kind}, {clist([f"({q}, {clist([cN(w) for w in ws])})" for q, ws in evs])}, '
                   f'({cN(r["a"])}, {cN(r["b"])}, {vlib.cbytes(bytes.fromhex(r["text"]))}))')
    # exactly once, and the enclosing syscall shows the paths in lookup order: through the public API
    path_keys = [k for k in dc.call_keys(R) if R.uses_paths(k) and k != 'BSC_posix_spawn']
    reqs, exps, twins, wevs = [], [], [], []
    lookup = R.lookup_code
    # every syscall that shows more than one path is always included (they reassemble several lookups of one window)
    multi = [k for k in path_keys if any(t in R.toks_text(k) for t in ('PSecond', 'PNth 1', 'PLast'))]
    for key in (multi + rng.sample([k for k in path_keys if k not in multi], 8) if ctx.quick() else path_keys):
        for nl in (0, 1, 2, 3, 'same-tail', 'same'):
            if nl == 'same-tail':       # two lookups whose last chunks are the same bytes (and, under a coarse clock, the same tick)
                tail = rand_text(rng, rng.choice([1, 5, 32]))
                paths = [(rng.randint(1, 999), rand_text(rng, 24) + tail) for _ in range(3)]
            elif nl == 'same':          # the same path looked up twice (rename("a", "a")), then another one
                one = (rng.randint(1, 999), rand_text(rng, rng.choice([3, 24, 25, 57])))
                paths = [one, one, (rng.randint(1, 999), rand_text(rng, 9))]
            else:
                paths = [(rng.randint(1, 999), rand_text(rng, rng.choice([3, 24, 25, 57, 90, 184]))) for _ in range(nl)]
            first = dc.in_domain_first(R, key, rng)
            evs = [[7, R.code_of[key], 1, first]]
            # an unrelated call of the same thread that starts before a lookup and ends between two of its records (windows
            # that overlap without nesting)
            cross = 'open' if (rng.random() < 0.35 and key != 'BSC_read') else None
            if cross:
                evs.append([7, R.code_of['BSC_read'], 1, [3, 0x1000, 16, 0]])
            for vid, text in paths:
                for ci, (q, ws) in enumerate(enc(0, vid, 0, text)):
                    if cross == 'open' and ci == 1:
                        evs.append([7, R.code_of['BSC_read'], 2, [0, 16, 0, 0]])
                        cross = 'closed'
                    evs.append([7, lookup, q, ws])
                    if rng.random() < 0.4:                      # unrelated same-thread records in between
                        evs.append([7, R.code_of['BSC_getpid'], rng.choice([0, 3]), [1, 2, 3, 4]])
                if rng.random() < 0.4:      # a record whose id the code table does not know, with a payload, is not a lookup either
                    evs.append([7, 0x0a0b0c00, rng.choice([0, 1, 2, 3]), [0x2f2f2f2f41414141, 0x4242424242424242, 0x43, 0x44]])
                if 'VFS_LOOKUP_DONE' in R.code_of and rng.random() < 0.6:   # the kernel's lookup-done notice is not a lookup
                    evs.append([7, R.code_of['VFS_LOOKUP_DONE'], 0, [vid, 0, 0, 0]])
            if cross == 'open':
                evs.append([7, R.code_of['BSC_read'], 2, [0, 16, 0, 0]])
            evs.append([7, R.code_of[key], 2, [0, 5, 0, 0]])
            recs = [D.record(j + 1, ws, t, c | q) for j, (t, c, q, ws) in enumerate(evs)]
            reqs.append({'file': D.build_v2([(7, 1, b'p')], 0, recs).hex(), 'cfg': {'color': False}, 'calls': ['traces']})
            exps.append((key, paths, first))
            wevs.append([[c, q, ws, t] for t, c, q, ws in evs])
            # the same records under a coarse clock (several records per tick, as on real hardware): same texts
            tick = 1000 if nl in ('same-tail', 'same') else rng.choice([2, 4, 1000])
            recs2 = [D.record(1 + j // tick, ws, t, c | q) for j, (t, c, q, ws) in enumerate(evs)]
            twins.append({'file': D.build_v2([(7, 1, b'p')], 0, recs2).hex(), 'cfg': {'color': False}, 'calls': ['traces']})
    out = vlib.run_impl('run_api.py', {'cases': reqs})['results']
    tout = vlib.run_impl('run_api.py', {'cases': twins})['results']
    ctx.evaluations += len(reqs) + len(twins)
    for (key, paths, first), a, b in zip(exps, out, tout):
        ta, tb = [it[4] for it in a[0]['items']], [it[4] for it in b[0]['items']]
        if ta != tb or a[0]['err'] != b[0]['err']:
            ctx.failing.append({'input': {'syscall': key, 'paths': [[v, t.hex()] for v, t in paths], 'clock': 'several records per tick'},
                                'expected': ta, 'actual': b[0]['err'] or tb,
                                'why': 'the reassembled paths change when records share a timestamp'})
    metas2, wmetas, wres = [], [], []
    for wi, ((key, paths, first), calls) in enumerate(zip(exps, out)):
        c = calls[0]
        lk = [it for it in c['items'] if it[0] == 'VfsLookup']
        sc = [it for it in c['items'] if it[6] == R.code_of[key]]
        want = [f'lookup("{t.decode()}"), vnode id: {v}' for v, t in paths]
        if c['err'] or [it[4] for it in lk] != want or len(sc) != 1:
            ctx.failing.append({'input': {'syscall': key, 'paths': [[v, t.hex()] for v, t in paths]},
                                'expected': {'lookup traces': want, 'syscall traces': 1},
                                'actual': {'lookup traces': [it[4] for it in lk], 'syscall traces': len(sc), 'err': c['err']},
                                'why': 'not exactly one lookup trace per looked-up path (continuation records must not produce traces)'})
            continue
        # the syscall shows the paths in lookup order: every quoted path of its call part appears in order in `paths`
        text = sc[0][4]
        shown = [p for p in text.split('"')[1::2]]
        it = iter([t.decode() for _, t in paths])
        if not all(any(s == x for x in it) for s in shown if s):
            ctx.failing.append({'input': {'syscall': key, 'paths': [[v, t.hex()] for v, t in paths]},
                                'expected': 'path arguments = looked-up paths in lookup order', 'actual': text,
                                'why': 'the syscall does not show its paths in lookup order'})
        metas2.append((key, first, [0, 5, 0, 0], 7, paths, []))
        wmetas.append((key, wevs[wi], []))
        wres.append({'text': text.encode('utf-8', 'surrogatepass').hex()})
    # strings and thread names through the pipeline: exactly one trace each, whatever the number of records
    sreqs, sexps = [], []
    gcode, ncode = R.code_of['TRACE_STRING_GLOBAL'], R.code_of['TRACE_STRING_THREADNAME']
    for n in ([0, 16, 17, 48, 49, 80, 81, 150] if ctx.quick() else range(0, 201, 3)):
        for kind, code in ((1, gcode), (2, ncode)):
            text = rand_text(rng, n if kind == 1 else min(n, 63))
            sid = rng.randint(1, 99)
            evs = []
            for q, ws in enc(kind, 5, sid, text):
                evs.append([7, code, q, ws])
                if rng.random() < 0.4:
                    evs.append([7, R.code_of['BSC_getpid'], 0, [1, 2, 3, 4]])
            recs = [D.record(j + 1, ws, t, c | q) for j, (t, c, q, ws) in enumerate(evs)]
            sreqs.append({'file': D.build_v2([(7, 1, b'p')], 0, recs).hex(), 'cfg': {'color': False}, 'calls': ['traces']})
            sexps.append((kind, sid, text))
    # a string id announced twice with different texts: each announcement reports its own text
    for _ in range(6 if ctx.quick() else 60):
        sid = rng.randint(1, 99)
        t1, t2 = rand_text(rng, rng.choice([5, 17, 49])), rand_text(rng, rng.choice([3, 16, 50]))
        evs = [[7, gcode, q, ws] for q, ws in enc(1, 5, sid, t1)] + [[7, gcode, q, ws] for q, ws in enc(1, 5, sid, t2)]
        recs = [D.record(j + 1, ws, t, c | q) for j, (t, c, q, ws) in enumerate(evs)]
        sreqs.append({'file': D.build_v2([(7, 1, b'p')], 0, recs).hex(), 'cfg': {'color': False}, 'calls': ['traces']})
        sexps.append((3, sid, (t1, t2)))
    sout = vlib.run_impl('run_api.py', {'cases': sreqs})['results']
    ctx.evaluations += len(sreqs)
    for (kind, sid, text), calls in zip(sexps, sout):
        c = calls[0]
        cls = 'TraceStringGlobal' if kind in (1, 3) else 'TraceStringThreadname'
        got = [it[4] for it in c['items'] if it[0] == cls]
        if kind == 3:
            want = [f'New global string: "{t.decode()}", id: {sid}' for t in text]
            text = text[1]
        else:
            want = [f'New global string: "{text.decode()}", id: {sid}'] if kind == 1 else [f'New thread name: {text.decode()}']
        if c['err'] or got != want:
            ctx.failing.append({'input': {'kind': cls, 'text': text.hex(), 'id': sid}, 'expected': want,
                                'actual': got or c['err'],
                                'why': 'a split string must be reported by exactly one trace carrying the whole text'})
    ctx.rule = ('texts of length 0..200 (quick: every chunk boundary 24/16/32 + 32k with one byte either side, 184/185, 200) with '
                'multi-byte characters straddling record boundaries, for lookups, global strings and thread names, encoded by the '
                "kernel's chunking; and path-taking syscalls with 0..3 nested lookups of boundary lengths with unrelated same-thread "
                'records between the records, through PyKdebugParser.traces; non-trivial = distinct text split over >= 3 records')
    ctx.samples = [{'kind': metas[5][0], 'text': metas[5][3].decode('utf-8', 'replace'), 'records': metas[5][4], 'impl': res[5]}]
    if model_ok:
        bad, errors = vlib.run_model_cases('C08', HEADER, 'kcase', 'kcheck', coq, per_file=60)
        ctx.traces_validated = len(coq) - len(bad)
        if errors:
            ctx.broken.append(('correspondence', f'case files failed to evaluate: {errors[0]}'))
        for b in bad[:6]:
            ctx.broken.append(('correspondence', {'case': coq[b][:400]}))
        badw, errorsw = vlib.run_model_cases('C08u', HEADERW, 'kwcase', 'kwcheck', coqw, per_file=60)
        ctx.traces_validated += len(coqw) - len(badw)
        if errorsw:
            ctx.broken.append(('correspondence', f'case files failed to evaluate: {errorsw[0]}'))
        for b in badw[:6]:
            ctx.broken.append(('correspondence', {'window with unrelated records': coqw[b][:400]}))
        # the whole window (lookups of several records, lookup-done notices, unrelated records) through the model, which
        # reassembles the paths itself
        dc.correspond_windows(ctx, 'C08w', R, vlib.run_impl('run_decoders.py', {'cases': []})['host'], wmetas, wres)
        o2 = dc.run_windows(R, metas2)
        dc.correspond(ctx, 'C08r', o2['host'], metas2, o2['results'])
        ctx.evaluations += len(metas2)


def replay(payload):
    inp = payload['input']
    if 'records' in inp:
        kind = {'lookup': 0, 'global string': 1, 'thread name': 2}[inp['kind']]
        print('implementation:', vlib.run_impl('run_chunks.py', {'cases': [{'kind': kind, 'events': inp['records']}]})['results'][0])
    print('expected:', payload.get('expected'))
    return 0

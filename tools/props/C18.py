"""C18 — output is a function of the dump, not of the host operating system."""
from .. import vlib
from ..translate import tr_decoders, tr_handlers
from ..harness import darwin_host
from . import decoder_common as dc

TRANSLATORS = [tr_handlers.translate, tr_decoders.translate]
MODEL_TARGETS = ['theories/DecoderCases.vo']
PROOF_TARGETS = ['props/C18.vo']
PROP_FILE = 'props/C18.v'
ASSUMPTIONS = [
    'host platforms are modelled by the tables the tool reads from the interpreter: errno.errorcode, signal.Signals, '
    'socket.AddressFamily, socket.SocketKind, socket.SOL_SOCKET (the model takes them as the parameter H; the implementation '
    'is run with its real modules and with stand-ins built from Darwin\'s tables, tools/harness/darwin_host.py)',
    'Darwin\'s tables are written from the XNU headers (errno 1..106, signals 1..31, 11 address families, 5 socket types)',
]


def classify(f):
    """known finding F17: the two hosts disagree on an errno / signal / family / socket-type name or on SOL_SOCKET"""
    return 'F17' if isinstance(f.get('input'), dict) and f['input'].get('kind') in (
        'errno', 'signal', 'family', 'socktype', 'sockopt-level') else None


def run(ctx, model_ok):
    R = dc.Rows()
    rng = ctx.rng
    D = darwin_host.HOST
    metas, kinds = [], []
    z = [0, 0, 0, 0]
    codes = list(range(0, 110)) + [150, 200] if not ctx.quick() else [0, 1, 2, 9, 11, 35, 36, 45, 60, 78, 89, 102, 106, 107, 150]
    for e in codes:
        metas.append(('BSC_read', [3, 0x1000, 16, 0], [e, 7, 0, 0], 7, [], []))
        kinds.append('errno')
        metas.append(('BSC_pipe', z, [e, 4, 5, 0], 7, [], []))
        kinds.append('errno')
    # error words that are an errno on NO host (beyond 32 bits, low half equal to an errno number): no host table is consulted
    # for them, so nothing changes between hosts (this kind is not part of the known finding F17)
    for e in (11, 35, 45, 102):
        for hi in (2 ** 32, 2 ** 33 + 2 ** 32, 2 ** 63):
            metas.append(('BSC_read', [3, 0x1000, 16, 0], [hi + e, 7, 0, 0], 7, [], []))
            kinds.append('error-word-beyond-32-bits')
    for s in range(0, 33 if ctx.quick() else 65):
        metas.append(('BSC_sigaction', [s, 0x10, 0x20, 0], z, 7, [], []))
        kinds.append('signal')
    for fam in range(0, 46):
        for ty in ([1, 2] if ctx.quick() else range(0, 8)):
            metas.append(('BSC_socket', [fam, ty, 6, 0], [0, 5, 0, 0], 7, [], []))
            kinds.append('family' if ty == 1 else 'socktype')
    for level in (1, 0xffff, 6, 17):
        for opt in (1, 2, 4, 8, 0x20, 0x1002, 0x1022, 0x7777):
            metas.append(('BSC_setsockopt', [3, level, opt, 0x1000], z, 7, [], []))
            kinds.append('sockopt-level')
            metas.append(('BSC_getsockopt', [3, level, opt, 0x1000], z, 7, [], []))
            kinds.append('sockopt-level')
    # rows that do not read the host: must not change at all
    free = [r[1] for r in R.rows if 'host:' not in R.toks_text(r[1]) and 'TResult' not in R.toks_text(r[1])
            and 'Errno' not in R.toks_text(r[1]) and 'CEqHost' not in R.toks_text(r[1]) and r[1] in R.code_of and r[1] != 'VFS_LOOKUP']
    for key in rng.sample(free, min(len(free), 25 if ctx.quick() else 120)):
        metas.append((key, dc.in_domain_first(R, key, rng), dc.in_domain_last(R, key, rng, [0, 1, 2, 3]), 7, [], []))
        kinds.append('host-free-row')
    # every row that shows flag / enum NAMES from the tool's own tables, with every single declared bit and all bits: the
    # host has modules with like-named tables (socket.MsgFlag, stat, os.O_*) numbered differently
    free0 = [r[1] for r in R.rows if 'host:' not in R.toks_text(r[1]) and 'CEqHost' not in R.toks_text(r[1])
             and r[1] in R.code_of and r[1] != 'VFS_LOOKUP']          # with a zero error word no errno name is shown
    for key in free0:
        words = R.flag_words(key)
        for e, i in words:
            vals = [v for _, v in R.enums[e][0] if v > 0]
            for w in vals + [sum(set(vals)) & (2 ** 64 - 1)]:
                first = dc.in_domain_first(R, key, rng)
                first[i] = w
                metas.append((key, first, [0, 1, 2, 3], 7, [], []))
                kinds.append('host-free-row')
    real = dc.run_windows(R, metas)
    darw = dc.run_windows(R, metas, host=D)
    ctx.evaluations = 2 * len(metas)
    ctx.extra['host_real'] = {'SOL_SOCKET': real['host']['SOL_SOCKET'], 'errno_35': dict(map(tuple, real['host']['errno'])).get(35)}

    def txt(r):
        return bytes.fromhex(r['text']).decode('utf-8', 'replace') if 'text' in r else r
    for m, k, a, b in zip(metas, kinds, real['results'], darw['results']):
        ctx.count(k)
        if a != b:
            ctx.nontrivial.add((m[0], tuple(m[1]), tuple(m[2])))
            ctx.failing.append({'input': {'kind': k, 'key': m[0], 'first': m[1], 'last': m[2]},
                                'expected': {'on Darwin tables': txt(b)}, 'actual': {'on this host': txt(a)},
                                'why': 'the rendering changes with the host operating system\'s tables'})
    # the names shown with Darwin's tables ARE Darwin's (spot checks written from the headers)
    spot = {('BSC_read', 35): 'EAGAIN(35)', ('BSC_read', 11): 'EDEADLK(11)', ('BSC_read', 45): 'ENOTSUP(45)',
            ('BSC_read', 102): 'EOPNOTSUPP(102)', ('BSC_sigaction', 10): 'SIGBUS', ('BSC_sigaction', 30): 'SIGUSR1',
            ('BSC_socket', 30): 'AF_INET6'}
    for m, b in zip(metas, darw['results']):
        key = (m[0], m[2][0] if m[0] == 'BSC_read' else m[1][0])
        if m[0] == 'BSC_socket' and m[1][1] not in (1, 2, 3, 4, 5):
            continue                    # a socket type outside Darwin's enum is not an individually well-formed record
        if key in spot and ('text' not in b or spot[key] not in txt(b)):
            ctx.failing.append({'input': {'kind': 'darwin-name', 'key': m[0], 'first': m[1], 'last': m[2]}, 'expected': spot[key],
                                'actual': txt(b), 'why': 'with Darwin\'s tables the name shown is not Darwin\'s'})
    # the interpreter's locale / filesystem encoding is part of the host too: non-ASCII path and name bytes must render the
    # same under a UTF-8 locale and under the C locale with UTF-8 mode off
    pkeys = [k for k in dc.call_keys(R) if R.uses_paths(k)]
    lmetas = []
    for key in rng.sample(pkeys, min(len(pkeys), 30 if ctx.quick() else 200)):
        paths = [(rng.randint(1, 99), rng.choice(['/tmp/café.txt', '/Users/ü/漢字', '/a/' + 'é' * 20]).encode()) for _ in range(2)]
        lmetas.append((key, dc.in_domain_first(R, key, rng), [0, 3, 0, 0], 7, paths, []))
    lmetas.append(('VFS_LOOKUP', [5] + [int.from_bytes('/é/ü'.encode().ljust(24, b'\0')[8 * i:8 * i + 8], 'little') for i in range(3)],
                   [0, 0, 0, 0], 7, [], []))
    CENV = {'LC_ALL': 'C', 'LANG': 'C', 'PYTHONCOERCECLOCALE': '0', 'PYTHONUTF8': '0'}
    UENV = {'LC_ALL': 'C.UTF-8', 'LANG': 'C.UTF-8', 'PYTHONUTF8': '1'}
    lu = dc.run_windows(R, lmetas, env_extra=UENV)['results']
    lc = dc.run_windows(R, lmetas, env_extra=CENV)['results']
    ctx.evaluations += 2 * len(lmetas)
    for m, a, b in zip(lmetas, lu, lc):
        ctx.count('locale')
        if a != b:
            ctx.failing.append({'input': {'kind': 'locale', 'key': m[0], 'first': m[1], 'last': m[2],
                                          'paths': [[v, t.hex()] for v, t in m[4]]},
                                'expected': {'under a UTF-8 locale': txt(a)}, 'actual': {'under LC_ALL=C, UTF-8 mode off': txt(b)},
                                'why': 'the rendering changes with the locale / filesystem encoding of the host interpreter'})
    # the string-hash seed is host state too: set / dict orders must not reach the text
    sub = [m for m, k in zip(metas, kinds) if k == 'host-free-row'][:400]
    import re as _re
    for r in R.rows:                                       # open-flag words with both access-mode bits set, and dense words
        mm = _re.search(r'LOpenFlags .*?\(W EFirst (\d)\)', R.toks_text(r[1]))
        if mm and r[1] in R.code_of:
            for v in (3, 0x603, 7, 0xffffffff):
                first = dc.in_domain_first(R, r[1], rng)
                first[int(mm.group(1))] = v
                sub.append((r[1], first, [0, 3, 0, 0], 7, [(5, b'/tmp/x')] if R.uses_paths(r[1]) else [], []))
    h0 = dc.run_windows(R, sub, env_extra={'PYTHONHASHSEED': '0'})['results']
    for seed in ('1', '7'):
        h1 = dc.run_windows(R, sub, env_extra={'PYTHONHASHSEED': seed})['results']
        ctx.evaluations += len(sub)
        for m, a, b in zip(sub, h0, h1):
            ctx.count('hash-seed')
            if a != b:
                ctx.failing.append({'input': {'kind': 'hash-seed', 'key': m[0], 'first': m[1], 'last': m[2]},
                                    'expected': {'PYTHONHASHSEED=0': txt(a)}, 'actual': {'PYTHONHASHSEED=' + seed: txt(b)},
                                    'why': 'the rendering changes with the string-hash seed of the host interpreter'})
    # the C data model of the host (a 32-bit `long`): rows with signed / sized conversions, words around 2^31 and 2^63
    cm = []
    for r in R.rows:
        if r[1] in R.code_of and any(t in R.toks_text(r[1]) for t in ('TSDec', 'TSHex', 'RS64', 'RS32')) and 'host:' not in R.toks_text(r[1]):
            for w in (2 ** 31, 2 ** 32 + 7, 2 ** 63 + 5, 2 ** 64 - 1):
                first = dc.in_domain_first(R, r[1], rng)
                first = [w if not isinstance(x, str) and i not in R.enum_words(r[1]) else x for i, x in enumerate(first)]
                cm.append((r[1], first, [0, w, 0, 0], 7, [(5, b'/p')] if R.uses_paths(r[1]) else [], []))
    c0 = dc.run_windows(R, cm)['results']
    c1 = dc.run_windows(R, cm, ilp32=True)['results']
    ctx.evaluations += 2 * len(cm)
    for m, a, b in zip(cm, c0, c1):
        ctx.count('c-data-model')
        if a != b:
            ctx.failing.append({'input': {'kind': 'c-data-model', 'key': m[0], 'first': m[1], 'last': m[2]},
                                'expected': {'on this host (64-bit long)': txt(a)}, 'actual': {'with a 32-bit long': txt(b)},
                                'why': 'the rendering changes with the C data model of the host (ctypes.c_long and friends)'})
    # optional third-party modules a host may or may not have (stand-in: tools/harness/stubs): the formatted lines do not
    # change with their presence
    import os
    from ..harness.streams import StreamGen
    from . import pairing_common as pc
    sg = StreamGen(pc.Universe())
    lreqs = []
    for _ in range(4 if ctx.quick() else 40):
        threads, evs = sg.gen(rng, n_ops=10, rich=True)
        threads = [(t, p, rng.choice(['漢字プロセス', 'e\u0301clair', 'ascii', nm.decode() or 'x']).encode()[:19].decode('utf-8', 'ignore').encode())
                   for t, p, nm in threads]
        for cfg in ({'color': False}, {'color': False, 'show_tid': True}):
            lreqs.append({'file': sg.v2(threads, evs).hex(), 'cfg': cfg, 'calls': ['formatted_traces', 'formatted_kevents', 'formatted_callstacks']})
    # the host's local time zone: a time base without a zone prints the raw counter, with a zone the zone's wall clock -
    # never the host's local time
    treqs = []
    for rq in lreqs[:6]:
        for tzm in (None, 0, 120, -300):
            treqs.append({'file': rq['file'], 'cfg': dict(rq['cfg'], mach_absolute_time=0, numer=125, denom=3,
                                                         usecs_since_epoch=1600000000000000, timezone_minutes=tzm),
                          'calls': ['formatted_kevents', 'formatted_traces']})
    tz = [vlib.run_impl('run_api.py', {'cases': treqs}, env_extra={'TZ': z})['results'] for z in ('UTC0', 'JST-9', 'PST8PDT')]
    ctx.evaluations += 3 * len(treqs)
    for rq, a, b, c in zip(treqs, *tz):
        ctx.count('time-zone')
        for ca, cb, cc2 in zip(a, b, c):
            if not (ca['items'] == cb['items'] == cc2['items']):
                j = next((k for k in range(len(ca['items'])) if not (ca['items'][k] == cb['items'][k] == cc2['items'][k])), 0)
                ctx.failing.append({'input': {'kind': 'time-zone', 'file': rq['file'], 'cfg': rq['cfg'], 'call': ca['call']},
                                    'expected': {'TZ=UTC0': ca['items'][j:j + 1]},
                                    'actual': {'TZ=JST-9': cb['items'][j:j + 1], 'TZ=PST8PDT': cc2['items'][j:j + 1]},
                                    'why': 'the formatted lines change with the local time zone of the host'})
                break
    # the interpreter's optimisation level is host configuration too (python -O / PYTHONOPTIMIZE strips assert statements)
    oreqs = list(lreqs[:8])
    from ..harness import dumps as D
    for _ in range(3):
        threads, evs = sg.gen(rng, n_ops=8)
        oreqs.append({'file': D.build_v3(threads, [sg.records(evs[:3]), sg.records(evs[3:], ts0=10)], []).hex(),
                      'cfg': {'color': False}, 'calls': ['formatted_kevents', 'formatted_traces']})
    oa = vlib.run_impl('run_api.py', {'cases': oreqs})['results']
    ob = vlib.run_impl('run_api.py', {'cases': oreqs}, env_extra={'PYTHONOPTIMIZE': '1'})['results']
    ctx.evaluations += 2 * len(oreqs)
    for rq, a, b in zip(oreqs, oa, ob):
        ctx.count('optimize')
        for ca, cb in zip(a, b):
            if ca['items'] != cb['items'] or ca['err'] != cb['err']:
                ctx.failing.append({'input': {'kind': 'optimize', 'file': rq['file'], 'cfg': rq['cfg'], 'call': ca['call']},
                                    'expected': {'plain interpreter': ca['items'][:2] or ca['err']},
                                    'actual': {'PYTHONOPTIMIZE=1': cb['items'][:2] or cb['err']},
                                    'why': 'the formatted lines change with the optimisation level of the host interpreter (assert statements with side effects)'})
                break
    # static: the library does not consult the platform, the environment, the clock or the Unicode database of the interpreter
    # (text classification methods change with the Python release) - a finite list of such facilities must not appear in it
    import ast as _ast
    import re as _re
    import json as _json
    lint = []
    host_paths = set()
    DENY_ATTR = {('os', 'environ'), ('os', 'getenv'), ('os', 'name'), ('os', 'sep'), ('os', 'linesep'), ('os', 'getcwd'), ('os', 'getlogin'),
                 ('os', 'get_terminal_size'), ('os', 'fsdecode'), ('os', 'fsencode'), ('sys', 'platform'), ('sys', 'byteorder'), ('sys', 'maxsize'),
                 ('sys', 'version_info'), ('sys', 'getdefaultencoding'), ('sys', 'getfilesystemencoding'), ('sys', 'stdout'), ('time', 'time'),
                 ('time', 'localtime'), ('time', 'tzname'), ('time', 'timezone'), ('datetime', 'now'), ('datetime', 'today'),
                 ('shutil', 'get_terminal_size'), ('uuid', 'uuid1'), ('uuid', 'uuid4'), ('uuid', 'getnode')}
    DENY_MOD = {'platform', 'locale', 'getpass', 'random', 'unicodedata', 'socket', 'errno', 'signal'}
    DENY_METH = {'isprintable', 'isalnum', 'isalpha', 'isidentifier', 'isnumeric', 'isdecimal', 'casefold', 'islower', 'isupper', 'istitle'}
    base = '/repo/pykdebugparser'
    for root, _, fns in os.walk(base):
        for fn in fns:
            if not fn.endswith('.py'):
                continue
            path = os.path.join(root, fn)
            try:
                tree = _ast.parse(open(path).read())
            except SyntaxError:
                continue
            for node in _ast.walk(tree):
                if isinstance(node, _ast.Attribute) and isinstance(node.value, _ast.Name) and (node.value.id, node.attr) in DENY_ATTR:
                    lint.append((os.path.relpath(path, base), node.lineno, f'{node.value.id}.{node.attr}'))
                elif isinstance(node, _ast.Attribute) and node.attr in DENY_METH and isinstance(node.ctx, _ast.Load):
                    lint.append((os.path.relpath(path, base), node.lineno, f'.{node.attr}()'))
                elif isinstance(node, _ast.Constant) and isinstance(node.value, str) and _re.match(
                        r'^(~|/(usr|etc|System|Library|var|private|opt|tmp|home|Users|bin|sbin|proc|dev|Applications|Volumes)(/|$))', node.value) \
                        and '\n' not in node.value and len(node.value) < 200:
                    lint.append((os.path.relpath(path, base), node.lineno, f'path literal {node.value!r}'))
                    host_paths.add(os.path.expanduser(node.value))
                elif isinstance(node, (_ast.Import, _ast.ImportFrom)):
                    mods = [a.name.split('.')[0] for a in node.names] if isinstance(node, _ast.Import) else [(node.module or '').split('.')[0]]
                    for m in mods:
                        if m in DENY_MOD:
                            lint.append((os.path.relpath(path, base), node.lineno, f'import {m}'))
    # the host modules of the known finding F17 and the pre-existing uses are the allowed baseline
    ALLOWED = {('trace_handlers/bsd.py', 'import errno'), ('trace_handlers/bsd.py', 'import socket'), ('trace_handlers/bsd.py', 'import signal')}
    new_uses = sorted({(f, what) for f, _, what in lint} - ALLOWED)
    ctx.extra['host_facility_uses'] = sorted({(f, what) for f, _, what in lint})
    if new_uses:
        ctx.broken.append(('translate', {'what': 'the library consults a facility of the host that the decoder model does not have as a '
                                                 'parameter (c18_only_through_tables no longer describes the code)', 'uses': new_uses}))
    stubs = os.path.join(os.path.dirname(os.path.dirname(os.path.abspath(__file__))), 'harness', 'stubs')
    la = vlib.run_impl('run_api.py', {'cases': lreqs})['results']
    if host_paths:
        # the files of the host: every absolute path the source names exists on a second 'host' (as a text file holding a valid
        # code table); the lines must not change
        lh = vlib.run_impl('run_api.py', {'cases': lreqs}, env_extra={'VERIF_HOST_FILES': _json.dumps(sorted(host_paths))})['results']
        ctx.evaluations += len(lreqs)
        for rq, a, b in zip(lreqs, la, lh):
            ctx.count('host-files')
            for ca, cb in zip(a, b):
                if ca['items'] != cb['items'] or ca['err'] != cb['err']:
                    j = next((k for k in range(min(len(ca['items']), len(cb['items']))) if ca['items'][k] != cb['items'][k]), 0)
                    ctx.failing.append({'input': {'kind': 'host-files', 'file': rq['file'], 'cfg': rq['cfg'], 'call': ca['call'],
                                                  'paths_that_exist_on_the_second_host': sorted(host_paths)},
                                        'expected': {'on this host': ca['items'][j:j + 1] or ca['err']},
                                        'actual': {'on a host that has these files': cb['items'][j:j + 1] or cb['err']},
                                        'why': 'the formatted lines change with files of the host'})
                    break
    lb = vlib.run_impl('run_api.py', {'cases': lreqs}, env_extra={'PYTHONPATH': '/repo:' + stubs})['results']
    ctx.evaluations += 2 * len(lreqs)
    for rq, a, b in zip(lreqs, la, lb):
        ctx.count('optional-module')
        for ca, cb in zip(a, b):
            if ca['items'] != cb['items'] or ca['err'] != cb['err']:
                j = next((k for k in range(min(len(ca['items']), len(cb['items']))) if ca['items'][k] != cb['items'][k]), 0)
                ctx.failing.append({'input': {'kind': 'optional-module', 'file': rq['file'], 'cfg': rq['cfg'], 'call': ca['call']},
                                    'expected': {'without the module': ca['items'][j:j + 1] or ca['err']},
                                    'actual': {'with a wcwidth module importable': cb['items'][j:j + 1] or cb['err']},
                                    'why': 'the formatted lines change with the presence of an optional third-party module on the host'})
                break
    ctx.rule = ('every errno 0..109,150,200 (quick: 15 codes) through two decoders, signals 0..64 (quick 0..32), address families '
                '0..45 x socket types, socket-option levels {1, 0xffff, 6, 17} x option names, and 25/120 rows that do not read the '
                'host; each rendered with the real host modules AND with Darwin stand-ins; plus path-taking rows with non-ASCII paths under a UTF-8 locale and under LC_ALL=C with UTF-8 mode off; host-free rows under three string-hash seeds; formatted lines with and without an importable wcwidth module; non-trivial = distinct input whose two '
                'renderings differ')
    ctx.samples = [{'key': metas[20][0], 'last': metas[20][2], 'on_this_host': txt(real['results'][20]),
                    'on_darwin_tables': txt(darw['results'][20])}]
    if model_ok:
        dc.correspond(ctx, 'C18a', real['host'], metas, real['results'])
        dc.correspond(ctx, 'C18b', darw['host'], metas, darw['results'])


def replay(payload):
    R = dc.Rows()
    inp = payload['input']
    m = [(inp['key'], inp['first'], inp['last'], 7, [], [])]
    a = dc.run_windows(R, m)['results'][0]
    b = dc.run_windows(R, m, host=darwin_host.HOST)['results'][0]
    for name, r in (('this host', a), ('Darwin tables', b)):
        print(name + ':', bytes.fromhex(r['text']).decode('utf-8', 'replace') if 'text' in r else r)
    return 0

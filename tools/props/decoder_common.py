"""Shared by the decoder properties (C07 C09 C10 C11 C17 C18, and C08 for the syscall paths): the translated rows,
in-domain argument generators derived from the rows' own tokens, window construction (with encoded lookups), the
Coq case printer and the host tables."""
import json
import os
import re
from .. import vlib
from ..vlib import cN, clist
from ..translate import tr_decoders, tr_handlers

HEADER = ('From Coq Require Import String ZArith NArith List.\nFrom Kd Require Import theories.Base theories.Harness '
          'theories.DecoderDSL theories.DecoderCases.\nImport ListNotations.\nOpen Scope N_scope.\nOpen Scope string_scope.')


SNAPSHOT = os.path.join(os.path.dirname(__file__), 'decoders_snapshot.json')


class Rows:
    """the translated rows; when the translator rejects the current source, the rows of the pinned tree (committed
    snapshot) are used to GENERATE inputs and to drive the oracles, so that a failing input can still be searched for"""

    def __init__(self):
        try:
            self.rows, self.untranslated, self.enums = tr_decoders.translate()
            self.from_snapshot = False
        except Exception:
            with open(SNAPSHOT) as fd:
                snap = json.load(fd)
            self.rows = [tuple(r[:5]) + (r[5],) for r in snap['rows']]
            self.untranslated = snap['untranslated']
            self.enums = {k: ([tuple(m) for m in v[0]], v[1]) for k, v in snap['enums'].items()}
            self.from_snapshot = True
        self.by_key = {r[1]: r for r in self.rows}
        self.codes = tr_handlers.last_wins(tr_handlers.codes_entries())
        self.code_of = {}
        for i, n in sorted(self.codes.items()):
            self.code_of.setdefault(n, i)
        self.lookup_code = self.code_of['VFS_LOOKUP']

    def toks_text(self, key):
        return tr_decoders.coq_toks(self.by_key[key][5])

    def enum_fields(self, key, ev='EFirst'):
        """[(enum, word index, shift, mask, signed bits or None)] for every enum conversion of the row whose source is a
        (shifted / masked) START word"""
        t = self.toks_text(key)
        out = []
        for m in re.finditer(r'T(S?)EnumName "([^"]+)" (?:(\d+) )?(\((?:[^()]|\((?:[^()]|\([^()]*\))*\))*\))', t):
            signed, e, bits, src = m.group(1), m.group(2), m.group(3), m.group(4)
            shift, mask = 0, None
            cur = src
            ok = True
            while True:
                mm = re.fullmatch(r'\(W (EFirst|ELast) (\d)\)', cur)
                if mm:
                    if mm.group(1) == ev:
                        out.append((e, int(mm.group(2)), shift, mask, int(bits) if signed else None))
                    break
                mm = re.fullmatch(r'\(SAnd (.*) (\d+)\)', cur)
                if mm:
                    mask = int(mm.group(2)) if mask is None else mask & int(mm.group(2))
                    cur = mm.group(1)
                    continue
                mm = re.fullmatch(r'\(SShr (.*) (\d+)\)', cur)
                if mm:
                    shift += int(mm.group(2))
                    if mask is not None:
                        mask <<= int(mm.group(2))
                    cur = mm.group(1)
                    continue
                break
        return out

    def enum_words(self, key, ev='EFirst'):
        """word index -> list of in-domain values (enum fields of the same word are combined)"""
        per_word = {}
        for e, i, shift, mask, bits in self.enum_fields(key, ev):
            if e.startswith('host:'):
                continue
            vals = []
            for _, v in self.enums[e][0]:
                if v < 0:
                    v %= (1 << (bits or 64))
                w = v << shift
                if mask is None or (w & ~mask) == 0:
                    vals.append((w, mask if mask is not None else ((1 << 64) - 1)))
            per_word.setdefault(i, []).append(vals)
        out = {}
        for i, fields in per_word.items():
            combos = []
            for _ in range(12):
                w = 0
                for vals in fields:
                    if vals:
                        w |= vals[hash((i, _, len(vals), w)) % len(vals)][0]
                combos.append(w)
            out[i] = sorted(set(combos))
        return out

    def flag_words(self, key, ev='EFirst'):
        """[(flag enum, word index)] for every flag-list rendering (names of the bits set) of a START word"""
        return [(m.group(1), int(m.group(2))) for m in
                re.finditer(r'\(LAnyBit(?:OrIfZero|OrIfEmpty)? "(\w+)"(?: "\w+")? \(W %s (\d)\)\)' % ev, self.toks_text(key))]

    def host_enum_words(self, key):
        return {i: e for e, i, shift, mask, bits in self.enum_fields(key) if e.startswith('host:')}

    def uses_paths(self, key):
        return 'TPath' in self.toks_text(key) or 'CPath' in self.toks_text(key)

    def uses_gstr(self, key):
        return 'TGStr' in self.toks_text(key)


SPECIAL = [0, 1, 2, 3, 7, 0xff, 0x100, 0x1234, 2 ** 31, 2 ** 32 - 1, 2 ** 32, 2 ** 63, 2 ** 64 - 1]


def enc_lookup(vid, text, tid, code):
    """the kernel's lookup records for one path: vnode id + 24 path bytes, then 32 bytes per record"""
    b = text
    first = b[:24]
    rest = b[24:]
    chunks = [vid.to_bytes(8, 'little') + first + b'\0' * (24 - len(first))]
    while rest:
        c = rest[:32]
        chunks.append(c + b'\0' * (32 - len(c)))
        rest = rest[32:]
    evs = []
    for i, c in enumerate(chunks):
        q = (1 if i == 0 else 0) | (2 if i == len(chunks) - 1 else 0)
        evs.append([code, q, [int.from_bytes(c[8 * k:8 * k + 8], 'little') for k in range(4)], tid])
    return evs


def window(R, key, first, last, tid, paths):
    code = R.code_of[key]
    evs = [[code, 1, first, tid]]
    for vid, text in paths:
        evs += enc_lookup(vid, text, tid, R.lookup_code)
    evs.append([code, 2, last, tid])
    return evs


def host_coq(h):
    er = clist([f'({cN(k)}, "{v}")' for k, v in h['errno']])
    en = clist([f'("host:{nm}", ' + clist([f'(({v})%Z, "{n}")' for v, n in h[nm]]) + ')'
                for nm in ('Signals', 'AddressFamily', 'SocketKind')])
    co = clist([f'("SOL_SOCKET", {cN(h["SOL_SOCKET"])})'])
    return f'({er}, {en}, {co})'


def to_case(key, first, last, tid, paths, gstr, res):
    if 'text' in res:
        obs = '(inr ' + vlib.cbytes(bytes.fromhex(res['text'])) + ')'
    else:
        obs = f'(inl {res["err"]})'
    ps = clist([f'({cN(v)}, {vlib.cbytes(t)})' for v, t in paths])
    gs = clist([f'({cN(k)}, {vlib.cstr_bytes(t)})' for k, t in dict(gstr).items()])
    return (f'("{key}", {clist([cN(w) for w in first])}, {clist([cN(w) for w in last])}, {cN(tid)}, {ps}, {gs}, {obs})')


def run_rcases(name, host, cases):
    header = HEADER + f'\nDefinition hostd : host_data := {host_coq(host)}.'
    return vlib.run_model_cases(name, header, 'rcase', '(rcheck hostd)', cases, per_file=150)


def split_text_call(text):
    """'name(p0, p1, ...)tail' -> (name, [params], tail) by top-level parentheses / quotes; None if no such shape"""
    i = text.find('(')
    if i < 0:
        return None
    name = text[:i]
    depth, cur, params, j, inq = 0, '', [], i + 1, False
    while j < len(text):
        ch = text[j]
        if ch == '"':
            inq = not inq
            cur += ch
        elif inq:
            cur += ch
        elif ch == '(':
            depth += 1
            cur += ch
        elif ch == ')' and depth:
            depth -= 1
            cur += ch
        elif ch == ')':
            params.append(cur)
            return name, ([] if params == [''] else params), text[j + 1:]
        elif ch == ',' and depth == 0 and text[j:j + 2] == ', ':
            params.append(cur)
            cur = ''
            j += 1
        else:
            cur += ch
        j += 1
    return None


def in_domain_first(R, key, rng, base=None, flags_in_domain=False):
    first = list(base) if base else [rng.choice(SPECIAL) for _ in range(4)]
    for i, vals in R.enum_words(key).items():
        if vals:
            first[i] = rng.choice(vals)
    for e, i in (R.flag_words(key) if flags_in_domain else []):
        # a flag word ranges over its flag enum: a union of declared members (possibly none)
        members = [v for _, v in R.enums[e][0] if v > 0]
        w = 0
        for v in rng.sample(members, min(len(members), rng.choice([0, 1, 1, 2, 3]))):
            w |= v
        first[i] = w
    return first


def in_domain_last(R, key, rng, last):
    last = list(last)
    for i, vals in R.enum_words(key, 'ELast').items():
        if vals:
            last[i] = rng.choice(vals)
    return last


def call_keys(R):
    return [r[1] for r in R.rows if r[1].startswith(('BSC_', 'MSC_')) and r[1] in R.code_of]


def run_windows(R, metas, host=None, env_extra=None, prelude=(), ilp32=False):
    """metas: [(key, first, last, tid, paths, gstr)] -> impl results"""
    cases = [{'events': window(R, k, f, l, t, p), 'gstr': g} for k, f, l, t, p, g in metas]
    # prelude: cases (possibly with other code tables) run first in the same process; their results are dropped
    req = {'cases': list(prelude) + cases}
    if host is not None:
        req['host'] = host
    if ilp32:
        req['ilp32'] = True
    out = vlib.run_impl('run_decoders.py', req, timeout=3000, env_extra=env_extra)
    out['results'] = out['results'][len(prelude):]
    return out


def correspond(ctx, name, host, metas, res):
    coq = []
    idx = []
    for i, (m, r) in enumerate(zip(metas, res)):
        if 'text' in r or r.get('err') in (1, 2, 3):
            coq.append(to_case(*m, r))
            idx.append(i)
        else:
            ctx.broken.append(('correspondence', {'window': m[:3], 'impl': r}))
    bad, errors = run_rcases(name, host, coq)
    ctx.traces_validated += len(coq) - len(bad)
    if errors:
        ctx.broken.append(('correspondence', f'case files failed to evaluate: {errors[0]}'))
    for b in bad[:8]:
        m = metas[idx[b]]
        ctx.broken.append(('correspondence', {'key': m[0], 'first': m[1], 'last': m[2], 'paths': [[v, t.hex()] for v, t in m[4]],
                                              'impl': res[idx[b]]}))
    return [idx[b] for b in bad]


_CONST_CACHE = {}


def handler_constants(R, key, limit=16):
    """integer literals that the handler registered for `key` (and the helpers it calls in its module, transitively)
    compares with or masks by: boundary values for source-guided generation"""
    import ast
    row = R.by_key.get(key)
    if row is None:
        return []
    fam, fn = row[0], row[2]
    path = f'/repo/pykdebugparser/trace_handlers/{fam}.py'
    if path not in _CONST_CACHE:
        try:
            tree = ast.parse(open(path).read())
        except Exception:
            _CONST_CACHE[path] = {}
        else:
            import importlib
            funcs = {}
            modconst = {}
            for node in tree.body:                           # module-level NAME = <int literal>
                if isinstance(node, ast.Assign) and isinstance(node.value, ast.Constant) and isinstance(node.value.value, int):
                    for t in node.targets:
                        if isinstance(t, ast.Name):
                            modconst[t.id] = node.value.value
            for node in tree.body:
                if isinstance(node, (ast.FunctionDef, ast.ClassDef)):     # a dataclass stands for its methods (__str__)
                    consts, calls = set(), set()
                    for sub in ast.walk(node):
                        if isinstance(sub, (ast.Compare, ast.BinOp, ast.BoolOp, ast.IfExp, ast.If, ast.Dict)):
                            for c in ast.walk(sub):
                                if isinstance(c, ast.Constant) and isinstance(c.value, int) and not isinstance(c.value, bool):
                                    consts.add(c.value)
                                elif isinstance(c, ast.Name) and c.id in modconst:
                                    consts.add(modconst[c.id])
                                elif isinstance(c, ast.Attribute) and isinstance(c.value, ast.Name) and c.attr.isupper() \
                                        and c.value.id in ('socket', 'errno', 'signal', 'stat', 'os', 'fcntl', 'termios'):
                                    try:                     # a constant of a standard module, as this interpreter has it
                                        v = getattr(importlib.import_module(c.value.id), c.attr)
                                        if isinstance(v, int):
                                            consts.add(int(v))
                                    except Exception:        # noqa
                                        pass
                        if isinstance(sub, ast.Name):
                            calls.add(sub.id)
                    funcs[node.name] = (consts, calls)
            _CONST_CACHE[path] = funcs
    funcs = _CONST_CACHE[path]
    seen, todo, out = set(), [fn], set()
    while todo:
        f = todo.pop()
        if f in seen or f not in funcs:
            continue
        seen.add(f)
        out |= funcs[f][0]
        todo += [c for c in funcs[f][1] if c in funcs]
    out = sorted(v for v in out if 3 < v < 2 ** 64)
    return out[:limit]


def scale_pipeline(ctx, R, keys, sizes, why):
    """through the public API: a call with n complete other calls of the same thread between its START and its END must
    render exactly like the bare [START, END] pair (sizes past 1024 / 2048 / 4096, where a bounded buffer would show)"""
    from ..harness import dumps as D
    rng = ctx.rng
    gp = R.code_of['BSC_getpid']
    reqs, info = [], []
    for key in keys:
        first = in_domain_first(R, key, rng, flags_in_domain=True)
        last = [0, 9, 0, 0]
        code = R.code_of[key]
        for n in [0] + list(sizes):
            recs = [D.record(1, first, 7, code | 1)]
            recs += [D.record(2 + j, [j, j + 1, j + 2, j + 3], 7, gp | 3) for j in range(n)]
            recs.append(D.record(2 + n, last, 7, code | 2))
            reqs.append({'file': D.build_v2([(7, 1, b'p')], 0, recs).hex(), 'cfg': {'color': False}, 'calls': ['traces']})
            info.append((key, n, first, last))
    res = vlib.run_impl('run_api.py', {'cases': reqs}, timeout=3000)['results']
    ctx.evaluations += len(reqs)
    bare = {}
    for (key, n, first, last), calls in zip(info, res):
        c = calls[0]
        mine = [it[4] for it in c['items'] if it[6] == R.code_of[key]]
        if n == 0:
            bare[key] = (c['err'], mine)
            continue
        ctx.count('scale-window:%d' % n)
        if (c['err'], mine) != bare[key] or len([it for it in c['items'] if it[6] == R.code_of['BSC_getpid']]) != (n if not c['err'] else -1):
            ctx.failing.append({'input': {'key': key, 'first': first, 'last': last, 'complete_calls_between_START_and_END': n},
                                'expected': {'trace of the call': bare[key][1], 'other traces': n},
                                'actual': {'err': c['err'], 'trace of the call': mine, 'other traces': len(c['items']) - len(mine)},
                                'why': why})


WHEADER = ('From Coq Require Import String ZArith NArith List.\nFrom Kd Require Import theories.Base theories.Harness '
           'theories.DecoderDSL theories.DecoderCases theories.DecoderWindowCases.\nImport ListNotations.\nOpen Scope N_scope.\n'
           'Open Scope string_scope.')


def correspond_windows(ctx, name, R, host, wmetas, res):
    """wmetas: [(key, events [[code, q, words, tid], ...], gstr)] with the implementation's results: the model reassembles
    the paths from the window's own lookup records (DecoderWindow.ctx_of_window)"""
    lks = clist([cN(i) for i, n in sorted(R.codes.items()) if n == 'VFS_LOOKUP'])
    coq, idx = [], []
    for i, ((key, evs, gstr), r) in enumerate(zip(wmetas, res)):
        if 'text' in r:
            obs = '(inr ' + vlib.cbytes(bytes.fromhex(r['text'])) + ')'
        elif r.get('err') in (1, 2, 3):
            obs = f'(inl {r["err"]})'
        else:
            ctx.broken.append(('correspondence', {'window_key': key, 'impl': r}))
            continue
        ev = clist([f'({cN(c)}, {q}, {clist([cN(w) for w in ws])}, {cN(t)})' for c, q, ws, t in evs])
        gs = clist([f'({cN(k)}, {vlib.cstr_bytes(t)})' for k, t in dict(gstr).items()])
        coq.append(f'("{key}", {lks}, {ev}, {gs}, {obs})')
        idx.append(i)
    header = WHEADER + f'\nDefinition hostd : host_data := {host_coq(host)}.'
    bad, errors = vlib.run_model_cases(name, header, 'wcase', '(wcheck hostd)', coq, per_file=100)
    ctx.traces_validated += len(coq) - len(bad)
    if errors:
        ctx.broken.append(('correspondence', f'window case files failed to evaluate: {errors[0]}'))
    for b in bad[:6]:
        key, evs, _ = wmetas[idx[b]]
        ctx.broken.append(('correspondence', {'key': key, 'window': evs[:12], 'impl': res[idx[b]]}))


def overlap_pipeline(ctx, R, pairs, why):
    """through the public API: two calls of one thread whose intervals overlap without nesting (START A, START B, END A,
    END B), nest (A around B) or follow a START whose END was lost: each call renders exactly like its own bare
    [START, END] pair - its arguments from its START, its result from its END"""
    from ..harness import dumps as D
    rng = ctx.rng
    reqs, info = [], []

    def dump(evs):
        recs = [D.record(j + 1, ws, 7, c | q) for j, (c, q, ws) in enumerate(evs)]
        return {'file': D.build_v2([(7, 1, b'p')], 0, recs).hex(), 'cfg': {'color': False}, 'calls': ['traces']}
    for ka, kb in pairs:
        ca, cb = R.code_of[ka], R.code_of[kb]
        fa = in_domain_first(R, ka, rng, flags_in_domain=True)
        fb = in_domain_first(R, kb, rng, flags_in_domain=True)
        la, lb = [5, 11, 0, 0], [0, 22, 0, 0]
        SA, EA, SB, EB = (ca, 1, fa), (ca, 2, la), (cb, 1, fb), (cb, 2, lb)
        for name, evs in (('bare-a', [SA, EA]), ('bare-b', [SB, EB]), ('overlap', [SA, SB, EA, EB]), ('nested', [SA, SB, EB, EA]),
                          ('stale-then-overlap', [SB, SA, SB, EA, EB])):
            reqs.append(dump(evs))
            info.append((ka, kb, name, evs))
    res = vlib.run_impl('run_api.py', {'cases': reqs}, timeout=3000)['results']
    ctx.evaluations += len(reqs)
    bare = {}
    for (ka, kb, name, evs), calls in zip(info, res):
        c = calls[0]
        ta = [it[4] for it in c['items'] if it[6] == R.code_of[ka]]
        tb = [it[4] for it in c['items'] if it[6] == R.code_of[kb]]
        if name == 'bare-a':
            bare[(ka, kb, 'a')] = ta
            continue
        if name == 'bare-b':
            bare[(ka, kb, 'b')] = tb
            continue
        ctx.count('overlap:' + name)
        if c['err'] or ta != bare[(ka, kb, 'a')] or tb != bare[(ka, kb, 'b')]:
            ctx.failing.append({'input': {'calls': [ka, kb], 'shape': name, 'events': [[c0, q, ws] for c0, q, ws in evs]},
                                'expected': {ka: bare[(ka, kb, 'a')], kb: bare[(ka, kb, 'b')]}, 'actual': {'err': c['err'], ka: ta, kb: tb},
                                'why': why})

"""Shared by C02/C03/C06: dump generators (well-formed grammar + malformed stream), Coq case printer."""
import plistlib
import struct
from .. import vlib
from ..vlib import cN, clist
from ..harness import dumps as D

HEADER = ('From Coq Require Import NArith List.\nFrom Kd Require Import theories.Base theories.Harness '
          'theories.ContainerCases.\nImport ListNotations.\nOpen Scope N_scope.')


def rand_name(rng):
    r = rng.random()
    if r < 0.15:
        return b''
    if r < 0.3:
        return b'x'
    if r < 0.45:
        return bytes(rng.choice(b'abcdefghijklmnopqrstuvwxyz_') for _ in range(19))
    if r < 0.65:
        s = ''.join(rng.choice(['é', '日', 'ß', 'a', 'Ω']) for _ in range(rng.randint(1, 9))).encode()
        while len(s) > 19:
            s = s[:-1]
        while True:
            try:
                s.decode()
                return s
            except UnicodeDecodeError:
                s = s[:-1]
    return bytes(rng.choice(b'abcdefgh.-') for _ in range(rng.randint(2, 12)))


def rand_threads(rng, n):
    tids = [rng.choice([1, 2, 3, 7, 0x1234, 2 ** 40 + 1, rng.getrandbits(20)]) for _ in range(max(n, 1))]
    # incl. the 32-bit boundaries: the pid field is an unsigned 32-bit word
    pids = [rng.choice([0, 1, 7, 44, 300, rng.getrandbits(16), 2 ** 31 - 1, 2 ** 31, 2 ** 32 - 1, 2 ** 32 - 2, rng.getrandbits(32)]) for _ in range(max(n, 1))]
    return [(rng.choice(tids), rng.choice(pids), rand_name(rng)) for _ in range(n)]


_SRC_BYTES = None


def source_byte_constants():
    """every bytes literal of kd_buf_parser.py (dump magics, section and block tags): in-band data may contain them"""
    global _SRC_BYTES
    if _SRC_BYTES is None:
        import ast
        from ..translate.common import read_module
        out = {b'\x00\x02\xaa\x55', b'\x00\x03\xaa\x55'}
        try:
            tree, _ = read_module('pykdebugparser/kd_buf_parser.py')
            for n in ast.walk(tree):
                if isinstance(n, ast.Constant) and isinstance(n.value, bytes) and 2 <= len(n.value) <= 16:
                    out.add(n.value)
        except Exception:
            pass
        _SRC_BYTES = sorted(out)
    return _SRC_BYTES


def rand_record(rng, i, leading_zero=False):
    if i >= 1 and not leading_zero and rng.random() < 0.12:
        # a record whose bytes hold a constant of the container code (a magic, a tag) - at its start (not for the first
        # record, whose leading zero byte is the known finding F01), in its arguments or in its last word
        r = bytearray(rand_record(rng, 0))
        c = rng.choice(source_byte_constants())
        off = rng.choice([0, 0, 8, 40, 64 - len(c)])
        r[off:off + len(c)] = c
        if off == 0 and r[0] == 0 and len(c) < 8:
            r[len(c):8] = bytes([rng.randrange(1, 256)]) + bytes(7 - len(c))      # e.g. timestamp 0x1_55aa0200
        return bytes(r)
    ts = rng.choice([rng.getrandbits(48), rng.getrandbits(48), rng.getrandbits(64), 2 ** 56 + rng.getrandbits(8), 2 ** 64 - 1]) | 1 \
        if not leading_zero else (rng.getrandbits(40) << 8)
    if leading_zero and rng.random() < 0.3:
        ts = 0
    code = rng.choice([0x040c000c, 0x03010090, 0x07010004, 0x01400004, rng.getrandbits(32) & 0xfffffffc])
    return D.record(ts, [rng.getrandbits(rng.choice([1, 8, 64])) for _ in range(4)], rng.choice([1, 7, 2 ** 33]),
                    code | rng.randint(0, 3), rng.getrandbits(3), 0)


def gen_v2(rng, allow_leading_zero=False):
    n = rng.choice([0, 1, 2, 5, 12])
    threads = rand_threads(rng, n)
    pad = rng.choice([0, 0, 1, 7, 63, 64, 65, 200])
    m = rng.choice([0, 1, 2, 3, 6])
    lz = allow_leading_zero and rng.random() < 0.5
    recs = [rand_record(rng, i, leading_zero=(lz and i == 0)) for i in range(m)]
    if m >= 2 and rng.random() < 0.2:
        recs[rng.randrange(1, m)] = bytes(64)          # a record whose every field is zero is a record like any other
    hdr_fill = rng.choice([b'\0', b'\xab'])
    return {'kind': 'v2', 'threads': threads, 'pad': pad, 'records': recs,
            'data': D.build_v2(threads, pad, recs, hdr_fill=hdr_fill, is64=rng.choice([1, 1, 0, 2 ** 32 - 1]),
                               name_junk=rng.random() < 0.3)}


def marker_teaser(rng, marker):
    k = rng.randint(1, len(marker) - 1)
    return marker[:k]


def gen_blocks(rng):
    blocks = []
    strings = ['msg', 'proc', 'sender', 'a b c']
    for _ in range(rng.choice([0, 1, 2, 4, 6])):
        r = rng.random()
        if r < 0.2:
            blocks.append((D.TAG_KERNEL_EXTENSIONS, D.plist({'Binaries': [{'Name': 'k%d' % rng.randint(0, 9)}]})))
        elif r < 0.35:
            blocks.append((D.TAG_DYLD_MODULES, D.plist({'Binaries': [{'Path': '/p%d' % rng.randint(0, 9)}], 'V': 1})))
        elif r < 0.5:
            txt = ''.join('0x%x\tNAME_%d\n' % (rng.getrandbits(24) * 4, i) for i in range(rng.randint(0, 3)))
            blocks.append((D.TAG_TRACE_CODES, txt.encode()))
        elif r < 0.6:
            blocks.append((D.TAG_PROCESSES, D.plist({'Processes': [rng.randint(1, 99)]})))
        elif r < 0.7:
            blocks.append((D.TAG_IMAGES, D.plist({'Images': ['i%d' % rng.randint(0, 9)]})))
        elif r < 0.8:
            blocks.append((D.TAG_LOG_STRINGS, D.plist(D.string_index(strings))))
        elif r < 0.9:
            blocks.append((D.TAG_LOG_EVENTS, D.plist({'Events': []})))
        else:
            blocks.append((bytes([rng.getrandbits(8), 0x90, 0, 0, 0, 0, 0, 0]), bytes(rng.getrandbits(8) for _ in range(rng.randint(0, 13)))))
    return blocks


def gen_v3(rng, small=False):
    threads = rand_threads(rng, rng.choice([0, 1, 3, 6]))
    total = rng.choice([0, 1, 2, 5] if small else [0, 1, 2, 5, 9])
    recs = [rand_record(rng, i) for i in range(total)]
    if total >= 2 and rng.random() < 0.15:
        recs[rng.randrange(1, total)] = bytes(64)
    nchunks = rng.choice([1, 1, 2, 3, 5])
    cuts = sorted(rng.randint(0, total) for _ in range(nchunks - 1))
    chunks, prev = [], 0
    for c in cuts + [total]:
        chunks.append(recs[prev:c])
        prev = c
    filler = b''.join(rng.choice([bytes(rng.getrandbits(8) for _ in range(rng.randint(0, 9))),
                                  marker_teaser(rng, D.STACKSHOT_END), marker_teaser(rng, D.TAG_THREADMAP)])
                      for _ in range(rng.randint(0, 3)))
    junk = b''.join(rng.choice([bytes(rng.choice([0, 0x1d, 1, 0xff]) for _ in range(rng.randint(0, 6))),
                                marker_teaser(rng, D.TAG_THREADMAP)]) for _ in range(rng.randint(0, 3)))
    if D.STACKSHOT_END in filler + D.STACKSHOT_END[:-1] or D.TAG_THREADMAP in junk + D.TAG_THREADMAP[:-1]:
        filler, junk = b'', b''
    between = [b''.join(rng.choice([b'', bytes([0, 0x1e, 0]), b'\x01\x02\x03', marker_teaser(rng, D.TAG_EVENTS)])
                        for _ in range(rng.randint(0, 2))) for _ in range(nchunks)]
    between = [b if D.TAG_EVENTS not in b + D.TAG_EVENTS[:-1] else b'' for b in between]
    tm_trailing = rng.choice([b'', b'', b'\x01\x02\x03', bytes(31), b'\xff' * 32])
    blocks = gen_blocks(rng)
    unaligned = bool(blocks) and rng.random() < 0.3
    header = D.v3_header({'cpus': rng.randint(1, 8)} if rng.random() < 0.7 else {'c': 'x' * rng.randint(0, 9)})
    data = D.build_v3(threads, chunks, blocks, filler=filler, junk=junk, tm_trailing=tm_trailing, between=between,
                      header=header, last_block_unaligned=unaligned, name_junk=rng.random() < 0.3)
    return {'kind': 'v3', 'threads': threads, 'chunks': chunks, 'blocks': blocks, 'records': recs, 'data': data,
            'tm_trailing': tm_trailing, 'unaligned': unaligned}


def malform(rng, data):
    """byte-level damage: bad magic, flipped bytes, inserted / dropped ranges"""
    b = bytearray(data)
    r = rng.random()
    if r < 0.15:
        b[rng.randint(0, 3)] ^= 0xff
    elif r < 0.5 and len(b) > 8:
        for _ in range(rng.randint(1, 3)):
            b[rng.randrange(len(b))] = rng.choice([0, 0xff, 0x80, rng.getrandbits(8)])
    elif r < 0.75 and len(b) > 8:
        i = rng.randrange(len(b))
        del b[i:i + rng.randint(1, 40)]
    else:
        i = rng.randrange(len(b) + 1)
        b[i:i] = bytes(rng.getrandbits(8) for _ in range(rng.randint(1, 20)))
    return bytes(b)


def valid_plists(data):
    """payloads inside `data` that plistlib (in the harness' own interpreter) accepts: every 'bplist00' occurrence
    preceded by an 8-byte length"""
    out = []
    i = data.find(b'bplist00')
    while i != -1:
        if i >= 8:
            L = int.from_bytes(data[i - 8:i], 'little')
            pl = data[i:i + L]
            if len(pl) == L:
                try:
                    plistlib.loads(pl)
                    if pl not in out:
                        out.append(pl)
                except Exception:
                    pass
        i = data.find(b'bplist00', i + 1)
    return out


def to_case(data, ks, summaries):
    nwords = len(data) // 8
    words = [int.from_bytes(data[8 * i:8 * i + 8], 'little') for i in range(nwords)]
    tail = data[8 * nwords:]
    okpl = clist([vlib.cbytes(p) for p in valid_plists(data)])
    obs = clist([f'({cN(k)}, {clist([cN(x) for x in s])})' for k, s in zip(ks, summaries)])
    return f'({clist([cN(w) for w in words])}, {vlib.cbytes(tail)}, {okpl}, {obs})'

"""C05 — per-thread results are invariant under interleaving of threads."""
from .. import vlib
from ..translate import tr_handlers, tr_kevent, tr_pairing
from . import pairing_common as pc

TRANSLATORS = [tr_kevent.translate, tr_handlers.translate, tr_pairing.translate]
MODEL_TARGETS = ['theories/PairingCases.vo']
PROOF_TARGETS = ['props/C05.vo', 'theories/PairingRefine.vo']
PROP_FILE = 'props/C05.v'
ASSUMPTIONS = [
    'same model assumptions as C04 (association-list tables, dom/dec functions of the code)',
    'name learning is modelled on the delivered windows: last_data_newthread/last_data_exec keyed by the emitting '
    'thread, pids_names writes logged in order (Learn.v); validated against the real trace-class decoders',
    'rendered text: a function of the delivered window for decoders that read no table written by other threads; '
    'the window part is proved here, the rendering part by the decoder model of C07/C09',
]


def gen_program(rng, uni, tid, length, all_tids=()):
    """one thread's own event sequence, with new-thread / exec DATA+STRING pairs mixed in"""
    dn = uni.by_name['TRACE_DATA_NEWTHREAD'][0]
    de = uni.by_name['TRACE_DATA_EXEC'][0]
    sn = uni.by_name['TRACE_STRING_NEWTHREAD'][0]
    se = uni.by_name['TRACE_STRING_EXEC'][0]
    pool = [rng.choice(uni.plain_decodable) for _ in range(rng.randint(1, 3))] + [rng.choice(uni.trace_codes)]
    px = uni.by_name['TRACE_STRING_PROC_EXIT'][0]

    def name():
        # half of the names come from a tiny pool, so that equal names meet (a process exits under the name another thread
        # learned for it)
        if rng.random() < 0.5:
            b = rng.choice([b'foo', b'bar']).ljust(32, b'\0')
            return [int.from_bytes(b[8 * i:8 * i + 8], 'little') for i in range(4)]
        return pc.pack_name(rng)
    prog = []
    while len(prog) < length:
        r = rng.random()
        if r < 0.18:
            pid = rng.randint(1, 6)
            # the announced thread is a fresh one or one of the threads that log in this history (incl. the announcer); the
            # third word marks an exec copy
            new_tid = rng.choice(list(all_tids)) if all_tids and rng.random() < 0.4 else rng.randint(1000, 1005)
            prog.append([tid, dn, 0, [new_tid, pid, rng.choice([0, 0, 1, 1, 7]), rng.getrandbits(20)]])
            if rng.random() < 0.85:
                for _ in range(rng.randint(0, 2)):
                    c = rng.choice(pool)
                    prog.append([tid, c, rng.choice([1, 2]), pc.gen_words(rng, uni, c)])
                prog.append([tid, sn, 0, name()])
        elif r < 0.32:
            pid = rng.randint(1, 6)
            prog.append([tid, de, 0, [pid, 0, 0, 0]])
            if rng.random() < 0.85:
                prog.append([tid, se, 0, name()])
        elif r < 0.36:
            prog.append([tid, rng.choice([sn, se]), 0, pc.pack_name(rng)])     # STRING without DATA
        elif r < 0.4 and 'TRACE_DATA_THREAD_TERMINATE' in uni.by_name and all_tids:
            # a thread of this history (another one, or this one) is reported terminated - by whoever logs the record - while it
            # still has calls open and announcements pending: nothing of that thread is dropped
            prog.append([tid, uni.by_name['TRACE_DATA_THREAD_TERMINATE'][0], 0, [rng.choice(list(all_tids)), 0, 0, 0]])
        elif r < 0.48:
            prog.append([tid, px, 0, name()])                                   # the process exits
        elif r < 0.56 and 'PERF_THD_Data' in uni.by_name:
            # sampler thread data, incl. the kernel's -1 sentinels for an unknown pid
            prog.append([tid, uni.by_name['PERF_THD_Data'][0], 0,
                         [rng.choice([5, 0xffffffff, 2 ** 64 - 1]), rng.choice([1000, 1001, tid]), 0x5000, 1]])
        else:
            c = rng.choice(pool)
            prog.append([tid, c, rng.choices([0, 1, 2, 3], weights=[1, 4, 4, 1])[0], pc.gen_words(rng, uni, c)])
    return prog[:length]


def merge(rng, progs):
    idx = [0] * len(progs)
    out, src = [], []
    remaining = [i for i, p in enumerate(progs) if p]
    while remaining:
        i = rng.choice(remaining)
        out.append(progs[i][idx[i]])
        src.append((i, idx[i]))
        idx[i] += 1
        if idx[i] == len(progs[i]):
            remaining.remove(i)
    return out, src


def per_thread(res, src, nthreads):
    """per thread: [(trigger position, window as positions or None)], and its learn log"""
    outs = [[] for _ in range(nthreads)]
    for k, o in enumerate(res['outs']):
        t, pos = src[k]
        if o is None:
            outs[t].append((pos, None))
        else:
            outs[t].append((pos, [src[j] if 0 <= j < len(src) else ('?', j) for j in o]))
    return outs


def run(ctx, model_ok):
    uni = pc.Universe()
    rng = ctx.rng
    nsets = 60 if ctx.quick() else 600
    nmerges = 5 if ctx.quick() else 25
    hs, meta = [], []
    for s in range(nsets):
        nthreads = rng.randint(2, 4)
        tids = rng.sample([1, 2, 3, 0x100, 77, 2 ** 40 + 5], nthreads)
        progs = [gen_program(rng, uni, tids[i], rng.choice([3, 8, 15, 25]), all_tids=tids) for i in range(nthreads)]
        # solo runs first, then random merges, then two extreme merges (sequential, round robin)
        for i in range(nthreads):
            hs.append(progs[i])
            meta.append((s, 'solo', i, [(i, k) for k in range(len(progs[i]))], progs, tids))
        for _ in range(nmerges):
            h, src = merge(rng, progs)
            hs.append(h)
            meta.append((s, 'merge', None, src, progs, tids))
        seq = [e for p in progs for e in p]
        hs.append(seq)
        meta.append((s, 'merge', None, [(i, k) for i, p in enumerate(progs) for k in range(len(p))], progs, tids))
    res = vlib.run_impl('run_pairing.py', {'histories': hs, 'declared': True})['results']
    ctx.evaluations = len(hs)
    ctx.rule = ('sets of 2-4 per-thread programs (syscall START/END/NONE/ALL records, trace-domain records, new-thread and '
                'exec DATA+STRING pairs incl. STRING without DATA and DATA followed by unrelated records) x solo runs + '
                'random merges + the sequential merge; non-trivial = distinct merged history in which >= 2 threads each '
                'get >= 1 delivered trace and >= 1 name is learned')
    # scale: many threads interleaved - each thread's traces are those of its solo run ([START, END] per call)
    sc = [x for x in pc.scale_histories(uni, ctx.quick()) if x[0].startswith('threads')]
    sres = vlib.run_impl('run_pairing.py', {'histories': [h for _, h, _ in sc], 'declared': True}, timeout=3000)['results']
    ctx.evaluations += len(sc)
    for (name, h, exp), r in zip(sc, sres):
        ctx.count('scale:' + name)
        if r['outs'] != exp:
            j = next(k for k in range(len(h)) if r['outs'][k] != exp[k])
            ctx.failing.append({'input': {'scale_history': name, 'records': len(h), 'thread': h[j][0], 'first_wrong_event': j},
                                'expected': {'window': exp[j]}, 'actual': {'window': r['outs'][j]},
                                'why': 'per-thread traces of the merged stream differ from the solo run of that thread (many threads)'})
    solo = {}
    solo_texts = {}
    cases = []
    for k, (h, r, m) in enumerate(zip(hs, res, meta)):
        s, kind, who, src, progs, tids = m
        ctx.count(kind)
        pt = per_thread(r, src, len(progs))
        learn_by_tid = {}
        for t, p, n in r['learn']:
            learn_by_tid.setdefault(t, []).append([p, n])
        if kind == 'solo':
            solo[(s, who)] = (pt[who], learn_by_tid.get(tids[who], []))
            solo_texts[(s, who)] = [(src[k][1], r['texts'][k]) for k in range(len(h)) if r['texts'][k] is not None
                                    and (uni.codes.get(h[k][1], '').startswith('BSC_') or uni.codes.get(h[k][1]) == 'PERF_THD_Data')]
        else:
            delivered_threads = sum(1 for i in range(len(progs)) if any(w is not None for _, w in pt[i]))
            if delivered_threads >= 2 and r['learn']:
                ctx.nontrivial.add(repr(h))
            for i in range(len(progs)):
                exp_out, exp_learn = solo[(s, i)]
                got_out = [(pos, None if w is None else [x for x in w]) for pos, w in pt[i]]
                exp_cmp = [(pos, None if w is None else [(i, q) for (_, q) in w]) for pos, w in exp_out]
                # the text of a syscall / sampler record is a function of its own window: same in every interleaving
                tx = [(src[k][1], r['texts'][k]) for k in range(len(h)) if src[k][0] == i and r['texts'][k] is not None
                      and (uni.codes.get(h[k][1], '').startswith('BSC_') or uni.codes.get(h[k][1]) == 'PERF_THD_Data')]
                if tx != solo_texts[(s, i)]:
                    bad = next((a for a, b in zip(tx, solo_texts[(s, i)]) if a != b), tx[:1])
                    ctx.failing.append({'input': {'history': h, 'thread': tids[i], 'thread_program': progs[i]},
                                        'expected': {'texts of the solo run': solo_texts[(s, i)][:4]}, 'actual': {'texts': tx[:4], 'first difference': bad},
                                        'why': 'per-thread traces / learned names of the merged stream differ from the solo run of that thread '
                                               '(the text of a record of that thread changed with the interleaving)'})
                    break
                if got_out != exp_cmp or learn_by_tid.get(tids[i], []) != exp_learn:
                    ctx.failing.append({
                        'input': {'history': h, 'thread': tids[i], 'thread_program': progs[i]},
                        'expected': {'windows_as_(thread,position)': exp_cmp, 'learned': exp_learn},
                        'actual': {'windows_as_(thread,position)': got_out, 'learned': learn_by_tid.get(tids[i], [])},
                        'why': 'per-thread traces / learned names of the merged stream differ from the solo run of that thread'})
                    break
            extra = [t for t in learn_by_tid if t not in tids]
            if extra:
                ctx.failing.append({'input': {'history': h}, 'expected': 'names learned only on behalf of emitting threads',
                                    'actual': r['learn'], 'why': 'name write attributed to a thread not in the stream'})
        if pc.spec_learn(h, uni) != r['learn'] and not any(f['input'].get('history') == h for f in ctx.failing[-2:]):
            ctx.failing.append({'input': {'history': h}, 'expected': {'learned': pc.spec_learn(h, uni)},
                                'actual': {'learned': r['learn']},
                                'why': 'names learned differ from "STRING names the pid of the last DATA of the same emitting thread"'})
        try:
            cases.append(pc.to_case(h, uni, r))
        except AssertionError:
            cases.append(None)
    ctx.samples = [{'history': hs[-1], 'impl': {'windows': res[-1]['outs'], 'learn': res[-1]['learn']}}]
    if model_ok:
        idx = [i for i, c in enumerate(cases) if c is not None]
        bad, errors = vlib.run_model_cases('C05', pc.HEADER, 'pcase', 'pcheck', [cases[i] for i in idx], per_file=40)
        ctx.traces_validated = len(idx) - len(bad)
        if errors:
            ctx.broken.append(('correspondence', f'case files failed to evaluate: {errors[0]}'))
        for b in bad[:10]:
            i = idx[b]
            ctx.broken.append(('correspondence', {'history': hs[i], 'impl': res[i]}))


def replay(payload):
    uni = pc.Universe()
    h = payload['input']['history']
    r = vlib.run_impl('run_pairing.py', {'histories': [h]})['results'][0]
    print('implementation: windows', r['outs'], 'learned', r['learn'])
    if 'thread_program' in payload['input']:
        s = vlib.run_impl('run_pairing.py', {'histories': [payload['input']['thread_program']]})['results'][0]
        print('solo run of thread', payload['input']['thread'], ': windows', s['outs'], 'learned', s['learn'])
    rc, out = vlib.eval_in_coq('C05', pc.HEADER, [f'pcheck {pc.to_case(h, uni, r)}'])
    print('model agrees with implementation:', out.strip())
    return 0

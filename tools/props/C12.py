"""C12 — event filters select exactly the matching subsequence."""
from .. import vlib
from ..vlib import cN, clist, copt
from ..harness import dumps as D
from ..translate import tr_filters

TRANSLATORS = [tr_filters.translate]
MODEL_TARGETS = ['theories/FiltersCases.vo', 'theories/CliCases.vo']
PROOF_TARGETS = ['props/C12.vo', 'theories/FiltersRefine.vo']
PROP_FILE = 'props/C12.v'
ASSUMPTIONS = [
    'the stream handed to the filters is what KdBufParser.parse yields (events, then log records); the container itself '
    'is C02/C03',
    'Python list membership / == on ints and str is modelled by boolean equality on N / byte lists; str(pid) by Printers.dec',
    'lazy filter()/generator chains are modelled as list filters (order of evaluation is unobservable for pure predicates)',
]
HEADER = ('From Coq Require Import NArith List.\nFrom Kd Require Import theories.Base theories.Harness '
          'theories.FiltersCases.\nImport ListNotations.\nOpen Scope N_scope.')


def gen_case(rng, quick):
    n_ev = rng.choice([0, 1, 5, 20, 40])
    tids = [rng.choice([0, 1, 7, 0x1234, 2 ** 33]) for _ in range(3)]
    eids = [rng.choice([0x040c000c, 0x04030004, 0x03010090, 0x07000004, 0x01400000, 0x0003fffc, 0x04ff0000,
                        0xff000000, 0x2b140008, rng.getrandbits(32) & 0xfffffffc]) for _ in range(5)]
    evs = []
    for i in range(n_ev):
        evs.append((rng.choice(tids), rng.choice(eids), i + 1))
    with_logs = rng.random() < 0.6
    logs = []
    strings = ['msg', 'procA', 'procB', '', '7', '44', 'kernel_task']
    if with_logs:
        for i in range(rng.choice([0, 1, 3, 8])):
            tid = rng.choice(tids + [5])
            pid = rng.choice([0, 7, 44, 300])
            kw = {}
            if rng.random() < 0.8:
                kw['p'] = rng.choice([1, 2, 3, 4, 5, 6])
            if rng.random() < 0.8:
                kw['pid'] = pid
            logs.append((tid, kw.get('pid', 0), strings[kw['p']] if 'p' in kw else '', 1000 + i, kw))
    # configuration, biased to boundaries
    ev_classes = sorted({e >> 24 for _, e, _ in evs}) or [4]
    ev_subs = sorted({e >> 16 for _, e, _ in evs}) or [0x040c]
    r = rng.random()
    classes, subs = [], []
    if r < 0.25:
        pass
    elif r < 0.5:
        classes = [rng.choice(ev_classes + [0, 255, 4])]
    elif r < 0.7:
        subs = [rng.choice(ev_subs + [0x0400, 4, 0])]
    elif r < 0.9:
        classes = rng.sample(ev_classes + [3, 4, 7], 2) + [rng.choice(ev_subs) >> 8]
        subs = [rng.choice(ev_subs), rng.choice(ev_subs), rng.choice(ev_classes)]
    else:
        classes = list(range(300, 0, -1))
        subs = [s for s in range(0x400, 0x500)]
    ftid = rng.choice([None, None, rng.choice(tids), 0, 5, 999])
    fproc = rng.choice([None, None, 'procA', '44', '7', '', 'nomatch', 'kernel_task', 'procA(44)', 'procA(7)', 'procB(300)', 'kernel_task(0)'])
    cfg = {'tid': ftid, 'process': fproc, 'classes': classes, 'subclasses': subs}
    recs = [D.record(u, [0, 0, 0, 0], t, e) for t, e, u in evs]
    if with_logs:
        blocks = [(D.TAG_LOG_STRINGS, D.plist(D.string_index(strings))),
                  (D.TAG_LOG_EVENTS, D.plist({'Events': [dict(D.raw_log(strings, 0, t, **kw), ns=u)
                                                         for t, _p, _n, u, kw in logs]}))]
        k = rng.randint(0, len(recs))
        data = D.build_v3([(1, 1, b'x')], [recs[:k], recs[k:]] if rng.random() < 0.5 else [recs], blocks)
    else:
        data = D.build_v2([(1, 1, b'x')], rng.choice([0, 3, 64]), recs)
    return {'file': data.hex(), 'cfg': cfg}, evs, logs


def oracle(cfg, evs, logs):
    """independent statement of C12"""
    def ev_ok(t, e):
        if cfg['tid'] is not None and t != cfg['tid']:
            return False
        if not cfg['classes'] and not cfg['subclasses']:
            return True
        return (e >> 24) in cfg['classes'] or (e >> 16) in cfg['subclasses']

    def log_ok(t, pid, name):
        if cfg['tid'] is not None and t != cfg['tid']:
            return False
        if cfg['process'] is None:
            return True
        return cfg['process'] == name or cfg['process'] == str(pid)
    return ([['Kevent', u] for t, e, u in evs if ev_ok(t, e)],
            [['OsLogEvent', u] for t, pid, name, u, _ in logs if log_ok(t, pid, name)])


def to_case(cfg, evs, logs, res):
    c = (f'({copt(cN(cfg["tid"])) if cfg["tid"] is not None else "None"}, '
         f'{"None" if cfg["process"] is None else "(Some " + vlib.cstr_bytes(cfg["process"]) + ")"}, '
         f'{clist([cN(x) for x in cfg["classes"]])}, {clist([cN(x) for x in cfg["subclasses"]])})')
    es = clist([f'({cN(t)}, {cN(e)}, {cN(u)})' for t, e, u in evs])
    ls = clist([f'({cN(t)}, {cN(p)}, {vlib.cstr_bytes(n)}, {cN(u)})' for t, p, n, u, _ in logs])
    oe = clist([cN(u) for _, u in res['kevents']])
    ol = clist([cN(u) for _, u in res['os_log_events']])
    return f'({c}, {es}, {ls}, {oe}, {ol})'


def run(ctx, model_ok):
    n = 500 if ctx.quick() else 6000
    gens = [gen_case(ctx.rng, ctx.quick()) for _ in range(n)]
    for i, g in enumerate(gens):
        if i % 3 == 0 and i >= 2:                       # the same object served other settings before
            g[0]['before'] = [gens[i - 1][0]['cfg'], gens[i - 2][0]['cfg']][:ctx.rng.choice([1, 2])]
            if ctx.rng.random() < 0.5:
                # directed: before = the same settings with the class lists swapped for others, so every event id of
                # the dump has been judged once under different filters
                ev_classes = sorted({e >> 24 for _, e, _ in g[1]}) or [4]
                g[0]['before'].append({'tid': None, 'process': None, 'classes': ev_classes[:1], 'subclasses': []})
                g[0]['before'].append({'tid': None, 'process': None, 'classes': [], 'subclasses': []})
    res = vlib.run_impl('run_filters.py', {'cases': [g[0] for g in gens]})['results']
    ctx.evaluations = n
    ctx.rule = ('synthetic v2 / v3 dumps (0..40 events over 3 thread ids x 5 event ids incl. boundary ids, 0..8 log records '
                'with/without process name and pid) x filter configurations (tid None/present/0/absent; class and subclass '
                'lists empty / single / overlapping / class equal to the top byte of a subclass / 300-entry lists; process '
                'None/name/str(pid)/empty/non-matching); the kevents / logs commands of the command line with their filter options against the API; every third case is served by a parser object that answered 1..4 requests '
                'with OTHER settings before; non-trivial = distinct case where the filtered listing is a '
                'non-empty proper subsequence of the unfiltered one (events or logs)')
    cases, idx = [], []
    for i, ((req, evs, logs), r) in enumerate(zip(gens, res)):
        cfg = req['cfg']
        ctx.count('v3' if logs or req['file'].startswith('0003') else 'v2')
        ctx.count('cfg:' + ('tid' if cfg['tid'] is not None else '') + ('+cls' if cfg['classes'] else '') +
                  ('+sub' if cfg['subclasses'] else '') + ('+proc' if cfg['process'] is not None else ''))
        exp_e, exp_l = oracle(cfg, evs, logs)
        if isinstance(r['kevents'], dict) or isinstance(r['os_log_events'], dict):
            ctx.failing.append({'input': req, 'expected': {'kevents': exp_e, 'logs': exp_l}, 'actual': r,
                                'why': 'listing raised'})
            continue
        if r['kevents'] != exp_e or r['os_log_events'] != exp_l:
            ctx.failing.append({'input': req, 'expected': {'kevents': exp_e, 'logs': exp_l},
                                'actual': {'kevents': r['kevents'], 'logs': r['os_log_events']},
                                'why': 'filtered listing is not the matching subsequence of the unfiltered listing'})
            continue
        if 0 < len(exp_e) < len(evs) or 0 < len(exp_l) < len(logs):
            ctx.nontrivial.add(req['file'] + repr(cfg))
        cases.append(to_case(cfg, evs, logs, r))
        idx.append(i)
    # the command line: `kevents` / `logs` with --tid, --process, -cf, -sf print the API's listing for those settings
    from . import cli_common
    cli_common.run(ctx, ['kevents', 'logs'], 100 if ctx.quick() else 800)
    ctx.samples = [{'cfg': gens[i][0]['cfg'], 'events(tid,eventid,uid)': gens[i][1][:6], 'impl': res[i]} for i in (0, 1)]
    # the option type of the class / subclass filters: int(text, 0)
    from . import cli_int
    cli_int.run(ctx, model_ok)
    if model_ok:
        bad, errors = vlib.run_model_cases('C12', HEADER, 'fcase', 'fcheck', cases, per_file=100)
        ctx.traces_validated += len(cases) - len(bad)
        if errors:
            ctx.broken.append(('correspondence', f'case files failed to evaluate: {errors[0]}'))
        for b in bad[:10]:
            ctx.broken.append(('correspondence', {'cfg': gens[idx[b]][0]['cfg'], 'impl': res[idx[b]]}))


def replay(payload):
    req = payload['input']
    r = vlib.run_impl('run_filters.py', {'cases': [req]})['results'][0]
    print('implementation:', r)
    print('expected:', payload.get('expected'))
    return 0

"""C03 — a version-3 dump yields all chunked events, then logs, plus metadata sections."""
import plistlib
from .. import vlib
from ..vlib import cN, clist
from ..translate import tr_kevent, tr_oslog, tr_container
from ..harness import dumps as D
from . import container_common as cc
from . import C16 as c16

TRANSLATORS = [tr_kevent.translate, tr_oslog.translate, tr_container.translate]
MODEL_TARGETS = ['theories/ContainerCases.vo', 'theories/MetaCases.vo']
PROOF_TARGETS = ['props/C03.vo']
PROP_FILE = 'props/C03.v'
ASSUMPTIONS = [
    'partial: plist decoding itself is trusted (plistlib.loads is the parameter `loads`/`plist_ok` of the model; the harness '
    'tells the model, per payload, what its own interpreter\'s plistlib returns)',
    'construct combinators of the v3 layouts (Aligned, Prefixed, GreedyBytes, Select, GreedyRange, Bytes) and '
    'BytesIO.read/seek are written out in Container.v (library oracles), validated on every run',
    'with several string-index blocks the implementation keeps the last; the model and the theorem state exactly that',
    'log-record decoding is the generated model of C16',
]
HEADER_B = ('From Coq Require Import String NArith List.\nFrom Kd Require Import theories.Base theories.Harness '
            'theories.OsLogBase theories.MetaCases.\nImport ListNotations.\nOpen Scope N_scope.\nOpen Scope string_scope.')


def to_tagged(v):
    if v is None:
        return None
    if isinstance(v, bool):
        return {'B': v}
    if isinstance(v, int):
        return {'i': v}
    if isinstance(v, str):
        return {'s': v}
    if isinstance(v, bytes):
        return {'b': v.hex()}
    if isinstance(v, list):
        return {'l': [to_tagged(x) for x in v]}
    if isinstance(v, dict):
        return {'d': [[k, to_tagged(x)] for k, x in v.items()]}
    raise ValueError(type(v))


def untag(v):
    if v is None:
        return None
    (k, x), = v.items()
    if k in ('i', 's', 'B'):
        return x
    if k == 'b':
        return bytes.fromhex(x)
    if k == 'l':
        return [untag(y) for y in x]
    return {kk: untag(vv) for kk, vv in x}


def gen_rich_blocks(rng, fmt, tids=(), log_rich=False):
    """blocks with meaningful payloads incl. log records; returns [(tag, payload)]"""
    strings = ['', 'msg one', 'proc', '/usr/libexec/x', 'com.apple.sub', 'cat', 'fmt %s', 'public', 'kernel']
    blocks = []
    kinds = rng.sample(['kext', 'kext', 'dyld', 'dyld', 'codes', 'codes', 'procs', 'procs', 'images', 'strings', 'strings',
                        'logs', 'logs', 'unknown'], rng.randint(0, 9))
    if log_rich:
        # several log sections, each with several records, other sections between and after them: whatever listing is read to its
        # end has read all of it
        kinds = ['strings', 'logs', rng.choice(['procs', 'kext', 'codes']), 'logs', 'logs', rng.choice(['procs', 'images'])]
    if 'logs' in kinds and 'strings' not in kinds and rng.random() < 0.85:
        kinds.insert(rng.randrange(len(kinds) + 1), 'strings')
    for k in kinds:
        if k == 'kext':
            blocks.append((D.TAG_KERNEL_EXTENSIONS, D.plist({'Binaries': [{'Name': 'k%d' % rng.randint(0, 99), 'Addr': rng.getrandbits(30)}
                                                                           for _ in range(rng.randint(0, 2))]})))
        elif k == 'dyld':
            blocks.append((D.TAG_DYLD_MODULES, D.plist({'Binaries': [{'Path': '/p%d' % rng.randint(0, 99)} for _ in range(rng.randint(0, 2))],
                                                        'Version': rng.randint(1, 3)})))
        elif k == 'codes':
            blocks.append((D.TAG_TRACE_CODES, ''.join('0x%x\tNAME_%d\n' % (rng.getrandbits(24) * 4, i)
                                                      for i in range(rng.randint(0, 3))).encode() + rng.choice([b'', 'é'.encode()])))
        elif k == 'procs':
            blocks.append((D.TAG_PROCESSES, D.plist({'Processes': [{'Pid': rng.randint(1, 99), 'Name': 'p'}]})))
        elif k == 'images':
            blocks.append((D.TAG_IMAGES, D.plist({'Images': ['i%d' % rng.randint(0, 9)]})))
        elif k == 'strings':
            st = list(strings)
            if rng.random() < 0.3:
                rng.shuffle(st)
            blocks.append((D.TAG_LOG_STRINGS, D.plist({'StringIndex': {s: i for i, s in enumerate(st)}})))
        elif k == 'logs':
            evs = []
            for _ in range(rng.randint(2, 4) if log_rich else rng.randint(0, 3)):
                _, ev = c16.gen_case(rng, fmt, rng.choice(['random', 'sparse', 'single']))[0:2] if False else (None, None)
                st, ev = c16.gen_case(rng, fmt, rng.choice(['random', 'sparse', 'single']))
                # clamp string indices to the 9-entry table used here
                d = clamp(untag(c16.Dd(ev)), len(strings))
                if tids and rng.random() < 0.5:
                    d['tid'] = rng.choice(list(tids))       # a record of a thread the thread map (or an earlier record) declares
                    if rng.random() < 0.5:
                        d.pop('p', None)                     # ... that does not name its process
                evs.append(d)
            blocks.append((D.TAG_LOG_EVENTS, D.plist({'Events': evs})))
        else:
            blocks.append((bytes([rng.getrandbits(8), 0x91, 0, 0, 0, 0, 0, 0]), bytes(rng.getrandbits(8) for _ in range(rng.randint(0, 11)))))
    return blocks


STR_KEYS = {'cm', 'pip', 'p', 'sip', 'send', 'sub', 'cat', 'f', 'sn', 'lp', 'rs', 'tn', 'ty'}


def clamp(d, n):
    """keep every string index inside the table"""
    if isinstance(d, dict):
        out = {}
        for k, v in d.items():
            if k in STR_KEYS and isinstance(v, int):
                out[k] = v % n
            elif k == 't' and isinstance(v, list):
                out[k] = [x % n if isinstance(x, int) else x for x in v]
            elif k == 'or' and isinstance(v, int):
                out[k] = v % n
            else:
                out[k] = clamp(v, n)
        return out
    if isinstance(d, list):
        return [clamp(x, n) for x in d]
    return d


def oracle_meta(blocks, fmt):
    """independent statement of the metadata / log clauses of C03 from the generator's block list"""
    kexts, codes, logev = [], b'', []
    procs, images, dyld, strings = {}, {}, {}, {}
    for tag, pl in blocks:
        if tag == D.TAG_KERNEL_EXTENSIONS:
            kexts += plistlib.loads(pl)['Binaries']
        elif tag == D.TAG_TRACE_CODES:
            codes += pl
        elif tag == D.TAG_PROCESSES:
            procs = plistlib.loads(pl)
        elif tag == D.TAG_IMAGES:
            images = plistlib.loads(pl)
        elif tag == D.TAG_DYLD_MODULES:
            d = plistlib.loads(pl)
            if not dyld:
                dyld = d
            else:
                dyld['Binaries'] = dyld['Binaries'] + d['Binaries']
        elif tag == D.TAG_LOG_EVENTS:
            logev += plistlib.loads(pl)['Events']
        elif tag == D.TAG_LOG_STRINGS:
            strings = {v: k for k, v in plistlib.loads(pl)['StringIndex'].items()}
    logs = []
    for ev in logev:
        try:
            logs.append([[k, c16.norm(v)] for k, v in c16.spec_decode(fmt, strings, list(to_tagged(ev)['d']))])
        except KeyError:
            break
    return {'kexts': to_tagged(kexts), 'codes': codes, 'processes': to_tagged(procs), 'images': to_tagged(images),
            'dyld': to_tagged(dyld), 'logs': logs}


def run(ctx, model_ok):
    rng = ctx.rng
    fmt = c16.load_format()
    n = 60 if ctx.quick() else 800
    gens = []
    for i in range(n):
        g = cc.gen_v3(rng, small=True)
        g2 = cc.gen_v3(rng, small=True)
        blocks = gen_rich_blocks(rng, fmt, tids=[t for t, _, _ in g2['threads']], log_rich=(i < 12))
        unaligned = bool(blocks) and rng.random() < 0.3
        data = D.build_v3(g2['threads'], g2['chunks'], blocks, tm_trailing=g2['tm_trailing'], last_block_unaligned=unaligned,
                          filler=rng.choice([b'', b'stack', b'xx' * 5]), junk=rng.choice([b'', b'\x00\x1d\x00', b'zz']))
        gens.append({'threads': g2['threads'], 'chunks': g2['chunks'], 'records': g2['records'], 'blocks': blocks,
                     'data': data})
    res = vlib.run_impl('run_container.py', {'cases': [{'file': g['data'].hex()} for g in gens]}, timeout=3000)['results']
    ctx.evaluations = n
    ctx.rule = ('version-3 dumps: 0..9 events split over 1..5 chunks (empty chunks incl.), thread maps of 0..6 entries with trailing '
                'bytes, stackshot fillers / junk containing marker prefixes, 0..9 tagged blocks in random order and multiplicity '
                '(kernel extensions, dyld modules, trace codes, processes, images, string index, log events with records from the '
                'C16 grammar, unknown tags), last block aligned or not; plus dumps with 440..65536 bytes before the stackshot marker / the thread-map tag, every length within 72 bytes of 512, 4096 (thorough: 8192, 65536); non-trivial = distinct dump with >= 2 chunks, >= 1 event '
                'and >= 3 blocks')
    dcases, mcases = [], []
    for g, rs in zip(gens, res):
        r = rs[0]
        ctx.count('chunks=%d' % len(g['chunks']))
        ctx.count('blocks=%d' % min(len(g['blocks']), 5))
        if len(g['chunks']) >= 2 and g['records'] and len(g['blocks']) >= 3:
            ctx.nontrivial.add(g['data'])
        exp_events = [[int.from_bytes(x[0:8], 'little'), int.from_bytes(x[40:48], 'little'),
                       int.from_bytes(x[48:52], 'little')] for x in g['records']]
        exp_blocks = [[t.hex(), p.hex()] for t, p in g['blocks']]
        om = oracle_meta(g['blocks'], fmt)
        problems = []
        if r['events'] != exp_events:
            problems.append(('events', exp_events, r['events']))
        if r['event_after_log']:
            problems.append(('order', 'all events before any log record', 'an event was yielded after a log record'))
        if r['blocks'] != exp_blocks:
            problems.append(('blocks', exp_blocks, r['blocks']))
        if r['tm'] is None or [(t, p, nm.encode()) for t, p, nm in r['tm']] != [tuple(x) for x in g['threads']]:
            problems.append(('threadmap', g['threads'], r['tm']))
        if r['err'] is None:
            if r['trace_codes'].encode() != om['codes']:
                problems.append(('trace_codes', om['codes'].decode(), r['trace_codes']))
            for k in ('processes', 'images', 'dyld', 'kexts'):
                if r['meta'][k] != om[k]:
                    problems.append((k, om[k], r['meta'][k]))
            if r['logs'] != om['logs']:
                problems.append(('logs', len(om['logs']), len(r['logs'])))
            # a log record that names a process and a thread extends the tables
            tp, pn = {}, {}
            for tid, pid, name in g['threads']:
                tp[tid] = pid
                pn[pid] = name.decode()
            for o in om['logs']:
                d = dict(o)
                proc, tid, pid = d['process']['s'], d['thread_identifier']['i'], d['process_identifier']['i']
                if proc and tid:
                    tp[tid] = pid
                    pn[pid] = proc
            if r['threads_pids'] != sorted([k, v] for k, v in tp.items()) or r['pids_names'] != sorted([k, v] for k, v in pn.items()):
                problems.append(('tables', sorted(tp.items()), r['threads_pids']))
        elif r['err'] == 'KeyError' and len(om['logs']) < sum(len(plistlib.loads(p)['Events']) for t, p in g['blocks'] if t == D.TAG_LOG_EVENTS):
            pass        # log records without a (complete) string index in the dump: outside the property's well-formed dumps
        else:
            problems.append(('error', None, r['err']))
        if problems:
            what, exp, got = problems[0]
            ctx.failing.append({'input': {'file': g['data'].hex()}, 'expected': {what: exp}, 'actual': {what: got},
                                'why': f'version-3 dump: {what} differ from what the file holds'})
            continue
        dcases.append(cc.to_case(g['data'], [len(g['data'])], [r['summary']]))
        # stage B case
        tbl = []
        for t, p in g['blocks']:
            if t != D.TAG_TRACE_CODES:
                try:
                    tbl.append(f'({vlib.cbytes(p)}, {c16.coq_pv(to_tagged(plistlib.loads(p)))})')
                except Exception:
                    pass
        bl = clist([f'({vlib.cbytes(t)}, {vlib.cbytes(p)})' for t, p in g['blocks']])
        logs = clist(['(PDict ' + c16.coq_items(o) + ')' for o in r['logs']])
        kx = r['meta']['kexts']
        mcases.append(f'({clist(tbl)}, {bl}, {r["err_b_code"]}, {vlib.cbytes(r["trace_codes"].encode())}, '
                      f'{c16.coq_pv(r["meta"]["processes"])}, {clist([c16.coq_pv(x) for x in kx["l"]])}, '
                      f'{c16.coq_pv(r["meta"]["images"])}, {c16.coq_pv(r["meta"]["dyld"])}, {logs})')
    # through the public API: a listing that is read to its end has read every section, so the tables hold the thread map
    # and every declaration of the log records, whichever listing was asked for
    areq, aexp = [], []
    for g, rs in list(zip(gens, res))[:(25 if ctx.quick() else 400)]:
        r = rs[0]
        if r['err'] is not None:
            continue
        for call in ('kevents', 'traces', 'os_log_events'):
            areq.append({'file': g['data'].hex(), 'cfg': {'color': False}, 'calls': [call]})
            aexp.append((g, call, r['threads_pids'], r['pids_names']))
    ares = vlib.run_impl('run_api.py', {'cases': areq}, timeout=3000)['results'] if areq else []
    ctx.evaluations += len(areq)
    for (g, call, tp, pn), calls in zip(aexp, ares):
        c = calls[0]
        got_tp = sorted([k, v] for k, v in c['threads_pids'])
        got_pn = sorted([k, v] for k, v in c['pids_names'])
        if c['err'] is None and (got_tp != tp or got_pn != pn) and call != 'traces':
            ctx.failing.append({'input': {'file': g['data'].hex(), 'api_call': call}, 'expected': {'threads_pids': tp, 'pids_names': pn},
                                'actual': {'threads_pids': got_tp, 'pids_names': got_pn},
                                'why': f'version-3 dump: after {call}() was read to its end the tables differ from what the file holds'})
    # the command line's processes / kexts / images commands print, as JSON, what the dump's sections hold (the last
    # processes / images section, the concatenation of the kernel-extension sections)
    import json as _json
    creq, cexp = [], []
    for g in gens[:(20 if ctx.quick() else 300)]:
        procs, images, kexts = {}, {}, {'Binaries': []}
        for t, pl in g['blocks']:
            if t == D.TAG_PROCESSES:
                procs = plistlib.loads(pl)
            elif t == D.TAG_IMAGES:
                images = plistlib.loads(pl)
            elif t == D.TAG_KERNEL_EXTENSIONS:
                kexts['Binaries'].extend(plistlib.loads(pl)['Binaries'])
        for cmd, obj in (('processes', procs), ('kexts', kexts), ('images', images)):
            creq.append({'file': g['data'].hex(), 'argv': [cmd]})
            cexp.append((cmd, _json.dumps(obj, indent=4).split('\n'), g))
    cres = vlib.run_impl('run_cli.py', {'cases': creq}, timeout=3000)['results']
    ctx.evaluations += len(creq)
    for (cmd, exp, g), c, rs in zip(cexp, cres, [r for r in res for _ in range(3)]):
        ctx.count('cli:' + cmd)
        if rs[0]['err'] is not None:
            continue                                    # the dump itself is not readable to the end (log records without strings)
        if c['exc'] is not None or c['lines'] != exp:
            ctx.failing.append({'input': {'argv': [cmd, '<dump>'], 'file': g['data'].hex()}, 'expected': exp[:12],
                                'actual': {'lines': c['lines'][:12], 'exc': c['exc']},
                                'why': f'version-3 dump: the {cmd} command does not print what the file\'s sections hold'})
    # long stretches before the markers: every length around the usual buffer sizes, so that the marker the parser looks
    # for straddles any block boundary a buffered scan might have (implementation against what the file holds)
    lreq, linfo = [], []
    sizes = [512, 4096] if ctx.quick() else [512, 4096, 8192, 65536]
    rec = D.record(5, [1, 2, 3, 4], 7, 0x040c000c | 1)
    for B in sizes:
        for L in (range(B - 72, B + 9) if B < 65536 else range(B - 24, B + 3)):
            for where in ('filler', 'junk'):
                pad = bytes([0x41 + (j % 23) for j in range(L)])
                data = D.build_v3([(7, 1, b'p')], [[rec]], [], filler=pad if where == 'filler' else b'',
                                  junk=pad if where == 'junk' else b'')
                lreq.append({'file': data.hex()})
                linfo.append((B, L, where, data))
    lres = vlib.run_impl('run_container.py', {'cases': lreq}, timeout=3000)['results']
    ctx.evaluations += len(lreq)
    for (B, L, where, data), rs in zip(linfo, lres):
        r = rs[0]
        if r['err'] is not None or r['events'] != [[5, 7, 0x040c000d]] or [tuple(x) for x in (r['tm'] or [])] != [(7, 1, 'p')]:
            ctx.failing.append({'input': {'file_description': f'v3 dump with {L} bytes of {where} before the marker, one thread, one record',
                                          'file': data.hex() if len(data) < 6000 else None, 'length': L, 'where': where},
                                'expected': {'events': [[5, 7, 0x040c000d]], 'threadmap': [[7, 1, 'p']]},
                                'actual': {'events': r['events'], 'threadmap': r['tm'], 'err': r['err']},
                                'why': 'version-3 dump: events / thread map differ from what the file holds (long stretch before a marker)'})
    ctx.samples = [{'file_len': len(gens[0]['data']), 'chunks': [len(c) for c in gens[0]['chunks']],
                    'block_tags': [t.hex() for t, _ in gens[0]['blocks']], 'impl_summary': res[0][0]['summary'],
                    'n_logs': res[0][0]['n_logs']}]
    if model_ok:
        bad, errors = vlib.run_model_cases('C03', cc.HEADER, 'dcase', 'dcheck', dcases, per_file=4)
        bad2, errors2 = vlib.run_model_cases('C03m', HEADER_B, 'mcase', 'mcheck', mcases, per_file=4)
        ctx.traces_validated = len(dcases) - len(bad) + len(mcases) - len(bad2)
        for e in (errors + errors2)[:1]:
            ctx.broken.append(('correspondence', f'case files failed to evaluate: {e}'))
        for b in bad[:4]:
            ctx.broken.append(('correspondence', {'stage': 'container', 'case': dcases[b][:300]}))
        for b in bad2[:4]:
            ctx.broken.append(('correspondence', {'stage': 'interpretation', 'case': mcases[b][:1500]}))


def replay(payload):
    f = payload['input']['file']
    r = vlib.run_impl('run_container.py', {'cases': [{'file': f}]})['results'][0][0]
    print('implementation: events', r['events'], 'err', r['err'], 'blocks', [b[0] for b in (r['blocks'] or [])],
          'n_logs', r['n_logs'], 'trace_codes', repr(r['trace_codes'])[:80])
    print('expected:', str(payload.get('expected'))[:600])
    return 0

"""The command line's "based int" option type against Python's own int(text, 0) (the specification the type names) and
against the Coq model theories/CliInt.v (C12)."""
from .. import vlib
from ..vlib import clist

HEADER = ('From Coq Require Import ZArith NArith List.\nFrom Kd Require Import theories.Base theories.Harness '
          'theories.CliCases.\nImport ListNotations.\nOpen Scope N_scope.')


def gen_texts(rng, n):
    out = ['0', '00', '0_0', '012', '0x', '0x_', '1_', '_1', '1__0', '', ' ', '- 1', '+7', '-0', '0b102', '0o8', '0xg', '12a', 'a',
           '0b100', '0B1', '0o17', '0O7', '0XfF', ' 12 ', '\t0x10\n', '1e3', '1.0', '0x1.8', '--1', '+-1', '4', '0x4', '0b_1', '0_x1']
    for _ in range(n):
        v = rng.choice([0, 1, 4, 7, 0x25, 0x040c, 255, 2 ** 32, 2 ** 64 + 5, rng.getrandbits(rng.choice([4, 16, 40]))])
        body = rng.choice([str(v), hex(v), hex(v).upper().replace('0X', '0x'), '0X%X' % v, oct(v), '0O%o' % v, bin(v), '0B' + bin(v)[2:]])
        r = rng.random()
        if r < 0.25 and len(body) > 2:                      # underscores: valid between digits, invalid elsewhere
            i = rng.randrange(1, len(body) + 1)
            body = body[:i] + '_' + body[i:]
        elif r < 0.35:
            i = rng.randrange(len(body) + 1)
            body = body[:i] + rng.choice(['g', 'z', '9', '8', '2', ' ', '.', 'x', 'b', '__']) + body[i:]
        elif r < 0.4:
            body = '0' + body                               # a leading zero
        sign = rng.choice(['', '', '', '+', '-'])
        pad = rng.choice(['', '', '', ' ', '\t', '\n'])
        out.append(pad + sign + body + rng.choice(['', '', ' ', '\n']))
    return out


def run(ctx, model_ok):
    rng = ctx.rng
    texts = gen_texts(rng, 300 if ctx.quick() else 6000)
    res = vlib.run_impl('run_basedint.py', {'texts': texts})['results']
    ctx.evaluations += len(texts)
    cases = []
    for t, r in zip(texts, res):
        try:
            exp = str(int(t, 0))
        except ValueError:
            exp = None
        ctx.count('based-int:' + ('accepted' if exp is not None else 'rejected'))
        if r != exp:
            ctx.failing.append({'input': {'option_text': t}, 'expected': exp if exp is not None else 'usage error',
                                'actual': r if r is not None else 'usage error',
                                'why': 'the class / subclass filter option does not read its text as int(text, 0)'})
        if t.isascii():
            cases.append('(' + vlib.cstr_bytes(t) + ', ' + ('None' if r is None or r.startswith('EXC') else f'(Some ({r})%Z)') + ')')
    if model_ok:
        bad, errors = vlib.run_model_cases('C12i', HEADER, 'bicase', 'bicheck', cases, per_file=400)
        ctx.traces_validated += len(cases) - len(bad)
        if errors:
            ctx.broken.append(('correspondence', f'based-int case files failed to evaluate: {errors[0]}'))
        for b in bad[:5]:
            ctx.broken.append(('correspondence', {'based_int_case': cases[b][:300]}))

"""C02 — a version-2 dump yields exactly its records, in order, and its thread map."""
from .. import vlib
from ..translate import tr_kevent, tr_container
from ..harness import dumps as D
from . import container_common as cc

TRANSLATORS = [tr_kevent.translate, tr_container.translate]
MODEL_TARGETS = ['theories/ContainerCases.vo']
PROOF_TARGETS = ['props/C02.vo']
PROP_FILE = 'props/C02.v'
ASSUMPTIONS = [
    'the construct 2.10 combinators used by kd_header_v2/kd_threadmap (Int32ul/Int64ul, Padding, Array, FixedSized+CString, '
    'GreedyRange(Const(0,Byte))) and io.BytesIO.read are written out in Container.v (library oracles), validated on every run',
    'strict UTF-8 validity is Utf8.v (library oracle); names are compared as bytes',
    'the two shared dicts are association lists (most recent binding first); dict ordering is unobservable',
]


def classify(f):
    """known finding F01: the first byte after the padding is 0x00"""
    inp = f.get('input') or {}
    return 'F01' if isinstance(inp, dict) and inp.get('first_record_byte') == 0 else None


def run(ctx, model_ok):
    rng = ctx.rng
    n = 120 if ctx.quick() else 1500
    gens = []
    for i in range(n):
        g = cc.gen_v2(rng, allow_leading_zero=(i % 6 == 5))
        if i % 5 == 4:
            g = dict(g, data=cc.malform(rng, g['data']), kind='v2-malformed')
        gens.append(g)
    # dirty tables from an "earlier parse with the same parser objects"
    dirty = [[[99, 5], [7, 123]], [[5, 'stale'], [123, 'old']]]
    cases = [{'file': g['data'].hex(), 'tables0': dirty if i % 2 else None} for i, g in enumerate(gens)]
    res = vlib.run_impl('run_container.py', {'cases': cases})['results']
    ctx.evaluations = n
    ctx.rule = ('version-2 dumps: thread maps of 0/1/2/5/12 entries (duplicate tids/pids, names of 0/1/19 bytes incl. multi-byte '
                'UTF-8), padding 0/1/7/63/64/65/200 (plus a sweep of 3500..4140 bytes and the lengths that end on a page boundary), 0..6 records, header filler zero/non-zero; every 6th with a first record '
                'beginning with zero byte(s) (known finding F01); every 5th damaged (bad magic, flipped/inserted/dropped bytes); '
                'every 2nd parsed with dirty pre-existing tables; non-trivial = distinct well-formed dump with >= 2 thread-map '
                'entries, padding > 0 and >= 2 records')
    coq = []
    for g, rs in zip(gens, res):
        r = rs[0]
        ctx.count(g['kind'])
        ctx.count('err:' + str(r['err']))
        if g['kind'] == 'v2':
            recs, threads = g['records'], g['threads']
            if len(threads) >= 2 and g['pad'] > 0 and len(recs) >= 2:
                ctx.nontrivial.add(g['data'])
            exp_events = [[int.from_bytes(x[0:8], 'little'), int.from_bytes(x[40:48], 'little'),
                           int.from_bytes(x[48:52], 'little')] for x in recs]
            tp, pn = {}, {}
            for tid, pid, name in threads:
                tp[tid] = pid
                pn[pid] = name.decode()
            ok = (r['err'] is None and r['events'] == exp_events and r['threads_pids'] == sorted([k, v] for k, v in tp.items())
                  and r['pids_names'] == sorted([k, v] for k, v in pn.items()))
            if not ok:
                first = recs[0][0] if recs else None
                ctx.failing.append({'input': {'file': g['data'].hex(), 'first_record_byte': first,
                                              'threads': [[t, p, nm.hex()] for t, p, nm in threads], 'pad': g['pad'],
                                              'n_records': len(recs)},
                                    'expected': {'events(ts,tid,debugid)': exp_events, 'threads_pids': sorted(tp.items())},
                                    'actual': {'events': r['events'], 'err': r['err'], 'threads_pids': r['threads_pids'],
                                               'pids_names': r['pids_names']},
                                    'why': 'events / tables differ from the records and thread map of the file'})
        coq.append(cc.to_case(g['data'], [len(g['data'])], [r['summary']]))
    # two requests on one parser object, both created before either is read
    wf = [g for g in gens if g['kind'] == 'v2' and g['records'] and g['records'][0][0] != 0]
    preq, pinfo = [], []
    for a, b in zip(wf[::2], wf[1::2]):
        preq.append({'pair': [a['data'].hex(), b['data'].hex()]})
        pinfo.append((a, b))
    pres = vlib.run_impl('run_container.py', {'cases': preq})['results'] if preq else []
    ctx.evaluations += len(preq)

    def tables_of(g):
        tp, pn = {}, {}
        for tid, pid, name in g['threads']:
            tp[tid] = pid
            pn[pid] = name.decode()
        return [sorted([k, v] for k, v in tp.items()), sorted([k, v] for k, v in pn.items())]
    for (a, b), rs in zip(pinfo, pres):
        r = rs[0]
        if r['err'] is not None or r['after_a'] != tables_of(a) or r['after_b'] != tables_of(b):
            ctx.failing.append({'input': {'first_file': a['data'].hex(), 'second_file': b['data'].hex(),
                                          'history': 'both parse() generators created before either is read, same KdBufParser'},
                                'expected': {'after_first': tables_of(a), 'after_second': tables_of(b)},
                                'actual': {'after_first': r.get('after_a'), 'after_second': r.get('after_b'), 'err': r['err']},
                                'why': 'events / tables differ from the records and thread map of the file'})
    # long padding: every length around the page sizes a buffered padding skipper might use (implementation against what the
    # file holds; the first record starts with a non-zero byte)
    lreq, linfo = [], []
    rec = bytes([0x11]) + bytes(rng.getrandbits(8) for _ in range(63))
    rec2 = bytes([0x22]) + bytes(rng.getrandbits(8) for _ in range(63))
    for nthreads in (0, 3):
        threads = cc.rand_threads(rng, nthreads)
        for B in ([4096] if ctx.quick() else [4096, 8192, 16384, 65536]):
            for L in list(range(B - 600, B + 40, 13)) + [B - 288 - 28 * nthreads + d for d in range(-3, 4)]:
                data = D.build_v2(threads, L, [rec, rec2])
                lreq.append({'file': data.hex()})
                linfo.append((threads, L, data))
    lres = vlib.run_impl('run_container.py', {'cases': lreq}, timeout=3000)['results']
    ctx.evaluations += len(lreq)
    exp2 = [[int.from_bytes(x[0:8], 'little'), int.from_bytes(x[40:48], 'little'), int.from_bytes(x[48:52], 'little')] for x in (rec, rec2)]
    for (threads, L, data), rs in zip(linfo, lres):
        r = rs[0]
        if r['err'] is not None or r['events'] != exp2:
            ctx.failing.append({'input': {'file': data.hex() if len(data) < 12000 else None, 'first_record_byte': 0x11,
                                          'threads': [[t, p, nm.hex()] for t, p, nm in threads], 'pad': L, 'n_records': 2},
                                'expected': {'events(ts,tid,debugid)': exp2}, 'actual': {'events': r['events'][:4], 'err': r['err']},
                                'why': 'events differ from the records of the file (long zero padding after the thread map)'})
    ctx.samples = [{'file_hex_prefix': gens[0]['data'][:320].hex(), 'threads': [[t, p, nm.hex()] for t, p, nm in gens[0]['threads']],
                    'pad': gens[0]['pad'], 'n_records': len(gens[0]['records']), 'impl_summary': res[0][0]['summary']}]
    if model_ok:
        bad, errors = vlib.run_model_cases('C02', cc.HEADER, 'dcase', 'dcheck', coq, per_file=12)
        ctx.traces_validated = len(coq) - len(bad)
        if errors:
            ctx.broken.append(('correspondence', f'case files failed to evaluate: {errors[0]}'))
        for b in bad[:8]:
            ctx.broken.append(('correspondence', {'file': gens[b]['data'].hex(), 'impl': res[b][0]['summary'],
                                                  'impl_err': res[b][0]['err']}))


def replay(payload):
    f = payload['input']['file'] if isinstance(payload.get('input'), dict) else None
    if f:
        r = vlib.run_impl('run_container.py', {'cases': [{'file': f}]})['results'][0][0]
        print('implementation: events', r['events'], 'err', r['err'], 'tables', r['threads_pids'], r['pids_names'])
        print('expected:', payload.get('expected'))
        data = bytes.fromhex(f)
        rc, out = vlib.eval_in_coq('C02', cc.HEADER, [f'dcheck {cc.to_case(data, [len(data)], [r["summary"]])}'])
        print('model agrees with implementation:', out.strip())
    return 0

"""The command line (pykdebugparser/__main__.py) against the API: what `python -m pykdebugparser <cmd> <options> dump`
prints must be the lines the corresponding formatted_* generator yields for the settings the options name, cut at
--count.  Shared by C06 (count / truncated dumps), C12 (kevents, logs), C13 (traces, callstacks), C14 (show-tid, color)."""
from .. import vlib
from ..harness import dumps as D
from ..harness.streams import StreamGen
from . import pairing_common as pc

API_OF = {'kevents': 'formatted_kevents', 'traces': 'formatted_traces', 'callstacks': 'formatted_callstacks',
          'logs': 'formatted_logs'}


def spell(rng, v):
    """a spelling of v that int(text, 0) accepts (the option type is a "based int")"""
    t = rng.choice([str(v), hex(v), hex(v).upper().replace('0X', '0x'), '0X%x' % v, oct(v), '0O%o' % v, bin(v), '0B' + bin(v)[2:],
                    '0x_%x' % v])
    assert int(t, 0) == v
    return t


def gen_options(rng, cmd, tids, procs, evs):
    """-> (argv without the dump path, API settings, count)"""
    argv, cfg = [cmd], {}
    if rng.random() < 0.6:
        t = rng.choice(tids + tids + [99999])
        argv += ['--tid', str(t)]
        cfg['filter_tid'] = t
    if cmd != 'kevents' and rng.random() < 0.5:
        p = rng.choice(procs)
        argv += ['--process', p]
        cfg['filter_process'] = p
    r = rng.random()
    if r < 0.5:
        argv += ['--show-tid']
        cfg['show_tid'] = True
    elif r < 0.65:
        argv += ['--no-show-tid']
        cfg['show_tid'] = False
    if cmd in ('kevents', 'traces'):
        classes, subs = [], []
        ev_sub = sorted({e[1] >> 16 for e in evs if e[1] >> 24 == 4}) or [0x040c]
        r = rng.random()
        if r < 0.3:
            classes = [4]
        elif r < 0.45:
            subs = [rng.choice(ev_sub)]
        elif r < 0.55:
            classes, subs = [7, 4], [0x0301]
        for c in classes:
            argv += [rng.choice(['-cf', '--class-filters']), spell(rng, c)]
        for s in subs:
            argv += [rng.choice(['-sf', '--subclass-filters']), spell(rng, s)]
        # the kevents command hands click's tuples to the parser, the traces command makes lists
        cfg['filter_class'] = classes
        cfg['filter_subclass'] = subs
    if cmd == 'traces':
        r = rng.random()
        if r < 0.6:
            argv += ['--no-color']
            cfg['color'] = False
        elif r < 0.8:
            argv += ['--color']
            cfg['color'] = True
    count = None
    if rng.random() < 0.6:
        count = rng.choice([0, 0, 1, 1, 2, 3, 7, 1000, -1])
        argv += [rng.choice(['-c', '--count']), str(count)]
    return argv, cfg, count


def run(ctx, cmds, n, truncated=False):
    """appends to ctx.failing; returns the number of command lines compared"""
    rng = ctx.rng
    uni = pc.Universe()
    sg = StreamGen(uni)
    cases, api, meta = [], [], []
    # the first command line of every command has no --count and a long dump: an omitted count means no limit (if the source
    # gives the option another default than -1, the dump is made longer than that default)
    long_ops = 60
    try:
        from ..translate import tr_cli
        d = int(tr_cli.extract()[2]['count'][2])
        if 0 <= d < 3000:
            long_ops = max(long_ops, d + 10)
    except Exception:
        pass
    for i in range(n):
        cmd = cmds[i % len(cmds)]
        first_round = i < len(cmds) and not truncated
        threads, evs = sg.gen(rng, n_ops=long_ops if first_round else rng.choice([6, 12, 20]), rich=True)
        if cmd == 'callstacks':
            c = sg.c
            evs += [[threads[0][0], c['PERF_Event'], 1, [1, 0, 0, 0]], [threads[0][0], c['PERF_THD_Data'], 0, [77, 0x999, 0, 1]],
                    [threads[0][0], c['PERF_Event'], 2, [0, 0, 0, 0]]]
        tids = sorted({e[0] for e in evs})
        procs = sorted({str(p) for _, p, _ in threads} | {nm.decode() for _, _, nm in threads if nm} | {'55', 'Safari'})
        if cmd == 'logs':
            strings = ['hello %d', 'procA', 'procB', 'sender']
            logs = [dict(D.raw_log(strings, 0, rng.choice(tids), p=rng.choice([1, 2]), pid=rng.choice([1, 7, 44])), ns=1000 + j)
                    for j in range(rng.randint(0, 6))]
            blocks = [(D.TAG_LOG_STRINGS, D.plist(D.string_index(strings))), (D.TAG_LOG_EVENTS, D.plist({'Events': logs}))]
            data = D.build_v3(threads, [sg.records(evs)], blocks)
            procs += ['procA', 'procB']
        else:
            data = sg.v2(threads, evs)
        if truncated:
            data = data[:rng.randrange(len(data) + 1)]
        argv, cfg, count = gen_options(rng, cmd, tids, procs, evs)
        if first_round:
            argv, cfg, count = argv[:1], {}, None       # the command alone, no option at all: every default at once
        cases.append({'file': data.hex(), 'argv': argv})
        api.append({'file': data.hex(), 'cfg': cfg, 'calls': [API_OF[cmd]]})
        meta.append((cmd, argv, cfg, count, threads, evs))
    cres = vlib.run_impl('run_cli.py', {'cases': cases}, timeout=3000)['results']
    ares = vlib.run_impl('run_api.py', {'cases': api}, timeout=3000)['results']
    for (cmd, argv, cfg, count, threads, evs), c, a in zip(meta, cres, ares):
        ctx.count('cli:' + cmd)
        lines = []
        for item in a[0]['items']:
            lines += item.split('\n')                   # a callstack is printed as several lines
        objs = a[0]['items']
        if count is not None and count >= 0:
            objs = objs[:count]
        exp = []
        for item in objs:
            exp += item.split('\n')
        inp = {'argv': argv + ['<dump>'], 'threads': [[t, p, nm.decode()] for t, p, nm in threads], 'events': evs,
               'truncated_dump': truncated}
        if a[0]['err'] is None:
            if c['exc'] is not None or c['exit'] != 0 or c['lines'] != exp:
                ctx.failing.append({'input': inp, 'expected': {'lines': exp[:6], 'n': len(exp), 'settings': cfg, 'count': count},
                                    'actual': {'lines': c['lines'][:6], 'n': len(c['lines']), 'exit': c['exit'], 'exc': c['exc']},
                                    'why': 'the command line does not print exactly the lines the API yields for the settings its '
                                           'options name, cut at --count'})
            elif count is not None and 0 <= count < len(a[0]['items']):
                ctx.nontrivial.add(repr(('cli', argv, evs)))
        else:
            # the dump is cut inside a record / section: whatever was printed before the error is a prefix of the API's lines
            if c['lines'] != exp:
                ctx.failing.append({'input': inp, 'expected': {'the lines of what was readable': exp[:6], 'n': len(exp)},
                                    'actual': {'lines': c['lines'][:6], 'n': len(c['lines']), 'exc': c['exc']},
                                    'why': 'lines printed for a cut dump are not the lines of the part that was readable'})
    ctx.evaluations += len(cases)
    return len(cases)

"""C14 — lines name the process the dump declares for the thread; columns compose."""
import itertools
import re
from .. import vlib
from ..vlib import cN, clist
from ..translate import tr_decoders, tr_handlers, tr_format, tr_trace
from ..harness.streams import StreamGen
from . import pairing_common as pc

TRANSLATORS = [tr_handlers.translate, tr_decoders.translate, tr_format.translate, tr_trace.translate]
MODEL_TARGETS = ['theories/FormatCases.vo']
PROOF_TARGETS = ['props/C14.vo']
PROP_FILE = 'props/C14.v'
ASSUMPTIONS = [
    'the timestamp column is modelled for the default configuration (str(ts) + " "); the datetime branch of '
    '_format_timestamp and formatted_logs are not modelled',
    'partial: "colouring never changes the text" is checked differentially (ANSI codes stripped), pygments/termcolor are '
    'outside the model; for some texts the C highlighter re-spaces or strips whitespace - reported as a finding if observed',
    'f-string padding pads by code points and never truncates (ljust/rjust over UTF-8 bytes); repr(bytes) as Format.bytes_repr',
    'the table writes of the trace-class / sampler decoders (Format.apply_window) are a hand model, validated end to end: '
    'dump -> events -> pairing model -> tables -> lines against formatted_kevents / formatted_traces',
]
HEADER = ('From Coq Require Import NArith List.\nFrom Kd Require Import theories.Base theories.Harness '
          'theories.FormatCases.\nImport ListNotations.\nOpen Scope N_scope.')
KINDS = {'TRACE_DATA_NEWTHREAD': 1, 'TRACE_DATA_EXEC': 2, 'TRACE_STRING_NEWTHREAD': 3, 'TRACE_STRING_EXEC': 4,
         'TRACE_DATA_THREAD_TERMINATE_PID': 5, 'PERF_THD_Data': 6, 'PERF_Event': 7}
SW = ['show_timestamp', 'show_name', 'show_func_qual', 'show_tid', 'show_process', 'show_args']


def cb(b):
    return 'true' if b else 'false'


def run(ctx, model_ok):
    rng = ctx.rng
    uni = pc.Universe()
    sg = StreamGen(uni)
    configs = list(itertools.product([False, True], repeat=6))
    nstreams = 6 if ctx.quick() else 40
    reqs, info = [], []
    for s in range(nstreams):
        threads, evs = sg.gen(rng, n_ops=rng.choice([8, 14]), rich=(s >= 2 and s % 2 == 0))
        if s >= 2 and s % 2 == 0:
            # a declared thread is reported terminated (by itself / by another thread) and keeps emitting records: the dump
            # still declares its process
            c = sg.c
            t0 = threads[0][0]
            evs += [[t0, c['TRACE_DATA_THREAD_TERMINATE'], 0, [t0, 0, 0, 0]], [t0, c['BSC_getpid'], 1, [0, 0, 0, 0]],
                    [t0, c['BSC_getpid'], 2, [0, 1, 0, 0]]]
            # a new thread is announced for pid 30; before its name string arrives a sampler record of another thread
            # re-declares it for pid 20: the name belongs to the pid of the announcement
            from ..harness.streams import name_words
            t1 = threads[-1][0] if len(threads) > 1 else 0x778
            evs += [[t0, c['TRACE_DATA_NEWTHREAD'], 0, [0x777, 30, 0, 0]], [t1, c['PERF_THD_Data'], 0, [20, 0x777, 0x5000, 1]],
                    [t0, c['TRACE_STRING_NEWTHREAD'], 0, name_words('worker')], [0x777, c['BSC_getpid'], 1, [0, 0, 0, 0]],
                    [0x777, c['BSC_getpid'], 2, [0, 20, 0, 0]], [t0, c['TRACE_DATA_NEWTHREAD'], 0, [0x779, 30, 0, 0]],
                    [0x779, c['BSC_getpid'], 1, [0, 0, 0, 0]], [0x779, c['BSC_getpid'], 2, [0, 30, 0, 0]]]
        if s % 2:
            # a sampler window with nested thread data, and bytes that need escaping in the args column
            c = sg.c
            evs += [[threads[0][0], c['PERF_Event'], 1, [1, 0, 0, 0]], [threads[0][0], c['PERF_THD_Data'], 0, [77, 0x999, 0, 1]],
                    [threads[0][0], c['PERF_Event'], 2, [0, 0, 0, 0]], [0x999, c['BSC_getpid'], 1, [0x27225c0a09, 0x7f80ff, 0, 0]],
                    [0x999, c['BSC_getpid'], 2, [0, 77, 0, 0]]]
            # a sample whose thread data declares thread 0x99a for pid 78; before the sample ends a new-thread record re-declares
            # it for pid 79: the sample, decoded at its END, declares it again (the line of 0x99a names pid 78); and a sample
            # whose thread-data record carries the START qualifier (it is never fed alone): the sample still declares its thread
            t0 = threads[0][0]
            evs += [[t0, c['PERF_Event'], 1, [1, 0, 0, 0]], [t0, c['PERF_THD_Data'], 0, [78, 0x99a, 0, 1]],
                    [t0, c['TRACE_DATA_NEWTHREAD'], 0, [0x99a, 79, 0, 0]], [t0, c['PERF_Event'], 2, [0, 0, 0, 0]],
                    [0x99a, c['BSC_getpid'], 1, [0, 0, 0, 0]], [0x99a, c['BSC_getpid'], 2, [0, 78, 0, 0]],
                    [t0, c['PERF_Event'], 1, [1, 0, 0, 0]], [t0, c['PERF_THD_Data'], 1, [81, 0x99b, 0, 1]],
                    [t0, c['PERF_Event'], 2, [0, 0, 0, 0]],
                    [0x99b, c['BSC_getpid'], 1, [0, 0, 0, 0]], [0x99b, c['BSC_getpid'], 2, [0, 81, 0, 0]]]
        f = sg.v2(threads, evs).hex()
        for bits in (configs if s < 2 or not ctx.quick() else rng.sample(configs, 6) + [tuple([True] * 6)]):
            cfg = dict(zip(SW, bits), color=False)
            reqs.append({'file': f, 'cfg': cfg, 'calls': ['formatted_kevents', 'traces', 'formatted_traces']})
            info.append((threads, evs, bits))
    out = vlib.run_impl('run_api.py', {'cases': reqs}, timeout=3000)['results']
    ctx.evaluations = len(reqs)
    ctx.rule = ('semantic streams (thread maps with undeclared threads, syscalls, exec / new-thread name pairs that rename pids '
                'mid-stream, terminate-pid, sampler thread data incl. nested in a sampler window, argument bytes that need escaping) '
                'x ALL 64 switch settings (quick: all 64 on two streams, 8 sampled on the others); plus callstack lines and the '
                'colour check; non-trivial = distinct (stream, setting) whose trace listing shows >= 2 different process columns')
    cases = []
    base_by_stream = {}
    for (threads, evs, bits), calls in zip(info, out):
        fk, tr, ft = calls
        inp = {'threads': [[t, p, nm.decode()] for t, p, nm in threads], 'events': evs, 'switches': dict(zip(SW, bits))}
        if fk['err'] or tr['err'] or ft['err']:
            ctx.failing.append({'input': inp, 'expected': 'lines', 'actual': [fk['err'], tr['err'], ft['err']], 'why': 'formatting raised'})
            continue
        key = id(evs)
        # oracle 1: switching columns off removes exactly those columns: compare with the all-on listing of the same stream
        if all(bits):
            base_by_stream[key] = (fk['items'], ft['items'], tr['items'])
        # oracle 2: process column names the declared process (independent replay of the declarations)
        if bits[4]:
            exp_proc = oracle_process(threads, evs, tr['items'], uni)
            for line, it, ep in zip(ft['items'], tr['items'], exp_proc):
                pre = (len(str(it[1])) + 1 if bits[0] else 0) + (12 if bits[3] else 0)
                colp = line[pre:pre + 34].rstrip()
                if colp != ep and not (len(ep) > 34 and line[pre:].startswith(ep)):
                    ctx.failing.append({'input': inp, 'expected': {'process column of trace starting at record': it[1], 'is': ep},
                                        'actual': colp, 'why': 'the process column does not name the process the dump declares '
                                                               'for the emitting thread at that point'})
                    break
            if len(set(exp_proc)) >= 2:
                ctx.nontrivial.add(repr((evs, bits)))
        names = sorted({e[1] for e in evs})
        nm = clist([f'({cN(c)}, {vlib.cstr_bytes(uni.codes[c])})' for c in names if c in uni.codes])
        cl = clist([f'({cN(c)}, ({cb(uni.classify(c)[0])}, {cb(uni.classify(c)[1])}, 0))' for c in names])
        kd = clist([f'({cN(c)}, {KINDS[uni.codes[c]]})' for c in names if uni.codes.get(c) in KINDS])
        tm = clist([f'({cN(t)}, {cN(p)}, {vlib.cbytes(n)})' for t, p, n in threads])
        ev = clist([f'({j + 1}, {cN(t)}, {cN(c)}, {q}, {clist([cN(w) for w in ws])})' for j, (t, c, q, ws) in enumerate(evs)])
        okl = clist([vlib.cstr_bytes(l) for l in fk['items']])
        bod = clist([vlib.cstr_bytes(it[4]) for it in tr['items']])
        otl = clist([vlib.cstr_bytes(l) for l in ft['items']])
        cases.append(f'({clist([cb(b) for b in bits])}, {nm}, {cl}, {kd}, {tm}, {ev}, {okl}, {bod}, {otl})')
    # columns compose: every setting's line = the all-on line with exactly the disabled columns removed
    for (threads, evs, bits), calls in zip(info, out):
        base = base_by_stream.get(id(evs))
        if base is None or calls[0]['err'] or calls[2]['err']:
            continue
        bk, bt, btr = base
        for line, full, e in zip(calls[0]['items'], bk, evs):
            if line != remove_cols_kevent(full, bits):
                ctx.failing.append({'input': {'switches': dict(zip(SW, bits)), 'full_line': full}, 'expected': remove_cols_kevent(full, bits),
                                    'actual': line, 'why': 'switching columns off does not remove exactly those columns of the event line'})
                break
        for line, full, it in zip(calls[2]['items'], bt, btr):
            exp = remove_cols_trace(full, bits, it)
            if line != exp:
                ctx.failing.append({'input': {'switches': dict(zip(SW, bits)), 'full_line': full}, 'expected': exp, 'actual': line,
                                    'why': 'switching columns off does not remove exactly those columns of the trace line'})
                break
    # callstack lines and colour
    creq, cmeta = [], []
    for _ in range(40 if ctx.quick() else 400):
        bits = rng.choice(configs)
        tm = [(7, 1, 'launchd'), (8, 55, 'Safari é')]
        frames = [[rng.getrandbits(48), rng.choice([None, bytes(rng.getrandbits(8) for _ in range(16)).hex()]), 0] for _ in range(rng.randint(0, 4))]
        frames = [[a, u, (a & 0xfff) if u else None] for a, u, _ in frames]
        tid = rng.choice([7, 8, 9])
        creq.append({'bits': list(bits), 'tm': tm, 'ts': rng.getrandbits(40), 'tid': tid, 'frames': frames})
        cmeta.append(creq[-1])
    texts = ['read(3, 0x1000, 16), count: 16', 'open("/tmp/a  b", O_RDONLY), fd: 3', 'lookup("/a\tb"), vnode id: 5',
             'x  y', ' leading', 'trailing ', 'a\nb', 'New process name: Safari', 'ioctl(1, 0x40 /* _IOC(IOC_OUT, \'t\', 1, 0) */, 0x0)']
    seen = set(texts)
    for calls in out:                                    # plus the texts of the traces the streams really produced
        for it in (calls[1]['items'] or []) if not calls[1]['err'] else []:
            if it[4] not in seen and len(seen) < (150 if ctx.quick() else 2000):
                seen.add(it[4])
                texts.append(it[4])
    for t in texts:
        creq.append({'bits': [True] * 6, 'tm': [(7, 1, 'p')], 'ts': 5, 'tid': 7, 'text': t})
    # log lines: switches x colour x records with / without a process x texts
    lreq = []
    msgs = ['hello', '', 'two  spaces ', ' lead', 'tab\there', 'é ü 漢字', 'x' * 70, 'm', '[0m', '0;1m not an escape', 'a\nb']
    for _ in range(80 if ctx.quick() else 1500):
        bits = rng.choice(configs)
        lreq.append({'bits': list(bits), 'color': rng.random() < 0.5,
                     'tm': [(7, 1, 'launchd'), (8, 55, rng.choice(['Safari é', 'a-very-long-process-name-over-27-chars', '']))],
                     'tid': rng.choice([7, 8, 9, 0, 2 ** 40]),
                     'log': {'secs': rng.randint(0, 2 ** 31), 'usecs': rng.choice([0, 5, 999999, rng.randint(0, 999999)]),
                             'tzmin': rng.choice([0, 120, -300]), 'process': rng.choice(['', 'Safari', 'kernel']),
                             'message': rng.choice(msgs)}})
    cres = vlib.run_impl('run_format.py', {'cases': creq + lreq})['results']
    lres = cres[len(creq):]
    cres = cres[:len(creq)]
    ctx.evaluations += len(creq) + len(lreq)
    lcases = []
    for q, r in zip(lreq, lres):
        if 'err' in r:
            ctx.failing.append({'input': q, 'expected': 'a log line', 'actual': r['err'], 'why': 'formatting a log line raised'})
            continue
        st, _, _, stid, sp, _ = q['bits']
        tp = {t: pid for t, pid, _ in q['tm']}
        pn = {pid: n for _, pid, n in q['tm']}
        proc = f"{pn.get(tp[q['tid']], '')}({tp[q['tid']]})" if q['tid'] in tp else f"Error: tid {q['tid']}"
        exp = ((f"{r['tstext']:<27}" if st else '') + (f"{q['tid']:>11} " if stid else '')
               + (f" {proc:<27} " if sp and q['log']['process'] else '') + q['log']['message'])
        text = re.sub(r'\x1b\[[0-9;]*m', '', r['line'])
        if text != exp:
            ctx.failing.append({'input': q, 'expected': exp, 'actual': r['line'],
                                'why': ('colouring changed the text of the log line' if q['color'] else
                                        'log line is not the concatenation of its enabled columns (timestamp, thread id, process, message)')})
        if q['color'] and r['line'] != text:
            ctx.nontrivial.add(repr(('log', q['bits'], q['log']['message'])))
        tm = clist([f'({cN(t)}, {cN(pp)}, {vlib.cstr_bytes(n)})' for t, pp, n in q['tm']])
        lcases.append(f'({clist([cb(b) for b in q["bits"]])}, {cb(q["color"])}, {tm}, {vlib.cstr_bytes(r["tstext"])}, {cN(q["tid"])}, '
                      f'{cb(bool(q["log"]["process"]))}, {vlib.cstr_bytes(q["log"]["message"])}, {vlib.cstr_bytes(r["line"])})')
    hcases = []
    for m, r in zip(cmeta, cres):
        # independent statement of the callstack line: one line of enabled columns, then one line per frame, frame i indented by
        # i spaces - and nothing else (no trailing line break, also for a sample without frames)
        if 'line' in r:
            ls = r['line'].split('\n')
            want = [' ' * i + (f'{uuid_text(u)}:0x{off:016x}' if u is not None else f'0x{a:016x}') for i, (a, u, off) in enumerate(m['frames'])]
            if ls[1:] != want or (not m['bits'][0] and not m['bits'][3] and not m['bits'][4] and ls[0] != ''):
                ctx.failing.append({'input': m, 'expected': {'lines after the first': want}, 'actual': r['line'],
                                    'why': 'callstack line is not: the enabled columns, then one line per frame indented by its index'})
        fr = clist([f'({cN(a)}, ' + ('None' if u is None else f'(Some ({vlib.cstr_bytes(uuid_text(u))}, {cN(off)}))') + ')' for a, u, off in m['frames']])
        tm = clist([f'({cN(t)}, {cN(p)}, {vlib.cstr_bytes(n)})' for t, p, n in m['tm']])
        hcases.append(f'({clist([cb(b) for b in m["bits"]])}, {tm}, {cN(m["ts"])}, {cN(m["tid"])}, {fr}, {vlib.cstr_bytes(r["line"])})')
    colour_changes = []
    for t, r in zip(texts, cres[len(cmeta):]):
        if r['colored_stripped'] != r['plain']:
            colour_changes.append({'text': t, 'plain': r['plain'], 'colored_without_ansi': r['colored_stripped']})
    ctx.extra['colour_check'] = {'texts': len(texts), 'changed_by_colouring': colour_changes, 'log_lines': len(lreq)}
    for ch in colour_changes:
        ctx.failing.append({'input': {'trace_text': ch['text']}, 'expected': ch['plain'], 'actual': ch['colored_without_ansi'],
                            'why': 'colouring changed the text of the trace line'})
    # colouring never changes the text, on the lines the streams really produce (tables evolving along the stream): the
    # coloured listing with its escape sequences removed is the plain listing
    creqs, cbase = [], []
    seen_files = set()
    for rq, calls in zip(reqs, out):
        if rq['file'] in seen_files or not all(rq['cfg'][k] for k in SW) or calls[2]['err']:
            continue
        seen_files.add(rq['file'])
        creqs.append({'file': rq['file'], 'cfg': dict(rq['cfg'], color=True), 'calls': ['formatted_traces']})
        cbase.append(calls[2]['items'])
    cout = vlib.run_impl('run_api.py', {'cases': creqs}, timeout=3000)['results'] if creqs else []
    ctx.evaluations += len(creqs)
    for rq, plain, calls in zip(creqs, cbase, cout):
        got = [re.sub(r'\x1b\[[0-9;]*m', '', ln) for ln in calls[0]['items']]
        if calls[0]['err'] or got != plain:
            j = next((k for k in range(min(len(got), len(plain))) if got[k] != plain[k]), min(len(got), len(plain)))
            ctx.failing.append({'input': {'file': rq['file'], 'color': True}, 'expected': plain[j:j + 2], 'actual': calls[0]['err'] or got[j:j + 2],
                                'why': 'colouring changed the text of the trace lines (escape sequences removed, line %d differs)' % j})
    # the command line: --show-tid / --no-show-tid / --color / --no-color reach the line builders
    from . import cli_common
    cli_common.run(ctx, ['traces', 'kevents', 'callstacks', 'logs'], 120 if ctx.quick() else 900)
    ctx.samples = [{'switches': dict(zip(SW, info[0][2])), 'impl_event_line': out[0][0]['items'][:1], 'impl_trace_line': out[0][2]['items'][:1]}]
    if model_ok:
        bad, errors = vlib.run_model_cases('C14', HEADER, 'gcase', 'gcheck', cases, per_file=8)
        bad2, errors2 = vlib.run_model_cases('C14h', HEADER, 'hcase', 'hcheck', hcases, per_file=50)
        bad3, errors3 = vlib.run_model_cases('C14l', HEADER, 'lcase', 'lcheck', lcases, per_file=100)
        ctx.traces_validated = len(cases) - len(bad) + len(hcases) - len(bad2) + len(lcases) - len(bad3)
        for b in bad3[:3]:
            ctx.broken.append(('correspondence', {'log_line_case': lcases[b][:600]}))
        for e in (errors + errors2 + errors3)[:1]:
            ctx.broken.append(('correspondence', f'case files failed to evaluate: {e}'))
        for b in bad[:5]:
            ctx.broken.append(('correspondence', {'switches': dict(zip(SW, info[b][2])), 'events': info[b][1][:8],
                                                  'impl_trace_lines': out[b][2]['items'][:4], 'impl_event_lines': out[b][0]['items'][:3]}))
        for b in bad2[:3]:
            ctx.broken.append(('correspondence', {'callstack_case': hcases[b][:500]}))


def uuid_text(hexs):
    h = hexs
    return f'{h[0:8]}-{h[8:12]}-{h[12:16]}-{h[16:20]}-{h[20:32]}'


def remove_cols_kevent(full, bits):
    """event line = timestamp(variable, ends with ' ') name<58 qual<15 tid<12 process<27 args<34 ; widths known when all on"""
    ts_end = full.index(' ') + 1
    widths = [ts_end, 58, 15, 12, 27]
    cols, pos = [], 0
    for w in widths:
        cols.append(full[pos:pos + w])
        pos += w
    cols.append(full[pos:])
    # a column longer than its width is not padded; the stream generator keeps names/processes within their widths
    return ''.join(c for c, b in zip(cols, bits) if b)


def remove_cols_trace(full, bits, it):
    ts_end = full.index(' ') + 1
    cols = [full[:ts_end], full[ts_end:ts_end + 12], full[ts_end + 12:ts_end + 46], full[ts_end + 46:]]
    on = [bits[0], bits[3], bits[4], True]
    return ''.join(c for c, b in zip(cols, on) if b)


def oracle_process(threads, evs, items, uni):
    """independent replay: thread map, superseded by new-thread / terminate-pid / sampler records and the name pairs,
    evaluated at each delivered trace (identified by its head record)"""
    tp, pn = {}, {}
    for t, p, n in threads:
        tp[t] = p
        pn[p] = n.decode()
    slots = {}
    exp = []
    delivered = pc.spec_outputs([[t, c, q, ws] for t, c, q, ws in evs], uni)
    wins = [w for w in delivered if w is not None]
    for w in wins:
        h = evs[w[0]]
        name = uni.codes.get(h[1])
        tid, ws = h[0], h[3]
        sl = slots.setdefault(tid, [None, None])
        text = b''.join(x.to_bytes(8, 'little') for x in ws).replace(b'\0', b'').decode('utf-8', 'replace')
        if name == 'TRACE_DATA_NEWTHREAD':
            tp[ws[0]] = ws[1]
            sl[0] = ws[1]
        elif name == 'TRACE_DATA_EXEC':
            sl[1] = ws[0]
        elif name == 'TRACE_STRING_NEWTHREAD' and sl[0] is not None:
            pn[sl[0]] = text
        elif name == 'TRACE_STRING_EXEC' and sl[1] is not None:
            pn[sl[1]] = text
        elif name == 'TRACE_DATA_THREAD_TERMINATE_PID':
            tp[tid] = ws[0]
        elif name == 'PERF_THD_Data':
            tp[ws[1]] = ws[0]
        elif name == 'PERF_Event' and ws[0] & 1:
            nested = [evs[j] for j in w if uni.codes.get(evs[j][1]) == 'PERF_THD_Data']
            if nested:
                tp[nested[0][3][1]] = nested[0][3][0]
        exp.append(f'{pn.get(tp[tid], "")}({tp[tid]})' if tid in tp else f'Error: tid {tid}')
    return exp


def replay(payload):
    print('expected:', payload.get('expected'))
    print('actual  :', payload.get('actual'))
    return 0

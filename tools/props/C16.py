"""C16 — log records decode for every combination of optional fields."""
from .. import vlib
from ..vlib import cN, clist
from ..translate import tr_oslog

TRANSLATORS = [tr_oslog.translate]
MODEL_TARGETS = ['theories/OsLogCases.vo']
PROOF_TARGETS = ['props/C16.vo']
PROP_FILE = 'props/C16.v'
ASSUMPTIONS = [
    'raw records are plist values (int/str/bytes/bool/list/dict); the key->field chain, the dataclass field list with '
    'defaults, the enums and the namespace->enum maps are regenerated from os_log_event.py on every run (GenOsLog.v)',
    'enum.Enum(v) raises ValueError unless v is a member; enum.IntFlag(v) accepts any int (Python >= 3.11 KEEP boundary)',
    'partial: unix_date is modelled exactly in integer microseconds; the implementation adds sec + usec/10**6 in floating '
    'point (compared here for sec < 2^31, where the rounding recovers the exact microsecond)',
    'the construct bit layout of firehose_tracepoint_id is checked textually by the translator and its semantics (MSB-first '
    'BitStruct) written out in OsLog.parse_tid',
]
HEADER = ('From Coq Require Import String NArith List.\nFrom Kd Require Import theories.Base theories.Harness '
          'theories.OsLogBase theories.OsLogCases.\nImport ListNotations.\nOpen Scope N_scope.\nOpen Scope string_scope.')


# ---- tagged values ----
def I(n): return {'i': n}
def S(s): return {'s': s}
def B(b): return {'b': b.hex()}
def L(l): return {'l': l}
def Dd(items): return {'d': [[k, v] for k, v in items]}


def coq_pv(v):
    if v is None:
        return 'PNone'
    (k, x), = v.items()
    if k == 'i':
        return f'(PInt {cN(x)})'
    if k == 's':
        return f'(PStr {vlib.cstr_bytes(x)})'
    if k == 'b':
        return f'(PBytes {vlib.cbytes(bytes.fromhex(x))})'
    if k == 'B':
        return f'(PBool {"true" if x else "false"})'
    if k == 'l':
        return '(PList ' + clist([coq_pv(y) for y in x]) + ')'
    if k == 'd':
        return '(PDict ' + coq_items(x) + ')'
    raise ValueError(k)


def coq_items(items):
    return clist([f'("{k}", {coq_pv(v)})' for k, v in items])


def gen_segment(rng, nstr):
    def sidx():
        return I(rng.randrange(nstr))
    seg = []
    if rng.random() < 0.7:
        seg.append(('lp', sidx()))
    if rng.random() < 0.7:
        p = []
        if rng.random() < 0.7:
            p.append(('rs', sidx()))
        if rng.random() < 0.7:
            p.append(('t', L([sidx() for _ in range(rng.choice([0, 1, 2]))])))
        if rng.random() < 0.4:
            p.append(('tn', sidx()))
        if rng.random() < 0.4:
            p.append(('ty', sidx()))
        p += [('w', I(rng.randint(0, 9))), ('p', I(rng.randint(0, 99)))]
        rng.shuffle(p)
        seg.append(('p', Dd(p)))
    if rng.random() < 0.7:
        a = []
        cat = rng.choice([1, 2, 3])
        if rng.random() < 0.5:
            a.append(('a', I(rng.choice([1, 3]))))
        if rng.random() < 0.7:
            a.append(('p', I(rng.randint(0, 3))))
        a.append(('c', I(cat)))
        if rng.random() < 0.6:
            a.append(('sc', I(rng.randint(0, 5))))
        if rng.random() < 0.6:
            a.append(('st', I(rng.randint(0, 5))))
        if rng.random() < 0.7:
            a.append(('or', sidx() if cat == 2 or rng.random() < 0.3 else B(bytes(rng.getrandbits(8) for _ in range(5)))))
        rng.shuffle(a)
        seg.append(('a', Dd(a)))
    rng.shuffle(seg)
    return Dd(seg)


def gen_value(rng, conv, nstr, x, in_range=True, key=None):
    if conv == 'CId':
        if key in ('b', 'piu', 'siu'):
            return B(bytes(rng.getrandbits(8) for _ in range(16)))
        return rng.choice([I(rng.getrandbits(rng.choice([1, 16, 40]))), I(0)])
    if conv == 'CStr':
        return I(rng.randrange(nstr)) if in_range else I(nstr + 5)
    if conv == 'CLogType':
        vals = [v for _, v in x['enums']['OsLogType'][0]]
        return I(rng.choice(vals)) if in_range else I(rng.choice([3, 5, 0x12, 255]))
    if conv == 'CTraceId':
        return I(gen_trace_id(rng, x, in_range))
    if conv == 'CTz':
        return Dd([('mw', I(rng.randint(0, 720))), ('dt', I(rng.randint(0, 1)))])
    if conv == 'CLossCount':
        return Dd([('c', I(rng.randint(0, 999))), ('s', I(rng.randint(0, 9)))])
    if conv == 'CBacktrace':
        return L([Dd([('iu', B(bytes(rng.getrandbits(8) for _ in range(16)))), ('io', I(rng.getrandbits(24)))])
                  for _ in range(rng.randint(0, 3))])
    if conv == 'CDecomposed':
        pc = rng.choice([0, 1, 2, 3])
        items = [('s', I(rng.randint(0, 2))), ('pc', I(pc))]
        if pc or rng.random() < 0.3:
            items.append(('seg', L([gen_segment(rng, nstr) for _ in range(pc if pc else 1)])))
        rng.shuffle(items)
        return Dd(items)
    if conv == 'CUnixDate':
        return Dd([('sec', I(rng.choice([0, 1, 1633872873, 2 ** 31 - 1, rng.getrandbits(30)]))),
                   ('usec', I(rng.choice([0, 1, 999999, 810447, rng.randrange(10 ** 6)])))])
    raise ValueError(conv)


def gen_trace_id(rng, x, defined=True):
    ns_members = dict(x['enums']['FirehoseTracepointNamespace'][0])
    if not defined:
        return rng.choice([rng.getrandbits(64), 1, 0x0000000000001303, 8, 0xff])
    nsname = rng.choice(list(ns_members))
    ns = ns_members[nsname]
    tmap = x['maps']['tracepoint_types']
    if nsname in tmap:
        members = [v for _, v in x['enums'][tmap[nsname]][0]]
        ty = rng.choice(members)
        if any('Flag' in (b or '') for b in x['enums'][tmap[nsname]][1]) and rng.random() < 0.5:
            ty = rng.choice([0x41, 0x82, 0xc1, 0x3f, rng.getrandbits(8)])
    else:
        ty = rng.getrandbits(8)
    tf = (rng.getrandbits(1) << 5) | (rng.getrandbits(1) << 4) | (rng.getrandbits(3) << 1) | rng.getrandbits(1)
    tf |= rng.choice([0, 0, 0x40, 0xc0])          # the two padding bits are ignored
    fl = rng.choice([0, 1, 3, 0x1f, 0x80, 0x83, rng.getrandbits(8)])
    code = rng.choice([0, 1, 2 ** 32 - 1, rng.getrandbits(32)])
    return ns | (ty << 8) | (tf << 16) | (fl << 24) | (code << 32)


def gen_case(rng, x, mode):
    strings = ['', 'msg', 'proc', '/usr/libexec/x', 'com.apple.sub', 'cat', '%{public}s', 'é日本', 'public', 'a b']
    nstr = len(strings)
    ev = []
    for k, f, c in x['mandatory']:
        ev.append((k, gen_value(rng, c, nstr, x, key=k)))
    opt = x['optional']
    if mode == 'random':
        chosen = [o for o in opt if rng.random() < 0.5]
    elif mode == 'single':
        chosen = [rng.choice(opt)]
    elif mode == 'allbut':
        drop = rng.choice(opt)
        chosen = [o for o in opt if o is not drop]
    elif mode == 'all':
        chosen = list(opt)
    else:
        chosen = [o for o in opt if rng.random() < 0.3]
    for k, f, c in chosen:
        ev.append((k, gen_value(rng, c, nstr, x, key=k)))
    if mode == 'malformed':
        r = rng.random()
        if r < 0.3 and ev:
            ev.pop(rng.randrange(len(x['mandatory'])))                    # missing mandatory key
        elif r < 0.5:
            k, f, c = rng.choice([o for o in opt if o[2] in ('CStr', 'CLogType', 'CTraceId')])
            ev = [e for e in ev if e[0] != k] + [(k, gen_value(rng, c, nstr, x, in_range=False))]
        elif r < 0.7:
            ev.append(('zz_unknown_key', I(1)))                           # unknown keys are ignored
        else:
            ev = [e for e in ev if e[0] != 'cm'] + [('cm', I(nstr + 1))]  # string index not in the table
    rng.shuffle(ev)
    return strings, ev


def load_format():
    """the log-record format as read from the pinned tree (key -> field -> conversion, enums); used to generate inputs
    and by the oracle, so that a failing input can still be searched for when the translator rejects the current source"""
    import json, os
    with open(os.path.join(os.path.dirname(__file__), 'C16_format.json')) as fd:
        x = json.load(fd)
    x['mandatory'] = [tuple(e) for e in x['mandatory']]
    x['optional'] = [tuple(e) for e in x['optional']]
    x['enums'] = {k: ([tuple(m) for m in v[0]], v[1]) for k, v in x['enums'].items()}
    return x


DEFAULTS = {'(Some PNone)': None, '(Some (PStr []))': S(''), '(Some (PBytes []))': B(b''), '(Some (PDict []))': Dd([]),
            '(Some (PList []))': L([])}


def spec_decode(x, strings, ev):
    """independent executable statement of C16: the decoded object for an in-range record (tagged values)"""
    evd = dict(ev)

    def s_of(v):
        return S(strings[v['i']])

    def two(v, k1, k2, n1, n2):
        d = dict(v['d'])
        return Dd([(n1, d[k1]), (n2, d[k2])])

    def tid(w):
        ns = w & 0xff
        ty = (w >> 8) & 0xff
        tf = (w >> 16) & 0xff
        fl = (w >> 24) & 0xff
        nsname = {v: k for k, v in x['enums']['FirehoseTracepointNamespace'][0]}[ns]
        flags = I(fl) if nsname in x['maps']['tracepoint_flags'] else None
        return Dd([('namespace', I(ns)), ('type_', I(ty)), ('has_large_offset', {'B': bool(tf & 0x20)}),
                   ('has_unique_pid', {'B': bool(tf & 0x10)}), ('pc_style', I((tf >> 1) & 7)),
                   ('has_current_aid', {'B': bool(tf & 1)}), ('flags', flags), ('code', I(w >> 32))])

    def seg(sv):
        s = dict(sv['d'])
        out = []
        if 'lp' in s:
            out.append(('literal_prefix', s_of(s['lp'])))
        if 'p' in s:
            p = dict(s['p']['d'])
            ph = []
            if 'rs' in p:
                ph.append(('raw_string', s_of(p['rs'])))
            if 't' in p and p['t']['l']:
                ph.append(('tokens', L([s_of(t) for t in p['t']['l']])))
            if 'tn' in p:
                ph.append(('type_namespace', s_of(p['tn'])))
            if 'ty' in p:
                ph.append(('type', s_of(p['ty'])))
            ph += [('width', p['w']), ('precision', p['p'])]
            out.append(('placeholder', Dd(ph)))
        if 'a' in s:
            a = dict(s['a']['d'])
            ar = []
            for k, n in (('a', 'availability'), ('p', 'privacy'), ('c', 'category')):
                if k in a:
                    ar.append((n, a[k]))
            cat = a['c']['i']
            if cat == 1:
                for k, n in (('sc', 'scalar_category'), ('st', 'scalar_type')):
                    if k in a:
                        ar.append((n, a[k]))
            if ('a' not in a or a['a'] == I(3)) and 'or' in a:
                ar.append(('object_representation', s_of(a['or']) if cat == 2 else a['or']))
            out.append(('arg', Dd(ar)))
        return Dd(out)

    def conv(c, v):
        if c == 'CId':
            return v
        if c == 'CStr':
            return s_of(v)
        if c == 'CLogType':
            return v
        if c == 'CTraceId':
            return tid(v['i'])
        if c == 'CTz':
            return two(v, 'mw', 'dt', 'minutes_west', 'dst_time')
        if c == 'CLossCount':
            return two(v, 'c', 's', 'count', 'unknown')
        if c == 'CBacktrace':
            return L([two(lv, 'iu', 'io', 'image_uuid', 'image_offset') for lv in v['l']])
        if c == 'CUnixDate':
            d = dict(v['d'])
            return I(d['sec']['i'] * 1000000 + d['usec']['i'])
        if c == 'CDecomposed':
            d = dict(v['d'])
            out = [('placeholder_count', d['pc']), ('state', d['s'])]
            if d['pc']['i']:
                out.append(('segments', L([seg(sv) for sv in d['seg']['l']])))
            return Dd(out)
        raise ValueError(c)
    produced = {}
    for k, f, c in x['mandatory']:
        produced[f] = conv(c, evd[k])
    for k, f, c in x['optional']:
        if k in evd:
            produced[f] = conv(c, evd[k])
    obj = []
    for name, dflt in x['fields']:
        if name in produced:
            obj.append([name, produced[name]])
        elif dflt.startswith('(Some (PInt '):
            obj.append([name, I(int(dflt[len('(Some (PInt '):-2]))])
        else:
            obj.append([name, DEFAULTS[dflt]])
    return obj


def norm(v):
    """tagged value with dict items as lists (what json round-trips)"""
    if isinstance(v, dict) and 'd' in v:
        return {'d': [[k, norm(x)] for k, x in v['d']]}
    if isinstance(v, dict) and 'l' in v:
        return {'l': [norm(x) for x in v['l']]}
    return v


def run(ctx, model_ok):
    x = load_format()
    rng = ctx.rng
    n = 400 if ctx.quick() else 6000
    modes = ['random', 'random', 'single', 'allbut', 'all', 'sparse', 'malformed']
    gens = [(modes[i % len(modes)],) + gen_case(rng, x, modes[i % len(modes)]) for i in range(n)]
    res = vlib.run_impl('run_oslog.py', {'cases': [{'strings': [[i, s] for i, s in enumerate(st)], 'event': Dd(ev)}
                                                   for _, st, ev in gens]})['results']
    ctx.evaluations = n
    ctx.rule = ('raw log records with all mandatory keys and: a random half / one / all-but-one / all / a sparse third of the '
                f'{len(x["optional"])} optional keys, values in range per conversion kind (string indices, log types, '
                'trace-identifier words built from every namespace/type/flag enum incl. flag sets, timezone/loss/backtrace '
                'shapes, decomposed messages from a grammar with 0..3 segments); every 7th malformed (missing mandatory key, '
                'out-of-range enum / string index, unknown key); non-trivial = distinct decodable record with >= 3 optional keys')
    # the same records read back from inside a version-3 dump whose thread map declares the record's thread: the container
    # hands the record to the decoder unchanged (absent keys stay absent)
    vidx = [i for i, (mode, st, ev) in enumerate(gens) if mode != 'malformed' and 'ok' in res[i] and len(set(st)) == len(st)]
    vidx = vidx[:(60 if ctx.quick() else 1200)]
    vreq = []
    for i in vidx:
        _, st, ev = gens[i]
        tid = dict(ev).get('tid', {'i': 0})
        tid = tid.get('i', 0) if isinstance(tid, dict) else 0
        vreq.append({'strings': [[j, s] for j, s in enumerate(st)], 'event': Dd(ev), 'via_dump': True, 'unaligned': len(vreq) % 2 == 1,
                     'threads': [[tid, 4242, 'mapped-process'], [1, 1, 'launchd']]})
    vres = vlib.run_impl('run_oslog.py', {'cases': vreq})['results'] if vreq else []
    ctx.evaluations += len(vreq)
    for i, r2 in zip(vidx, vres):
        if r2.get('ok') != res[i]['ok']:
            _, st, ev = gens[i]
            diff = [(a[0], a[1], b[1]) for a, b in zip(res[i]['ok'], r2.get('ok') or []) if a != b][:3]
            ctx.failing.append({'input': {'strings': st, 'event': [list(e) for e in ev], 'inside_a_dump_whose_thread_map_declares_the_thread': True},
                                'expected': {d[0]: d[1] for d in diff} or 'the decoded record', 'actual': {d[0]: d[2] for d in diff} or r2,
                                'why': 'decoded record differs from: present keys carry their (converted) values, absent keys keep '
                                       'their defaults (the record was read from a dump whose thread map declares its thread)'})
    # records whose equal time-zone sub-dictionaries are one shared object (as a binary plist may hold them): decoding reads
    # the record, it does not consume it
    aidx = [i for i, (mode, st, ev) in enumerate(gens) if mode != 'malformed' and 'ok' in res[i]][:(80 if ctx.quick() else 1500)]
    areq = []
    for i in aidx:
        _, st, ev = gens[i]
        d = dict(ev)
        ev2 = list(ev)
        if 'utz' in d:
            for k in ('lsutz', 'leutz'):
                ev2 = [(kk, vv) for kk, vv in ev2 if kk != k] + [(k, d['utz'])]
        areq.append({'strings': [[j, s] for j, s in enumerate(st)], 'event': Dd(ev2), 'alias': True})
        areq.append({'strings': [[j, s] for j, s in enumerate(st)], 'event': Dd(ev2)})
    ares = vlib.run_impl('run_oslog.py', {'cases': areq})['results'] if areq else []
    ctx.evaluations += len(areq)
    for k in range(0, len(ares), 2):
        if ares[k] != ares[k + 1]:
            ctx.failing.append({'input': {'event': areq[k]['event'], 'equal_sub_dictionaries_are_one_object': True},
                                'expected': ares[k + 1].get('ok', ares[k + 1]), 'actual': ares[k].get('ok', ares[k]),
                                'why': 'decoded record differs when equal sub-dictionaries of the raw record are one shared object'})
    cases = []
    keyset = {k for k, _, _ in x['optional']}
    field_of = {k: f for k, f, _ in x['mandatory'] + x['optional']}
    for (mode, st, ev), r in zip(gens, res):
        ctx.count('mode:' + mode)
        ctx.count('ok' if 'ok' in r else f'err{r["err"]}')
        present = [k for k, _ in ev if k in keyset]
        if 'ok' in r:
            if len(present) >= 3:
                ctx.nontrivial.add(repr(ev))
            obs = '(inr ' + coq_items(r['ok']) + ')'
            # oracle: the object the property describes (present keys converted, absent keys at their defaults)
            if mode != 'malformed':
                exp = [[k, norm(v)] for k, v in spec_decode(x, st, ev)]
                if exp != r['ok']:
                    diff = [(a[0], a[1], b[1]) for a, b in zip(exp, r['ok']) if a != b][:3]
                    ctx.failing.append({'input': {'strings': st, 'event': [list(e) for e in ev]},
                                        'expected': {d[0]: d[1] for d in diff}, 'actual': {d[0]: d[2] for d in diff},
                                        'why': 'decoded record differs from: present keys carry their (converted) values, '
                                               'absent keys keep their defaults, trace identifier = inverse of its bit packing'})
        elif r['err'] in (1, 2, 3):
            obs = f'(inl {r["err"]})'
            if mode != 'malformed':
                ctx.failing.append({'input': {'strings': st, 'event': ev}, 'expected': 'decoding succeeds',
                                    'actual': {1: 'KeyError', 2: 'ValueError', 3: 'TypeError'}[r['err']],
                                    'why': 'a record with all mandatory fields and in-range optional fields failed to decode'})
        else:
            ctx.failing.append({'input': {'strings': st, 'event': ev}, 'expected': 'decoding succeeds', 'actual': r['err'],
                                'why': 'unexpected exception class'})
            continue
        strs = clist([f'({i}, {vlib.cstr_bytes(s)})' for i, s in enumerate(st)])
        cases.append(f'({strs}, {coq_items(ev)}, {obs})')
    ctx.samples = [{'event': gens[0][2], 'impl': res[0]}]
    if model_ok:
        bad, errors = vlib.run_model_cases('C16', HEADER, 'ocase', 'ocheck', cases, per_file=40)
        ctx.traces_validated = len(cases) - len(bad)
        if errors:
            ctx.broken.append(('correspondence', f'case files failed to evaluate: {errors[0]}'))
        for b in bad[:8]:
            ctx.broken.append(('correspondence', {'case': cases[b][:1500]}))


def replay(payload):
    inp = payload['input']
    r = vlib.run_impl('run_oslog.py', {'cases': [{'strings': [[i, s] for i, s in enumerate(inp['strings'])],
                                                  'event': Dd([tuple(e) for e in inp['event']])}]})['results'][0]
    print('implementation:', r)
    print('expected:', payload.get('expected'))
    return 0

"""C15 — callstacks take the sampled frames and attribute each to the right image."""
from .. import vlib
from ..translate import tr_handlers, tr_composite, tr_callstacks
from . import composite_common as cc

TRANSLATORS = [tr_handlers.translate, tr_composite.translate, tr_callstacks.translate]
MODEL_TARGETS = ['theories/CompositeCases.vo']
PROOF_TARGETS = ['props/C15.vo']
PROP_FILE = 'props/C15.v'
ASSUMPTIONS = [
    'dyld_addresses / dyld_uuids (two parallel lists) are modelled as one list of pairs; that the statements of the current '
    'source, run on the two lists (list.insert, negative indexing, IndexError written out), compute that model is proved '
    '(c15_code_refines_model over gen/GenCallstacks.v); bisect.bisect on a list = number of elements <= x (holds on sorted '
    'lists, which is the invariant; validated by the correspondence)',
    'the sampler decoder (perf.handle_event) and the launch decoder are the hand models of Composite.v, validated here '
    'through the real decoders; pairing of START/END into windows is C04',
]


def run(ctx, model_ok):
    env = cc.Env()
    n = 150 if ctx.quick() else 2500
    cases_ws = [cc.gen_windows(ctx.rng, env, ctx.rng.choice([3, 8, 15, 30])) for _ in range(n)]
    req = [[[e for e in w] for w in ws] for ws in cases_ws]
    res = vlib.run_impl('run_composite.py', {'cases': req, 'declared': True})['results']
    ctx.evaluations = n
    ctx.rule = ('streams of 3..30 windows: image announcements (addresses from a pool of 6 incl. adjacent and repeated ones), '
                'launch windows with nested image-map / shared-cache records, sampler windows (flag words with/without '
                'USTACK/TH_INFO, 0..2 stack headers with count below/at/above the data supplied, 0..5 data records, frames '
                'at addr-1/addr/addr+1/0/2^64-1), page faults, unrelated syscalls; non-trivial = distinct stream with a '
                'callstack whose frames hit >= 2 distinct images and >= 1 frame below every image')
    cases, idx = [], []
    for i, (ws, r) in enumerate(zip(cases_ws, res)):
        exp = cc.oracle_callstacks(ws, env)
        ctx.count('callstacks', len(r['callstacks']))
        for c in r['callstacks']:
            uu = set()
            none = 0
            j = 3
            while j < len(c):
                if c[j + 1] == 1:
                    uu.add((c[j + 2], c[j + 3]))
                    j += 5
                else:
                    none += 1
                    j += 2
            if len(uu) >= 2 and none >= 1:
                ctx.nontrivial.add(repr(ws))
        if r['callstacks'] != exp:
            ctx.failing.append({'input': {'windows': ws}, 'expected': exp, 'actual': r['callstacks'],
                                'why': 'callstacks differ from: frames = first N words of the data records; each attributed '
                                       'to the greatest earlier-announced load address <= frame (first identity wins)'})
            continue
        cases.append(cc.to_case(ws, env, r))
        idx.append(i)
    ctx.samples = [{'windows': cases_ws[0][:4], 'impl_callstacks': res[0]['callstacks'][:2]}]
    if model_ok:
        bad, errors = vlib.run_model_cases('C15', cc.HEADER, 'ccase', 'ccheck', cases, per_file=25)
        ctx.traces_validated = len(cases) - len(bad)
        if errors:
            ctx.broken.append(('correspondence', f'case files failed to evaluate: {errors[0]}'))
        for b in bad[:10]:
            ctx.broken.append(('correspondence', {'windows': cases_ws[idx[b]], 'impl': res[idx[b]]}))


def replay(payload):
    env = cc.Env()
    ws = payload['input']['windows']
    r = vlib.run_impl('run_composite.py', {'cases': [ws]})['results'][0]
    print('implementation callstacks:', r['callstacks'])
    print('property demands         :', cc.oracle_callstacks(ws, env))
    rc, out = vlib.eval_in_coq('C15', cc.HEADER, [f'ccheck {cc.to_case(ws, env, r)}'])
    print('model agrees with implementation:', out.strip())
    return 0

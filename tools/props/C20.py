"""C20 — composite traces reflect exactly the records nested in their window."""
from .. import vlib
from ..translate import tr_handlers, tr_composite
from . import composite_common as cc

TRANSLATORS = [tr_handlers.translate, tr_composite.translate]
MODEL_TARGETS = ['theories/CompositeCases.vo']
PROOF_TARGETS = ['props/C20.vo']
PROP_FILE = 'props/C20.v'
ASSUMPTIONS = [
    'nested records are recognised by the name the code table gives their event id (kind, a function of the code), the '
    'page-fault decoder by its hard-coded id range; the constants are re-read from the source on every run (GenComposite.v)',
    'sorted(key=load_addr) is modelled as a stable insertion sort (stability proved: launch_stable)',
    'enum/flag rendering of the decoded words is C11; here flag lists are compared as the masked word',
]


def run(ctx, model_ok):
    env = cc.Env()
    n = 150 if ctx.quick() else 2500
    cases_ws = [cc.gen_windows(ctx.rng, env, ctx.rng.choice([3, 8, 15, 30])) for _ in range(n)]
    res = vlib.run_impl('run_composite.py', {'cases': cases_ws, 'declared': True})['results']
    ctx.evaluations = sum(len(ws) for ws in cases_ws)
    ctx.rule = ('windows from a grammar: sampler windows (flag words incl. neither/both of TH_INFO and USTACK, 0..2 thread-data, '
                '0..2 stack-header, 0..5 stack-data records, shuffled, with unrelated records), launch windows (0..6 nested '
                'image-map / shared-cache-map records with repeated load addresses), page-fault windows (0..3 nested real-fault '
                'records of the 4 kinds incl. the undecoded one, unrelated records, END result zero/non-zero); non-trivial = '
                'distinct composite window holding >= 2 nested records relevant to its decoder')
    cases, idx = [], []
    for i, (ws, r) in enumerate(zip(cases_ws, res)):
        bad_here = False
        for w, d, err in zip(ws, r['decodes'], r['errors']):
            k = env.kind(w[0][0])
            ctx.count({1: 'sampler', 7: 'launch', 8: 'vmfault', 5: 'map_a'}.get(k, 'other'))
            rel = [e for e in w[1:] if env.kind(e[0]) in (2, 3, 4, 5, 6) or e[0] in env.real_codes]
            if k in (1, 7, 8) and len(rel) >= 2:
                ctx.nontrivial.add(repr(w))
            exp = cc.oracle_decode(w, env)
            if d != exp:
                ctx.failing.append({'input': {'windows': [w]}, 'expected': exp, 'actual': d if err is None else err,
                                    'why': 'composite trace does not reflect the records nested in its window'})
                bad_here = True
                break
        if not bad_here:
            cases.append(cc.to_case(ws, env, r))
            idx.append(i)
    # the same records through feed(): every record of a thread between a START and its END is in the window its decoder
    # sees, whether or not that record has a decoder of its own (windows by the independent statement of C04)
    from . import pairing_common as pc
    uni = pc.Universe()
    sres = vlib.run_impl('run_composite.py', {'cases': cases_ws, 'stream': True})['results']
    for ws, r in zip(cases_ws, sres):
        flat = [e for w in ws for e in w]
        hist = [[e[3], e[0], e[4], e[1]] for e in flat]
        ctx.evaluations += len(flat)
        for i, (win, got) in enumerate(zip(pc.spec_outputs(hist, uni), r['stream'])):
            if win is None:
                exp = None
            else:
                w = [flat[j] for j in win]
                try:
                    exp = cc.oracle_decode(w, env)
                except Exception:
                    continue
                if exp[:1] == [4] and got == [4, 0]:
                    continue            # the decoder rejects the window (C20 windows section judges that)
            if got != exp and not (got is not None and exp is not None and exp[:1] == [0] and got[:1] == [0]):
                ctx.failing.append({'input': {'windows': ws, 'stream': True, 'record': i}, 'expected': exp, 'actual': got,
                                    'why': 'fed through feed(), the composite trace handed out at this record does not reflect the '
                                           'records of its thread between its START and END'})
                break
        if ctx.failing and ctx.failing[-1]['input'].get('stream'):
            if len([f for f in ctx.failing if f['input'].get('stream')]) >= 5:
                break
    ctx.samples = [{'window': cases_ws[0][0], 'impl_decode': res[0]['decodes'][0]}]
    if model_ok:
        bad, errors = vlib.run_model_cases('C20', cc.HEADER, 'ccase', 'ccheck', cases, per_file=25)
        ctx.traces_validated = len(cases) - len(bad)
        if errors:
            ctx.broken.append(('correspondence', f'case files failed to evaluate: {errors[0]}'))
        for b in bad[:10]:
            ctx.broken.append(('correspondence', {'windows': cases_ws[idx[b]], 'impl': res[idx[b]]}))


def replay(payload):
    env = cc.Env()
    ws = payload['input']['windows']
    r = vlib.run_impl('run_composite.py', {'cases': [ws], 'stream': bool(payload['input'].get('stream'))})['results'][0]
    print('implementation:', r['decodes'], r['errors'])
    if payload['input'].get('stream'):
        print('through feed(), per record:', r['stream'])
    print('property demands:', [cc.oracle_decode(w, env) for w in ws])
    rc, out = vlib.eval_in_coq('C20', cc.HEADER, [f'ccheck {cc.to_case(ws, env, r)}'])
    print('model agrees with implementation:', out.strip())
    return 0

"""Shared by C15/C20: window grammar for the composite decoders, independent oracles, Coq case printer."""
from .. import vlib
from ..vlib import cN, clist
from ..translate import tr_handlers, tr_composite

HEADER = ('From Coq Require Import NArith List.\nFrom Kd Require Import theories.Base theories.Harness '
          'theories.CompositeCases.\nImport ListNotations.\nOpen Scope N_scope.')

KIND = {'PERF_Event': 1, 'PERF_THD_Data': 2, 'PERF_STK_UHdr': 3, 'PERF_STK_UData': 4, 'DYLD_uuid_map_a': 5,
        'DYLD_uuid_shared_cache_a': 6, 'DBG_DYLD_TIMING_LAUNCH_EXECUTABLE': 7, 'MACH_vmfault': 8}


class Env:
    def __init__(self):
        try:
            self.consts = tr_composite.extract()
        except Exception:
            # the translator rejects the current source: inputs are still generated, and the oracle still judges them, from
            # the constants of the pinned tree (committed snapshot), so that a failing input can be searched for
            import json
            import os
            with open(os.path.join(os.path.dirname(__file__), 'composite_snapshot.json')) as fd:
                self.consts = json.load(fd)
        rows, _ = tr_handlers.rows_for_harness()
        self.codes = tr_handlers.last_wins(tr_handlers.codes_entries())
        self.decodable = {r[1] for r in rows}
        self.by_name = {}
        for i, n in self.codes.items():
            self.by_name.setdefault(n, i)
        c = self.consts
        # kinds as the decoders see them: by the names they compare against, through the code table
        self.kind_by_name = {c['perf_names'][0]: 2, c['perf_names'][1]: 3, c['perf_names'][2]: 4,
                             c['launch_names'][0]: 5, c['launch_names'][1]: 6,
                             'PERF_Event': 1, 'DBG_DYLD_TIMING_LAUNCH_EXECUTABLE': 7, 'MACH_vmfault': 8}
        self.masks = (sum(c['SamplerAction'].values()), sum(c['KperfTiState'].values()),
                      sum(c['CallstackFlag'].values()))
        self.ft_vals = sorted(c['DbgVmFaultType'].values())
        self.real_codes = [i for i in sorted(self.codes) if c['vm_range'][0] <= i <= c['vm_range'][1]]

    def kind(self, code):
        return self.kind_by_name.get(self.codes.get(code, ''), 0)

    def code(self, name):
        return self.by_name[name]

    def real_decodable(self, code):
        return self.codes.get(code) in self.decodable


def gen_windows(rng, env, n_windows):
    """a stream of windows: announcements, launches, samples, faults and unrelated syscalls"""
    pool = sorted(rng.sample(range(0x1000, 0x1100), 4)) + [0x100000000, 0x100000001]
    C = env.code
    unrelated = [C('BSC_read'), C('BSC_getpid'), C('MACH_vmfault') + 0x400]
    ws = []
    ts = [1]

    def ev(code, vals, q=0, tid=7):
        ts[0] += 1
        return [code, vals, ts[0], tid, q]

    def addr():
        return rng.choice(pool)

    def frame():
        a = rng.choice(pool)
        return rng.choice([a - 1, a, a + 1, a + 0x50, 0, 2 ** 64 - 1, rng.getrandbits(40)])

    for _ in range(n_windows):
        r = rng.random()
        tid = rng.choice([7, 8])
        if r < 0.25:
            ws.append([ev(C('DYLD_uuid_map_a'), [rng.getrandbits(64), rng.getrandbits(64), addr(), rng.getrandbits(8)],
                          0, tid)])
        elif r < 0.4:
            w = [ev(C('DBG_DYLD_TIMING_LAUNCH_EXECUTABLE'), [0, rng.getrandbits(32), 0, 0], 1, tid)]
            for _k in range(rng.randint(0, 6)):
                nm = rng.choice(['DYLD_uuid_map_a', 'DYLD_uuid_shared_cache_a', 'DYLD_uuid_map_a', 'BSC_read'])
                w.append(ev(C(nm), [rng.getrandbits(64), rng.getrandbits(64), addr(), 1], rng.choice([0, 0, 1, 2]), tid))
            w.append(ev(C('DBG_DYLD_TIMING_LAUNCH_EXECUTABLE'), [0, 0, 0, 0], 2, tid))
            ws.append(w)
        elif r < 0.75:
            flags = rng.choice([0x08, 0x09, 0x01, 0x00, 0x0c, 0x3fff, rng.getrandbits(14), 0x4008, 0x10])
            w = [ev(C('PERF_Event'), [flags, rng.randint(0, 5), 0, 0], 1, tid)]
            nested = []
            for _k in range(rng.choice([0, 1, 1, 2])):
                nested.append(ev(C('PERF_THD_Data'), [rng.randint(1, 99), rng.randint(1, 99), rng.getrandbits(32),
                                                       rng.choice([1, 0x7f, 0x10042, rng.getrandbits(20)])], 0, tid))
            ndata = rng.choice([0, 1, 2, 3, 5])
            supplied = 4 * ndata
            for _k in range(rng.choice([0, 1, 1, 1, 2])):
                nfr = rng.choice([0, 1, max(0, supplied - 1), supplied, supplied + 1, supplied + 7, 2 ** 63])
                nested.append(ev(C('PERF_STK_UHdr'), [rng.choice([1, 5, 0x1ff, rng.getrandbits(12)]), nfr,
                                                       rng.choice([0, 0, 1, 3, rng.getrandbits(8)]), rng.choice([0, 0, 2, rng.getrandbits(8)])], 0, tid))
            for _k in range(ndata):
                nested.append(ev(C('PERF_STK_UData'), [frame() for _ in range(4)], 0, tid))
            for _k in range(rng.choice([0, 1, 2])):
                nested.append(ev(rng.choice(unrelated), [rng.getrandbits(8)] * 4, rng.choice([0, 1, 2, 3]), tid))
            if rng.random() < 0.5:
                rng.shuffle(nested)
            w += nested
            w.append(ev(C('PERF_Event'), [0, 0, 0, 0], 2, tid))
            ws.append(w)
        elif r < 0.92:
            w = [ev(C('MACH_vmfault'), [0, rng.getrandbits(40), rng.choice([0, 1, 2]), 0], 1, tid)]
            for _k in range(rng.choice([0, 0, 1, 1, 2, 3])):
                code = rng.choice(env.real_codes + [C('BSC_read'), C('MACH_vmfault')])
                prot = rng.choice([0, 1, 3, 5, 0xff, rng.getrandbits(8)])
                ftype = rng.choice(env.ft_vals)
                w.append(ev(code, [rng.getrandbits(40), (rng.getrandbits(8) << 16) | (prot << 8) | ftype,
                                   rng.getrandbits(16), rng.randint(1, 500)], rng.choice([0, 0, 1, 2]), tid))
            w.append(ev(C('MACH_vmfault'), [0, 0, rng.choice([0, 0, 0, 1, 5]), rng.choice(env.ft_vals)], 2, tid))
            ws.append(w)
        elif r < 0.96:
            # records of the image family that are NOT announcements of a loaded image: an unmap notice, a shared-cache record
            # outside a launch window (same layout as a map record, addresses of the same pool)
            nm = rng.choice(['DYLD_uuid_unmap_a', 'DYLD_uuid_shared_cache_a'])
            ws.append([ev(C(nm), [rng.getrandbits(64), rng.getrandbits(64), addr(), rng.getrandbits(8)], 0, tid)])
        else:
            ws.append([ev(C('BSC_read'), [3, 0x1000, 16, 0], 1, tid), ev(C('BSC_read'), [0, 16, 0, 0], 2, tid)])
    return ws


def oracle_callstacks(ws, env):
    """independent statement of C15 from the windows"""
    announced = {}          # first announcement wins
    out = []

    def announce(a, u):
        if a not in announced:
            announced[a] = u

    for w in ws:
        head = w[0]
        k = env.kind(head[0])
        if k == 5:
            announce(head[1][2], (head[1][0], head[1][1]))
        elif k == 7:
            imgs = [(e[1][2], (e[1][0], e[1][1])) for e in w if env.kind(e[0]) == 5]
            imgs += [(e[1][2], (e[1][0], e[1][1])) for e in w if env.kind(e[0]) == 6]
            imgs.sort(key=lambda i: i[0])
            for a, u in imgs:
                announce(a, u)
        elif k == 1:
            if not (head[1][0] & env.consts['SamplerAction']['SAMPLER_USTACK']):
                continue
            hdrs = [e for e in w if env.kind(e[0]) == 3]
            if not hdrs:
                continue
            words = [x for e in w if env.kind(e[0]) == 4 for x in e[1]]
            frames = words[:hdrs[0][1][1]]
            o = [head[2], head[3], len(frames)]
            for x in frames:
                below = [a for a in announced if a <= x]
                if below:
                    a = max(below)
                    o += [x, 1, announced[a][0], announced[a][1], x - a]
                else:
                    o += [x, 0]
            out.append(o)
    return out


def oracle_decode(w, env):
    """independent statement of C20 for one window (same flat encoding)"""
    head, last = w[0], w[-1]
    k = env.kind(head[0])
    c = env.consts
    if k == 1:
        flags = head[1][0]
        out = [1, flags & env.masks[0], head[1][1]]
        th = [e for e in w if env.kind(e[0]) == 2]
        if flags & c['SamplerAction']['SAMPLER_TH_INFO'] and th:
            v = th[0][1]
            out += [1, v[0], v[1], v[2], (v[3] & 0xffff) & env.masks[1]]
        else:
            out += [0]
        hdrs = [e for e in w if env.kind(e[0]) == 3]
        if flags & c['SamplerAction']['SAMPLER_USTACK'] and hdrs:
            words = [x for e in w if env.kind(e[0]) == 4 for x in e[1]]
            fr = words[:hdrs[0][1][1]]
            out += [1, hdrs[0][1][0] & env.masks[2], len(fr)] + fr
        else:
            out += [0]
        return out
    if k == 7:
        imgs = [(e[1][2], e[1][0], e[1][1]) for e in w if env.kind(e[0]) == 5]
        imgs += [(e[1][2], e[1][0], e[1][1]) for e in w if env.kind(e[0]) == 6]
        imgs.sort(key=lambda i: i[0])
        return [2, head[1][1], len(imgs)] + [x for i in imgs for x in i]
    if k == 5:
        return [3, head[1][2], head[1][0], head[1][1]]
    if k == 8:
        result = last[1][2]
        out = [4, 1, head[1][1], 1 if head[1][2] else 0, result]
        if result != 0:
            return out + [0, 0]
        out += [1, last[1][3]]
        real = [e for e in w[1:-1] if c['vm_range'][0] <= e[0] <= c['vm_range'][1]]
        if real and env.real_decodable(real[0][0]):
            out += [1, real[0][1][3], (real[0][1][1] >> 8) & 0xff]
        else:
            out += [0]
        return out
    return [0]


def to_case(ws, env, res):
    codes = sorted({e[0] for w in ws for e in w})
    kinds = clist([f'({cN(c)}, {env.kind(c)})' for c in codes if env.kind(c)])
    rd = clist([cN(c) for c in codes if env.real_decodable(c)])
    ft = clist([str(v) for v in env.ft_vals])
    masks = f'({cN(env.masks[0])}, {cN(env.masks[1])}, {cN(env.masks[2])})'
    wl = clist([clist([f'({cN(e[0])}, {clist([cN(v) for v in e[1]])}, {cN(e[2])}, {cN(e[3])})' for e in w]) for w in ws])
    od = clist([clist([cN(x) for x in d]) for d in res['decodes']])
    oc = clist([clist([cN(x) for x in d]) for d in res['callstacks']])
    return f'({kinds}, {rd}, {ft}, {masks}, {wl}, {od}, {oc})'

"""Shared by C04/C05: code universe from the source tables, history generators, an independent Python
statement of the window semantics (the search oracle), and the Coq case printer."""
from .. import vlib
from ..vlib import cN, clist
from ..translate import tr_handlers

HEADER = ('From Coq Require Import NArith List.\nFrom Kd Require Import theories.Base theories.Harness '
          'theories.PairingCases.\nImport ListNotations.\nOpen Scope N_scope.')

LEARN_KIND = {'TRACE_DATA_NEWTHREAD': 1, 'TRACE_DATA_EXEC': 2, 'TRACE_STRING_NEWTHREAD': 3, 'TRACE_STRING_EXEC': 4}


class Universe:
    """codes grouped by how the pairing machine treats them, derived from the source by the translators"""

    def __init__(self):
        rows, _ = tr_handlers.rows_for_harness()
        self.codes = tr_handlers.last_wins(tr_handlers.codes_entries())       # id -> name
        self.decodable_names = {r[1] for r in rows}
        self.trace_names = {r[1] for r in rows if r[0] == 'trace'}
        by_name = {}
        for i, n in self.codes.items():
            by_name.setdefault(n, []).append(i)
        self.by_name = by_name
        self.trace_codes = sorted(i for i, n in self.codes.items() if n in self.trace_names)
        self.plain_decodable = sorted(i for i, n in self.codes.items()
                                      if n in self.decodable_names and n not in self.trace_names)
        self.undecoded = sorted(i for i, n in self.codes.items() if n not in self.decodable_names)

    def classify(self, code):
        """(dom, dec, learner kind) exactly as feed()/parse_event_list() read the tables"""
        name = self.codes.get(code)
        if name is None:
            return (False, False, 0)
        return (name in self.trace_names, name in self.decodable_names, LEARN_KIND.get(name, 0))

    def unknown(self, rng):
        while True:
            c = rng.getrandbits(32) & 0xfffffffc
            if c not in self.codes:
                return c


def pack_name(rng):
    """four words whose 32 bytes are a NUL-padded text (valid UTF-8), as the kernel writes names"""
    kinds = rng.random()
    if kinds < 0.15:
        s = ''
    elif kinds < 0.8:
        s = ''.join(rng.choice('abcdefghijklmnopqrstuvwxyzABCDEF_-. 0123456789') for _ in range(rng.randint(1, 20)))
    else:
        s = ''.join(rng.choice(['é', 'ß', '日', 'x', 'Ω', 'k']) for _ in range(rng.randint(1, 8)))
    b = s.encode('utf-8')[:32]
    while True:
        try:
            b.decode('utf-8')
            break
        except UnicodeDecodeError:
            b = b[:-1]
    b = b + b'\0' * (32 - len(b))
    return [int.from_bytes(b[8 * i:8 * i + 8], 'little') for i in range(4)]


def gen_words(rng, uni, code):
    name = uni.codes.get(code, '')
    if name.startswith('TRACE_STRING') and name != 'TRACE_STRING_GLOBAL':
        return pack_name(rng)
    if name == 'TRACE_STRING_GLOBAL':
        w = pack_name(rng)
        return [rng.getrandbits(16), rng.randint(1, 9)] + w[:2]
    small = [rng.choice([0, 1, 2, 3, 7, 100, 2 ** 31, rng.getrandbits(16)]) for _ in range(4)]
    return small


def gen_history(rng, uni, length, n_tids, n_codes, p_trace=0.3):
    """biased to unmatched, repeated, nested and crossing START/END pairs"""
    tids = [rng.choice([1, 2, 3, 0x100, 2 ** 40 + 5]) for _ in range(n_tids)]
    tids = list(dict.fromkeys(tids)) or [1]
    pool = []
    for _ in range(n_codes):
        r = rng.random()
        if r < p_trace:
            pool.append(rng.choice(uni.trace_codes))
        elif r < 0.75:
            pool.append(rng.choice(uni.plain_decodable))
        elif r < 0.9:
            # known to the code table but without a decoder; every third one of the class of the trace-domain codes
            same_class = [c for c in uni.undecoded if c >> 24 == 7]
            pool.append(rng.choice(same_class) if same_class and rng.random() < 0.35 else rng.choice(uni.undecoded))
        else:
            c = uni.unknown(rng)
            r2 = rng.random()
            if r2 < 0.25:
                c = 0x07000000 | (c & 0x00fffffc)         # unknown to the table, class of the trace-domain codes
                if c in uni.codes:
                    c = uni.unknown(rng)
            elif r2 < 0.6:
                # unknown to the table, next to a trace-domain code (same class and subclass: the slots a newer kernel would use)
                near = [t + d for t in uni.trace_codes for d in (4, 8, 12, -4, 0x40, 0x100) if 0 <= t + d < 2 ** 32 and t + d not in uni.codes]
                if near:
                    c = rng.choice(near)
            pool.append(c)
    hist = []
    for _ in range(length):
        tid = rng.choice(tids)
        code = rng.choice(pool)
        q = rng.choices([0, 1, 2, 3], weights=[2, 4, 4, 1])[0]
        hist.append([tid, code, q, gen_words(rng, uni, code)])
    return hist


def spec_outputs(hist, uni):
    """Independent executable statement of C04 (no tables kept): per event, the window the property demands."""
    cls = [uni.classify(e[1]) for e in hist]

    def most_recent_start_or_end(upto, tid, code):
        for j in range(upto - 1, -1, -1):
            if hist[j][0] == tid and hist[j][1] == code and hist[j][2] in (1, 2):
                return j
        return None

    def is_open(upto, tid, code):
        j = most_recent_start_or_end(upto, tid, code)
        return j is not None and hist[j][2] == 1

    outs = []
    for i, (tid, code, q, _) in enumerate(hist):
        dom, dec, _k = cls[i]
        if q == 1:
            outs.append(None)
        elif q == 2:
            if not is_open(i, tid, code):
                outs.append(None)
                continue
            s = most_recent_start_or_end(i, tid, code)
            w = [s]
            for j in range(s + 1, i):
                if hist[j][0] != tid or cls[j][0] != dom:
                    continue
                if hist[j][2] == 2 and not is_open(j, hist[j][0], hist[j][1]):
                    continue          # stray END
                w.append(j)
            w.append(i)
            outs.append(w if dec else None)
        elif q == 0 and is_open(i, tid, code):
            outs.append(None)        # continuation fragment, swallowed (C08)
        else:
            outs.append([i] if dec else None)
    return outs


def spec_learn(hist, uni):
    """names learned: a STRING record names the pid of the last DATA record of the same emitting thread"""
    outs = spec_outputs(hist, uni)
    slots = {}
    log = []
    for i, w in enumerate(outs):
        if w is None:
            continue
        h = hist[w[0]]
        kind = uni.classify(h[1])[2]
        tid = h[0]
        slot = slots.setdefault(tid, [None, None])
        name = b''.join(x.to_bytes(8, 'little') for x in h[3]).replace(b'\0', b'')
        if kind == 1:
            slot[0] = h[3][1]
        elif kind == 2:
            slot[1] = h[3][0]
        elif kind == 3 and slot[0] is not None:
            log.append([tid, slot[0], name.hex()])
        elif kind == 4 and slot[1] is not None:
            log.append([tid, slot[1], name.hex()])
    return log


def to_case(hist, uni, res):
    codes = sorted({e[1] for e in hist})
    cl = clist([f'({cN(c)}, ({"true" if uni.classify(c)[0] else "false"}, '
                f'{"true" if uni.classify(c)[1] else "false"}, {uni.classify(c)[2]}))' for c in codes])
    ins = clist([f'({cN(t)}, {cN(c)}, {q}, {clist([cN(w) for w in ws])})' for t, c, q, ws in hist])
    ow = clist(['None' if o is None else '(Some ' + clist([cN(x) for x in o]) + ')' for o in res['outs']])
    ol = clist([f'({cN(t)}, ({cN(p)}, {vlib.cbytes(bytes.fromhex(n))}))' for t, p, n in res['learn']])
    return f'({cl}, {ins}, {ow}, {ol})'


def nontrivial(hist, outs):
    """at least one delivered END window of >= 3 records while another code was open on that thread"""
    open_ = {}
    ok = False
    for i, (tid, code, q, _) in enumerate(hist):
        if q == 1:
            open_.setdefault(tid, set()).add(code)
        elif q == 2:
            if outs[i] is not None and len(outs[i]) >= 3 and len(open_.get(tid, ())) >= 2:
                ok = True
            open_.get(tid, set()).discard(code)
    return ok


def scale_histories(uni, quick):
    """large histories with the outputs C04 demands written down by construction: many threads, many open codes on one
    thread, a very long window - sizes past the usual powers of two, where a bounded table / cache / queue would show"""
    rd = uni.by_name['BSC_read'][0]
    gp = uni.by_name['BSC_getpid'][0]
    z = [0, 0, 0, 0]
    out = []
    for n in ([1100, 4200] if quick else [1100, 4200, 70000]):
        # n threads each open a read, then each closes it (same order): every END delivers [its START, itself]
        h = [[1000 + t, rd, 1, z] for t in range(n)] + [[1000 + t, rd, 2, z] for t in range(n)]
        out.append(('threads-%d' % n, h, [None] * n + [[t, n + t] for t in range(n)]))
        # round robin over the same threads, two calls each
        h2, exp2 = [], []
        for rnd in range(2):
            base = len(h2)
            h2 += [[1000 + t, rd, 1, z] for t in range(n)]
            exp2 += [None] * n
            h2 += [[1000 + t, rd, 2, z] for t in range(n)]
            exp2 += [[base + t, base + n + t] for t in range(n)]
        out.append(('threads-rr-%d' % n, h2, exp2))
    for k in ([1500, 5000] if quick else [1500, 5000, 66000]):
        # one call with k complete calls nested in it: the window is everything
        h = [[7, rd, 1, z]] + [[7, gp, 3, z] for _ in range(k)] + [[7, rd, 2, z]]
        out.append(('window-%d' % k, h, [None] + [[i + 1] for i in range(k)] + [list(range(k + 2))]))
    codes = [ids[0] for nm, ids in sorted(uni.by_name.items()) if nm.startswith('BSC_') and uni.classify(ids[0])[1]][:300]
    m = len(codes)
    # m different calls open at once on one thread, closed in opening order: END j delivers its START, everything of the
    # thread after it (later STARTs, earlier ENDs are before... ) up to itself
    h = [[9, c, 1, z] for c in codes] + [[9, c, 2, z] for c in codes]
    exp = [None] * m + [list(range(j, m + j + 1)) for j in range(m)]
    out.append(('open-codes-%d' % m, h, exp))
    return out

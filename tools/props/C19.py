"""C19 — code-table text maps every 'hex-id name' line; a supplied table is honoured."""
from .. import vlib
from ..vlib import cN, clist
from ..translate import tr_handlers, tr_kevent, tr_codes
from . import pairing_common as pc
from ..harness import dumps as D

TRANSLATORS = [tr_kevent.translate, tr_handlers.translate, tr_codes.translate]
MODEL_TARGETS = ['theories/TraceCodesCases.vo']
PROOF_TARGETS = ['props/C19.vo']
PROP_FILE = 'props/C19.v'
ASSUMPTIONS = [
    'str.splitlines / str.split() separator sets and "CRLF is one break" are written out in TraceCodes.v and compared with '
    'the interpreter over all 0x110000 code points on every run',
    "int(tok, 16) is modelled on (0x|0X)?[0-9a-fA-F]+ (the property's id syntax); signs, underscores and non-ASCII digits "
    'are outside the theorem and outside the generated streams',
    'the dict is modelled as the insertion-ordered pair list with last-occurrence lookup',
]
HEADER = ('From Coq Require Import NArith List.\nFrom Kd Require Import theories.Base theories.Harness '
          'theories.TraceCodesCases.\nImport ListNotations.\nOpen Scope N_scope.')

LB = [10, 13, 11, 12, 28, 29, 30, 133, 8232, 8233]
WS = sorted(LB + [9, 32, 31, 160, 5760] + list(range(8192, 8203)) + [8239, 8287, 12288])
INLINE = [c for c in WS if c not in LB]


def gen_text(rng, malformed):
    lines = rng.choice([0, 1, 2, 5, 12])
    ids = [rng.getrandbits(32) for _ in range(3)] + [0, 0xffffffff, 0x40c0548]
    out = []
    built = []
    for _ in range(lines):
        n = rng.choice(ids)
        digits = format(n, 'x')
        if rng.random() < 0.4:
            digits = ''.join(ch.upper() if rng.random() < 0.5 else ch for ch in digits)
        if rng.random() < 0.2:
            digits = '0' * rng.randint(1, 3) + digits
        tok = rng.choice(['', '0x', '0X']) + digits
        sep = [rng.choice(INLINE if rng.random() < 0.15 else [9, 32]) for _ in range(rng.randint(1, 3))]
        name = [rng.choice(list(range(33, 127)) + [233, 0x4e2d]) for _ in range(rng.randint(1, 12))]
        tail = []
        if rng.random() < 0.5:
            tail = [rng.choice([9, 32])] + [rng.choice(list(range(32, 127)) + [9, 0x3000]) for _ in range(rng.randint(0, 15))]
        term = rng.choice([[10], [10], [13, 10], [11], [12], [0x85], [0x2028], [30]])
        line = [ord(c) for c in tok] + sep + name + tail + term
        if malformed:
            r = rng.random()
            if r < 0.15:
                line = [ord(c) for c in tok] + term                               # no name
            elif r < 0.25:
                line = [ord(c) for c in rng.choice(['zz', '0x', 'g', '0xg1'])] + term   # no name and not a number: the id is read first
            elif r < 0.45:
                line = [ord(c) for c in rng.choice(['0x', 'g1', 'x12', '12h', '0xg', 'zz'])] + sep + name + term
            elif r < 0.6:
                line = term                                                      # empty line
            elif r < 0.7:
                line = sep + term                                                # blank line
            elif r < 0.8:
                line = sep + [ord(c) for c in tok] + sep + name + term           # leading whitespace (still fine)
        out += line
        built.append(line)
        if not malformed and len(built) >= 2 and rng.random() < 0.25:
            # an identical copy of an earlier line after other lines for the same id: the LAST line still wins
            again = rng.choice(built[:-1])
            if again[-1] in LB:
                out += again
                built.append(again)
    if out and rng.random() < 0.3:
        # last line without terminator
        while out and out[-1] in LB:
            out.pop()
    return out


def gen_table_case(rng, uni):
    """a custom table (drop / renumber / swap) and a history using it"""
    base = dict(uni.codes)
    rd = uni.by_name['BSC_read'][0]
    op = uni.by_name['BSC_open'][0]
    ts = uni.by_name['TRACE_STRING_GLOBAL'][0]
    lk = uni.by_name['VFS_LOOKUP'][0]
    pool = [rd, op, ts, lk, rng.choice(uni.undecoded)]
    fresh = [uni.unknown(rng) for _ in range(2)]
    table = {c: base[c] for c in pool}
    kind = rng.choice(['drop', 'renumber', 'swap', 'mixed', 'alias'])
    if kind in ('drop', 'mixed'):
        table.pop(rng.choice(pool))
    if kind in ('renumber', 'mixed'):
        src = rng.choice([c for c in pool if c in table])
        table[fresh[0]] = table.pop(src)
    if kind in ('swap', 'mixed'):
        a, b = rng.sample([c for c in table], 2)
        table[a], table[b] = table[b], table[a]
    if kind == 'alias':
        # one decodable name under two ids (the table maps ids to names, nothing makes names unique): both ids are decoded
        src = rng.choice([c for c in (rd, op) if c in table])
        table[fresh[1]] = table[src]
    codes = pool + fresh
    hist = []
    for _ in range(rng.choice([4, 10, 25])):
        c = rng.choice(codes)
        hist.append([rng.choice([1, 2]), c, rng.choices([0, 1, 2, 3], weights=[1, 4, 4, 1])[0],
                     [0, 0, 0, 0] if base.get(c, '').startswith('TRACE') or table.get(c, '').startswith('TRACE') else
                     [rng.getrandbits(8) for _ in range(4)]])
    return table, hist, kind


def run(ctx, model_ok):
    rng = ctx.rng
    uni = pc.Universe()
    n = 300 if ctx.quick() else 4000
    texts = [gen_text(rng, malformed=(i % 4 == 3)) for i in range(n)]
    out = vlib.run_impl('run_codes.py', {'texts': texts, 'separators': True, 'default': True})
    res = out['results']
    # library-oracle validation, exhaustive over code points
    if out['linebreaks'] != sorted(LB) or out['whitespace'] != WS or not out['crlf_one_break']:
        ctx.broken.append(('library-oracle', {'splitlines_set': out['linebreaks'], 'split_set': out['whitespace'],
                                             'model_lb': sorted(LB), 'model_ws': WS}))
    ctx.extra['separator_sets_validated_over_code_points'] = 0x110000 - 0x800
    # bundled table: implementation's parse == the translator's independent reading (GenCodes.v)
    mine = sorted([k, v] for k, v in tr_handlers.last_wins(tr_handlers.codes_entries()).items())
    if out['default'] != mine:
        diff = [x for x in out['default'] if x not in mine][:3] + [x for x in mine if x not in out['default']][:3]
        ctx.failing.append({'input': 'pykdebugparser/trace.codes', 'expected': 'mapping of every hex-id name line',
                            'actual': diff, 'why': 'default_trace_codes() differs from the lines of the bundled file'})
    ctx.evaluations = n
    cases = []
    for t, r in zip(texts, res):
        ctx.count('err' if 'err' in r else 'ok')
        if 'ok' in r:
            if len(r['ok']) >= 2:
                ctx.nontrivial.add(tuple(t))
            obs = '(inr ' + clist([f'({cN(k)}, {clist([cN(c) for c in v])})' for k, v in r['ok']]) + ')'
        elif r['err'] in (1, 2):
            obs = f'(inl {r["err"]})'
        else:
            ctx.failing.append({'input': {'text': t}, 'expected': 'dict, IndexError or ValueError', 'actual': r['err'],
                                'why': 'unexpected exception class'})
            continue
        # oracle for well-formed texts: independent re-reading
        cases.append(f'({clist([cN(c) for c in t])}, {obs})')
        try:
            exp = tr_handlers.last_wins(tr_handlers.parse_codes_text(''.join(map(chr, t))))
            if 'ok' in r and {k: ''.join(map(chr, v)) for k, v in r['ok']} != exp:
                ctx.failing.append({'input': {'text': t}, 'expected': sorted(exp.items()), 'actual': r['ok'],
                                    'why': 'mapping differs from (value of hex-id, name) per line, last wins'})
        except Exception:
            pass
    # supplied tables through the trace pipeline
    m = 150 if ctx.quick() else 2000
    tcs = [gen_table_case(rng, uni) for _ in range(m)]
    tres = vlib.run_impl('run_pairing.py', {'histories': [h for _, h, _ in tcs],
                                            'tables': [sorted(t.items()) for t, _, _ in tcs]})['results']
    ctx.evaluations += m
    tcases = []
    for (table, hist, kind), r in zip(tcs, tres):
        ctx.count('table:' + kind)
        u2 = pc.Universe.__new__(pc.Universe)
        u2.__dict__.update(uni.__dict__)
        u2.codes = table
        exp = pc.spec_outputs(hist, u2)
        if any(o is not None for o in r['outs']):
            ctx.nontrivial.add(repr((sorted(table.items()), hist)))
        if r['outs'] != exp:
            ctx.failing.append({'input': {'table': sorted(table.items()), 'history': hist}, 'expected': exp,
                                'actual': r['outs'], 'why': 'decoding under the supplied table: an absent id decoded, or a '
                                                            'decodable name not decoded under the id the table gives it'})
            continue
        names = sorted(set(table.values()))
        tag = {nm: i + 1 for i, nm in enumerate(names)}
        tt = clist([f'({cN(k)}, [{tag[v]}])' for k, v in sorted(table.items())])
        tn = clist([f'[{tag[nm]}]' for nm in names if nm in uni.trace_names])
        hn = clist([f'[{tag[nm]}]' for nm in names if nm in uni.decodable_names])
        ins = clist([f'({cN(t)}, {cN(c)}, {q}, {clist([cN(w) for w in ws])})' for t, c, q, ws in hist])
        ow = clist(['None' if o is None else '(Some ' + clist([cN(x) for x in o]) + ')' for o in r['outs']])
        tcases.append(f'({tt}, {tn}, {hn}, {ins}, {ow})')
    # (c) the public API with a supplied table: traces() and formatted_kevents()
    k = 60 if ctx.quick() else 600
    api = []
    for i in range(k):
        table, hist, kind = gen_table_case(rng, uni)
        if i % 5 == 0:
            table, kind = {}, 'empty'
        hist = [[t, c, q, [0, 0, 0, 0]] for t, c, q, _ in hist]
        recs = [D.record(j + 1, ws, t, c | q) for j, (t, c, q, ws) in enumerate(hist)]
        # what the records say (C01): the event id is the debug id without its two qualifier bits
        hist = [[t, (c | q) & 0xfffffffc, (c | q) & 3, ws] for t, c, q, ws in hist]
        api.append((table, hist, kind, D.build_v2([(1, 1, b'p')], 0, recs)))
    cfg = {'show_timestamp': False, 'show_func_qual': False, 'show_tid': False, 'show_process': False, 'show_args': False,
           'color': False}
    # ... then the caller edits the same table object in place (another table of an earlier case) and lists again on the
    # same parser object: the listing follows the table as it is now
    tables2 = [api[(i + 1) % len(api)][0] for i in range(len(api))]
    ares = vlib.run_impl('run_api.py', {'cases': [{'file': f.hex(), 'table': sorted(t.items()), 'cfg': cfg,
                                                   'calls': ['traces', 'formatted_kevents', {'set_table': sorted(t2.items())},
                                                             'formatted_kevents']}
                                                  for (t, _, _, f), t2 in zip(api, tables2)]})['results']
    ctx.evaluations += k
    api_i = 0
    for (table, hist, kind, f), calls in zip(api, ares):
        ctx.count('api-table:' + kind)
        u2 = pc.Universe.__new__(pc.Universe)
        u2.__dict__.update(uni.__dict__)
        u2.codes = table
        exp = [w for w in pc.spec_outputs(hist, u2) if w is not None]
        tr, fk, _st, fk2 = calls
        t2 = tables2[api_i]
        api_i += 1
        exp_names2 = [(t2[c] + f' ({hex(c)})') if c in t2 else hex(c) for _, c, _, _ in hist]
        if fk2['err'] or [ln.rstrip(' ') for ln in fk2['items']] != exp_names2:
            ctx.failing.append({'input': {'table': sorted(t2.items()), 'history': hist, 'api': True,
                                          'earlier_table_same_object_edited_in_place': sorted(table.items())},
                                'expected': {'name_column': exp_names2},
                                'actual': {'name_column': [ln.rstrip(' ') for ln in fk2['items']], 'err': fk2['err']},
                                'why': 'listing does not use the caller-supplied table as it is now (the table object was edited '
                                       'in place between two listings on one parser object)'})
        got_heads = [it[1] - 1 for it in tr['items']]
        exp_names = [(table[c] + f' ({hex(c)})') if c in table else hex(c) for _, c, _, _ in hist]
        got_names = [ln.rstrip(' ') for ln in fk['items']]
        if tr['err'] or fk['err'] or got_heads != [w[0] for w in exp] or got_names != exp_names:
            ctx.failing.append({'input': {'table': sorted(table.items()), 'history': hist, 'api': True},
                                'expected': {'trace_heads': [w[0] for w in exp], 'name_column': exp_names},
                                'actual': {'trace_heads': got_heads, 'name_column': got_names, 'err': [tr['err'], fk['err']]},
                                'why': 'listing / trace decoding does not use the caller-supplied table (absent id decoded or '
                                       'named, or a decodable name not decoded under the id the table gives it)'})
    # names of the supplied table that are fragments of a decodable name ('VFS', 'LOOKUP', 'BSC_', ...) are names without a
    # decoder like any other: their records inside a call's window do not become part of the call
    from ..harness.streams import path_words
    rd, op, lk = uni.by_name['BSC_read'][0], uni.by_name['BSC_open'][0], uni.by_name['VFS_LOOKUP'][0]
    freqs, finfo = [], []
    for frag in ('VFS', 'LOOKUP', 'VFS_LOOKUP_DONE', 'BSC_', 'BSC_open_nocancel_', 'open', ''):
        x = uni.unknown(rng)
        table = {op: 'BSC_open', lk: 'VFS_LOOKUP', rd: 'BSC_read'}
        if frag:
            table[x] = frag
        core = [[1, op, 1, [0x7000, 0, 0o644, 0]], [1, lk, 3, path_words(9, '/tmp/x')], [1, op, 2, [0, 3, 0, 0]]]
        extra = [[1, x, q, [0x5a5a5a5a5a5a5a5a, 0x2f2f2f2f2f2f2f2f, 0x41, 0x42]] for q in (3, 0, 1, 2)]
        for hist in (core, core[:2] + extra + core[2:], core[:1] + extra + core[1:]):
            recs = [D.record(jj + 1, ws, t, c | q) for jj, (t, c, q, ws) in enumerate(hist)]
            freqs.append({'file': D.build_v2([(1, 1, b'p')], 0, recs).hex(), 'table': sorted(table.items()), 'cfg': {'color': False}, 'calls': ['traces']})
        finfo.append((frag, table))
    fres = vlib.run_impl('run_api.py', {'cases': freqs})['results']
    ctx.evaluations += len(freqs)
    for j, (frag, table) in enumerate(finfo):
        ftexts = [[it[4] for it in fres[3 * j + k][0]['items'] if it[6] == op] for k in range(3)]
        errs = [fres[3 * j + k][0]['err'] for k in range(3)]
        if any(errs) or ftexts[1] != ftexts[0] or ftexts[2] != ftexts[0]:
            ctx.failing.append({'input': {'table': sorted(table.items()), 'name_without_decoder': frag, 'api': True,
                                          'history': 'open(START) lookup open(END), with records of that name inside the window'},
                                'expected': ftexts[0], 'actual': {'texts': ftexts[1:], 'err': errs},
                                'why': 'listing / trace decoding does not use the caller-supplied table (absent id decoded or named, or a '
                                       'decodable name not decoded under the id the table gives it): a record whose name has no decoder '
                                       'changed the text of the enclosing call'})
    # a composite decoder decodes the records nested in its window through the supplied table as well: a nested record whose id
    # the table does not list (or lists under a name without a decoder) contributes nothing to the enclosing trace
    vf = uni.by_name['MACH_vmfault'][0]
    vreqs, vinfo = [], []
    for real in (0x1320008, 0x1320010, 0x1320014):
        for nested_name in (None, 'SOMETHING_ELSE', 'RealFaultAddressPurgeable'):
            table = {vf: 'MACH_vmfault', rd: 'BSC_read'}
            if nested_name:
                table[real] = nested_name
            core = [[1, vf, 1, [0, 0x7000, 0, 0]], [1, vf, 2, [0, 0, 0, 1]]]
            full = [core[0], [1, real, 0, [0x7000, (3 << 8) | 1, 0, 4242]], core[1]]
            for hist in (core, full):
                recs = [D.record(jj + 1, ws, t, c | q) for jj, (t, c, q, ws) in enumerate(hist)]
                vreqs.append({'file': D.build_v2([(1, 1, b'p')], 0, recs).hex(), 'table': sorted(table.items()), 'cfg': {'color': False}, 'calls': ['traces']})
            vinfo.append((real, nested_name, table))
    vres = vlib.run_impl('run_api.py', {'cases': vreqs})['results']
    ctx.evaluations += len(vreqs)
    for j, (real, nested_name, table) in enumerate(vinfo):
        ta = [it[4] for it in vres[2 * j][0]['items'] if it[6] == vf]
        tb = [it[4] for it in vres[2 * j + 1][0]['items'] if it[6] == vf]
        if vres[2 * j][0]['err'] or vres[2 * j + 1][0]['err'] or ta != tb or len(ta) != 1:
            ctx.failing.append({'input': {'table': sorted(table.items()), 'api': True, 'nested_record_id': real,
                                          'its_name_in_the_table': nested_name,
                                          'history': 'page fault START, a record of that id, page fault END (result 0)'},
                                'expected': ta, 'actual': {'texts': tb, 'err': vres[2 * j + 1][0]['err']},
                                'why': 'listing / trace decoding does not use the caller-supplied table (absent id decoded or named, or a '
                                       'decodable name not decoded under the id the table gives it): a nested record the table does not '
                                       'make decodable changed the enclosing trace'})
    ctx.rule = ('(a) texts of 0..12 lines: ids with/without 0x/0X, mixed case, leading zeros, separators from all inline '
                'whitespace, names incl. non-ASCII, trailing comments, every line terminator incl. CRLF, last line with/without '
                'terminator; every 4th text malformed (missing name, bad id, empty/blank line); (b) custom tables (drop / '
                'renumber / swap ids) x event histories through TracesParser; non-trivial = distinct text with >= 2 mapped ids, '
                'or table case with a delivered trace; (c) the same tables incl. the EMPTY table through PyKdebugParser.traces / '
                'formatted_kevents on a v2 dump')
    ctx.samples = [{'text': ''.join(map(chr, texts[1]))[:200], 'impl': res[1]},
                   {'table': sorted(tcs[0][0].items()), 'history': tcs[0][1][:5], 'impl': tres[0]['outs'][:5]}]
    if model_ok:
        bad, errors = vlib.run_model_cases('C19', HEADER, 'xcase', 'xcheck', cases, per_file=60)
        bad2, errors2 = vlib.run_model_cases('C19t', HEADER, 'tcase', 'tcheck', tcases, per_file=40)
        ctx.traces_validated = len(cases) - len(bad) + len(tcases) - len(bad2)
        for e in (errors + errors2)[:1]:
            ctx.broken.append(('correspondence', f'case files failed to evaluate: {e}'))
        for b in bad[:5]:
            ctx.broken.append(('correspondence', {'text_case': cases[b][:600]}))
        for b in bad2[:5]:
            ctx.broken.append(('correspondence', {'table_case': tcases[b][:600]}))


def replay(payload):
    inp = payload['input']
    if isinstance(inp, dict) and 'text' in inp:
        print('implementation:', vlib.run_impl('run_codes.py', {'texts': [inp['text']]})['results'][0])
    elif isinstance(inp, dict) and inp.get('api'):
        recs = [D.record(j + 1, ws, t, c | q) for j, (t, c, q, ws) in enumerate(inp['history'])]
        cfg = {'show_timestamp': False, 'show_func_qual': False, 'show_tid': False, 'show_process': False,
               'show_args': False, 'color': False}
        r = vlib.run_impl('run_api.py', {'cases': [{'file': D.build_v2([(1, 1, b'p')], 0, recs).hex(), 'table': inp['table'],
                                                    'cfg': cfg, 'calls': ['traces', 'formatted_kevents']}]})['results'][0]
        print('implementation: trace heads', [it[1] - 1 for it in r[0]['items']], 'names', [l.rstrip() for l in r[1]['items']])
    elif isinstance(inp, dict) and 'table' in inp:
        print('implementation:', vlib.run_impl('run_pairing.py', {'histories': [inp['history']], 'tables': [inp['table']]})['results'][0]['outs'])
    print('expected:', payload.get('expected'))
    return 0

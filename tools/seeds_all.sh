#!/bin/bash
# all quick checks under several seeds; the default-seed run goes last so that the evidence left behind is the default one
cd /verif
for seed in ${SEEDS:-1 2 20260927}; do
for i in 01 02 03 04 05 06 07 08 09 10 11 12 13 14 15 16 17 18 19 20; do
  out=$(VERIF_SEED=$seed python3 check.py C$i --tier quick 2>&1)
  rc=$?
  echo "seed=$seed C$i rc=$rc $(echo "$out" | grep -c '^VIOLATION') viol; $(echo "$out" | tail -1 | cut -c1-150)"
  if [ $rc -ne 0 ]; then echo "$out" | grep VIOLATION; fi
done
done
echo DONE

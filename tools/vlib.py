"""Common machinery for the per-property checks (see DESIGN.md §7).

A property module (tools/props/Cxx.py) provides:
  TRANSLATORS : list of callables regenerating coq/gen/*.v from /repo (fail-closed)
  MODEL_TARGETS, PROOF_TARGETS : .vo files (relative to coq/) for `make`
  PROP_FILE : coq/props/Cxx.v  (theorems listed for Print Assumptions)
  run(ctx) : generates cases, runs the implementation, the model (vm_compute) and the oracle,
             and fills ctx.* (see class Ctx)
"""
import concurrent.futures
import fcntl
import hashlib
import json
import os
import random
import re
import subprocess
import sys
import time

VERIF = os.path.dirname(os.path.dirname(os.path.abspath(__file__)))
COQ = os.path.join(VERIF, 'coq')
REPO = os.environ.get('VERIF_REPO', '/repo')
EVIDENCE = os.path.join(VERIF, 'evidence')
REPLAYS = os.path.join(VERIF, 'replays')
KNOWN_FILE = os.path.join(VERIF, 'known_findings.txt')
COQC_TIMEOUT = 600

TRUSTED_BASE_COMMON = [
    'Coq 8.16.1 kernel (coqc, full .vo build) incl. its vm_compute reduction machine; native_compute not used',
    'translators tools/translate/*.py (Python ast -> Coq text; fail-closed; validated by the string/field-exact '
    'correspondence of this run)',
    'correspondence harness tools/vlib.py + tools/props/*.py (runs /repo working tree under /venv/bin/python '
    'with PYTHONPATH=/repo, PYTHONHASHSEED=0)',
    'library oracles written as Gallina definitions (DESIGN §4.5), validated by the correspondence, not verified',
]


class Ctx:
    def __init__(self, pid, tier, seed):
        self.pid = pid
        self.tier = tier
        self.seed = seed
        self.rng = random.Random(seed * 1000003 + int(pid[1:]))
        self.t0 = time.time()
        self.broken = []          # [(kind, detail)] kind in translate|proof|correspondence|model-build
        self.failing = []         # [{'input':..., 'expected':..., 'actual':..., 'why':...}] oracle failures
        self.known_hits = {}      # finding id -> description (still reproducing, listed in known_findings.txt)
        self.evaluations = 0
        self.nontrivial = set()
        self.samples = []
        self.distribution = {}
        self.traces_validated = 0
        self.rule = ''
        self.extra = {}
        self.assumptions_text = {}
        self.obligations = 0
        self.discharged = 0
        self.notes = []

    def quick(self):
        return self.tier != 'thorough'

    def count(self, key, n=1):
        self.distribution[key] = self.distribution.get(key, 0) + n


# ---------------------------------------------------------------------------------------------
# Coq build
# ---------------------------------------------------------------------------------------------
class _Lock:
    def __enter__(self):
        os.makedirs(COQ, exist_ok=True)
        self.fd = open(os.path.join(COQ, '.build.lock'), 'w')
        fcntl.flock(self.fd, fcntl.LOCK_EX)
        return self

    def __exit__(self, *a):
        fcntl.flock(self.fd, fcntl.LOCK_UN)
        self.fd.close()


def ensure_makefile():
    mk = os.path.join(COQ, 'Makefile')
    cp = os.path.join(COQ, '_CoqProject')
    if not os.path.exists(mk) or os.path.getmtime(mk) < os.path.getmtime(cp):
        subprocess.run(['coq_makefile', '-f', '_CoqProject', '-o', 'Makefile'], cwd=COQ, check=True,
                       stdout=subprocess.DEVNULL)


def coq_build(targets, timeout=1500):
    """make the given .vo targets. -> (ok, info) ; info has file/line/theorem/message on failure."""
    with _Lock():
        ensure_makefile()
        cmd = ['timeout', str(timeout), 'make', '-j16', '-k'] + list(targets)
        p = subprocess.run(cmd, cwd=COQ, stdout=subprocess.PIPE, stderr=subprocess.STDOUT, text=True)
    if p.returncode == 0:
        return True, {'log': p.stdout[-2000:]}
    info = {'log': p.stdout[-6000:], 'returncode': p.returncode}
    m = re.search(r'File "\./([^"]+)", line (\d+), characters [^\n]*\n((?:.*\n){0,12})', p.stdout)
    if m:
        info['file'] = m.group(1)
        info['line'] = int(m.group(2))
        info['message'] = m.group(3).strip()[:1500]
        info['theorem'] = enclosing_statement(os.path.join(COQ, m.group(1)), int(m.group(2)))
    return False, info


_STMT = re.compile(r'^\s*(Theorem|Lemma|Example|Corollary|Definition|Fixpoint|Fact|Remark)\s+([A-Za-z0-9_\']+)')


def enclosing_statement(path, line):
    try:
        with open(path) as fd:
            lines = fd.readlines()
    except OSError:
        return None
    for i in range(min(line, len(lines)) - 1, -1, -1):
        m = _STMT.match(lines[i])
        if m:
            return m.group(2)
    return None


def theorems_of(prop_file):
    with open(os.path.join(COQ, prop_file)) as fd:
        return re.findall(r'^(?:Theorem|Example)\s+([A-Za-z0-9_\']+)', fd.read(), re.M)


def count_obligations(vfiles):
    n = 0
    for f in vfiles:
        try:
            with open(os.path.join(COQ, f)) as fd:
                n += len(re.findall(r'\b(?:Qed|Defined)\.', fd.read()))
        except OSError:
            pass
    return n


def built_files(vfiles):
    """the files of the cone whose .vo is present and not older than the source"""
    out = []
    for f in vfiles:
        v = os.path.join(COQ, f)
        vo = v + 'o'
        if os.path.exists(vo) and os.path.exists(v) and os.path.getmtime(vo) >= os.path.getmtime(v):
            out.append(f)
    return out


def dependency_cone(prop_file):
    """transitive .v dependencies (inside coq/) of a props file, via coqdep."""
    seen, todo = [], [prop_file]
    while todo:
        f = todo.pop()
        if f in seen:
            continue
        seen.append(f)
        p = subprocess.run(['coqdep', '-R', '.', 'Kd', f], cwd=COQ, stdout=subprocess.PIPE, stderr=subprocess.DEVNULL,
                           text=True)
        for line in p.stdout.splitlines():
            if ':' not in line:
                continue
            for dep in line.split(':', 1)[1].split():
                if dep.endswith('.vo') and not dep.startswith('/'):
                    v = dep[:-1]
                    if v.startswith('./'):
                        v = v[2:]
                    if v not in seen and os.path.exists(os.path.join(COQ, v)):
                        todo.append(v)
    return seen


def print_assumptions(prop_file, scratch_name):
    """compile a query file printing the assumptions of every Theorem of the props file."""
    thms = theorems_of(prop_file)
    mod = prop_file[:-2].replace('/', '.')
    text = f'From Kd Require Import {mod}.\n' + ''.join(
        f'Print Assumptions {t}.\n' for t in thms)
    d = os.path.join(COQ, 'cases', scratch_name)
    os.makedirs(d, exist_ok=True)
    path = os.path.join(d, 'assumptions.v')
    with open(path, 'w') as fd:
        fd.write(text)
    p = subprocess.run(['timeout', '600', 'coqc', '-R', COQ, 'Kd', path], cwd=d, stdout=subprocess.PIPE,
                       stderr=subprocess.STDOUT, text=True)
    out = p.stdout
    # split per theorem: coqc prints blocks in order
    blocks = re.split(r'(?=Closed under the global context|Axioms:)', out)
    blocks = [b.strip() for b in blocks if b.strip()]
    res = {}
    for t, b in zip(thms, blocks):
        res[t] = b
    if len(blocks) != len(thms) or p.returncode != 0:
        res['_raw'] = out[-3000:]
    return res


# ---------------------------------------------------------------------------------------------
# running the model on cases inside coqc (vm_compute)
# ---------------------------------------------------------------------------------------------
def _run_one_case_file(path, workdir):
    p = subprocess.run(['timeout', str(COQC_TIMEOUT), 'coqc', '-R', COQ, 'Kd', path], cwd=workdir,
                       stdout=subprocess.PIPE, stderr=subprocess.STDOUT, text=True)
    return p.returncode, p.stdout


def run_model_cases(name, header, case_type, check_fn, cases, per_file=300, extra_evals=()):
    """cases: list of Coq terms (strings) of type case_type; check_fn : case_type -> bool (Coq name).
    Returns (bad_indices, errors).  bad_indices are indices into `cases` where the model disagrees."""
    d = os.path.join(COQ, 'cases', name)
    os.makedirs(d, exist_ok=True)
    for f in os.listdir(d):
        if f.startswith('cases_'):
            os.unlink(os.path.join(d, f))
    files = []
    for k in range(0, len(cases), per_file):
        chunk = cases[k:k + per_file]
        path = os.path.join(d, f'cases_{k // per_file}.v')
        with open(path, 'w') as fd:
            fd.write(header + '\n')
            fd.write(f'Definition cases : list ({case_type}) := [\n')
            fd.write(';\n'.join(chunk))
            fd.write('\n].\n')
            fd.write(f'Eval vm_compute in (bad_indices {check_fn} cases).\n')
            for e in extra_evals:
                fd.write(e + '\n')
        files.append((k, path))
    bad, errors = [], []
    with concurrent.futures.ThreadPoolExecutor(max_workers=14) as ex:
        futs = {ex.submit(_run_one_case_file, path, d): (k, path) for k, path in files}
        for fut in concurrent.futures.as_completed(futs):
            k, path = futs[fut]
            rc, out = fut.result()
            m = re.search(r'=\s*\[(.*?)\]\s*(?:%nat)?\s*:\s*list nat', out, re.S)
            if rc != 0 or not m:
                errors.append({'file': path, 'rc': rc, 'out': out[-1500:]})
                continue
            body = m.group(1).strip()
            if body:
                for tok in body.replace('\n', ' ').split(';'):
                    tok = tok.strip().replace('%nat', '')
                    if tok:
                        bad.append(k + int(tok))
    for f in os.listdir(d):
        if f.endswith(('.vo', '.vok', '.vos', '.glob')) or f.startswith('.'):
            try:
                os.unlink(os.path.join(d, f))
            except OSError:
                pass
    return sorted(bad), errors


def eval_in_coq(name, header, exprs):
    """Eval vm_compute each expr; returns raw output (used by --replay and for refuted-witness export)."""
    d = os.path.join(COQ, 'cases', name)
    os.makedirs(d, exist_ok=True)
    path = os.path.join(d, 'eval.v')
    with open(path, 'w') as fd:
        fd.write(header + '\n')
        for e in exprs:
            fd.write(f'Eval vm_compute in ({e}).\n')
    rc, out = _run_one_case_file(path, d)
    return rc, out


# ---------------------------------------------------------------------------------------------
# Coq literal helpers for case files
# ---------------------------------------------------------------------------------------------
def cN(v):
    assert v >= 0
    return str(v) if v < 1000 else hex(v)


def cZ(v):
    return f'({v})%Z' if v < 0 else f'{v}%Z'


def cnat(v):
    return f'{v}%nat'


def clist(items):
    return '[' + '; '.join(items) + ']'


def cbytes(b):
    return '[' + ';'.join(str(x) for x in b) + ']'


def cstr_bytes(s):
    """text -> list N of its UTF-8 bytes"""
    return cbytes(s.encode('utf-8'))


def cbool(b):
    return 'true' if b else 'false'


def copt(x):
    return 'None' if x is None else f'(Some {x})'


# ---------------------------------------------------------------------------------------------
# known findings
# ---------------------------------------------------------------------------------------------
def load_known(pid):
    """-> {finding_id: description} of `known:` lines for this property (never written at run time)."""
    out = {}
    try:
        with open(KNOWN_FILE) as fd:
            for line in fd:
                line = line.strip()
                m = re.match(r'known:\s+property=(\S+)\s+id=(\S+)\s+(.*)', line)
                if m and m.group(1) == pid:
                    out[m.group(2)] = m.group(3)
    except OSError:
        pass
    return out


# ---------------------------------------------------------------------------------------------
# reporting
# ---------------------------------------------------------------------------------------------
def write_replay(ctx, payload):
    os.makedirs(REPLAYS, exist_ok=True)
    h = hashlib.sha1(json.dumps(payload, sort_keys=True, default=str).encode()).hexdigest()[:10]
    path = os.path.join(REPLAYS, f'{ctx.pid}_{h}.json')
    with open(path, 'w') as fd:
        json.dump(payload, fd, indent=1, default=str)
    return path


def write_evidence(ctx, violations, level_note_assumptions):
    os.makedirs(EVIDENCE, exist_ok=True)
    cov = {
        'obligations': ctx.obligations,
        'discharged': ctx.discharged,
        'checker_cmd': f'make -C {COQ} -j16 <targets> (coqc 8.16.1, full .vo) + coqc cases/*.v (vm_compute correspondence)',
        'trusted_base': TRUSTED_BASE_COMMON + level_note_assumptions,
        'evaluations': ctx.evaluations,
        'distinct_nontrivial': len(ctx.nontrivial),
        'rule': ctx.rule,
        'samples': ctx.samples[:8] if ctx.samples else ['(no sample recorded)'],
        'traces_validated_against_impl': ctx.traces_validated,
        'input_distribution': ctx.distribution,
        'print_assumptions': ctx.assumptions_text,
        'broken': [list(b) for b in ctx.broken],
        'known_findings_reproduced': ctx.known_hits,
        'notes': ctx.notes,
    }
    cov.update(ctx.extra)
    ev = {
        'property_id': ctx.pid,
        'tier': 'thorough' if ctx.tier == 'thorough' else 'quick',
        'seed': ctx.seed,
        'level': 'proof',
        'coverage': cov,
        'assumptions': level_note_assumptions,
        'wall_s': round(time.time() - ctx.t0, 2),
        'violations': violations,
    }
    with open(os.path.join(EVIDENCE, f'{ctx.pid}.json'), 'w') as fd:
        json.dump(ev, fd, indent=1, default=str)


def impl_python():
    return '/venv/bin/python'


def impl_env():
    env = dict(os.environ)
    env['PYTHONPATH'] = REPO
    env['PYTHONHASHSEED'] = '0'
    env['MATAN1008_PYKDEBUGPARSER_VERIF'] = '1'
    env.pop('COVERAGE_PROCESS_START', None)
    return env


def run_impl(script, payload, timeout=900, env_extra=None):
    """Run tools/impl/<script> under the repo's interpreter with JSON on stdin -> JSON from stdout."""
    path = os.path.join(VERIF, 'tools', 'impl', script)
    p = subprocess.run(['timeout', str(timeout), impl_python(), path], input=json.dumps(payload), text=True,
                       stdout=subprocess.PIPE, stderr=subprocess.PIPE, env=dict(impl_env(), **(env_extra or {})), cwd='/')
    if p.returncode != 0:
        raise RuntimeError(f'implementation runner {script} failed rc={p.returncode}: {p.stderr[-3000:]}')
    return json.loads(p.stdout)

#!/bin/bash
# usage: tools/ingest_all.sh [NN ...]   ingests /tmp/mut/C<NN>/out/{1,2} (sub-agent output) as the next free seeded/C<NN>_<letter>
cd /verif
IDS="$@"; [ -z "$IDS" ] && IDS="01 02 03 04 05 06 07 08 09 10 11 12 13 14 15 16 17 18 19 20"
for i in $IDS; do
  for k in 1 2; do
    for l in {a..z} a{a..z}; do [ -d seeded/C${i}_$l ] || break; done
    echo "=== C$i $k -> $l"
    python3 tools/ingest_mutant.py /tmp/mut/C$i/out/$k C$i $l 2>&1 | tail -4 | cut -c1-260
    git -C /repo status --short | head -3
  done
done
echo INGEST-DONE

#!/bin/bash
# Re-checks every compiled property file and everything it depends on with Coq's independent checker and prints the axioms
# they rely on (about 2 minutes).  usage: tools/run_coqchk.sh  (after `make` in coq/)
cd "$(dirname "$0")/../coq" || exit 2
timeout 3000 coqchk -silent -o -R . Kd $(for i in 01 02 03 04 05 06 07 08 09 10 11 12 13 14 15 16 17 18 19 20; do echo Kd.props.C$i; done)

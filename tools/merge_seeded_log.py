#!/usr/bin/env python3
"""usage: tools/merge_seeded_log.py <log of an interrupted tools/run_seeded.py run>
Merges the rows the run printed before it was stopped into seeded/RESULTS.md (same merge as a partial run)."""
import ast, os, sys
V = os.path.dirname(os.path.dirname(os.path.abspath(__file__)))
rows = {}
path = os.path.join(V, 'seeded', 'RESULTS.md')
head = []
for line in open(path):
    if line.startswith('| C') and ' | ' in line:
        cells = [c.strip() for c in line.strip().strip('|').split(' | ')]
        if len(cells) >= 5:
            rows[cells[0]] = tuple(cells[:5])
    elif not rows:
        head.append(line)
for line in open(sys.argv[1]):
    if line.startswith("('C"):
        r = ast.literal_eval(line.strip())
        rows[r[0]] = tuple(str(x).replace('|', '/').replace('\n', ' ') for x in r)
with open(path, 'w') as fd:
    fd.writelines(head)
    for k in sorted(rows):
        fd.write('| ' + ' | '.join(rows[k]) + ' |\n')
print(len(rows), 'rows')

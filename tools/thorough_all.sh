#!/bin/bash
# every thorough check in turn (default seed unless VERIF_SEED is set); logs under /var/tmp
cd /verif
for i in ${IDS:-01 02 03 04 05 06 07 08 09 10 11 12 13 14 15 16 17 18 19 20}; do
  s=$(date +%s)
  python3 check.py C$i --tier thorough > /var/tmp/thorough_C$i.log 2>&1
  rc=$?
  echo "C$i rc=$rc wall=$(( $(date +%s)-s ))s $(grep -c '^VIOLATION' /var/tmp/thorough_C$i.log) viol; $(tail -1 /var/tmp/thorough_C$i.log | cut -c1-200)"
done
echo DONE

#!/bin/bash
# usage: tools/try_mutant.sh <patch.diff> <PID> [tier]   -- applies the patch to /repo, runs the check, reverts.
set -u
patch="$(realpath "$1")"; pid="$2"; tier="${3:-quick}"
cd /repo || exit 2
if ! git diff --quiet; then echo "/repo working tree is dirty"; exit 2; fi
git apply "$patch" || { echo "patch does not apply"; exit 2; }
cd /verif
# evidence files describe runs against /repo itself: keep the one of the unchanged tree
cp "evidence/$pid.json" "/tmp/evidence_$pid.keep" 2>/dev/null
python3 check.py "$pid" --tier "$tier"; rc=$?
[ -f "/tmp/evidence_$pid.keep" ] && mv "/tmp/evidence_$pid.keep" "evidence/$pid.json"
git -C /repo checkout -- .
echo "exit=$rc"
exit $rc

#!/bin/bash
# usage: tools/try_mutant.sh <patch.diff> <PID> [tier]   -- applies the patch to /repo, runs the check, reverts.
set -u
patch="$(realpath "$1")"; pid="$2"; tier="${3:-quick}"
cd /repo || exit 2
if ! git diff --quiet; then echo "/repo working tree is dirty"; exit 2; fi
git apply "$patch" || { echo "patch does not apply"; exit 2; }
cd /verif
python3 check.py "$pid" --tier "$tier"; rc=$?
git -C /repo checkout -- .
echo "exit=$rc"
exit $rc

#!/usr/bin/env python3
"""Regenerates every coq/gen/*.v from /repo's working tree (used by setup_cmd; each check regenerates its own)."""
import importlib, os, sys
sys.path.insert(0, os.path.dirname(os.path.dirname(os.path.abspath(__file__))))
NAMES = ['tr_kevent', 'tr_handlers', 'tr_composite', 'tr_oslog', 'tr_decoders', 'tr_pairing', 'tr_filters', 'tr_callstacks', 'tr_format', 'tr_trace', 'tr_codes', 'tr_container', 'tr_cli']
for n in NAMES:
    try:
        importlib.import_module(f'tools.translate.{n}').translate()
    except Exception as e:
        print(f'regen {n}: {type(e).__name__}: {e}')

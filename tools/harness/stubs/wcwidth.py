"""Stand-in for the optional third-party module `wcwidth` (not installed here): a host that has it must not print
different lines (C18).  East-Asian wide characters take two cells, combining marks none."""
import unicodedata


def wcwidth(ch):
    if unicodedata.combining(ch):
        return 0
    return 2 if unicodedata.east_asian_width(ch) in ('W', 'F') else 1


def wcswidth(text, n=None):
    return sum(wcwidth(c) for c in (text if n is None else text[:n]))

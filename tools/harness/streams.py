"""Semantic event-stream generator: thread maps plus syscalls, path lookups and the map-updating trace records
(new-thread / exec name pairs, terminate-pid, sampler thread data).  Used by C06 (pipeline), C13, C14."""
import struct
from . import dumps as D


def name_words(s):
    b = s.encode()[:32]
    b = b + b'\0' * (32 - len(b))
    return [int.from_bytes(b[8 * i:8 * i + 8], 'little') for i in range(4)]


def path_words(vid, s):
    """first lookup record: vnode id + 24 path bytes (short paths only: one START|END record)"""
    b = s.encode()[:24]
    b = b + b'\0' * (24 - len(b))
    return [vid] + [int.from_bytes(b[8 * i:8 * i + 8], 'little') for i in range(3)]


class StreamGen:
    def __init__(self, uni):
        self.c = {n: ids[0] for n, ids in uni.by_name.items()}

    def gen(self, rng, n_ops=12, n_threads=3, rich=False, empty_map_ok=False):
        c = self.c
        tids = rng.sample([11, 12, 13, 14, 0x200, 0x201, 0], n_threads)          # 0: records emitted outside a thread context
        pids = [rng.choice([0, 1, 7, 44, 300]) for _ in tids]
        names = ['launchd', 'xpcproxy', 'Safari', 'kernel_task', 'a', '']
        declared = rng.sample(range(n_threads), rng.randint(0 if empty_map_ok and rng.random() < 0.4 else 1, n_threads))
        threads = [(tids[i], pids[i], rng.choice(names).encode()) for i in declared]
        evs = []
        for _ in range(n_ops):
            i = rng.randrange(n_threads)
            tid = tids[i]
            r = rng.random()
            if rich and rng.random() < 0.3:
                # the other records of the trace class: thread names (1..3 chunks), terminate (of named / unnamed / unknown
                # threads, repeated), process exit, global strings
                k = rng.randrange(5)
                if k == 0:
                    nm = name_words(rng.choice(['worker', 'a' * 40, '', 'é']))
                    nchunks = rng.choice([1, 1, 2])
                    for j in range(nchunks):
                        q = (1 if j == 0 else 0) | (2 if j == nchunks - 1 else 0)
                        evs.append([tid, c[rng.choice(['TRACE_STRING_THREADNAME', 'TRACE_STRING_THREADNAME_PREV'])], q if nchunks > 1 else 0, nm])
                elif k == 1:
                    evs.append([tid, c['TRACE_DATA_THREAD_TERMINATE'], 0, [rng.choice(tids + [0x300, 0]), 0, 0, 0]])
                elif k == 2:
                    evs.append([tid, c['TRACE_STRING_PROC_EXIT'], 0, name_words(rng.choice(names[:5]))])
                elif k == 3:
                    if rng.random() < 0.5:
                        evs.append([tid, c['TRACE_STRING_GLOBAL'], 3, [0, rng.randint(1, 3)] + name_words(rng.choice(['gstr', 'other', 'x']))[:2]])
                    else:
                        # a string of several records (START, continuation, END) with a record of ANOTHER class of the same
                        # thread between them: the two pairing domains do not mix
                        text = rng.choice(['a-global-string-that-needs-three-records-to-be-announced-x', 'y' * 40]).encode()
                        chunks = [(0).to_bytes(8, 'little') + rng.randint(1, 3).to_bytes(8, 'little') + text[:16].ljust(16, b'\0')] + \
                                 [text[k2:k2 + 32].ljust(32, b'\0') for k2 in range(16, len(text), 32)]
                        for j2, ch in enumerate(chunks):
                            q = (1 if j2 == 0 else 0) | (2 if j2 == len(chunks) - 1 else 0)
                            evs.append([tid, c['TRACE_STRING_GLOBAL'], q, [int.from_bytes(ch[8 * k3:8 * k3 + 8], 'little') for k3 in range(4)]])
                            if j2 == 0:
                                evs.append([tid, c['BSC_getpid'], rng.choice([0, 3]), [1, 2, 3, 4]])
                else:
                    evs.append([tid, c['TRACE_DATA_THREAD_TERMINATE'], 0, [tid, 0, 0, 0]])
                    evs.append([tid, c['TRACE_DATA_THREAD_TERMINATE'], 0, [tid, 0, 0, 0]])
                continue
            if r < 0.35:
                fd = rng.randint(0, 9)
                evs.append([tid, c['BSC_read'], 1, [fd, 0x1000 + rng.getrandbits(8), rng.randint(1, 99), 0]])
                evs.append([tid, c['BSC_read'], 2, [rng.choice([0, 0, 0, 9, 35]), rng.randint(0, 99), 0, 0]])
            elif r < 0.55:
                evs.append([tid, c['BSC_open'], 1, [0x7000, rng.choice([0, 1, 2, 0x200, 0x601]), 0o644, 0]])
                if rich and rng.random() < 0.5:
                    # a path that takes several records (START, continuation(s), END), then the lookup-done notice
                    text = rng.choice(['/usr/lib/system/libsystem_kernel.dylib', '/private/var/folders/zz/' + 'd' * 40 + '/T/x',
                                       '/' + 'é' * 30]).encode()
                    vid = rng.randint(1, 999)
                    chunks = [vid.to_bytes(8, 'little') + text[:24].ljust(24, b'\0')] + \
                             [text[k:k + 32].ljust(32, b'\0') for k in range(24, len(text), 32)]
                    for j, ch in enumerate(chunks):
                        q = (1 if j == 0 else 0) | (2 if j == len(chunks) - 1 else 0)
                        evs.append([tid, c['VFS_LOOKUP'], q, [int.from_bytes(ch[8 * k:8 * k + 8], 'little') for k in range(4)]])
                    if 'VFS_LOOKUP_DONE' in c and rng.random() < 0.6:
                        evs.append([tid, c['VFS_LOOKUP_DONE'], 0, [vid, 0, 0, 0]])
                elif rng.random() < 0.8:
                    evs.append([tid, c['VFS_LOOKUP'], 3, path_words(rng.randint(1, 999), rng.choice(['/etc/passwd', '/tmp/x', '/a']))])
                evs.append([tid, c['BSC_open'], 2, [rng.choice([0, 0, 2, 13]), rng.randint(3, 9), 0, 0]])
            elif r < 0.68:
                pid = rng.choice(pids + [55])
                evs.append([tid, c['TRACE_DATA_EXEC'], 0, [pid, 0, 0, 0]])
                evs.append([tid, c['TRACE_STRING_EXEC'], 0, name_words(rng.choice(names[:5]))])
            elif r < 0.8:
                ntid = rng.choice(tids + [0x300])
                pid = rng.choice(pids + [55])
                evs.append([tid, c['TRACE_DATA_NEWTHREAD'], 0, [ntid, pid, 0, rng.getrandbits(16)]])
                if rich and rng.random() < 0.5:
                    # between the data record and its name string another thread's sampler record re-declares the new thread
                    other = rng.choice([t for t in tids if t != tid] or [tid])
                    evs.append([other, c['PERF_THD_Data'], 0, [rng.choice(pids + [91]), ntid, 0x5000, 1]])
                evs.append([tid, c['TRACE_STRING_NEWTHREAD'], 0, name_words(rng.choice(names[:5]))])
            elif r < 0.86:
                evs.append([tid, c['TRACE_DATA_THREAD_TERMINATE_PID'], 0, [rng.choice(pids + [55]), rng.getrandbits(16), 0, 0]])
            elif r < 0.93:
                evs.append([tid, c['PERF_THD_Data'], 0, [rng.choice(pids + [56]), rng.choice(tids), 0x5000, 1]])
            else:
                evs.append([tid, c['BSC_getpid'], 1, [0, 0, 0, 0]])
                evs.append([tid, c['BSC_getpid'], 2, [0, rng.choice(pids), 0, 0]])
        return threads, evs

    @staticmethod
    def records(evs, ts0=1):
        return [D.record(ts0 + j, ws, t, code | q) for j, (t, code, q, ws) in enumerate(evs)]

    def v2(self, threads, evs, pad=0):
        # every other dump leaves left-overs after the NUL of the thread-map names (the declared name ends at the NUL)
        return D.build_v2(threads, pad, self.records(evs), name_junk=(len(evs) % 2 == 1))

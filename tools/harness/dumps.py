"""Builders for synthetic kdebug dumps (spec-side encoders in Python), used by the container, filter and
formatting correspondences.  They follow the file layouts as the property texts describe them (header, thread
map, padding, records / chunks, tagged blocks), not the parser's code."""
import plistlib
import struct

V2_MAGIC = b'\x00\x02\xaa\x55'
V3_MAGIC = b'\x00\x03\xaa\x55'
STACKSHOT_END = b'stackshot_out_fl'
TAG_THREADMAP = b'\x00\x1d\x00\x00\x00\x00\x00\x00'
TAG_EVENTS = b'\x00\x1e\x00\x00\x00\x00\x00\x00'
TAG_MORE_EVENTS = b'\x00\x20\x00\x00\x00\x00\x00\x00'
TAG_DYLD_MODULES = b'\x01\x80\x00\x00\x00\x00\x00\x00'
TAG_TRACE_CODES = b'\x0f\x80\x00\x00\x00\x00\x00\x00'
TAG_PROCESSES = b'\x10\x80\x00\x00\x00\x00\x00\x00'
TAG_LOG_EVENTS = b'\x11\x80\x00\x00\x00\x00\x00\x00'
TAG_LOG_STRINGS = b'\x12\x80\x00\x00\x00\x00\x00\x00'
TAG_KERNEL_EXTENSIONS = b'\x05\x80\x00\x00\x00\x00\x00\x00'
TAG_IMAGES = b'\x04\x80\x00\x00\x01\x00\x00\x00'


def record(ts, words, tid, debugid, cpu=0, unused=0):
    return struct.pack('<Q32sQIIQ', ts, struct.pack('<QQQQ', *words), tid, debugid, cpu, unused)


def threadmap_entry(tid, pid, name, junk=False):
    """name: bytes of at most 19 bytes without NUL (what strlcpy into command[20] can produce); junk: the bytes after the
    terminating NUL are left-overs of an earlier, longer command (the buffer is not cleared) instead of zeros"""
    assert len(name) <= 19 and b'\0' not in name
    tail = b'\0' * (20 - len(name))
    if junk and len(tail) > 1:
        tail = b'\0' + b'.apple.WebKit.Networking'[:len(tail) - 1]
    return struct.pack('<QI', tid, pid) + name + tail


def build_v2(threads, pad, records, is64=1, freq=24000000, hdr_fill=b'\0', name_junk=False):
    """threads: [(tid, pid, name bytes)]; pad: number of zero bytes; records: [64-byte records]"""
    out = V2_MAGIC + struct.pack('<I', len(threads)) + hdr_fill * 8 + hdr_fill * 4 + struct.pack('<IQ', is64, freq)
    out += hdr_fill * 0x100
    for t in threads:
        out += threadmap_entry(*t, junk=name_junk)
    out += b'\0' * pad
    out += b''.join(records)
    return out


def v3_header(cpu_info=None, numer=125, denom=3, timestamp=1000, secs=1600000000, usecs=5, mw=0, dst=0, flags=0):
    plist = plistlib.dumps(cpu_info if cpu_info is not None else {'cpus': 2}, fmt=plistlib.FMT_BINARY)
    body = struct.pack('<IIQIIQQIIIII', 0x00001000, 0x00010000, 0, numer, denom, timestamp, secs, usecs, mw, dst,
                       flags, 0)
    body += struct.pack('<Q', len(plist)) + plist
    body += b'\0' * ((-len(body)) % 8)
    return body


def block(tag, payload, align=True):
    out = tag + struct.pack('<Q', len(payload)) + payload
    if align:
        out += b'\0' * ((-(8 + len(payload))) % 8)
    return out


def build_v3(threads, chunks, blocks=(), filler=b'', junk=b'', tm_trailing=b'', between=None, header=None,
             last_block_unaligned=False, name_junk=False):
    """chunks: list of lists of 64-byte records; blocks: [(tag, payload bytes)] in file order.
    between[i]: bytes between the MORE_EVENTS tag after chunk i and the next events tag."""
    out = V3_MAGIC + (header if header is not None else v3_header())
    out += b'\0' * 4                       # parser re-aligns to 8 from the start of the file
    out += filler + STACKSHOT_END
    out += junk + TAG_THREADMAP
    tm = b''.join(threadmap_entry(*t, junk=name_junk) for t in threads) + tm_trailing
    out += struct.pack('<Q', len(tm)) + tm
    for i, ch in enumerate(chunks):
        out += TAG_EVENTS + struct.pack('<Q', 64 * len(ch)) + b'\0' * 8 + b''.join(ch)
        if i + 1 < len(chunks):
            out += TAG_MORE_EVENTS + (between[i] if between else b'')
    for i, (tag, payload) in enumerate(blocks):
        last = i + 1 == len(blocks)
        out += block(tag, payload, align=not (last and last_block_unaligned))
    return out


def plist(obj):
    return plistlib.dumps(obj, fmt=plistlib.FMT_BINARY)


def raw_log(strings, cm, tid, sec=1600000000, usec=0, **optional):
    """raw log record dict with the mandatory keys; strings: list of texts (index = position)"""
    ev = {'cm': cm, 't': 'log', 's': 64, 'tid': tid, 'ns': 1, 'mct': 2, 'b': b'B' * 16, 'piu': b'P' * 16,
          'ud': {'sec': sec, 'usec': usec}, 'utz': {'mw': 0, 'dt': 0}}
    ev.update(optional)
    return ev


def string_index(strings):
    return {'StringIndex': {s: i for i, s in enumerate(strings)}}

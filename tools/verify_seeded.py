#!/usr/bin/env python3
"""Confirms a seeded change independently: in a scratch worktree, the suite passes with the change, the
demonstration fails with it and passes without it.  usage: verify_seeded.py <out_dir> <worktree> <seed_id>"""
import json, os, shutil, subprocess, sys

out, wt, sid = sys.argv[1:4]
env = dict(os.environ, PYTHONPATH=wt, PYTHONHASHSEED='0')
def sh(cmd, **kw):
    return subprocess.run(cmd, shell=True, cwd=wt, env=env, stdout=subprocess.PIPE, stderr=subprocess.STDOUT, text=True, **kw)
assert sh('git status --porcelain').stdout.strip() == '', 'worktree dirty'
r = sh(f'git apply {out}/patch.diff'); assert r.returncode == 0, r.stdout
files = sh('git diff --name-only').stdout.split()
t = sh('/venv/bin/python -m pytest -q -p no:cacheprovider 2>&1 | tail -1')
d1 = sh(f'/venv/bin/python {out}/demo.py', timeout=600)
sh('git checkout -- .')
d0 = sh(f'/venv/bin/python {out}/demo.py', timeout=600)
ok = ('69 passed' in t.stdout) and d1.returncode != 0 and d0.returncode == 0
print(sid, 'tests:', t.stdout.strip(), '| demo with change rc =', d1.returncode, '| without rc =', d0.returncode, '| OK' if ok else '| REJECTED')
if ok:
    dst = f'/verif/seeded/{sid}'
    os.makedirs(dst, exist_ok=True)
    for f in ('patch.diff', 'demo.py', 'notes.md'):
        shutil.copy(f'{out}/{f}', dst)
    meta = {'seed_id': sid, 'property': sid.split('_')[0], 'files_changed': files,
            'needs_to_manifest': open(f'{out}/notes.md').read()[:1500],
            'confirmed': {'suite_with_change': t.stdout.strip(), 'demo_with_change_rc': d1.returncode,
                          'demo_without_change_rc': d0.returncode,
                          'how': f'git apply patch.diff in a scratch worktree of /repo HEAD; PYTHONPATH=<worktree> /venv/bin/python -m pytest -q; PYTHONPATH=<worktree> /venv/bin/python demo.py (with and without the change)'},
            'demo_output_with_change_tail': d1.stdout[-800:]}
    json.dump(meta, open(f'{dst}/meta.json', 'w'), indent=1)
sys.exit(0 if ok else 1)

"""Runs OsLogEvent.from_raw_log_event on tagged-JSON plist values (C16)."""
import dataclasses
import enum
import json
import sys
from datetime import datetime, timezone, timedelta

from pykdebugparser.os_log_event import OsLogEvent, TraceIdentifier

EPOCH = datetime(1970, 1, 1, tzinfo=timezone.utc)


def untag(v):
    if v is None:
        return None
    (k, x), = v.items()
    if k == 'i':
        return x
    if k == 's':
        return x
    if k == 'b':
        return bytes.fromhex(x)
    if k == 'B':
        return x
    if k == 'l':
        return [untag(y) for y in x]
    if k == 'd':
        return {kk: untag(vv) for kk, vv in x}
    raise ValueError(k)


def tag(v):
    if v is None:
        return None
    if isinstance(v, bool):
        return {'B': v}
    if isinstance(v, enum.Enum):
        return {'i': int(v.value)}
    if isinstance(v, int):
        return {'i': int(v)}
    if isinstance(v, str):
        return {'s': v}
    if isinstance(v, bytes):
        return {'b': v.hex()}
    if isinstance(v, datetime):
        return {'i': (v - EPOCH) // timedelta(microseconds=1)}
    if isinstance(v, TraceIdentifier):
        return {'d': [[f.name, tag(getattr(v, f.name))] for f in dataclasses.fields(v)]}
    if isinstance(v, (list, tuple)):
        return {'l': [tag(x) for x in v]}
    if isinstance(v, dict):
        return {'d': [[k, tag(x)] for k, x in v.items()]}
    return {'s': 'UNSUPPORTED:' + type(v).__name__}


def via_dump(ev, strings, threads, unaligned=False):
    import io
    import os
    sys.path.insert(0, os.path.join(os.path.dirname(os.path.abspath(__file__)), '..', '..'))
    from tools.harness import dumps as D
    from pykdebugparser.pykdebugparser import PyKdebugParser
    n = max(strings) + 1 if strings else 0
    index = {'StringIndex': {strings.get(i, 'unused%d' % i): i for i in range(n)}}
    blocks = [(D.TAG_LOG_STRINGS, D.plist(index)), (D.TAG_LOG_EVENTS, D.plist({'Events': [ev]}))]
    # unaligned: the last section is not padded to 8 bytes (the file simply ends)
    data = D.build_v3([(t, p, nm.encode()) for t, p, nm in threads], [[]], blocks, last_block_unaligned=unaligned)
    logs = list(PyKdebugParser().os_log_events(io.BytesIO(data)))
    assert len(logs) == 1, len(logs)
    return logs[0]


def main():
    req = json.load(sys.stdin)
    out = []
    for case in req['cases']:
        strings = {int(k): v for k, v in case['strings']}
        ev = untag(case['event'])
        if case.get('alias'):
            # equal sub-dictionaries are ONE object (a binary plist may reference one container several times)
            seen = {}
            for k in list(ev):
                if isinstance(ev[k], dict):
                    key = repr(sorted(ev[k].items()))
                    ev[k] = seen.setdefault(key, ev[k])
        try:
            if case.get('via_dump'):
                # the same record inside a version-3 dump whose thread map declares the record's thread, read back through
                # the public API
                o = via_dump(ev, strings, case['threads'], bool(case.get('unaligned')))
            else:
                o = OsLogEvent.from_raw_log_event(ev, strings)
            out.append({'ok': [[f.name, tag(getattr(o, f.name))] for f in dataclasses.fields(o)], 'str': str(o)})
        except KeyError:
            out.append({'err': 1})
        except ValueError:
            out.append({'err': 2})
        except TypeError:
            out.append({'err': 3})
        except Exception as ex:
            out.append({'err': type(ex).__name__})
    json.dump({'results': out}, sys.stdout)


if __name__ == '__main__':
    main()

"""Runs OsLogEvent.from_raw_log_event on tagged-JSON plist values (C16)."""
import dataclasses
import enum
import json
import sys
from datetime import datetime, timezone, timedelta

from pykdebugparser.os_log_event import OsLogEvent, TraceIdentifier

EPOCH = datetime(1970, 1, 1, tzinfo=timezone.utc)


def untag(v):
    if v is None:
        return None
    (k, x), = v.items()
    if k == 'i':
        return x
    if k == 's':
        return x
    if k == 'b':
        return bytes.fromhex(x)
    if k == 'B':
        return x
    if k == 'l':
        return [untag(y) for y in x]
    if k == 'd':
        return {kk: untag(vv) for kk, vv in x}
    raise ValueError(k)


def tag(v):
    if v is None:
        return None
    if isinstance(v, bool):
        return {'B': v}
    if isinstance(v, enum.Enum):
        return {'i': int(v.value)}
    if isinstance(v, int):
        return {'i': int(v)}
    if isinstance(v, str):
        return {'s': v}
    if isinstance(v, bytes):
        return {'b': v.hex()}
    if isinstance(v, datetime):
        return {'i': (v - EPOCH) // timedelta(microseconds=1)}
    if isinstance(v, TraceIdentifier):
        return {'d': [[f.name, tag(getattr(v, f.name))] for f in dataclasses.fields(v)]}
    if isinstance(v, (list, tuple)):
        return {'l': [tag(x) for x in v]}
    if isinstance(v, dict):
        return {'d': [[k, tag(x)] for k, x in v.items()]}
    return {'s': 'UNSUPPORTED:' + type(v).__name__}


def main():
    req = json.load(sys.stdin)
    out = []
    for case in req['cases']:
        strings = {int(k): v for k, v in case['strings']}
        ev = untag(case['event'])
        try:
            o = OsLogEvent.from_raw_log_event(ev, strings)
            out.append({'ok': [[f.name, tag(getattr(o, f.name))] for f in dataclasses.fields(o)], 'str': str(o)})
        except KeyError:
            out.append({'err': 1})
        except ValueError:
            out.append({'err': 2})
        except TypeError:
            out.append({'err': 3})
        except Exception as ex:
            out.append({'err': type(ex).__name__})
    json.dump({'results': out}, sys.stdout)


if __name__ == '__main__':
    main()

"""Reports the decoder tables as the implementation builds them (C17)."""
import json
import sys

from pykdebugparser.trace_codes import default_trace_codes
from pykdebugparser.traces_parser import TracesParser
from pykdebugparser.trace_handlers import bsd, dyld, fsystem, mach, perf, trace, turnstile


def main():
    json.load(sys.stdin)
    p = TracesParser(default_trace_codes(), {}, {})
    fams = {'bsd': bsd, 'dyld': dyld, 'fsystem': fsystem, 'mach': mach, 'perf': perf, 'trace': trace, 'turnstile': turnstile}
    json.dump({'merged_keys': list(p.handlers.keys()),
               'families': {k: list(m.handlers.keys()) for k, m in fams.items()},
               'codes': sorted([k, v] for k, v in default_trace_codes().items())}, sys.stdout)


if __name__ == '__main__':
    main()

"""Runs pykdebugparser.kevent.from_kd_buf on hex-encoded buffers (C01)."""
import json
import struct
import sys

from pykdebugparser.kevent import from_kd_buf


def main():
    req = json.load(sys.stdin)
    out = []
    if req.get('history'):
        # earlier in the same process the library served a filtered listing (and left a lazy reader unfinished): decoding a
        # record is a function of its 64 bytes, whatever was asked before
        import io
        from pykdebugparser.pykdebugparser import PyKdebugParser
        dump = bytes.fromhex(req['history'])
        p = PyKdebugParser()
        p.filter_tid = 5
        p.filter_class = [4]
        list(p.kevents(io.BytesIO(dump)))
        req['_keep'] = p.kevents(io.BytesIO(dump))      # a generator that is never consumed
        try:
            next(req['_keep'])
        except StopIteration:
            pass
    for h in req['records']:
        buf = bytes.fromhex(h)
        try:
            e = from_kd_buf(buf)
            out.append({'ok': [e.timestamp, e.data.hex(), list(e.values), e.tid, e.debugid, e.eventid,
                               e.func_qualifier], 'fields': list(e._fields)})
        except struct.error:
            out.append({'err': 'StructError'})
        except Exception as ex:  # any other exception class is reported by name
            out.append({'err': type(ex).__name__})
    json.dump({'results': out}, sys.stdout)


if __name__ == '__main__':
    main()

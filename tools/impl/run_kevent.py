"""Runs pykdebugparser.kevent.from_kd_buf on hex-encoded buffers (C01)."""
import json
import struct
import sys

from pykdebugparser.kevent import from_kd_buf


def main():
    req = json.load(sys.stdin)
    out = []
    for h in req['records']:
        buf = bytes.fromhex(h)
        try:
            e = from_kd_buf(buf)
            out.append({'ok': [e.timestamp, e.data.hex(), list(e.values), e.tid, e.debugid, e.eventid,
                               e.func_qualifier], 'fields': list(e._fields)})
        except struct.error:
            out.append({'err': 'StructError'})
        except Exception as ex:  # any other exception class is reported by name
            out.append({'err': type(ex).__name__})
    json.dump({'results': out}, sys.stdout)


if __name__ == '__main__':
    main()

"""Exercises the public API of pykdebugparser.pykdebugparser.PyKdebugParser on dumps (C13, C14, C19, C06).

request: {'cases': [{'file': hex, 'table': [[id, name]...] | None, 'cfg': {...attributes to set...},
                     'calls': ['traces', 'kevents', 'formatted_kevents', 'formatted_traces', 'callstacks',
                               'formatted_callstacks', 'formatted_logs', 'os_log_events', ...],
                     'limit': n | None}]}
All calls of one case run on ONE parser object, in order (so residue between requests is observable).
"""
import io
import json
import sys

from pykdebugparser.pykdebugparser import PyKdebugParser


def describe(what, x):
    if what in ('kevents',):
        return ['Kevent', x.timestamp, x.tid, x.eventid, x.func_qualifier]
    if what == 'os_log_events':
        return ['OsLogEvent', x.continuous_nanoseconds_since_boot]
    if what == 'traces':
        try:
            text = str(x)
        except Exception as ex:
            text = 'STR-RAISED:' + type(ex).__name__
        k = x.ktraces
        return [type(x).__name__, k[0].timestamp if k else -1, k[-1].timestamp if k else -1, len(k), text,
                k[0].tid if k else -1, k[0].eventid if k else -1]
    if what == 'callstacks':
        return [x.timestamp, x.tid, [[f.address, str(f.uuid) if f.uuid is not None else None, f.offset] for f in x.frames]]
    return x          # formatted_* yield str


def fake_host_files(paths):
    """host axis: the named absolute paths exist on this 'host' as regular text files (a valid code-table text); everything else
    is untouched.  The paths are the absolute-path literals found in the library's source by the C18 check."""
    import builtins
    import io
    import os
    fake = set(paths)
    content = '0x40c0004\tHOST_TABLE_NAME\n0x7ff0000\tHOST_ONLY_NAME\n0x3010090\tHOST_LOOKUP\n'
    real_open, real_io_open, real_stat, real_lstat = builtins.open, io.open, os.stat, os.lstat

    def key(pth):
        try:
            return os.fspath(pth) if not isinstance(pth, int) else None
        except TypeError:
            return None

    def opener(real):
        def f(file, mode='r', *a, **kw):
            if key(file) in fake and 'w' not in mode and 'a' not in mode and '+' not in mode:
                return io.BytesIO(content.encode()) if 'b' in mode else io.StringIO(content)
            return real(file, mode, *a, **kw)
        return f

    def stat(real):
        def f(pth, *a, **kw):
            if key(pth) in fake:
                return real(__file__)
            return real(pth, *a, **kw)
        return f
    builtins.open, io.open, os.stat, os.lstat = opener(real_open), opener(real_io_open), stat(real_stat), stat(real_lstat)
    os.path.exists = lambda pth: key(pth) in fake or _exists(pth)
    os.path.isfile = lambda pth: key(pth) in fake or _isfile(pth)
    os.access = lambda pth, *a, **kw: key(pth) in fake or _access(pth, *a, **kw)


import os as _os
_exists, _isfile, _access = _os.path.exists, _os.path.isfile, _os.access


def main():
    req = json.load(sys.stdin)
    if _os.environ.get('VERIF_HOST_FILES'):
        fake_host_files(json.loads(_os.environ['VERIF_HOST_FILES']))
    out = []
    for case in req['cases']:
        data = bytes.fromhex(case['file'])
        p = PyKdebugParser()
        for k, v in (case.get('cfg') or {}).items():
            if k == 'filter_class_tuple':
                p.filter_class = tuple(v)
            elif k == 'timezone_minutes':
                from datetime import timezone, timedelta
                p.timezone = None if v is None else timezone(timedelta(minutes=v))
            else:
                setattr(p, k, v)
        table = None if case.get('table') is None else {int(k): v for k, v in case['table']}
        calls = []
        for what in case['calls']:
            if isinstance(what, dict) and 'set_table' in what:   # the caller edits the SAME table object in place
                table.clear()
                table.update({int(k): v for k, v in what['set_table']})
                calls.append({'call': 'set_table', 'items': [], 'err': None})
                continue
            if isinstance(what, dict):                  # {'set': {...}}: the caller changes settings between requests
                for k, v in what['set'].items():
                    setattr(p, k, v)
                calls.append({'call': 'set', 'items': [], 'err': None})
                continue
            rec = {'call': what, 'items': [], 'err': None}
            try:
                fn = getattr(p, what)
                if what in ('kevents', 'os_log_events', 'formatted_logs'):
                    gen = fn(io.BytesIO(data))
                else:
                    gen = fn(io.BytesIO(data), table)
                lim = case.get('limit')
                kept = []
                for i, x in enumerate(gen):
                    if lim is not None and i >= lim:
                        break
                    rec['items'].append(describe(what, x))
                    if what in ('traces', 'callstacks'):
                        kept.append(x)
                # nothing already reported is later changed: the objects handed out describe the same when the request is over
                late = [describe(what, x) for x in kept]
                if kept and late != rec['items']:
                    j = next(k for k in range(len(late)) if late[k] != rec['items'][k])
                    rec['err'] = 'ReportedObjectChangedLater'
                    rec['changed'] = {'index': j, 'when_reported': rec['items'][j], 'at_the_end': late[j]}
            except Exception as ex:
                rec['err'] = type(ex).__name__
            rec['cfg_after'] = {'filter_tid': p.filter_tid, 'filter_process': p.filter_process,
                                'filter_class': list(p.filter_class), 'filter_subclass': list(p.filter_subclass),
                                'filter_class_type': type(p.filter_class).__name__}
            rec['threads_pids'] = sorted([k, v] for k, v in p.threads_pids.items())
            rec['pids_names'] = sorted([k, v] for k, v in p.pids_names.items())
            calls.append(rec)
        out.append(calls)
    json.dump({'results': out}, sys.stdout)


if __name__ == '__main__':
    main()

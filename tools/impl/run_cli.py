"""Runs the command line (pykdebugparser.__main__.cli) on dumps written to temporary files and returns what it prints
(C06 count, C12/C13/C14 option plumbing).  Each case: {'file': hex, 'argv': [subcommand, options...]} ; the dump path is
appended by the runner."""
import json
import os
import sys
import tempfile

from click.testing import CliRunner

from pykdebugparser.__main__ import cli


def main():
    req = json.load(sys.stdin)
    out = []
    try:
        runner = CliRunner(mix_stderr=False)      # stdout only: click reports an aborting exception on stderr
    except TypeError:                             # newer click: stderr is always separate from .stdout
        runner = CliRunner()
    with tempfile.TemporaryDirectory() as d:
        for i, case in enumerate(req['cases']):
            path = os.path.join(d, 'dump%d.bin' % i)
            with open(path, 'wb') as fd:
                fd.write(bytes.fromhex(case['file']))
            r = runner.invoke(cli, list(case['argv']) + [path])
            exc = None
            if r.exception is not None and not isinstance(r.exception, SystemExit):
                exc = type(r.exception).__name__
            text = r.stdout
            lines = [] if text == '' else (text.split('\n')[:-1] if text.endswith('\n') else text.split('\n'))
            out.append({'exit': r.exit_code, 'exc': exc, 'lines': lines, 'raw_tail_newline': text.endswith('\n') or text == ''})
            os.unlink(path)
    json.dump({'results': out}, sys.stdout)


if __name__ == '__main__':
    main()

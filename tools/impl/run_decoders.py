"""Decodes windows with the registered decoders and renders them (C07 C08 C09 C10 C11 C17 C18).

request: {'host': None | {'errno': [[n, name]...], 'Signals': [[v, name]...], 'AddressFamily': [...], 'SocketKind': [...],
                          'SOL_SOCKET': n},
          'cases': [{'events': [[code, q, [w0..w3], tid]...], 'gstr': [[k, text]...], 'table': [[id,name]..]|None}]}
With 'host' given, the modules bsd.errno / bsd.Signals / bsd.socket are replaced by stand-ins built from it (another
platform's tables) for the duration of the request.
"""
import enum
import json
import struct
import sys
import types

from pykdebugparser.kevent import Kevent
from pykdebugparser.trace_codes import default_trace_codes
from pykdebugparser.traces_parser import TracesParser
from pykdebugparser.trace_handlers import bsd


def host_report():
    import errno as _e
    import signal as _s
    import socket as _k
    return {'errno': sorted([k, v] for k, v in bsd.errno.errorcode.items()),
            'Signals': sorted([int(m.value), m.name] for m in bsd.Signals),
            'AddressFamily': sorted([int(m.value), m.name] for m in bsd.socket.AddressFamily),
            'SocketKind': sorted([int(m.value), m.name] for m in bsd.socket.SocketKind),
            'SOL_SOCKET': int(bsd.socket.SOL_SOCKET)}


def install_host(h):
    saved = (bsd.errno, bsd.Signals, bsd.socket)
    bsd.errno = types.SimpleNamespace(errorcode={int(k): v for k, v in h['errno']})
    bsd.Signals = enum.IntEnum('Signals', [(n, int(v)) for v, n in h['Signals']])
    bsd.socket = types.SimpleNamespace(
        AddressFamily=enum.IntEnum('AddressFamily', [(n, int(v)) for v, n in h['AddressFamily']]),
        SocketKind=enum.IntEnum('SocketKind', [(n, int(v)) for v, n in h['SocketKind']]),
        SOL_SOCKET=int(h['SOL_SOCKET']))
    return saved


def main():
    req = json.load(sys.stdin)
    saved = None
    if req.get('host'):
        saved = install_host(req['host'])
    try:
        codes = default_trace_codes()
        out = []
        for case in req['cases']:
            table = codes if case.get('table') is None else {int(k): v for k, v in case['table']}
            parser = TracesParser(table, {}, {})
            for k, text in case.get('gstr') or []:
                parser.global_strings[int(k)] = text
            tss = case.get('ts') or [i + 1 for i in range(len(case['events']))]
            evs = [Kevent(tss[i], struct.pack('<QQQQ', *ws), tuple(ws), tid, code | q, code, q)
                   for i, (code, q, ws, tid) in enumerate(case['events'])]
            try:
                t = parser.parse_event_list(evs)
                if t is None:
                    out.append({'none': True})
                else:
                    out.append({'text': str(t).encode('utf-8', 'surrogatepass').hex(), 'cls': type(t).__name__})
            except ValueError as ex:
                out.append({'err': 1, 'cls': type(ex).__name__})
            except IndexError:
                out.append({'err': 2})
            except KeyError:
                out.append({'err': 3})
            except Exception as ex:
                out.append({'err': 99, 'cls': type(ex).__name__})
        res = {'results': out, 'host': host_report()}
    finally:
        if saved:
            bsd.errno, bsd.Signals, bsd.socket = saved
    json.dump(res, sys.stdout)


if __name__ == '__main__':
    main()

"""Decodes windows with the registered decoders and renders them (C07 C08 C09 C10 C11 C17 C18).

request: {'host': None | {'errno': [[n, name]...], 'Signals': [[v, name]...], 'AddressFamily': [...], 'SocketKind': [...],
                          'SOL_SOCKET': n},
          'cases': [{'events': [[code, q, [w0..w3], tid]...], 'gstr': [[k, text]...], 'table': [[id,name]..]|None}]}
With 'host' given, the modules bsd.errno / bsd.Signals / bsd.socket are replaced by stand-ins built from it (another
platform's tables) for the duration of the request.
"""
import enum
import json
import struct
import sys
import types

from pykdebugparser.kevent import Kevent
from pykdebugparser.trace_codes import default_trace_codes
from pykdebugparser.traces_parser import TracesParser
from pykdebugparser.trace_handlers import bsd


def host_report():
    import errno as _e
    import signal as _s
    import socket as _k
    return {'errno': sorted([k, v] for k, v in bsd.errno.errorcode.items()),
            'Signals': sorted([int(m.value), m.name] for m in bsd.Signals),
            'AddressFamily': sorted([int(m.value), m.name] for m in bsd.socket.AddressFamily),
            'SocketKind': sorted([int(m.value), m.name] for m in bsd.socket.SocketKind),
            'SOL_SOCKET': int(bsd.socket.SOL_SOCKET)}


def install_host(h):
    saved = (bsd.errno, bsd.Signals, bsd.socket)
    bsd.errno = types.SimpleNamespace(errorcode={int(k): v for k, v in h['errno']})
    bsd.Signals = enum.IntEnum('Signals', [(n, int(v)) for v, n in h['Signals']])
    bsd.socket = types.SimpleNamespace(
        AddressFamily=enum.IntEnum('AddressFamily', [(n, int(v)) for v, n in h['AddressFamily']]),
        SocketKind=enum.IntEnum('SocketKind', [(n, int(v)) for v, n in h['SocketKind']]),
        SOL_SOCKET=int(h['SOL_SOCKET']))
    return saved


def install_ilp32():
    """the C data model is host state too: a host whose `long` has 32 bits (Windows, 32-bit systems)"""
    import ctypes
    from pykdebugparser.trace_handlers import dyld, fsystem, mach, perf, trace, turnstile
    ns = types.SimpleNamespace(**{k: getattr(ctypes, k) for k in dir(ctypes) if not k.startswith('__')})
    ns.c_long, ns.c_ulong = ctypes.c_int32, ctypes.c_uint32
    ns.c_ssize_t, ns.c_size_t = ctypes.c_int32, ctypes.c_uint32
    import sys as _sys
    sysns = types.SimpleNamespace(**{k: getattr(_sys, k) for k in dir(_sys) if not k.startswith('__')})
    sysns.maxsize = 2 ** 31 - 1
    for mod in (bsd, dyld, fsystem, mach, perf, trace, turnstile):
        if hasattr(mod, 'ctypes'):
            mod.ctypes = ns
        if hasattr(mod, 'sys'):
            mod.sys = sysns
        if hasattr(mod, 'maxsize'):
            mod.maxsize = 2 ** 31 - 1
        for nm in ('c_long', 'c_ulong', 'c_ssize_t', 'c_size_t'):
            if hasattr(mod, nm):
                setattr(mod, nm, getattr(ns, nm))


def main():
    req = json.load(sys.stdin)
    saved = None
    if req.get('ilp32'):
        install_ilp32()
    if req.get('host'):
        saved = install_host(req['host'])
    try:
        codes = default_trace_codes()
        out = []
        for case in req['cases']:
            table = codes if case.get('table') is None else {int(k): v for k, v in case['table']}
            parser = TracesParser(table, {}, {})
            for k, text in case.get('gstr') or []:
                parser.global_strings[int(k)] = text
            tss = case.get('ts') or [i + 1 for i in range(len(case['events']))]
            evs = [Kevent(tss[i], struct.pack('<QQQQ', *ws), tuple(ws), tid, code | q, code, q)
                   for i, (code, q, ws, tid) in enumerate(case['events'])]
            try:
                t = parser.parse_event_list(evs)
                if t is None:
                    out.append({'none': True})
                else:
                    text = str(t)
                    if str(t) != text:           # a trace renders the same every time it is printed
                        out.append({'err': 97, 'cls': 'TextChangesOnSecondStr', 'first': text, 'second': str(t)})
                    else:
                        out.append({'text': text.encode('utf-8', 'surrogatepass').hex(), 'cls': type(t).__name__})
            except ValueError as ex:
                out.append({'err': 1, 'cls': type(ex).__name__})
            except IndexError:
                out.append({'err': 2})
            except KeyError:
                out.append({'err': 3})
            except Exception as ex:
                out.append({'err': 99, 'cls': type(ex).__name__})
        res = {'results': out, 'host': host_report()}
    finally:
        if saved:
            bsd.errno, bsd.Signals, bsd.socket = saved
    json.dump(res, sys.stdout)


if __name__ == '__main__':
    main()

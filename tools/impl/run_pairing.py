"""Feeds event histories to pykdebugparser.traces_parser.TracesParser (C04, C05).

Every registered decoder is wrapped by a recorder: the original decoder still runs on the delivered window
(so the trace-class decoders perform their table writes), the recorder reports WHICH window was delivered,
by stream index (the timestamp field carries the index; identity is checked through id()).
"""
import json
import struct
import sys

from pykdebugparser.kevent import Kevent
from pykdebugparser.trace_codes import default_trace_codes
from pykdebugparser.traces_parser import TracesParser


class Rec:
    def __init__(self, events):
        self.ktraces = events


class LogDict(dict):
    def __init__(self):
        super().__init__()
        self.log = []
        self.current = None

    def __setitem__(self, k, v):
        self.log.append((self.current, k, v))
        super().__setitem__(k, v)

    # a name is only ever learned, never forgotten: removals are recorded too
    def __delitem__(self, k):
        self.log.append((self.current, k, '<deleted>'))
        super().__delitem__(k)

    def pop(self, k, *d):
        if k in self:
            self.log.append((self.current, k, '<deleted>'))
        return super().pop(k, *d)

    def clear(self):
        for k in list(self):
            self.log.append((self.current, k, '<deleted>'))
        super().clear()


def wrap(orig, stats):
    def h(parser, events):
        window = list(events)
        try:
            t = orig(parser, events)
            stats.setdefault('_texts', {})[id(window[-1])] = None if t is None else str(t)
            # the window a caller sees is the trace's own event list: where the decoder hands out another list than the one
            # it was given, that list is what is reported
            kt = getattr(t, 'ktraces', None)
            if isinstance(kt, (list, tuple)) and [id(x) for x in kt] != [id(x) for x in window]:
                return Rec(list(kt))
        except Exception as ex:          # decoder trouble is C07's subject, not pairing's
            stats[type(ex).__name__] = stats.get(type(ex).__name__, 0) + 1
        return Rec(window)
    return h


def run_history(hist, codes, declared=False):
    stats = {}
    names = LogDict()
    # declared: the parser is built with a thread map that already declares every thread of the history (as after a dump's
    # thread map, or on a second request on the same object)
    tp = {tid: 1 + k for k, tid in enumerate(sorted({e[0] for e in hist}))} if declared else {}
    parser = TracesParser(codes, tp, names)
    parser.handlers = {k: wrap(v, stats) for k, v in parser.handlers.items()}
    evs = []
    for i, (tid, code, q, ws) in enumerate(hist):
        evs.append(Kevent(i, struct.pack('<QQQQ', *ws), tuple(ws), tid, code | q, code, q))
    ident = {id(e): i for i, e in enumerate(evs)}
    outs, texts = [], []
    for e in evs:
        names.current = e.tid
        r = parser.feed(e)
        if r is None:
            outs.append(None)
            texts.append(None)
        else:
            outs.append([ident.get(id(x), -1) for x in r.ktraces])
            texts.append(stats.get('_texts', {}).get(id(e)))
    learn = []
    for tid, pid, name in names.log:
        learn.append([tid, pid, name.encode('utf-8').hex() if isinstance(name, str) else repr(name)])
    open_events = sorted([t, c] for t, d in parser.on_going_events.items() for c in d)
    open_traces = sorted([t, c] for t, d in parser.on_going_traces.items() for c in d)
    stats.pop('_texts', None)
    return {'outs': outs, 'texts': texts, 'learn': learn, 'decoder_errors': stats, 'open_events': open_events,
            'open_traces': open_traces}


def main():
    req = json.load(sys.stdin)
    codes = default_trace_codes()
    tables = req.get('tables')
    out = []
    for i, h in enumerate(req['histories']):
        t = codes if not tables or tables[i] is None else {int(k): v for k, v in tables[i]}
        out.append(run_history(h, t, declared=bool(req.get('declared')) and i % 2 == 1))
    json.dump({'results': out}, sys.stdout)


if __name__ == '__main__':
    main()

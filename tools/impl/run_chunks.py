"""Reassembly of split paths / strings / thread names by the real decoders (C08).
case: {'kind': 0|1|2, 'events': [[q, [w0..w3]]...]}  -> decoded (a, b, text hex)"""
import json
import struct
import sys

from pykdebugparser.kevent import Kevent
from pykdebugparser.trace_codes import default_trace_codes
from pykdebugparser.traces_parser import TracesParser

NAMES = {0: 'VFS_LOOKUP', 1: 'TRACE_STRING_GLOBAL', 2: 'TRACE_STRING_THREADNAME'}


def main():
    req = json.load(sys.stdin)
    codes = default_trace_codes()
    by_name = {}
    for k, v in sorted(codes.items()):
        by_name.setdefault(v, k)
    out = []
    for case in req['cases']:
        code = by_name[NAMES[case['kind']]]
        parser = TracesParser(codes, {}, {})
        evs = [Kevent(i + 1, struct.pack('<QQQQ', *ws), tuple(ws), 7, code | q, code, q) for i, (q, ws) in enumerate(case['events'])]
        if case.get('foreign'):
            # the same chunks with unrelated records of the same thread and pairing domain in between (for strings and names:
            # other kernel trace records, incl. one with the END bit; for lookups: records of a syscall), payloads non-zero
            fcodes = ([by_name['BSC_getpid'], by_name['BSC_read']] if case['kind'] == 0 else
                      [by_name['TRACE_DATA_NEWTHREAD'], by_name['TRACE_STRING_PROC_EXIT'],
                       by_name['TRACE_STRING_THREADNAME_PREV' if case['kind'] == 2 else 'TRACE_STRING_THREADNAME']])
            mixed = []
            for i, e in enumerate(evs):
                mixed.append(e)
                if i + 1 < len(evs):
                    for j, (fc, q) in enumerate(case['foreign']):
                        fcode = fcodes[fc % len(fcodes)]
                        data = bytes([0x41 + (i + j) % 20]) * 32
                        mixed.append(Kevent(1000 + 10 * i + j, data, struct.unpack('<QQQQ', data), 7, fcode | q, fcode, q))
            evs = mixed
        window = [[e.eventid, e.func_qualifier, list(e.values)] for e in evs]
        window = [[e.eventid, e.func_qualifier, list(e.values)] for e in evs]
        try:
            t = parser.parse_event_list(evs)
            if [id(x) for x in t.ktraces] != [id(x) for x in evs]:
                out.append({'err': 'TraceDoesNotHoldItsWindow', 'ktraces': [x.timestamp for x in t.ktraces]})
                continue
            if case['kind'] == 0:
                out.append({'window': window, 'lookup_code': by_name['VFS_LOOKUP'], 'a': t.vnode_id, 'b': 0, 'text': t.path.encode('utf-8', 'surrogateescape').hex()})
            elif case['kind'] == 1:
                out.append({'window': window, 'lookup_code': by_name['VFS_LOOKUP'], 'a': t.debugid, 'b': t.str_id, 'text': t.vstr.encode('utf-8', 'surrogateescape').hex(),
                            'gstr': sorted([k, v] for k, v in parser.global_strings.items())})
            else:
                out.append({'window': window, 'lookup_code': by_name['VFS_LOOKUP'], 'a': 0, 'b': 0, 'text': t.name.encode('utf-8', 'surrogateescape').hex(),
                            'tids_names': sorted([k, v] for k, v in parser.tids_names.items())})
        except Exception as ex:
            out.append({'err': type(ex).__name__})
    json.dump({'results': out}, sys.stdout)


if __name__ == '__main__':
    main()

"""_format_callstack on constructed callstacks, and the colour check of _format_trace / _format_log (C14)."""
import json
import re
import sys
from uuid import UUID

from pykdebugparser.callstacks_parser import Callstack, Frame
from pykdebugparser.pykdebugparser import PyKdebugParser

ANSI = re.compile(r'\x1b\[[0-9;]*m')
SW = ['show_timestamp', 'show_name', 'show_func_qual', 'show_tid', 'show_process', 'show_args']


class T:
    def __init__(self, ts, tid, text):
        self.ktraces = [type('E', (), {'timestamp': ts, 'tid': tid})()]
        self.text = text

    def __str__(self):
        return self.text


def main():
    req = json.load(sys.stdin)
    out = []
    for case in req['cases']:
        p = PyKdebugParser()
        for name, v in zip(SW, case['bits']):
            setattr(p, name, v)
        for tid, pid, nm in case['tm']:
            p.threads_pids[tid] = pid
            p.pids_names[pid] = nm
        if 'frames' in case:
            frames = [Frame(a, None if u is None else UUID(bytes=bytes.fromhex(u)), off) for a, u, off in case['frames']]
            p.color = False
            out.append({'line': p._format_callstack(Callstack(case['ts'], case['tid'], frames))})
        else:
            t = T(case['ts'], case['tid'], case['text'])
            p.color = False
            plain = p._format_trace(t)
            p.color = True
            colored = p._format_trace(t)
            out.append({'plain': plain, 'colored_stripped': ANSI.sub('', colored), 'colored_differs': plain != colored})
    json.dump({'results': out}, sys.stdout)


if __name__ == '__main__':
    main()

"""_format_callstack on constructed callstacks, and the colour check of _format_trace / _format_log (C14)."""
import json
import os
import re
import sys
from datetime import datetime, timezone, timedelta
from uuid import UUID

from pykdebugparser.callstacks_parser import Callstack, Frame
from pykdebugparser.pykdebugparser import PyKdebugParser

# colouring is requested through the parser's own switch; make termcolor honour it although stdout is a pipe
os.environ.pop('NO_COLOR', None)
os.environ.pop('ANSI_COLORS_DISABLED', None)
os.environ['FORCE_COLOR'] = '1'
ANSI = re.compile(r'\x1b\[[0-9;]*m')
SW = ['show_timestamp', 'show_name', 'show_func_qual', 'show_tid', 'show_process', 'show_args']


class T:
    def __init__(self, ts, tid, text):
        self.ktraces = [type('E', (), {'timestamp': ts, 'tid': tid})()]
        self.text = text

    def __str__(self):
        return self.text


def main():
    req = json.load(sys.stdin)
    out = []
    for case in req['cases']:
        p = PyKdebugParser()
        for name, v in zip(SW, case['bits']):
            setattr(p, name, v)
        for tid, pid, nm in case['tm']:
            p.threads_pids[tid] = pid
            p.pids_names[pid] = nm
        if 'log' in case:
            lg = case['log']
            o = type('L', (), {})()
            o.unix_date = datetime.fromtimestamp(lg['secs'], tz=timezone(timedelta(minutes=lg['tzmin']))) + timedelta(microseconds=lg['usecs'])
            o.process = lg['process']
            o.thread_identifier = case['tid']
            o.composed_message = lg['message']
            p.color = case['color']
            try:
                out.append({'line': p._format_log(o), 'tstext': o.unix_date.strftime('%Y-%m-%d %H:%M:%S.%f')})
            except Exception as e:  # noqa
                out.append({'err': repr(e)})
        elif 'frames' in case:
            frames = [Frame(a, None if u is None else UUID(bytes=bytes.fromhex(u)), off) for a, u, off in case['frames']]
            p.color = False
            out.append({'line': p._format_callstack(Callstack(case['ts'], case['tid'], frames))})
        else:
            t = T(case['ts'], case['tid'], case['text'])
            p.color = False
            plain = p._format_trace(t)
            p.color = True
            colored = p._format_trace(t)
            out.append({'plain': plain, 'colored_stripped': ANSI.sub('', colored), 'colored_differs': plain != colored})
    json.dump({'results': out}, sys.stdout)


if __name__ == '__main__':
    main()

"""Runs pykdebugparser.trace_codes.from_trace_codes_text on texts (given as lists of code points) and reports the
separator sets of str.splitlines / str.split over all code points (C19)."""
import json
import sys

from pykdebugparser.trace_codes import from_trace_codes_text, default_trace_codes


def main():
    req = json.load(sys.stdin)
    out = []
    for cps in req['texts']:
        text = ''.join(map(chr, cps))
        try:
            d = from_trace_codes_text(text)
            out.append({'ok': [[k, [ord(c) for c in v]] for k, v in d.items()]})
        except IndexError:
            out.append({'err': 1})
        except ValueError:
            out.append({'err': 2})
        except Exception as ex:
            out.append({'err': type(ex).__name__})
    res = {'results': out}
    if req.get('separators'):
        lb, ws = [], []
        for cp in range(0x110000):
            if 0xd800 <= cp <= 0xdfff:
                continue
            ch = chr(cp)
            if len(('a' + ch + 'b').splitlines()) == 2:
                lb.append(cp)
            if len(('a' + ch + 'b').split()) == 2:
                ws.append(cp)
        res['linebreaks'] = lb
        res['whitespace'] = ws
        res['crlf_one_break'] = 'a\r\nb'.splitlines() == ['a', 'b']
    if req.get('default'):
        res['default'] = sorted([k, v] for k, v in default_trace_codes().items())
    json.dump(res, sys.stdout)


if __name__ == '__main__':
    main()

"""Calls the command line's option type BASED_INT.convert on given texts (C12): -> int as str, or null for a usage error."""
import json
import sys

import click

from pykdebugparser.__main__ import BASED_INT


def main():
    req = json.load(sys.stdin)
    out = []
    for text in req['texts']:
        try:
            v = BASED_INT.convert(text, None, None)
            out.append(str(int(v)))
        except (click.UsageError, click.BadParameter, click.ClickException):
            out.append(None)
        except Exception as ex:  # noqa
            out.append('EXC:' + type(ex).__name__)
    json.dump({'results': out}, sys.stdout)


if __name__ == '__main__':
    main()

"""Runs KdBufParser.parse on (truncations of) dumps through a counting reader with a read budget (C02, C03, C06).

Observation points are taken by wrapping module attributes from the OUTSIDE (no change to /repo):
  KdBufParser.set_thread_map  -> the parsed thread map handed over
  kd_buf_parser.kd_v3_additional_data -> the (tag, payload) blocks as parsed
Everything after the blocks were parsed (plist interpretation, log decoding) is "phase B".
"""
import io
import json
import struct
import sys

import construct

from pykdebugparser import kd_buf_parser
from pykdebugparser.kd_buf_parser import KdBufParser
from pykdebugparser.os_log_event import OsLogEvent

MODP = (1 << 61) - 1

import dataclasses
import enum
from datetime import datetime, timezone, timedelta
from pykdebugparser.os_log_event import TraceIdentifier
EPOCH = datetime(1970, 1, 1, tzinfo=timezone.utc)


def tagv(v):
    if v is None:
        return None
    if isinstance(v, bool):
        return {'B': v}
    if isinstance(v, enum.Enum):
        return {'i': int(v.value)}
    if isinstance(v, int):
        return {'i': int(v)}
    if isinstance(v, str):
        return {'s': v}
    if isinstance(v, bytes):
        return {'b': v.hex()}
    if isinstance(v, datetime):
        return {'i': (v - EPOCH) // timedelta(microseconds=1)}
    if isinstance(v, TraceIdentifier):
        return {'d': [[f.name, tagv(getattr(v, f.name))] for f in dataclasses.fields(v)]}
    if isinstance(v, (list, tuple)):
        return {'l': [tagv(x) for x in v]}
    if isinstance(v, dict):
        return {'d': [[k, tagv(x)] for k, x in v.items()]}
    return {'s': 'UNSUPPORTED:' + type(v).__name__}


def mix(acc, x):
    return (acc * 1000003 + x + 1) % MODP


def mixl(acc, l):
    for x in l:
        acc = mix(acc, x)
    return acc


class Budget(Exception):
    pass


class CountingReader(io.BytesIO):
    def __init__(self, data, budget):
        super().__init__(data)
        self.calls = 0
        self.requested = 0
        self.budget = budget

    def read(self, n=-1):
        self.calls += 1
        self.requested += max(n, 0)
        if self.calls > self.budget:
            raise Budget()
        return super().read(n)


def err_code(ex):
    if isinstance(ex, Budget):
        return 7
    if isinstance(ex, KeyError):
        return 1
    if isinstance(ex, construct.core.StringError):
        return 3
    if isinstance(ex, construct.core.StreamError):
        return 2
    if isinstance(ex, struct.error):
        return 4
    if isinstance(ex, EOFError):
        return 5
    if type(ex).__module__.startswith(('plistlib', 'xml.parsers', 'pyexpat')) or type(ex).__name__ in ('InvalidFileException', 'ExpatError'):
        return 6
    return 99


class BlockSpy:
    def __init__(self, orig, sink):
        self.orig = orig
        self.sink = sink

    def parse_stream(self, reader):
        r = self.orig.parse_stream(reader)
        self.sink.append([(bytes(b.tag), bytes(b.data)) for b in r])
        return r


def run_one(data, tables0=None):
    tm_seen, blocks_seen = [], []
    orig_stm = KdBufParser.set_thread_map
    orig_blocks = kd_buf_parser.kd_v3_additional_data

    def spy_stm(self, parsed):
        parsed = list(parsed)
        tm_seen.append([(t.tid, t.pid, t.process) for t in parsed])
        return orig_stm(self, parsed)

    KdBufParser.set_thread_map = spy_stm
    kd_buf_parser.kd_v3_additional_data = BlockSpy(orig_blocks, blocks_seen)
    try:
        tp = {} if tables0 is None else {int(k): v for k, v in tables0[0]}
        pn = {} if tables0 is None else {int(k): v for k, v in tables0[1]}
        parser = KdBufParser(tp, pn)
        reader = CountingReader(data, 8 * len(data) + 4096)
        events, logs = [], []
        order_violation = []
        err = None
        phase_b = False
        try:
            for item in parser.parse(reader):
                if isinstance(item, OsLogEvent):
                    logs.append(item)
                else:
                    if logs:
                        order_violation.append(len(events))
                    events.append(item)
        except Exception as ex:
            err = ex
            phase_b = bool(blocks_seen)
    finally:
        KdBufParser.set_thread_map = orig_stm
        kd_buf_parser.kd_v3_additional_data = orig_blocks
    evsum = 0
    for e in events:
        evsum = mixl(mixl(evsum, [e.timestamp, e.tid, e.debugid, e.eventid, e.func_qualifier]),
                     list(e.values) + list(e.data))
    summary = [len(events), evsum, 0 if (err is None or phase_b) else err_code(err)]
    if tm_seen:
        s = 0
        for tid, pid, name in tm_seen[0]:
            nb = name.encode('utf-8')
            s = mixl(mixl(s, [tid, pid, len(nb)]), list(nb))
        summary += [1, len(tm_seen[0]), s]
    else:
        summary += [0]
    if blocks_seen:
        s = 0
        for tag, payload in blocks_seen[0]:
            s = mixl(mixl(mixl(s, list(tag)), [len(payload)]), list(payload))
        summary += [1, len(blocks_seen[0]), s]
    else:
        summary += [0]
    return {
        'summary': summary,
        'events': [[e.timestamp, e.tid, e.debugid] for e in events],
        'n_logs': len(logs),
        'err': None if err is None else type(err).__name__,
        'err_phase_b': phase_b,
        'threads_pids': sorted(([k, v] for k, v in parser.threads_pids.items()), key=lambda kv: (type(kv[0]).__name__, kv[0])),
        'pids_names': sorted(([k, v] for k, v in parser.pids_names.items()), key=lambda kv: (type(kv[0]).__name__, kv[0])),
        'reads': [reader.calls, reader.requested],
        'blocks': [[t.hex(), p.hex()] for t, p in blocks_seen[0]] if blocks_seen else None,
        'trace_codes': parser.trace_codes,
        'n_tm_calls': len(tm_seen),
        'event_after_log': bool(order_violation),
        'tm': tm_seen[0] if tm_seen else None,
        'meta': {'processes': tagv(parser.processes), 'images': tagv(parser.images), 'dyld': tagv(parser.dyld_modules),
                 'kexts': tagv(parser.kernel_extensions.get('Binaries'))},
        'logs': [[[f.name, tagv(getattr(o, f.name))] for f in dataclasses.fields(o)] for o in logs],
        'err_b_code': (1 if isinstance(err, KeyError) else 2 if isinstance(err, ValueError) else 3 if isinstance(err, TypeError)
                       else 99) if (err is not None and phase_b) else 0,
    }


def main():
    req = json.load(sys.stdin)
    out = []
    for case in req['cases']:
        if case.get('pair'):
            # two requests on ONE parser object, both created before either is read: each file's tables are those of the file
            # that is read last, whatever was created when
            import io as _io
            fa, fb = (bytes.fromhex(x) for x in case['pair'])
            tp, pn = {}, {}
            parser = KdBufParser(tp, pn)
            ga, gb = parser.parse(_io.BytesIO(fa)), parser.parse(_io.BytesIO(fb))
            res = {}
            try:
                na = len(list(ga))
                res['after_a'] = [sorted([k, v] for k, v in tp.items()), sorted([k, v] for k, v in pn.items())]
                nb = len(list(gb))
                res['after_b'] = [sorted([k, v] for k, v in tp.items()), sorted([k, v] for k, v in pn.items())]
                res['counts'] = [na, nb]
                res['err'] = None
            except Exception as ex:  # noqa
                res['err'] = type(ex).__name__
            out.append([res])
            continue
        data = bytes.fromhex(case['file'])
        ks = case.get('ks') or [len(data)]
        brief = case.get('brief', False)
        rs = []
        for k in ks:
            r = run_one(data[:k], case.get('tables0'))
            if brief:
                r = {'summary': r['summary'], 'err': r['err'], 'reads': r['reads'], 'err_phase_b': r['err_phase_b'],
                     'events': r['events'] if case.get('want_events') else None}
            rs.append(r)
        out.append(rs)
    json.dump({'results': out}, sys.stdout)


if __name__ == '__main__':
    main()

"""Runs PyKdebugParser.kevents / os_log_events on dumps with filter configurations (C12)."""
import io
import json
import sys

from pykdebugparser.pykdebugparser import PyKdebugParser


def main():
    req = json.load(sys.stdin)
    out = []
    for case in req['cases']:
        data = bytes.fromhex(case['file'])
        cfg = case['cfg']
        res = {}
        for what in ('kevents', 'os_log_events'):
            p = PyKdebugParser()
            # earlier requests with OTHER settings on the same object: the listing must be a function of the settings
            # in force and of the dump, not of what was asked before
            for old in case.get('before', []):
                p.filter_tid = old['tid']
                p.filter_process = old['process']
                p.filter_class = list(old['classes'])
                p.filter_subclass = list(old['subclasses'])
                # ... whichever listing that was: the other listings of the same object too, read to their end
                for w2 in ('traces', 'callstacks', what):
                    try:
                        list(getattr(p, w2)(io.BytesIO(data)))
                    except Exception:  # noqa
                        pass
            p.filter_tid = cfg['tid']
            p.filter_process = cfg['process']
            p.filter_class = list(cfg['classes'])
            p.filter_subclass = list(cfg['subclasses'])
            try:
                items = list(getattr(p, what)(io.BytesIO(data)))
                if what == 'kevents':
                    res[what] = [[type(e).__name__, e.timestamp] for e in items]
                else:
                    res[what] = [[type(e).__name__, e.continuous_nanoseconds_since_boot] for e in items]
            except Exception as ex:
                res[what] = {'err': type(ex).__name__}
            res[what + '_cfg_after'] = [p.filter_tid, p.filter_process, p.filter_class, p.filter_subclass]
        out.append(res)
    json.dump({'results': out}, sys.stdout)


if __name__ == '__main__':
    main()

"""Runs the list serializers of the decoder modules on words, and reports how the interpreter iterates every enum (C11)."""
import enum
import importlib
import json
import sys

MODS = ['bsd', 'dyld', 'fsystem', 'mach', 'perf', 'trace', 'turnstile']


def main():
    req = json.load(sys.stdin)
    mods = {m: importlib.import_module('pykdebugparser.trace_handlers.' + m) for m in MODS}
    out = []
    for fam, fn, words in req['calls']:
        f = getattr(mods[fam], fn)
        res = []
        for w in words:
            try:
                r = f(w)
                names = [m.name for m in r]
                # the decoders test membership in the result and print it afterwards: it must read the same twice
                if [m.name for m in r] != names:
                    res.append({'err': 'ResultCanBeReadOnlyOnce:' + type(r).__name__, 'first_read': names})
                else:
                    res.append(names)
            except Exception as ex:
                res.append({'err': type(ex).__name__})
        out.append(res)
    iters = {}
    for m in mods.values():
        for name, obj in vars(m).items():
            if isinstance(obj, type) and issubclass(obj, enum.Enum) and obj.__module__ == m.__name__:
                iters[name] = {'iter': [x.name for x in obj], 'members': [[k, int(v.value)] for k, v in obj.__members__.items()],
                               'kind': [b.__name__ for b in obj.__mro__ if b.__module__ == 'enum'][0]}
    comps = []
    for fam, ename, words in req.get('anybit', []):
        E = getattr(mods[fam], ename)
        comps.append([[m.name for m in E if m.value & w] for w in words])
    json.dump({'results': out, 'iters': iters, 'anybit': comps, 'python': list(sys.version_info[:3])}, sys.stdout)


if __name__ == '__main__':
    main()

"""Decodes windows with the real decoders and runs CallstacksParser over the decoded traces (C15, C20).
Output uses the canonical flat encoding of coq/theories/CompositeCases.v."""
import json
import struct
import sys

from pykdebugparser.callstacks_parser import CallstacksParser
from pykdebugparser.kevent import Kevent
from pykdebugparser.trace_codes import default_trace_codes
from pykdebugparser.traces_parser import TracesParser
from pykdebugparser.trace_handlers.perf import PerfEvent
from pykdebugparser.trace_handlers.dyld import DyldUuidMapA, DyldLaunchExecutable
from pykdebugparser.trace_handlers.mach import MachVmfault


def uuid_words(u):
    b = u.bytes
    return [int.from_bytes(b[:8], 'little'), int.from_bytes(b[8:], 'little')]


def enc(trace):
    if isinstance(trace, PerfEvent):
        out = [1, sum(s.value for s in trace.sample_what), trace.actionid]
        if trace.th_info is None:
            out += [0]
        else:
            t = trace.th_info
            out += [1, t.pid, t.tid, t.dq_addr, sum(r.value for r in t.runmode)]
        if trace.cs_frames is None:
            out += [0]
        else:
            out += [1, sum(f.value for f in trace.cs_flags), len(trace.cs_frames)] + list(trace.cs_frames)
        return out
    if isinstance(trace, DyldLaunchExecutable):
        out = [2, trace.main_executable_mh, len(trace.uuid_map_a)]
        for i in trace.uuid_map_a:
            out += [i.load_addr] + uuid_words(i.uuid)
        return out
    if isinstance(trace, DyldUuidMapA):
        return [3, trace.load_addr] + uuid_words(trace.uuid)
    if isinstance(trace, MachVmfault):
        out = [4, 1, trace.addr, 1 if trace.is_kernel else 0, trace.result]
        out += [0] if trace.fault_type is None else [1, trace.fault_type.value]
        if trace.pid is None and trace.caller_prot is None:
            out += [0]
        else:
            out += [1, trace.pid, sum(p.value for p in trace.caller_prot)]
        return out
    return [0]


def main():
    req = json.load(sys.stdin)
    codes = default_trace_codes()
    results = []
    for ci, case in enumerate(req['cases']):
        # every other case: the tables already declare the threads of the windows (as after a dump's thread map); what a
        # composite trace shows comes from its own window, not from the tables
        declared = {7: 4242, 8: 4343, 0x999: 4444} if (req.get('declared') and ci % 2 == 1) else {}
        parser = TracesParser(codes, dict(declared), {4242: 'declared-a', 4343: 'declared-b'} if declared else {})
        traces, decs, errs = [], [], []
        for w in case:
            evs = [Kevent(ts, struct.pack('<QQQQ', *vals), tuple(vals), tid, code | q, code, q)
                   for code, vals, ts, tid, q in w]
            try:
                t = parser.parse_event_list(evs)
                traces.append(t)
                decs.append(enc(t))
                errs.append(None)
            except ValueError:
                decs.append([4, 0])
                errs.append('ValueError')
            except Exception as ex:
                decs.append([99])
                errs.append(type(ex).__name__)
        cs = []
        try:
            def desc(c):
                o = [c.timestamp, c.tid, len(c.frames)]
                for f in c.frames:
                    o += [f.address, 0] if f.uuid is None else [f.address, 1] + uuid_words(f.uuid) + [f.offset]
                return o
            kept = []
            for c in CallstacksParser([], []).feed_generator(iter(traces)):
                cs.append(desc(c))
                kept.append(c)
            # a callstack that was handed out is not changed by later samples: described again at the end, it is the same
            if [desc(c) for c in kept] != cs:
                cs = [[98]] + [desc(c) for c in kept]
                errs.append('callstacks:ReportedObjectChangedLater')
        except Exception as ex:
            cs = [[99]]
            errs.append('callstacks:' + type(ex).__name__)
        stream = None
        if req.get('stream'):
            # the same records, in order, through feed(): what each record makes the parser hand out
            sp = TracesParser(codes, dict(declared), {4242: 'declared-a', 4343: 'declared-b'} if declared else {})
            stream = []
            for w in case:
                for code, vals, ts, tid, q in w:
                    e = Kevent(ts, struct.pack('<QQQQ', *vals), tuple(vals), tid, code | q, code, q)
                    try:
                        t = sp.feed(e)
                        stream.append(None if t is None else enc(t))
                    except ValueError:
                        stream.append([4, 0])
                    except Exception as ex:
                        stream.append([99, type(ex).__name__])
        results.append({'decodes': decs, 'callstacks': cs, 'errors': errs, 'stream': stream,
                        'threads_pids': sorted([k, v] for k, v in parser.threads_pids.items() if declared.get(k) != v)})
    json.dump({'results': results}, sys.stdout)


if __name__ == '__main__':
    main()

#!/usr/bin/env python3
"""Writes /verif/MANIFEST.json from the table below (one entry per property that has a check)."""
import json
import os

VERIF = os.path.dirname(os.path.dirname(os.path.abspath(__file__)))

CLAIMS = {
    'C01': dict(
        text='Coq theorems c01_total/fields/split/rebuild/noninterference over ALL byte lists, about from_kd_buf as '
             'regenerated from kevent.py by the AST translator on every run; closed under the global context.',
        note='trusted: Coq kernel+vm_compute, tr_kevent.py translator, PyStruct.v model of struct.unpack (validated by '
             'the field-exact correspondence on every run)',
        technique='Coq proof over generated model + differential correspondence', ref='DESIGN.md §5 C01'),
    'C04': dict(
        text='Coq theorems c04_code_refines_model (the statements of _feed_start/end/single_event and the qualifier dispatch table, '
             'REGENERATED from the source by tr_pairing.py, compute the table step of the model; no KeyError possible), '
             'c04_invariant/outputs/window_meaning/end/stray_end/members/nodup/complete/all/none/start: for '
             'EVERY finite history and every routing/decodability predicate the pairing machine (hand model of '
             'TracesParser.feed) delivers exactly the per-key window of the functional specification; closed under the '
             'global context. Model tied to the code by a vm_compute correspondence on seeded histories each run.',
        note='trusted: Coq kernel+vm_compute; hand model Pairing.v (validated, not verified, against traces_parser.py by '
             'the correspondence); dom/dec derived by tr_handlers.py from the handlers dicts and trace.codes; decoders '
             'abstract', technique='Coq proof (invariant by induction over histories) + differential correspondence',
        ref='DESIGN.md §5 C04'),
    'C05': dict(
        text='Coq theorems c05_projection/interleaving/window_one_thread/names/names_interleaving: for every history the '
             'per-thread (trigger, window) list and the per-thread name-learning log equal those of the thread run alone, '
             'hence agree across ALL interleavings; closed under the global context. Rendered text is covered as far as it '
             'is a function of the window (window part proved here).',
        note='trusted: as C04, plus Learn.v (hand model of the four trace-class name decoders, validated by the '
             'correspondence against the real decoders). partial: text invariance relies on the decoder model of C07/C09',
        technique='Coq proof (projection lemma over the pairing spec + keyed-state machine) + differential correspondence',
        ref='DESIGN.md §5 C05'),
    'C15': dict(
        text='Coq theorems c15_code_refines_model/code_lists_parallel (the statements of callstacks_parser.py, regenerated from the '
             'source on every run and run on the two parallel lists with list.insert / negative indexing / IndexError written '
             'out, compute the model for every trace stream) and c15_sorted/first_wins/order_independent/attribution/attribution_none/feed/frames/frames_iff: for '
             'ALL announcement sequences and samples the image table is strictly sorted, equals the first-occurrence map '
             '(hence is order-independent for distinct images), each frame goes to the greatest earlier-announced load '
             'address <= frame with offset frame-address, and frames are the first N words of the data records; closed under '
             'the global context. Tied to the code by a correspondence through the real decoders and CallstacksParser.',
        note='trusted: Coq kernel+vm_compute; hand models Callstacks.v/Composite.v (parallel lists as list of pairs; bisect on '
             'sorted list = count of elements <= x) validated against the code each run; recogniser constants regenerated; '
             'translator tr_callstacks.py (fail-closed)',
        technique='Coq proof (sorted-table invariant, extensionality of sorted maps, refinement of the regenerated statement program) + differential correspondence',
        ref='DESIGN.md §5 C15'),
    'C20': dict(
        text='Coq theorems c20_vmfault_result/pidprot, c20_launch_perm/sorted/stable, c20_perf_th_info/perf_cs over ALL windows '
             '(any number/order of nested records, any flag word); closed under the global context. Hand model of the three '
             'composite decoders tied to the code by a correspondence through the real decoders and by regenerated constants.',
        note='trusted: Coq kernel+vm_compute; hand model Composite.v validated against perf.handle_event, '
             'dyld.handle_timing_launch_executable, mach.handle_mach_vmfault each run; flag-name rendering is C11',
        technique='Coq proof (list/permutation reasoning over windows) + differential correspondence',
        ref='DESIGN.md §5 C20'),
    'C19': dict(
        text='Coq theorems c19_code_refines_model (the dict comprehension of from_trace_codes_text with the token positions and '
             'base regenerated from the source by tr_codes.py is the model), c19_parse (every text of well-formed lines, any number of lines, any inline whitespace, any '
             'terminator incl. CRLF, any trailing comment -> exactly the (id value, name) pairs), c19_last_wins/nothing_else/'
             'only_pairs (dict semantics), c19_id_bare/prefixed, c19_absent (an id absent from the supplied table is never '
             'decoded, any history), c19_renumber; closed under the global context. Tied to the code by a correspondence on '
             'generated + malformed texts, custom tables through TracesParser and the public API, and an exhaustive check '
             'of the separator sets against the interpreter.',
        note='trusted: Coq kernel+vm_compute; hand model TraceCodes.v of splitlines/split/int(_,16) (library oracles, separator '
             'sets validated over all code points each run; int syntax restricted to (0x|0X)?hex+); translator tr_codes.py '
             '(fail-closed); pairing model of C04',
        technique='Coq proof (parser round-trip by induction over lines) + differential correspondence',
        ref='DESIGN.md §5 C19'),
    'C02': dict(
        text='Coq theorems c02_code_dispatch / code_threadmap_entry / code_layouts (the magics of the dispatch, the byte layout of a '
             'thread-map entry and the fixed header sizes, regenerated from kd_buf_parser.py on every run by tr_container.py, are the '
             'model\'s; the five functions of the parser are compared with the exact texts the model was written from), '
             'c02_events (header + ANY thread map + ANY padding + ANY m complete records -> exactly m events in '
             'order, each the decoding of its record, under the guard that the record stream does not begin with a zero byte), '
             'c02_tables/c02_no_residue (tables = thread map, later entry wins, for EVERY previous table content), and '
             'c02_leading_zero_refuted (the unguarded statement is false: finding F01, recorded in known_findings.txt); closed '
             'under the global context. Hand model of parse_v2 + construct layouts tied to the code by a correspondence on '
             'generated, damaged and every-truncation dumps.',
        note='trusted: Coq kernel+vm_compute; Container.v (construct combinators, BytesIO.read, UTF-8 validity written out as '
             'library oracles) validated against the code each run; from_kd_buf is the generated model of C01',
        technique='Coq proof (encoder/parser round trip by induction) + differential correspondence', ref='DESIGN.md §5 C02'),
    'C06': dict(
        text='Coq theorems c06_code_print_with_count / code_cli_commands / code_cli_options (the counting loop, the option -> setting '
             'assignments of every command and the option defaults, regenerated from __main__.py by tr_cli.py, are the model\'s pwc '
             'and the tables the command-line correspondence is written for), c06_prefix_events (for EVERY byte string, v2 or v3 or garbage, EVERY cut offset and EVERY behaviour '
             'of the plist decoder the events of the cut dump are a prefix of those of the whole dump), c06_whole_records_only, '
             'c06_no_fuel_exhaustion (every loop consumes input: linear number of iterations), c06_pairing_incremental / '
             'filter / limit (the downstream pipeline never revises what it reported); closed under the global context. '
             'Correspondence on EVERY truncation offset of generated dumps through a counting reader with a read budget; '
             'lines-prefix and count-limit checked differentially incl. process/tid/class filters on semantic streams. The command line\'s --count loop is modelled (Cli.v: c06_count, c06_count_prefix, c06_count_incremental) and every command is run through click\'s test runner on whole and cut dumps against the API\'s lines.',
        note='trusted: as C02, plus the v3 part of Container.v (seek_until, Prefixed, Aligned/Select, GreedyRange). partial: '
             'wall-clock termination of CPython observed (budget + timeout), proof is about model loop fuel; formatted-line '
             'prefix is differential (formatter model is C14)',
        technique='Coq proof (prefix-monotonicity of every parsing stage) + differential correspondence on all truncations',
        ref='DESIGN.md §5 C06'),
    'C16': dict(
        text='Coq theorems c16_total (every record with the mandatory keys and ANY subset of the optional keys, values in '
             'range, decodes - by induction over the chain, the two table side conditions re-evaluated on the regenerated '
             'tables), c16_fields (present key -> converted value, absent -> declared default, for every declared field), '
             'c16_string_index, c16_time (exact integer microseconds), c16_traceid (parse = exact inverse of the bit packing '
             'for every defined namespace/type/flag); closed under the global context. Chain, dataclass fields, enums and maps '
             'are regenerated from os_log_event.py on every run; object-exact correspondence incl. decomposed messages.',
        note='trusted: Coq kernel+vm_compute; tr_oslog.py translator (fail-closed, validated by the correspondence); OsLog.v '
             'semantics of the conversions; enum/IntFlag construction rules; partial: float addition in unix_date not modelled '
             '(compared for sec < 2^31)', technique='Coq proof over generated tables + differential correspondence',
        ref='DESIGN.md §5 C16'),
    'C03': dict(
        text='Coq theorems c03_code_constants (stackshot marker, section tags and the seven block tags regenerated from '
             'kd_buf_parser.py by tr_container.py are the model\'s), c03_seek_first (tag scan stops after the FIRST occurrence), c03_whole_dump (for EVERY chunking, '
             'thread map, filler/junk, block list: events = decodings of all records of all chunks in file order, thread map = '
             "the file's, blocks = the (tag, payload) pairs, normal end), c03_chunking_independent, c03_list_sections "
             '(kernel extensions / trace codes / log records concatenated in file order) and c03_single_sections; closed '
             'under the global context. Two-stage correspondence (container by checksummed summaries, interpretation and '
             'decoded logs value-exact) on dumps from a grammar; events-before-logs and table extension checked differentially.',
        note='partial: plist decoding is trusted (plistlib.loads is a parameter of the model). trusted: Coq kernel+vm_compute; '
             'Container.v / V3Meta.v hand models (construct combinators, BytesIO read/seek written out), the generated C16 '
             'log-record model; harness',
        technique='Coq proof (encoder/parser round trip by induction over chunks and blocks) + two-stage correspondence',
        ref='DESIGN.md §5 C03'),
    'C09': dict(
        text='The 454 decoder rows are regenerated from trace_handlers/*.py on every run (symbolic execution of each handler '
             'and of its dataclass __str__ into a token language). Coq theorems over the regenerated table: c09_call_structure, '
             'c09_sweep_positional + c09_position (a numeric parameter at position k reads START word k and NOTHING else, for '
             'ALL tuples/END records/contexts/hosts), c09_sweep_faithful + c09_faithful_injective (it shows the whole word in an '
             'injective form, up to a spec-side list of typed narrowings), c09_call_part (call part independent of the END '
             'record); closed under the global context. String-exact correspondence on every row. c09_call_from_START_record (DecoderWindow.v): the records between START and END other than the lookups are not read; checked through the pairing machine (stale START, 1100..66000 records in between).',
        note='trusted: Coq kernel+vm_compute; tr_decoders.py (fail-closed symbolic evaluator) and DecoderDSL.render, both '
             'validated string-exactly against str(trace) on every row each run; composite decoders are hand models',
        technique='Coq proof over generated decoder table (dependency analysis lifted by one induction) + correspondence',
        ref='DESIGN.md §5 C09'),
    'C10': dict(
        text='Coq theorems over the regenerated rows: c10_sweep (every decoded BSD syscall other than the property\'s exempt list '
             'ends in a result shape, and the exempt list is exactly the set that does not), c10_result_text (error word != 0 -> '
             '", errno: NAME(code)" | ", errno: code" and no success value; == 0 -> no errno, success value = rendering of the END '
             'return word; for ALL START/END tuples), c10_result_reads_end_only, c10_pipe; closed under the global context. c10_result_from_END_record (DecoderWindow.v): the decoder\'s context is that of the bare window with only the lookups kept; whole windows with in-between records, non-monotonic and equal timestamps, 1100..66000 nested calls go through the model (wcheck) and the API.',
        note='trusted: as C09; serialize_result\'s body is matched textually by the translator against the one the RESULT token '
             'models', technique='Coq proof over generated decoder table + correspondence', ref='DESIGN.md §5 C10'),
    'C17': dict(
        text='Coq theorems over the regenerated handlers dicts, code table and rows: c17_reachable, c17_disjoint, '
             'c17_all_rows_accounted, c17_twins_registered (X_nocancel registered => X registered by the same handler), '
             'c17_twin_tokens, c17_twin_rendering (for ALL tuples the renderings differ exactly by the inserted "_nocancel"); '
             'closed under the global context. Table identity with the running implementation and twin renderings compared.',
        note='trusted: as C09, plus tr_handlers.py and its independent reading of trace.codes (compared with '
             'default_trace_codes() each run)', technique='Coq proof (finite sweeps over generated tables, lifted) + correspondence',
        ref='DESIGN.md §5 C17'),
    'C11': dict(
        text='Coq theorems over the regenerated enum tables and serializers: c11_values (13 families equal the Darwin reference '
             'values), c11_sound / c11_complete / c11_single_bit / c11_order_once (for EVERY word: names shown <-> declared bits '
             'set, once, in declaration order), c11_stat_shown(_only) and c11_open_flags_shape/complete (multi-bit fields), '
             'c11_ioctl_inverse (exact inverse of _IOC for all directions, groups, numbers, 13-bit lengths), c11_ioctl_row, '
             'c11_ioctl_total; closed under the global context. Correspondence: every serializer on structured words, ioctl '
             'words packed with _IOC, and the iteration order of EVERY enum class against the interpreter.',
        note='partial: reference values for 13 families (theories/Darwin.v, written from the XNU headers); other enums are proved '
             'against the tool\'s own table. trusted: Coq kernel+vm_compute, tr_decoders.py, DecoderDSL.lnames, the enum '
             'iteration rule (validated for every class each run)',
        technique='Coq proof over generated enum/serializer tables + correspondence', ref='DESIGN.md §5 C11'),
    'C07': dict(
        text='Coq theorems: c07_sweep_safe (over the regenerated rows: every indexed lookup is guarded by a length test, every '
             'errno-name lookup by a membership test) and c07_row_total (hence for EVERY row, EVERY window context - no lookups, '
             'fewer than the call has paths, unknown string ids, any tables, any host - and all words whose enum-typed fields are '
             'members, rendering succeeds), c07_missing_lookup_is_empty, c07_unknown_string_is_empty, c07_string_without_data, '
             'c07_vmfault_total; closed under the global context. Differential: every decoder x 0/1/2/3/7 lookups, composite '
             'windows, and semantic streams with every prefix dropped through traces()/formatted_*().',
        note='trusted: Coq kernel+vm_compute; tr_decoders.py + DecoderDSL.render (validated string-exactly); the machine, the name '
             'learner and the composite decoders are the hand models of C04/C05/C20 (total Gallina functions); line formatting '
             'is exercised differentially', technique='Coq proof (static guard analysis lifted by induction) + correspondence',
        ref='DESIGN.md §5 C07'),
    'C18': dict(
        text='The host\'s errno/signal/socket tables are an explicit parameter H of the rendering model. Coq theorems: '
             'c18_host_free_rows (rows that do not read H render identically on every host), c18_only_through_tables (two hosts '
             'with equal tables give equal output for every row), and c18_refuted: the full statement is FALSE of the faithful '
             'model - witness BSC_read with END errno 35 under Linux vs Darwin tables (finding F17, recorded in '
             'known_findings.txt, not repaired: embedding Darwin\'s tables is not a small patch). The implementation is run with '
             'its real host modules and with Darwin stand-ins; both runs are validated string-exactly against the model.',
        note='trusted: as C09; Darwin tables written from the XNU headers (tools/harness/darwin_host.py). The check prints '
             'KNOWN-FINDING for F17 and alarms on any host-dependence not explained by those five tables',
        technique='Coq proof (dependency analysis; refutation witness by vm_compute) + two-host correspondence',
        ref='DESIGN.md §5 C18'),
    'C08': dict(
        text='Coq theorems c08_lookup/string/threadname_roundtrip (reassembly of the kernel\'s chunking returns exactly the '
             'original text and ids, for texts of ANY length, by induction over the records), c08_string / threadname / '
             'lookup_with_unrelated (the same with ANY merge of unrelated same-thread records between the chunks: the decoders read '
             'the records of their own id only - genuine defect F28 repaired, fix commit 105d2ca; F27 second path by identity, '
             '0109ea4; c08_window_with_unrelated / c08_string_end_to_end: the same through the pairing specification after any history, '
             'composed with the reassembly), c08_once / c08_once_single (through '
             'the pairing machine, after ANY history: no trace until the END record, which delivers the whole run), '
             'c08_sweep_paths_in_order + c08_path_shown (every path-taking syscall row shows lookups in lookup order); closed under '
             'the global context. Correspondence on every boundary length with multi-byte characters; once-ness and syscall paths '
             'through the public API with unrelated records in between. Whole syscall windows (lookups of several records, lookup-done notices, unrelated records) are rendered by the model from its own path reassembly (DecoderWindow.ctx_of_window, wcheck).',
        note='trusted: Coq kernel+vm_compute; Chunks.v hand models (kernel encoders on the spec side) validated against the real '
             'decoders; pairing model of C04; regenerated rows for the syscall path arguments; UTF-8 decoding is a library oracle',
        technique='Coq proof (encoder/reassembler round trip, pairing spec) + correspondence', ref='DESIGN.md §5 C08'),
    'C13': dict(
        text='Coq theorems c13_code_helpers / c13_code_post_filters / c13_code_stage_order (the helper classes, post-filters and stage '
             'order regenerated from the source by tr_filters.py are those of the model), c13_all_filters (the WHOLE request - selection with helper classes, pairing, table writes of the '
             'decoders, thread / process / helper post-filters - yields exactly the traces of the run with NO filter that '
             'satisfy the thread, process and class filters, the process judged with the tables the unfiltered run has at that '
             'trace; same order, same tables, windows restricted to the fed records; hypothesis checked by c13_writer_classes '
             'and on the source), c13_helpers_not_reported, c13_machine_commutes, c13_commute_class, c13_commute_tid, '
             'c13_closed + c13_bsd_feeds_lookups + c13_trace_class_always_fed, c13_idempotent; closed under the global '
             'context. Correspondence through the public API: class/tid requests and ALL-filter requests against the Coq '
             'pipeline (FiltersPipelineCases), request sequences on one object incl. a change of settings, tuple-valued class '
             'filters, and every filtered request against the unfiltered reference run. Three genuine defects found while '
             'modelling were repaired (fix commits 5a9c12c, 6e4e623, 1010d07).',
        note='trusted: Coq kernel+vm_compute; hand models FiltersTraces.v / FiltersPipeline*.v of traces() over the pairing '
             'model of C04 and the table model of C14, validated each run; identical TEXT of decoders that do not read the '
             'tables is argued from the regenerated rows\' read sets and compared differentially; subclass commutation is '
             'claimed for BSD subclasses as the property states',
        technique='Coq proof (pipeline commutation by induction over histories, generic table machine instantiated) + '
                  'API-level correspondence',
        ref='DESIGN.md §5 C13, §10'),
    'C14': dict(
        text='Coq theorems c14_code_event_line / code_trace_line / code_callstack_line / code_log_line / code_process_column (the '
             'columns of the five line builders, regenerated on every run from the f-strings of the source - switch, content, '
             'alignment, width, literal suffix, colour names - render to exactly the model lines) and '
             'c14_event_line / c14_trace_line / c14_callstack_line / c14_log_line (every line is the concatenation, '
             'in a fixed order, of its enabled columns, the column texts not depending on the switches - for all settings as '
             'arbitrary booleans), c14_colour_keeps_text (a coloured log line with its SGR sequences removed IS the plain line), '
             'c14_padding_never_truncates, c14_process_column + c14_lines_incremental (line k names the process declared by the '
             'thread map as superseded by the table-writing records up to trace k, never by later ones), c14_undeclared_unknown, '
             'c14_declared; closed under the global context. End-to-end correspondence dump -> events -> pairing model -> table '
             'evolution -> lines for all 64 settings; callstack lines; log lines (switches x colour, byte-exact incl. escape '
             'sequences); trace colouring checked differentially on the texts the streams produce. Two genuine defects in log '
             'lines repaired (fix commits 7483dab, 5d07f26).',
        note='partial: pygments highlighting of trace lines and the datetime branch of the timestamp column are outside the '
             'model (trace colour compared with escape sequences stripped; the date text of a log line is a parameter). '
             'trusted: Coq kernel+vm_compute; hand models Format.v / FormatLog.v (f-string padding by code points, repr(bytes), '
             'termcolor SGR wrapping, table writes of the trace/sampler decoders) validated each run; translator tr_format.py '
             '(fail-closed; colour name -> SGR parameter by termcolor table)',
        technique='Coq proof (column algebra; escape-sequence stripping; incremental table evolution) + end-to-end correspondence',
        ref='DESIGN.md §5 C14, §10'),
    'C12': dict(
        text='Coq theorems c12_events/sat_meaning/logs/no_logs_in_events/no_events_in_logs: for EVERY stream and EVERY '
             'configuration the filtered listings equal `filter` of the unfiltered listing by the stated predicate (order and '
             'multiplicity preserved); closed under the global context. Hand model tied to the code by a correspondence '
             'through real v2/v3 dumps and the public API. The option type of the class / subclass filters is modelled (CliInt.v: Python\'s int(text, 0) grammar; c12_option_hex/oct/bin/dec) and compared with BASED_INT.convert and with int(text, 0); the kevents / logs commands run against the API; every third case on a parser object that served other settings before.',
        note='trusted: Coq kernel+vm_compute; hand model Filters.v validated against PyKdebugParser.kevents/os_log_events; '
             'container parsing is C02/C03', technique='Coq proof (filter-chain algebra) + differential correspondence',
        ref='DESIGN.md §5 C12'),
}

NOT_YET = {
}


def main():
    props = [json.loads(l)['id'] for l in open(os.path.join(VERIF, 'properties.jsonl'))]
    checks = []
    for pid in props:
        if pid not in CLAIMS:
            continue
        c = CLAIMS[pid]
        checks.append({
            'property_id': pid,
            'quick_cmd': f'python3 check.py {pid} --tier quick',
            'thorough_cmd': f'python3 check.py {pid} --tier thorough',
            'evidence_file': f'/verif/evidence/{pid}.json',
            'replay_cmd_template': f'python3 check.py {pid} --replay {{path}}',
            'engine': 'coq-proof+correspondence',
            'level_claimed': {'category': 'proof', 'text': c['text'], 'design_ref': c['ref']},
            'level_note': c['note'],
            'technique': c['technique'],
        })
    na = [{'property_id': p, 'reason': NOT_YET.get(p, 'not claimed yet: the model and proofs for this property are '
                                                   'still being built in this development (technique applies; see DESIGN.md §5)')}
          for p in props if p not in CLAIMS]
    man = {
        'version': 1,
        'setup_cmd': 'cd /verif && python3 tools/regen_all.py && cd coq && coq_makefile -f _CoqProject -o Makefile '
                     '&& (timeout 3000 make -j16 -k; true)',
        'hooks': {
            'guard': 'MATAN1008_PYKDEBUGPARSER_VERIF',
            'enable': 'no hooks are needed: every observable is public API; checks import /repo\'s working tree with PYTHONPATH=/repo',
            'baseline_off_cmd': 'cd /repo && /venv/bin/python -m pytest -ra -q -p no:cacheprovider --timeout=900 --continue-on-collection-errors',
            'source_commits': [],
            'add_only': True,
        },
        'engines': [{'name': 'coq-proof+correspondence', 'path': '/verif/check.py',
                     'serves_properties': [c['property_id'] for c in checks],
                     'kind_free_text': 'Coq 8.16.1 theorems over a model regenerated from /repo by AST translators and/or '
                                       'tied by a vm_compute differential correspondence'}],
        'checks': checks,
        'not_applicable': na,
        'notes': 'properties listed under not_applicable with reason "not claimed yet" are work in progress, not out of reach',
    }
    with open(os.path.join(VERIF, 'MANIFEST.json'), 'w') as fd:
        json.dump(man, fd, indent=1)
    print(len(checks), 'checks;', len(na), 'unclaimed')


if __name__ == '__main__':
    main()

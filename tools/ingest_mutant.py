#!/usr/bin/env python3
"""usage: tools/ingest_mutant.py <dir with patch.diff demo.py notes.md> <PID> <letter>
Confirms a proposed seeded change against /repo (patch applies; test suite passes with it; demo exits 1 with it and 0
without it), stores it as seeded/<PID>_<letter>/, and runs the quick check of the property against it.  /repo is
restored afterwards."""
import json, os, shutil, subprocess, sys
V = os.path.dirname(os.path.dirname(os.path.abspath(__file__)))
src, pid, letter = sys.argv[1], sys.argv[2], sys.argv[3]
env = dict(os.environ, PYTHONPATH='/repo', PYTHONHASHSEED='0')
PY = '/venv/bin/python'


def sh(cmd, **kw):
    return subprocess.run(cmd, capture_output=True, text=True, **kw)


assert sh(['git', '-C', '/repo', 'diff', '--quiet']).returncode == 0, '/repo dirty'
patch = os.path.join(src, 'patch.diff')
demo = os.path.join(src, 'demo.py')
d0 = sh([PY, demo], env=env, cwd=src, timeout=900)
a = sh(['git', '-C', '/repo', 'apply', patch])
if a.returncode:
    print('REJECT: patch does not apply', a.stderr[:300]); sys.exit(2)
ev = os.path.join(V, 'evidence', pid + '.json')
evidence_keep = open(ev).read() if os.path.exists(ev) else None      # evidence describes runs against /repo itself
try:
    t = sh([PY, '-m', 'pytest', '-q', '-p', 'no:cacheprovider', '--timeout=900'], cwd='/repo', env=env, timeout=1800)
    d1 = sh([PY, demo], env=env, cwd=src, timeout=900)
    files = sh(['git', '-C', '/repo', 'diff', '--name-only']).stdout.split()
    chk = sh(['python3', 'check.py', pid, '--tier', 'quick'], cwd=V, timeout=3600)
finally:
    sh(['git', '-C', '/repo', 'checkout', '--', '.'])
    if evidence_keep is not None:
        open(ev, 'w').write(evidence_keep)
suite = t.stdout.strip().splitlines()[-1] if t.stdout.strip() else ''
ok = (d0.returncode == 0 and d1.returncode == 1 and ' passed' in suite and 'failed' not in suite and 'error' not in suite)
print(f'demo_without={d0.returncode} demo_with={d1.returncode} suite="{suite}" confirmed={ok}')
if not ok:
    print('REJECT: not confirmed'); print(d0.stdout[-500:], d0.stderr[-500:]); print(d1.stdout[-500:], d1.stderr[-300:]); sys.exit(2)
dst = os.path.join(V, 'seeded', f'{pid}_{letter}')
os.makedirs(dst, exist_ok=True)
for f in ('patch.diff', 'demo.py', 'notes.md'):
    if os.path.exists(os.path.join(src, f)):
        shutil.copy(os.path.join(src, f), os.path.join(dst, f))
notes = open(os.path.join(src, 'notes.md')).read() if os.path.exists(os.path.join(src, 'notes.md')) else ''
json.dump({'seed_id': f'{pid}_{letter}', 'property': pid, 'files_changed': files, 'needs_to_manifest': notes[:1500],
           'confirmed': {'suite_with_change': suite, 'demo_with_change_rc': d1.returncode, 'demo_without_change_rc': d0.returncode,
                         'how': 'tools/ingest_mutant.py: git apply in /repo, pytest, demo with and without, reverted'},
           'demo_output_with_change_tail': (d1.stdout + d1.stderr)[-800:]},
          open(os.path.join(dst, 'meta.json'), 'w'), indent=1)
viol = [l for l in chk.stdout.splitlines() if l.startswith('VIOLATION')]
print('CHECK rc=%d' % chk.returncode, viol[:2], chk.stdout.strip().splitlines()[-1][:220] if chk.stdout.strip() else chk.stderr[-300:])
print('RESULT', f'{pid}_{letter}', 'CAUGHT' if chk.returncode == 1 and viol else 'MISSED')
